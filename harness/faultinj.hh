// faultinj.hh — shared by the TUs of the `faultinj` engine (property C14).
//
// A *scenario* is a plain function `void f(fi::Ctx& c)` that
//   1. builds its arguments from hx::rnd()  (un-armed; the RNG is rewound to the
//      same state before every invocation, so every invocation rebuilds the
//      same arguments),
//   2. calls `c.run([&]{ ...one library operation... })` exactly once — the
//      armed section: depending on c.mode the k-th allocation fails, the j-th
//      abandonment checkpoint throws, or a weight threshold fires,
//   3. calls `c.post(name, obj, fresh_value, use)` for every object involved:
//      OK(), usable as is (through a copy), assignable from a fresh value,
//      usable afterwards,
//   4. returns, destroying all its objects.
// The engine core (engines/faultinj.cc) then checks that the library is still
// usable (canary) and that LeakSanitizer finds no unreachable block.
//
// A *reject entry* is a function `void f(fi::RCtx& r)` making one ill-formed
// call through r.reject<Expected>(...).
#ifndef FAULTINJ_HH
#define FAULTINJ_HH
#include "pplx.hh"
#include <new>
#include <stdexcept>
#include <cxxabi.h>

namespace fi {
using namespace Parma_Polyhedra_Library;
using hx::rnd; using hx::coin;

enum Mode { DRY = 0, COUNT = 1, ALLOC = 2, ABANDON = 3, WEIGHT = 4 };
inline const char* mode_name(Mode m) { static const char* const n[] = { "dry", "count", "alloc", "abandon", "weight" }; return n[m]; }
// violation-key family of a mode (abandon and weight are both "client-requested abandonment")
inline const char* mode_family(Mode m) { return m == ABANDON || m == WEIGHT ? "abandon" : "alloc"; }

// The exception thrown at an abandonment checkpoint.
class Abandon : public Throwable {
public:
  mutable unsigned long seen; long target;   // target < 0: only count
  Abandon() : seen(0), target(-1) {}
  struct Exc {};
  void throw_me() const { unsigned long s = seen++; if (target >= 0 && (long) s == target) throw Exc(); }
  ~Abandon() throw() {}
};
// Flag object for the deterministic-timeout idiom (Threshold_Watcher(delta, holder, flag)).
class Weight_Exceeded : public Throwable {
public:
  struct Exc {};
  void throw_me() const { throw Exc(); }
  int priority() const { return 0; }
  ~Weight_Exceeded() throw() {}
};

// --- provided by engines/faultinj.cc -------------------------------------------------
void arm_alloc(long k);            // k-th allocation from now on throws std::bad_alloc (one shot)
bool disarm_alloc();               // returns true iff the fault fired
unsigned long alloc_count();       // allocations seen since arm/reset
void reset_alloc_count();
void stage(const char* what);      // progress marker (shared with the supervising parent)
void stage(const std::string& what);
// Deterministic triage class of an object that fails OK(), computed from its ascii_dump
// ("" if the dump is not one the classifier knows).
std::string classify_not_ok(const std::string& ascii_dump);

inline std::string demangle(const char* n) { int st = 0; char* d = abi::__cxa_demangle(n, 0, 0, &st); std::string s = (st == 0 && d) ? d : n; free(d); return s; }
inline std::string exc_class(const std::exception& e) {
  // most-derived standard class first
  if (dynamic_cast<const std::bad_alloc*>(&e)) return "bad_alloc";
  if (dynamic_cast<const std::length_error*>(&e)) return "length_error";
  if (dynamic_cast<const std::invalid_argument*>(&e)) return "invalid_argument";
  if (dynamic_cast<const std::domain_error*>(&e)) return "domain_error";
  if (dynamic_cast<const std::out_of_range*>(&e)) return "out_of_range";
  if (dynamic_cast<const std::logic_error*>(&e)) return "logic_error";
  if (dynamic_cast<const std::overflow_error*>(&e)) return "overflow_error";
  if (dynamic_cast<const std::runtime_error*>(&e)) return "runtime_error";
  return demangle(typeid(e).name());
}

struct Ctx {
  std::string scen;      // scenario name
  Mode mode; long k;     // which failure point
  unsigned long long wthreshold;   // WEIGHT mode
  // outcome of the armed section
  int runs; bool fired, threw; std::string exc;       // exc: class of the exception that left the section
  unsigned long n_allocs, n_checkpoints; unsigned long long weight_used;
  std::string digest;   // result digest given by the scenario (only meaningful when !threw)
  bool failed;          // a violation was reported for this invocation
  Ctx() : mode(DRY), k(0), wthreshold(0), runs(0), fired(false), threw(false), n_allocs(0), n_checkpoints(0), weight_used(0), failed(false) {}

  std::string where() const { std::ostringstream o; o << "scenario=" << scen << " mode=" << mode_name(mode); if (mode == ALLOC || mode == ABANDON) o << " k=" << k; if (mode == WEIGHT) o << " threshold=" << wthreshold; return o.str(); }
  void fail(const std::string& what, const std::string& detail) {
    failed = true;
    if (mode == DRY || mode == COUNT)   // nothing was injected: the operation misbehaves on its own; not a C14 matter, never let it look like one
      hx::violation("nofault." + scen + "." + what, where() + " :: " + detail);
    else
      hx::violation(std::string("C14.") + mode_family(mode) + "." + scen + "." + what, where() + " exception=" + (threw ? exc : "none") + " :: " + detail);
  }

  void begin();   // engines/faultinj.cc
  void end();

  // The armed section.
  template <typename F> void run(F f) {
    ++runs;
    pplx::Weight_Guard wg(200000000ULL);
    begin();
    try { f(); end(); }
    catch (const std::bad_alloc&) { end(); threw = true; exc = "bad_alloc"; }
    catch (const Abandon::Exc&) { end(); threw = true; exc = "Abandon"; }
    catch (const Weight_Exceeded::Exc&) { end(); threw = true; exc = "Weight_Exceeded"; }
    catch (const pplx::Logical_Timeout&) { end(); threw = true; exc = "Logical_Timeout"; hx::violation("C14.hang." + scen, where()); failed = true; }
    catch (const std::exception& e) { end(); threw = true; exc = exc_class(e) + "(" + e.what() + ")"; }
    catch (...) { end(); threw = true; exc = "unknown"; }
    weight_used = wg.used();
    // The only exception that may leave the section is the injected one.
    const char* want = mode == ALLOC ? "bad_alloc" : mode == ABANDON ? "Abandon" : mode == WEIGHT ? "Weight_Exceeded" : "";
    if (threw && !failed && exc != want) fail("wrong_exception", "expected " + std::string(*want ? want : "no exception") + ", got " + exc);
    stage("post");
  }

  // digest of the result (evaluated only after a normal return)
  template <typename F> void result(F f) { if (!threw && !failed) { stage("digest"); digest += f(); digest += "\n"; } }

  // Post-conditions on one object involved in the call.
  //   fresh : a value to assign to it;  use(T&) : a small computation (may modify its argument).
  template <typename T, typename Use> void post(const char* what, T& x, const T& fresh, Use use) { post(what, x, fresh, use, [](const T&, const T&) { return true; }); }
  template <typename T, typename Use, typename Eq> void post(const char* what, T& x, const T& fresh, Use use, Eq eq) {
    if (failed) return;
    hx::checked();
    std::string w(what);
    try {
      stage("OK " + w);
      if (!x.OK()) { std::ostringstream d; x.ascii_dump(d); std::string cl = classify_not_ok(d.str()); fail("not_OK" + (cl.empty() ? cl : ":" + cl), w + ".OK() is false after the exceptional exit; ascii_dump: " + d.str().substr(0, 1800)); return; }
      stage("copy+use " + w);
      { T c(x); use(c); if (!c.OK()) { fail("not_OK", "copy of " + w + " not OK() after a small computation"); return; } }
      stage("assign " + w);
      x = fresh;
      if (!x.OK()) { fail("not_OK", w + ".OK() is false after assigning a fresh value"); return; }
      if (!eq(x, fresh)) { fail("unusable", w + " does not compare equal to the fresh value just assigned to it"); return; }
      stage("use-assigned " + w);
      use(x);
      if (!x.OK()) { fail("not_OK", w + ".OK() is false after assignment and a small computation"); return; }
    }
    catch (const pplx::Logical_Timeout&) { fail("unusable", w + ": logical-time budget exceeded while using the object"); }
    catch (const std::exception& e) { fail("unusable", w + ": " + exc_class(e) + ": " + e.what()); }
  }
  template <typename T> void post(const char* what, T& x, const T& fresh) { post(what, x, fresh, [](T&) {}); }
};

typedef void (*ScenFn)(Ctx&);
struct Scen { const char* name; ScenFn fn; };
std::vector<Scen>& scenarios();
struct RegS { RegS(const char* n, ScenFn f) { Scen s = { n, f }; scenarios().push_back(s); } };
#define FI_CAT2(a, b) a##b
#define FI_CAT(a, b) FI_CAT2(a, b)
// SCENARIO("C_Polyhedron.minimize") { ... uses `c` ... }
#define SCENARIO_N(name, N) static void FI_CAT(fi_scen_, N)(fi::Ctx&); static fi::RegS FI_CAT(fi_regs_, N)(name, FI_CAT(fi_scen_, N)); static void FI_CAT(fi_scen_, N)(fi::Ctx& c)
#define SCENARIO(name) SCENARIO_N(name, __COUNTER__)

// ------------------------------- rejected calls -------------------------------------
struct RCtx {
  std::string dom, op, cls;     // key parts
  bool failed; bool done;
  RCtx() : failed(false), done(false) {}
  std::string key(const char* what) const { return "C14.reject." + dom + "." + op + "." + cls + "." + what; }
  void fail(const char* what, const std::string& detail) { failed = true; hx::violation(key(what), detail); }

  // Runs the ill-formed call f; `expected` is the documented exception class
  // ("invalid_argument", "length_error", "domain_error", "logic_error", "out_of_range").
  // A documented base class accepts a derived one only if `allow_derived`.
  template <typename F> bool call(const char* expected, F f, bool allow_derived = false) {
    done = true;
    std::string got = "none", msg;
    stage("reject " + dom + "." + op + "." + cls);
    pplx::Weight_Guard wg(200000000ULL);
    try { f(); }
    catch (const pplx::Logical_Timeout&) { hx::violation("C14.hang.reject." + dom + "." + op + "." + cls, "logical-time budget exceeded"); failed = true; return false; }
    catch (const std::exception& e) {
      got = exc_class(e); msg = e.what();
      if (allow_derived && got != expected) {
        std::string ex(expected);
        if (ex == "logic_error" && dynamic_cast<const std::logic_error*>(&e)) got = ex;
        if (ex == "runtime_error" && dynamic_cast<const std::runtime_error*>(&e)) got = ex;
      }
    }
    catch (...) { got = "unknown"; }
    hx::checked();
    if (got == "none") { fail("no_exception", "expected " + std::string(expected) + ", the call returned normally"); return false; }
    if (got != expected) { fail("wrong_type", "expected " + std::string(expected) + ", got " + got + " (" + msg + ")"); return false; }
    return true;
  }
  // value unchanged: `before` is a copy taken before the call; eq a semantic equality.
  template <typename T, typename Eq, typename Show> void unchanged(const char* what, const T& now, const T& before, Eq eq, Show show) {
    if (failed) return;
    stage("unchanged " + dom + "." + op + "." + cls);
    hx::checked();
    try {
      if (!now.OK()) { fail("not_OK", std::string(what) + ".OK() is false after the rejected call"); return; }
      T a(now), b(before);
      if (!eq(a, b)) {
        // second, independent look before alarming: the printed forms of fresh copies
        T a2(now), b2(before);
        std::string sa = show(a2), sb = show(b2);
        fail("value_changed", std::string(what) + " before: " + sb + "  after: " + sa);
      }
    }
    catch (const std::exception& e) { fail("unusable", std::string(what) + ": " + exc_class(e) + ": " + e.what()); }
  }
  template <typename T> void unchanged(const char* what, const T& now, const T& before) {
    unchanged(what, now, before, [](const T& a, const T& b) { return a.space_dimension() == b.space_dimension() && a == b; },
              [](const T& a) { return pplx::str(a); });
  }
};
typedef void (*RejFn)(RCtx&);
struct Rej { const char* dom; const char* op; const char* cls; RejFn fn; };
std::vector<Rej>& rejects();
struct RegR { RegR(const char* d, const char* o, const char* c, RejFn f) { Rej r = { d, o, c, f }; rejects().push_back(r); } };
#define REJECT_N(dom, op, cls, N) static void FI_CAT(fi_rej_, N)(fi::RCtx&); static fi::RegR FI_CAT(fi_regr_, N)(dom, op, cls, FI_CAT(fi_rej_, N)); static void FI_CAT(fi_rej_, N)(fi::RCtx& r)
#define REJECT(dom, op, cls) REJECT_N(dom, op, cls, __COUNTER__)

// ------------------------------- argument generators --------------------------------
inline Coefficient bigc(int k) { Coefficient c = 1; c <<= 70; c += k; return c; }
// Coefficients: mostly small, sometimes multi-limb (those allocate inside GMP on every arithmetic step).
inline Coefficient rcoef(int maxc = 3) {
  int r = rnd(0, 99);
  if (r < 70) return Coefficient(rnd(-maxc, maxc));
  if (r < 85) return Coefficient(rnd(-40, 40));
  Coefficient c = 1; c <<= rnd(62, 140); c += rnd(-5, 5);
  if (coin()) c = -c;
  return c;
}
inline Linear_Expression rexpr(int n, int pct_zero = 35) {
  Linear_Expression e;
  for (int i = 0; i < n; ++i) if (!coin(pct_zero)) e += rcoef() * Variable(i);
  e += rcoef(5);
  return e;
}
// value of e at an integer point
inline Coefficient eval(const Linear_Expression& e, const std::vector<int>& pt) {
  Coefficient v = e.inhomogeneous_term();
  for (size_t i = 0; i < pt.size() && i < e.space_dimension(); ++i) v += e.coefficient(Variable(i)) * pt[i];
  return v;
}
inline std::vector<int> rpoint(int n) { std::vector<int> p(n); for (int i = 0; i < n; ++i) p[i] = rnd(-3, 3); return p; }
// A constraint satisfied by pt (so that systems built from it are non-empty).
inline Constraint rcon_through(int n, const std::vector<int>& pt, bool strict_ok, int pct_eq = 10) {
  Linear_Expression e = rexpr(n);
  Coefficient v = eval(e, pt);
  if (coin(pct_eq)) { e -= v; return e == 0; }
  if (v < 0) { e = -e; v = -v; }
  if (strict_ok && coin(30)) { if (v == 0) e += 1; return e > 0; }
  return e >= 0;
}
inline Constraint_System rcs_through(int n, const std::vector<int>& pt, bool strict_ok, int m) {
  Constraint_System cs;
  for (int i = 0; i < m; ++i) cs.insert(rcon_through(n, pt, strict_ok));
  // keep it bounded half of the time: a box around pt
  if (coin()) for (int i = 0; i < n; ++i) { cs.insert(Variable(i) >= pt[i] - rnd(0, 4)); cs.insert(Variable(i) <= pt[i] + rnd(0, 4)); }
  return cs;
}
inline Generator_System rgs(int n, bool nnc, int m) {
  Generator_System gs;
  gs.insert(pplx::rand_gen(n, false, true));
  for (int i = 1; i < m; ++i) {
    Linear_Expression e; for (int j = 0; j < n; ++j) if (!coin(30)) e += rcoef(4) * Variable(j);
    int k = rnd(0, nnc ? 9 : 7);
    if (n == 0 || k < 4) { Coefficient d = rcoef(3); if (d <= 0) d = 1; gs.insert(point(e, d)); }
    else if (k < 6) { if (e.all_homogeneous_terms_are_zero()) e += Variable(rnd(0, n - 1)); gs.insert(ray(e)); }
    else if (k < 8) { if (e.all_homogeneous_terms_are_zero()) e += Variable(rnd(0, n - 1)); gs.insert(line(e)); }
    else gs.insert(closure_point(e, rnd(1, 3)));
  }
  return gs;
}
template <typename PH> struct Is_NNC { enum { value = 0 }; };
template <> struct Is_NNC<NNC_Polyhedron> { enum { value = 1 }; };
// A random polyhedron in one of several lazy states.
template <typename PH> inline PH rpoly(int n, int m = -1) {
  const bool nnc = Is_NNC<PH>::value;
  if (m < 0) m = rnd(1, 5);
  int st = rnd(0, 9);
  if (st == 0) { PH p(n, EMPTY); p.add_generators(rgs(n, nnc, rnd(1, 4))); return p; }     // generators only
  std::vector<int> pt = rpoint(n);
  PH p(n); p.add_constraints(rcs_through(n, pt, nnc, m));
  if (st == 1) { (void) p.minimized_generators(); }                               // both, minimized
  else if (st == 2) { (void) p.minimized_generators(); p.add_constraint(rcon_through(n, pt, nnc)); }   // pending constraint
  else if (st == 3) { (void) p.minimized_constraints(); p.add_generator(pplx::rand_gen(n, false, true)); } // pending generator
  else if (st == 4) { (void) p.is_empty(); }
  return p;
}
template <typename T> inline std::string dump(const T& x) { std::ostringstream o; x.ascii_dump(o); return o.str(); }

} // namespace fi
#endif
