// Internal declarations of the hand-written part of the `ciface` engine.
#ifndef CIFACE_ENG_HH
#define CIFACE_ENG_HH
#include "cifgen.hh"
#include <functional>

namespace cif {

// ---- function registry -----------------------------------------------------
const std::vector<const Fn*>& all_fns();
const Fn* find_fn(const std::string& name);        // null if absent
const Fn* need_fn(const std::string& name);        // harness.bug if absent

// ---- error handler bookkeeping --------------------------------------------
struct HandlerState { int count; int code; char desc[200]; };
extern HandlerState g_handler;
extern "C" void cif_error_handler(enum ppl_enum_error_code code, const char* description);
const char* code_name(int code);

// ---- allocation failure injection (operator new + GMP) ----------------------
extern volatile long g_alloc_countdown;    // <= 0: disarmed; k > 0: the k-th allocation from now fails
extern volatile long g_alloc_count;        // allocations seen since last reset
void install_gmp_allocators();

// ---- one guarded call --------------------------------------------------------
struct CallResult {
  int r; bool escaped; std::string exc;   // escaped: a C++ exception crossed the boundary
  int hcount, hcode; long allocs; bool fired;   // fired: the injected failure point was reached
  bool crashed; int crash_sig; bool leaked;   // only for forked calls
};
CallResult guarded(const std::function<int()>& fn, long arm_k);
CallResult forked(const std::function<int()>& fn, bool leak_check);   // runs fn in a child process

// ---- objects created through the C interface ------------------------------
struct Obj {
  void* h; int type; bool owned; bool alive; bool stale; int owner;   // owner: index of the object it points into, or -1
  int topo;   // polyhedra: 1 = C, 2 = NNC
};
struct Case {
  std::vector<Obj> objs;
  int dim;            // base space dimension of the case
  int topo;           // topology used for polyhedra without a requirement
  bool failed;        // a violation was reported: stop
  unsigned long created, deleted;
  bool cleaned;
  Case() : dim(0), topo(1), failed(false), created(0), deleted(0), cleaned(false) {}
  ~Case();            // releases whatever is left when a case is abandoned by an exception
};
int add_obj(Case& c, void* h, int type, bool owned, int owner);
bool release_obj(Case& c, int idx);     // ppl_delete_<type>; false on failure (violation reported)
void cleanup(Case& c);                  // releases everything, checks created == deleted

// uniform call by name; reports harness.bug / violation when a builder fails
inline Val vp(const void* p) { Val v; v.z = 0; v.p = const_cast<void*>(p); return v; }
inline Val vz(size_t z) { Val v; v.z = z; return v; }
inline Val vi(int i) { Val v; v.z = 0; v.i = i; return v; }
inline Val vu(unsigned u) { Val v; v.z = 0; v.u = u; return v; }
int ccall(Case& c, const char* name, Val a0 = vz(0), Val a1 = vz(0), Val a2 = vz(0), Val a3 = vz(0), Val a4 = vz(0), Val a5 = vz(0));
int ccall(Case& c, const std::string& name, Val a0 = vz(0), Val a1 = vz(0), Val a2 = vz(0), Val a3 = vz(0), Val a4 = vz(0), Val a5 = vz(0));

// builders: every object is built through the C constructors; return object index or -1
int mk_coef(Case& c, const mpz_class& v);
int mk_le(Case& c, const Linear_Expression& e);
int mk_object(Case& c, int type, int dim, int topo);     // random well-formed object of handle type `type`
int mk_domain(Case& c, int type, int dim, int topo);
int mk_iterator(Case& c, int type, int container_idx, int where);   // where: 0 begin, 1 end, 2 random, 3 dereferenceable
int type_id(const std::string& name);
std::string disjunct_of(const std::string& pset_name, int& topo);   // "Pointset_Powerset_C_Polyhedron" -> "Polyhedron", topo 1

void viol(Case& c, const std::string& key, const std::string& detail);
std::string itos(long v);

} // namespace cif
#endif
