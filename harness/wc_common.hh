// widenchain — shared oracle helpers (property C08).
//
// Everything here is reference-side code: exact rational LP / linear algebra
// on descriptions that PPL reported through *copies* of the monitored objects.
#ifndef WC_COMMON_HH
#define WC_COMMON_HH
#include "pplx.hh"
#include "refgrid.hh"
#include <functional>
#include <memory>
#include <sys/types.h>
#include <sys/wait.h>
#include <fcntl.h>
#include <cerrno>

namespace wc {
using namespace pplx;
using hx::violation; using hx::tr; using hx::checked;
using pplx::show; using pplx::str;

// ---------- per-domain case runners (one TU each) ----------
void run_poly_case(bool nnc);
void run_bds_case();
void run_oct_case();
void run_box_case(bool floating);
void run_grid_case();
void run_pps_case(bool nnc);
void run_ppsgrid_case();

// ---------- inclusion of constraint-described sets ----------
inline bool sys_included(int n, const Sys& a, const Sys& b, Vec* wit = 0) { return ref::esys_in_cons(ref::esys_of(a, n), b, wit, 0); }
inline bool sys_equal(int n, const Sys& a, const Sys& b) { return sys_included(n, a, b) && sys_included(n, b, a); }
inline bool row_zero(const Con& c, int n) { for (int d = 0; d < n && d < (int) c.a.size(); ++d) if (c.a[d] != 0) return false; return true; }
inline bool sys_universe(int n, const Sys& s) { ESys U; U.n = n; return ref::esys_in_cons(U, s, 0, 0); }

inline std::string first_status_line(const std::string& dump) {
  // the first line of an ascii_dump that carries the "EM" status flag
  size_t pos = 0;
  while (pos < dump.size()) {
    size_t e = dump.find('\n', pos); if (e == std::string::npos) e = dump.size();
    std::string l = dump.substr(pos, e - pos);
    if (l.find("EM") != std::string::npos) { std::string o; for (size_t i = 0; i < l.size(); ++i) if (!(l[i] == ' ' && (o.empty() || o[o.size() - 1] == ' '))) o += l[i]; return o; }
    pos = e + 1;
  }
  return "?";
}
template <typename T> inline std::string status_of(const T& x) { std::ostringstream o; x.ascii_dump(o); return first_status_line(o.str()); }

// ---------- convergence measures recomputed by the monitor ----------
// (affine dimension, number of facets) of a convex set given by constraints; exact, by LP.
struct Meas { bool empty; int affdim; int nfacets; int neq; Meas() : empty(true), affdim(-1), nfacets(0), neq(0) {} };
inline Meas measure(int n, const Sys& S) {
  Meas m;
  if (!ref::feasible(n, S)) return m;
  m.empty = false;
  std::vector<Vec> eqs; Sys E, I;
  for (size_t i = 0; i < S.size(); ++i) {
    if (row_zero(S[i], n)) continue;
    Con c = S[i]; c.a.resize(n);
    if (c.rel == ref::EQ) { eqs.push_back(c.a); E.push_back(c); continue; }
    bool impl = false;
    if (c.rel == ref::LE) { Vec na(n); for (int d = 0; d < n; ++d) na[d] = -c.a[d]; ref::SupResult lo = ref::supremum(n, S, na); impl = lo.bounded && Q(-lo.sup) == c.b; }
    if (impl) { eqs.push_back(c.a); c.rel = ref::EQ; E.push_back(c); } else I.push_back(c);
  }
  int rk = ref::rank_of(eqs, n);
  m.neq = rk; m.affdim = n - rk;
  std::vector<bool> keep(I.size(), true);
  for (size_t i = 0; i < I.size(); ++i) {
    Sys T = E; for (size_t j = 0; j < I.size(); ++j) if (j != i && keep[j]) T.push_back(I[j]);
    ref::SupResult s = ref::supremum(n, T, I[i].a);
    bool redundant = s.bounded && (s.sup < I[i].b || (s.sup == I[i].b && (I[i].rel == ref::LE || !s.attained)));
    if (redundant) keep[i] = false;
  }
  for (size_t i = 0; i < keep.size(); ++i) if (keep[i]) ++m.nfacets;
  return m;
}
inline int lineality_dim(int n, const Sys& S) { std::vector<Vec> rows; for (size_t i = 0; i < S.size(); ++i) if (!row_zero(S[i], n)) { Vec a = S[i].a; a.resize(n); rows.push_back(a); } return n - ref::rank_of(rows, n); }

// returns 1 if `z` is strictly smaller than `y` in the H79 order, 0 if equal, -1 otherwise
inline int h79_decrease(const Meas& y, const Meas& z) {
  if (y.empty) return z.empty ? 0 : 1;
  if (z.empty) return -1;
  if (z.affdim != y.affdim) return z.affdim > y.affdim ? 1 : -1;
  int cy = y.neq + y.nfacets, cz = z.neq + z.nfacets;
  if (cz != cy) return cz < cy ? 1 : -1;
  return 0;
}
inline std::string show(const Meas& m) { std::ostringstream o; if (m.empty) o << "(empty)"; else o << "(affdim " << m.affdim << ", eq " << m.neq << ", facets " << m.nfacets << ")"; return o.str(); }

// BHRZ03 tuple
struct BMeas { bool empty; int affdim, lindim, ncons, npoints; std::vector<int> rayhist; BMeas() : empty(true), affdim(-1), lindim(0), ncons(0), npoints(0) {} };
inline int bhrz03_decrease(const BMeas& y, const BMeas& z) {
  if (y.empty) return z.empty ? 0 : 1;
  if (z.empty) return -1;
  if (z.affdim != y.affdim) return z.affdim > y.affdim ? 1 : -1;
  if (z.lindim != y.lindim) return z.lindim > y.lindim ? 1 : -1;
  if (z.ncons != y.ncons) return z.ncons < y.ncons ? 1 : -1;
  if (z.npoints != y.npoints) return z.npoints < y.npoints ? 1 : -1;
  for (size_t i = 0; i < y.rayhist.size() && i < z.rayhist.size(); ++i) if (z.rayhist[i] != y.rayhist[i]) return z.rayhist[i] < y.rayhist[i] ? 1 : -1;
  return 0;
}
inline std::string show(const BMeas& m) { std::ostringstream o; if (m.empty) { o << "(empty)"; return o.str(); } o << "(affdim " << m.affdim << ", lin " << m.lindim << ", cons " << m.ncons << ", points " << m.npoints << ", rays["; for (size_t i = 0; i < m.rayhist.size(); ++i) o << (i ? "," : "") << m.rayhist[i]; o << "])"; return o.str(); }
// irredundant points / rays among reported generators (closed semantics), by LP
inline void count_generators(int n, const Gens& G, int& npoints, int& nlines, std::vector<int>& rayhist) {
  std::vector<bool> keep(G.size(), true);
  for (size_t i = 0; i < G.size(); ++i) {
    if (G[i].kind == Gen::LINE) continue;
    Gens rest; for (size_t j = 0; j < G.size(); ++j) if (j != i && keep[j]) rest.push_back(G[j]);
    bool red = (G[i].kind == Gen::RAY) ? ref::in_cone(n, rest, G[i].v) : ref::in_hull(n, rest, G[i].v, true);
    if (red) keep[i] = false;
  }
  npoints = 0; rayhist.assign(n, 0);
  std::vector<Vec> lines;
  for (size_t i = 0; i < G.size(); ++i) {
    if (G[i].kind == Gen::LINE) { lines.push_back(G[i].v); continue; }
    if (!keep[i]) continue;
    if (G[i].kind == Gen::RAY) { int z = 0; for (int d = 0; d < n; ++d) if (G[i].v[d] == 0) ++z; if (z < n) ++rayhist[z]; }
    else ++npoints;
  }
  nlines = ref::rank_of(lines, n);
}

// ---------- boxes: interval bounds read back from constraints ----------
struct Bound { bool finite; Q v; bool open; Bound() : finite(false), v(0), open(false) {} };
struct BoxView { bool empty; std::vector<Bound> lo, hi; };
inline BoxView box_view(int n, const Sys& S) {
  BoxView b; b.empty = !ref::feasible(n, S); b.lo.assign(n, Bound()); b.hi.assign(n, Bound());
  if (b.empty) return b;
  for (int i = 0; i < n; ++i) for (int s = 0; s < 2; ++s) {
    Vec a(n); a[i] = s ? -1 : 1; ref::SupResult r = ref::supremum(n, S, a);
    Bound& bd = s ? b.lo[i] : b.hi[i];
    if (r.bounded) { bd.finite = true; bd.v = s ? Q(-r.sup) : r.sup; bd.open = !r.attained; }
  }
  return b;
}
// CC76 with thresholds: a bound that moves jumps to the next stop point (or to infinity), so
//   mu(bound) = 2 * ([finite] + #{stop points strictly beyond it}) + [open]
// summed over the 2n bounds strictly decreases at every non-stationary step.
inline long box_threshold_measure(const BoxView& b, const std::vector<Q>& T) {
  long m = 0;
  for (size_t i = 0; i < b.hi.size(); ++i) {
    if (b.hi[i].finite) { long k = 1; for (size_t t = 0; t < T.size(); ++t) if (T[t] > b.hi[i].v) ++k; m += 2 * k + (b.hi[i].open ? 1 : 0); }
    if (b.lo[i].finite) { long k = 1; for (size_t t = 0; t < T.size(); ++t) if (T[t] < b.lo[i].v) ++k; m += 2 * k + (b.lo[i].open ? 1 : 0); }
  }
  return m;
}

// ---------- crash isolation ----------
// Runs f in a forked child; false iff the child died (sanitizer report, signal, abort).
// Used only for configurations already known to kill the process, so that the defect is
// reported under a precise key and the worker survives.
inline bool survives(const std::function<void()>& f) {
  fflush(0);
  pid_t p = fork();
  if (p < 0) return true;
  if (p == 0) {
    int fd = open("/dev/null", O_WRONLY); if (fd >= 0) dup2(fd, 2);
    try { f(); } catch (...) { }
    _exit(0);
  }
  int st = 0; while (waitpid(p, &st, 0) < 0 && errno == EINTR) { }
  return WIFEXITED(st) && WEXITSTATUS(st) == 0;
}

// ---------- random material ----------
inline Linear_Expression small_expr(int n, int maxc, bool constant = true) {
  Linear_Expression e; for (int i = 0; i < n; ++i) if (coin(65)) e += rnd(-maxc, maxc) * Variable(i);
  if (constant) e += rnd(-3, 3);
  return e;
}

} // namespace wc
#endif
