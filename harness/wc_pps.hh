// widenchain — Pointset_Powerset<C_Polyhedron / NNC_Polyhedron>: BHZ03 certificate-based
// widening (H79 / BHRZ03 certificates), BGP99 extrapolation (superset clause only).
#ifndef WC_PPS_HH
#define WC_PPS_HH
#include "wc_poly.hh"

namespace wc {

// certificate tuple of one polyhedron, ordered as {H79,BHRZ03}_Certificate::compare(const Certificate&) orders them
struct PCert { bool bhrz; int affdim, lindim, ncons, npoints; std::vector<int> rayhist; };
// Orientation of the two dimension components in the certificate-vs-certificate overload, probed once
// on the library under test (that overload orders them opposite to compare(const Polyhedron&); the
// multiset order of BHZ03 is the one the library's Certificate class defines, whichever way it points).
inline int& forced_orientation() { static int f = 0; return f; }   // 0: probe the library; -1: the order of the papers (greater dimension = smaller certificate)
inline int cert_dim_orientation(bool bhrz, bool lin) {
  if (forced_orientation() != 0) return forced_orientation();
  static int cache[2][2] = { { 0, 0 }, { 0, 0 } };
  int& c = cache[bhrz][lin];
  if (c == 0) {
    Variable A(0);
    C_Polyhedron lo(1, EMPTY), hi(1, EMPTY);
    if (!lin) { lo.add_generator(point(0 * A)); hi.add_generator(point(0 * A)); hi.add_generator(point(A)); }       // affine dimension 0 vs 1
    else { lo.add_generator(point(0 * A)); lo.add_generator(ray(A)); hi.add_generator(point(0 * A)); hi.add_generator(line(A)); }   // lineality 0 vs 1
    const Polyhedron& l = lo; const Polyhedron& h = hi;
    int r = bhrz ? BHRZ03_Certificate(h).compare(BHRZ03_Certificate(l)) : H79_Certificate(h).compare(H79_Certificate(l));
    c = r >= 0 ? 1 : -1;
  }
  return c;
}
inline int pcert_cmp(const PCert& a, const PCert& b) {   // 1: a greater
  if (a.affdim != b.affdim) return ((a.affdim > b.affdim) == (cert_dim_orientation(a.bhrz, false) > 0)) ? 1 : -1;
  if (a.bhrz) {
    if (a.lindim != b.lindim) return ((a.lindim > b.lindim) == (cert_dim_orientation(true, true) > 0)) ? 1 : -1;
    if (a.ncons != b.ncons) return a.ncons > b.ncons ? 1 : -1;
    if (a.npoints != b.npoints) return a.npoints > b.npoints ? 1 : -1;
    for (size_t i = 0; i < a.rayhist.size(); ++i) if (a.rayhist[i] != b.rayhist[i]) return a.rayhist[i] > b.rayhist[i] ? 1 : -1;
    return 0;
  }
  if (a.ncons != b.ncons) return a.ncons > b.ncons ? 1 : -1;
  return 0;
}
inline std::string show(const PCert& c) { std::ostringstream o; o << "(" << c.affdim; if (c.bhrz) o << "," << c.lindim; o << "," << c.ncons; if (c.bhrz) { o << "," << c.npoints << ",["; for (size_t i = 0; i < c.rayhist.size(); ++i) o << (i ? " " : "") << c.rayhist[i]; o << "]"; } o << ")"; return o.str(); }
// multiset order: 1 if Z is strictly below Y
inline int multiset_decrease(std::vector<PCert> Y, std::vector<PCert> Z) {
  auto gt = [](const PCert& a, const PCert& b) { return pcert_cmp(a, b) == 1; };
  std::sort(Y.begin(), Y.end(), gt); std::sort(Z.begin(), Z.end(), gt);
  size_t i = 0;
  for (; i < Y.size() && i < Z.size(); ++i) { int c = pcert_cmp(Z[i], Y[i]); if (c == 1) return -1; if (c == -1) return 1; }
  if (Y.size() == Z.size()) return 0;
  return Z.size() < Y.size() ? 1 : -1;
}

template <typename PH> struct PpsChain {
  typedef Pointset_Powerset<PH> PS;
  typedef PolyTR<PH> TR;
  struct POp { std::string name; int cert; bool widening; std::function<void(PS&, const PS&)> call; };
  int n; std::string dom; bool twin_reported;
  std::vector<Constraint> lim_cv; Constraint_System lim_cs;
  PpsChain() : n(0), twin_reported(false) {}

  static std::vector<Sys> obs(const PS& ps) { std::vector<Sys> v; int n = ps.space_dimension(); for (typename PS::const_iterator i = ps.begin(); i != ps.end(); ++i) { PH c(i->pointset()); v.push_back(ref::conv(c.constraints(), n)); } return v; }
  static std::string show_ps(const std::vector<Sys>& v) { std::string s = "["; for (size_t i = 0; i < v.size(); ++i) s += (i ? " | " : "") + show(v[i]); return s + "]"; }
  std::string key(const char* mon, const std::string& op, const std::string& what = "") const { return std::string("C08.") + mon + "." + dom + "." + op + what; }
  bool same_collection(const std::vector<Sys>& A, const std::vector<Sys>& B) {
    for (int k = 0; k < 2; ++k) { const std::vector<Sys>& U = k ? B : A; const std::vector<Sys>& V = k ? A : B;
      for (size_t i = 0; i < U.size(); ++i) { if (!ref::feasible(n, U[i])) continue; bool f = false; for (size_t j = 0; j < V.size() && !f; ++j) if (sys_equal(n, U[i], V[j])) f = true; if (!f) return false; } }
    return true;
  }
  std::vector<POp> ops() {
    std::vector<POp> v;
    { POp o; o.name = "BHZ03_widening_assign<H79_Certificate>(H79_widening_assign)"; o.cert = CERT_H79; o.widening = true;
      o.call = [](PS& x, const PS& y) { x.template BHZ03_widening_assign<H79_Certificate>(y, widen_fun_ref(&Polyhedron::H79_widening_assign)); }; v.push_back(o); v.push_back(o); }
    { POp o; o.name = "BHZ03_widening_assign<BHRZ03_Certificate>(BHRZ03_widening_assign)"; o.cert = CERT_BHRZ03; o.widening = true;
      o.call = [](PS& x, const PS& y) { x.template BHZ03_widening_assign<BHRZ03_Certificate>(y, widen_fun_ref(&Polyhedron::BHRZ03_widening_assign)); }; v.push_back(o); v.push_back(o); }
    { POp o; o.name = "BHZ03_widening_assign<BHRZ03_Certificate>(H79_widening_assign)"; o.cert = CERT_BHRZ03; o.widening = true;
      o.call = [](PS& x, const PS& y) { x.template BHZ03_widening_assign<BHRZ03_Certificate>(y, widen_fun_ref(&Polyhedron::H79_widening_assign)); }; v.push_back(o); }
    { POp o; o.name = "BHZ03_widening_assign<H79_Certificate>(limited_H79_extrapolation_assign)"; o.cert = CERT_NONE; o.widening = false;
      const Constraint_System* cs = &lim_cs;
      o.call = [cs](PS& x, const PS& y) { x.template BHZ03_widening_assign<H79_Certificate>(y, widen_fun_ref(&Polyhedron::limited_H79_extrapolation_assign, *cs)); }; v.push_back(o); }
    { POp o; unsigned md = rnd(0, 4); o.name = "BGP99_extrapolation_assign(H79_widening_assign)"; o.cert = CERT_NONE; o.widening = false;
      o.call = [md](PS& x, const PS& y) { x.BGP99_extrapolation_assign(y, widen_fun_ref(&Polyhedron::H79_widening_assign), md); }; v.push_back(o); }
    { POp o; unsigned md = rnd(0, 4); o.name = "BGP99_extrapolation_assign(BHRZ03_widening_assign)"; o.cert = CERT_NONE; o.widening = false;
      o.call = [md](PS& x, const PS& y) { x.BGP99_extrapolation_assign(y, widen_fun_ref(&Polyhedron::BHRZ03_widening_assign), md); }; v.push_back(o); }
    return v;
  }

  // certificate of one polyhedron from its observed descriptions
  bool pcert(const PH& p, const Sys& S, bool bhrz, PCert& c) {
    Meas m = measure(n, S); if (m.empty) return false;
    c.bhrz = bhrz; c.affdim = m.affdim; c.lindim = lineality_dim(n, S); c.npoints = 0; c.rayhist.assign(n, 0);
    if (TR::nnc()) { PH c1(p); Sys mc = ref::conv(c1.minimized_constraints(), n); int k = 0; for (size_t i = 0; i < mc.size(); ++i) if (!row_zero(mc[i], n)) ++k; c.ncons = k; }
    else c.ncons = m.neq + m.nfacets;
    if (bhrz) {
      PH c2(p); Gens mg = ref::conv(c2.minimized_generators(), n);
      if (TR::nnc()) { for (size_t i = 0; i < mg.size(); ++i) { if (mg[i].kind == Gen::RAY) { int zc = 0; for (int d = 0; d < n; ++d) if (mg[i].v[d] == 0) ++zc; if (zc < n) ++c.rayhist[zc]; } else if (mg[i].kind != Gen::LINE) ++c.npoints; } }
      else { int nl; count_generators(n, mg, c.npoints, nl, c.rayhist); }
    }
    return true;
  }
  // hull of a collection: computed by PPL, then verified
  bool hull_of(const PS& ps, const std::vector<Sys>& S, PH& H, Sys& SH) {
    H = PH(n, EMPTY);
    for (typename PS::const_iterator i = ps.begin(); i != ps.end(); ++i) H.upper_bound_assign(i->pointset());
    PH c1(H), c2(H); SH = ref::conv(c1.constraints(), n); Gens G = ref::conv(c2.generators(), n);
    std::vector<Sys> ne; for (size_t i = 0; i < S.size(); ++i) if (ref::feasible(n, S[i])) ne.push_back(S[i]);
    for (size_t i = 0; i < ne.size(); ++i) if (!sys_included(n, ne[i], SH)) return false;
    if (ne.empty()) return G.empty();
    for (size_t i = 0; i < G.size(); ++i) if (!ref::in_closed_hull_of_pieces(n, ne, G[i])) return false;
    return true;
  }
  int own_decrease(const POp& op, const PS& y, const PS& z, const std::vector<Sys>& SY, const std::vector<Sys>& SZ, std::string& txt) {
    bool bhrz = op.cert == CERT_BHRZ03;
    PH HY(n, EMPTY), HZ(n, EMPTY); Sys SHY, SHZ;
    if (!hull_of(y, SY, HY, SHY) || !hull_of(z, SZ, HZ, SHZ)) return -2;
    PCert cy, cz; bool ey = !pcert(HY, SHY, bhrz, cy), ez = !pcert(HZ, SHZ, bhrz, cz);
    if (ey) { txt = "y empty"; return ez ? 0 : 1; }
    if (ez) return -1;
    // hull component, in the order of Certificate::compare(const Polyhedron&)
    int hd;
    if (bhrz) { BMeas a, b; a.empty = b.empty = false; a.affdim = cy.affdim; a.lindim = cy.lindim; a.ncons = cy.ncons; a.npoints = cy.npoints; a.rayhist = cy.rayhist; b.affdim = cz.affdim; b.lindim = cz.lindim; b.ncons = cz.ncons; b.npoints = cz.npoints; b.rayhist = cz.rayhist; hd = bhrz03_decrease(a, b); }
    else { if (cz.affdim != cy.affdim) hd = cz.affdim > cy.affdim ? 1 : -1; else hd = cz.ncons < cy.ncons ? 1 : (cz.ncons == cy.ncons ? 0 : -1); }
    txt = "hull(y) " + show(cy) + " hull(result) " + show(cz);
    { const Polyhedron& a = HY; const Polyhedron& b = HZ; int pc = bhrz ? BHRZ03_Certificate(a).compare(b) : H79_Certificate(a).compare(b); hx::count("certificate_ppl_compares"); if (pc != hd) { txt += "; PPL compare on the hulls says " + std::to_string(pc) + ", own " + std::to_string(hd); return -3; } }
    if (hd != 0) return hd;
    size_t ny = 0, nz = 0; std::vector<PCert> MY, MZ;
    { size_t k = 0; for (typename PS::const_iterator i = y.begin(); i != y.end(); ++i, ++k) { PCert c; if (pcert(i->pointset(), SY[k], bhrz, c)) { MY.push_back(c); ++ny; } } }
    { size_t k = 0; for (typename PS::const_iterator i = z.begin(); i != z.end(); ++i, ++k) { PCert c; if (pcert(i->pointset(), SZ[k], bhrz, c)) { MZ.push_back(c); ++nz; } } }
    txt += "; disjunct certificates y {"; for (size_t i = 0; i < MY.size(); ++i) txt += show(MY[i]); txt += "} result {"; for (size_t i = 0; i < MZ.size(); ++i) txt += show(MZ[i]); txt += "}";
    if (ny > 1 && nz == 1) return 1;
    if (ny <= 1) return nz <= 1 ? 0 : -1;
    int md = multiset_decrease(MY, MZ);
    if (md != 1) { // would the step decrease in the order of the papers (the library's certificate-vs-certificate overload inverts the dimension components)?
      forced_orientation() = -1; int md2 = multiset_decrease(MY, MZ); forced_orientation() = 0;
      if (md2 == 1) return -4;
    }
    return md;
  }

  PS twin(const PS& p, bool permute, std::string& desc) {
    std::vector<PH> v; for (typename PS::const_iterator i = p.begin(); i != p.end(); ++i) { std::string d; v.push_back(TR::twin(i->pointset(), rnd(0, TR::ntwins() - 1), d)); desc += (desc.empty() ? "" : ",") + d; }
    if (permute) { std::shuffle(v.begin(), v.end(), hx::rng()); desc += ",permuted"; }
    PS q(n, EMPTY); for (size_t i = 0; i < v.size(); ++i) q.add_disjunct(v[i]);
    q.omega_reduce();
    return q;
  }

  bool step(const POp& op, const PS& y, const PS& x, PS& z, bool& stationary) {
    std::vector<Sys> SY = obs(y), SX = obs(x);
    checked();
    { Vec w; int r = ref::union_included(n, SY, SX, &w); if (r == 0) { violation("harness.bug.precondition." + dom, "y not contained in x"); return false; } }
    for (size_t i = 0; i < SY.size(); ++i) { bool f = false; for (size_t j = 0; j < SX.size() && !f; ++j) f = sys_included(n, SY[i], SX[j]); if (!f) { violation("harness.bug.precondition_entails." + dom, "y does not definitely entail x"); return false; } }
    hx::count("op." + op.name);
    PS yc(y), x_t(x), y_t(y);
    z = x;
    tr(" | z=x; z." + op.name + "(y)");
    op.call(z, yc);
    std::vector<Sys> SZ = obs(z);
    Vec wit; checked(); hx::count("superset_checks");
    int r = ref::union_included(n, SX, SZ, &wit);
    if (r == 0) {
      bool inx = false, inz = false; for (size_t i = 0; i < SX.size(); ++i) if (ref::sat(SX[i], wit)) inx = true; for (size_t i = 0; i < SZ.size(); ++i) if (ref::sat(SZ[i], wit)) inz = true;
      if (!inx || inz) { violation("harness.bug.superset_witness", op.name); return false; }
      violation(key("superset", op.name), "point " + show(wit) + " of the larger argument " + show_ps(SX) + " is not in the result " + show_ps(SZ) + "; y=" + show_ps(SY)); return false;
    }
    if (r < 0) hx::inconclusive("union_cap");
    checked();
    if (!same_collection(SY, obs(yc))) { violation(key("argument", op.name), "the smaller argument changed: " + show_ps(SY) + " -> " + show_ps(obs(yc))); return false; }
    stationary = same_collection(SZ, SY);
    bool kept = same_collection(SZ, SX);
    hx::distinct("step|" + dom + "|" + op.name + "|" + std::to_string(SX.size()) + "|" + std::to_string(SY.size()) + "|" + std::to_string(SZ.size()) + "|" + (stationary ? "stationary" : kept ? "kept" : "widened"));
    if (!kept) hx::count("widened." + op.name);
    if (op.widening && !stationary) {
      std::string txt; checked(); hx::count("certificate_checks");
      int d = own_decrease(op, y, z, SY, SZ, txt);
      if (d == -2) hx::inconclusive("hull_oracle");
      else if (d == -3) { violation(key("certificate", op.name, TR::nnc() ? ":ppl-compare-nnc-counts" : ":ppl-compare"), txt + "; y=" + show_ps(SY) + " result=" + show_ps(SZ)); return false; }
      else if (d == -4) { violation(key("certificate", op.name, ":decreases-only-in-uninverted-order"), "the multiset of disjunct certificates decreases in the order of the BHZ03 papers but not in the order of Certificate::compare(const Certificate&), which inverts the dimension components: " + txt + "; y=" + show_ps(SY) + " x=" + show_ps(SX) + " result=" + show_ps(SZ)); return false; }
      else if (d != 1 && TR::nnc()) { hx::inconclusive("certificate_recomputed_on_point_set_for_nnc"); }   // see wc_convex.hh
      else if (d != 1) { violation(key("certificate", op.name, TR::nnc() ? ":nnc-counts" : ""), "non-stationary step without strict decrease of the recomputed powerset certificate: " + txt + "; y=" + show_ps(SY) + " x=" + show_ps(SX) + " result=" + show_ps(SZ)); return false; }
    }
    if (!twin_reported && coin(70)) {
      bool perm = op.name.find("BGP99") == std::string::npos && coin(35); std::string dx, dy;
      PS x2 = twin(x_t, perm, dx), y2 = twin(y_t, perm && coin(), dy);
      checked(2);
      if (!same_collection(obs(x2), SX) || !same_collection(obs(y2), SY)) hx::inconclusive("twin_build_mismatch." + dom);
      else {
        tr(" | x'=twin(x:" + dx + "); y'=twin(y:" + dy + "); x'." + op.name + "(y')");
        op.call(x2, y2);
        std::vector<Sys> SZ2 = obs(x2); checked(); hx::count("twin_checks"); hx::count(perm ? "twin.permuted" : "twin.same-order");
        Vec w; int a = ref::union_included(n, SZ, SZ2, &w), b = a == 1 ? ref::union_included(n, SZ2, SZ, &w) : a;
        if (a < 0 || b < 0) hx::inconclusive("union_cap");
        else if (a == 0 || b == 0) {
          twin_reported = true;
          bool lin = false; for (size_t i = 0; i < SX.size(); ++i) if (ref::feasible(n, SX[i]) && lineality_dim(n, SX[i]) > 0) lin = true; for (size_t i = 0; i < SY.size(); ++i) if (ref::feasible(n, SY[i]) && lineality_dim(n, SY[i]) > 0) lin = true;
          std::string cls = perm ? ":disjunct-order" : (TR::nnc() ? ":nnc-representation" : (lin && op.name.find("BHRZ03") != std::string::npos ? ":nontrivial-lineality" : ""));
          violation(key("twin", op.name, cls), "x " + show_ps(SX) + " y " + show_ps(SY) + ": result " + show_ps(SZ) + " but on twins (" + dx + " ; " + dy + ") " + show_ps(SZ2) + "; point " + show(w) + " is in one result only");
          if (cls.empty()) return false;
        }
      }
    }
    return true;
  }

  PH random_polytope(int it) {
    int np = rnd(1, 4); std::vector<Generator> gv; int cx = rnd(-4 - it, 4 + it), cy = rnd(-4 - it, 4 + it);
    for (int i = 0; i < np; ++i) { Linear_Expression e; for (int j = 0; j < n; ++j) e += ((j == 0 ? cx : j == 1 ? cy : 0) + rnd(-2, 2)) * Variable(j); if (n > 0) e += 0 * Variable(n - 1); gv.push_back(point(e, rnd(1, 2))); }
    if (coin(8) && n > 0) { Linear_Expression e; for (int j = 0; j < n; ++j) e += rnd(-1, 1) * Variable(j); if (e.all_homogeneous_terms_are_zero()) e += Variable(0); gv.push_back(ray(e)); }
    return TR::from_gens(n, gv);
  }
  PS grow(const PS& y, int it, std::string& text) {
    PS x(y); std::ostringstream t; int m = rnd(0, 99);
    std::vector<PH> ds; for (typename PS::const_iterator i = y.begin(); i != y.end(); ++i) ds.push_back(i->pointset());
    if (ds.empty() || m < 25 || n == 0) { PH p = random_polytope(it); x.add_disjunct(p); PH c(p); t << "+disjunct{" << str(c.generators()) << "}"; }
    else if (m < 45) { PH p = ds[rnd(0, (int) ds.size() - 1)]; Variable v(rnd(0, n - 1)); int k = rnd(1, 3) * (coin() ? 1 : -1); p.affine_image(v, Linear_Expression(v) + k, 1); x.add_disjunct(p); t << "+shifted-disjunct(" << str(v) << "," << k << ")"; }
    else if (m < 60) { PH p = ds[rnd(0, (int) ds.size() - 1)]; Variable v(rnd(0, n - 1)); Linear_Expression e = small_expr(n, 2); p.affine_image(v, e, rnd(1, 2)); x.add_disjunct(p); t << "+image-disjunct(" << str(v) << ":=" << str(e) << ")"; }
    else if (m < 85) { PH p = ds[rnd(0, (int) ds.size() - 1)]; Linear_Expression e; for (int j = 0; j < n; ++j) e += rnd(-5 - it, 5 + it) * Variable(j); if (n > 0) e += 0 * Variable(n - 1); std::vector<Generator> gv(1, point(e, rnd(1, 2))); p.upper_bound_assign(TR::from_gens(n, gv)); x.add_disjunct(p); t << "+grown-disjunct(" << str(gv[0]) << ")"; }
    else if (m < 92 && ds.size() >= 2) { PH p = ds[0]; p.upper_bound_assign(ds[1]); x.add_disjunct(p); t << "+hull-of-two"; }
    else t << "same";
    x.omega_reduce();
    text = t.str(); return x;
  }

  void run() {
    dom = std::string("Pointset_Powerset<") + TR::name() + ">";
    int dk = rnd(0, 99); n = dk < 3 ? 0 : dk < 35 ? 1 : dk < 88 ? 2 : 3;
    { int k = rnd(0, 3); for (int i = 0; i < k; ++i) lim_cv.push_back(random_constraint<TR>(n)); for (size_t i = 0; i < lim_cv.size(); ++i) if (!lim_cv[i].is_strict_inequality() || TR::nnc()) lim_cs.insert(lim_cv[i]); }
    std::vector<POp> all = ops(); const POp& op = all[rnd(0, (int) all.size() - 1)];
    PS y(n, EMPTY); int nd = coin(8) ? 0 : rnd(1, 3); for (int i = 0; i < nd; ++i) y.add_disjunct(random_polytope(0)); y.omega_reduce();
    { std::ostringstream o; o << dom << " n=" << n << " chain of " << op.name; if (op.name.find("limited") != std::string::npos) o << " cs=" << str(lim_cs); o << " y0=" << show_ps(obs(y)); tr(o.str()); }
    hx::count("chains." + dom + "." + op.name);
    int cap = op.widening ? (int) hx::opt().geti("cap", 200) : 6, quiet = 0, len = 0, it = 0; bool has_strict = op.name.find("limited") != std::string::npos && lim_cs.has_strict_inequalities();
    for (; it < cap; ++it) {
      hx::count("steps");
      try {
        Weight_Guard wg(400000000ULL);
        std::string gt; PS x = grow(y, it, gt);
        if (x.size() == 0) continue;
        if (x.size() > 6) { hx::inconclusive("pps_size_cap"); break; }
        tr(" || x=y (+) " + gt);
        PS z(x); bool stationary = false;
        { std::vector<Sys> a = obs(x), b = obs(y); for (size_t i = 0; i < a.size(); ++i) for (size_t j = 0; j < a[i].size(); ++j) if (a[i][j].rel == ref::LT) has_strict = true; for (size_t i = 0; i < b.size(); ++i) for (size_t j = 0; j < b[i].size(); ++j) if (b[i][j].rel == ref::LT) has_strict = true; }
        if (!step(op, y, x, z, stationary)) return;
        if (stationary) { if (++quiet >= 3) break; } else { quiet = 0; ++len; }
        z.omega_reduce();
        if (z.size() > 7) { hx::inconclusive("pps_size_cap"); break; }
        if (coin(25)) { std::string d; PS zt = twin(z, false, d); if (same_collection(obs(zt), obs(z))) { y = zt; tr(" || y=twin(z)"); hx::count("alternations"); } else y = z; } else y = z;
      } catch (const Logical_Timeout&) { violation(key("hang", op.name), "logical-time budget exceeded"); return;
      } catch (const std::exception& e) {
        // H79_Certificate's template constructor goes through C_Polyhedron(ph.constraints()): unusable on NNC disjuncts with strict constraints
        std::string cls = (TR::nnc() && has_strict && op.name.find("<H79_Certificate>") != std::string::npos && std::string(e.what()).find("strict inequalities") != std::string::npos) ? ":nnc-disjunct-has-strict-inequality" : "";
        violation(key("unexpected_exception", op.name, std::string(".") + typeid(e).name() + cls), e.what()); return; }
    }
    if (it >= cap && op.widening) hx::inconclusive("chain_cap." + dom);
    std::map<std::string, unsigned long>& c = hx::st().counters; std::string k = "max_chain_len." + dom + "." + op.name; if (c[k] < (unsigned long) len) c[k] = len;
    hx::count("nonstationary_steps", len);
  }
};

} // namespace wc
#endif
