// widenchain — generic ascending-chain runner for the convex domains that are
// observed as a constraint system (C/NNC polyhedra, BD shapes, octagons, boxes).
//
// A traits class TR supplies the PPL side (constructors, twins, operator table);
// every judgement below is made by the reference model on descriptions obtained
// from copies.
#ifndef WC_CONVEX_HH
#define WC_CONVEX_HH
#include "wc_common.hh"

namespace wc {

enum CertKind { CERT_NONE = 0, CERT_H79 = 1, CERT_BHRZ03 = 2, CERT_BOXT = 3 };

template <class D> struct WOp {
  std::string name;
  int cert;
  bool has_tp;
  std::function<void(D&, const D&, unsigned*)> call;
  std::string lim_name, bnd_name;
  std::function<void(D&, const D&, const Constraint_System&, unsigned*)> lim, bnd;
  std::vector<Q> thresholds;
  WOp() : cert(CERT_NONE), has_tp(true) {}
};

inline Generator point_from(const Vec& w, int n) {
  mpz_class l = 1; for (int d = 0; d < n; ++d) { mpz_class den = w[d].get_den(); mpz_lcm(l.get_mpz_t(), l.get_mpz_t(), den.get_mpz_t()); }
  Linear_Expression e; for (int d = 0; d < n; ++d) { Q v = w[d] * Q(l); e += Coefficient(v.get_num()) * Variable(d); }
  if (n > 0) e += 0 * Variable(n - 1);
  return point(e, Coefficient(l));
}


// a constraint in a direction the domain likes; about two thirds of them hold on x
template <class TR> Constraint limiting_constraint(int n, const Sys& SX) {
  std::vector<int> a = TR::direction(n);
  Vec av(n); Linear_Expression e; for (int j = 0; j < n; ++j) { av[j] = a[j]; e += a[j] * Variable(j); }
  if (n > 0) e += 0 * Variable(n - 1);
  ref::SupResult s = ref::supremum(n, SX, av);
  int mode = rnd(0, 9);
  if (!s.nonempty || !s.bounded || mode < 3) { int b = rnd(-4, 4); if (TR::strict_ok() && coin(15)) return e < b; return e <= b; }
  Q slack = (mode < 6) ? Q(0) : Q(rnd(1, 4), rnd(1, 2)); slack.canonicalize();
  Q rhs = s.sup + slack;
  Coefficient den = rhs.get_den(), num = rhs.get_num();
  Linear_Expression le = den * e;
  if (TR::strict_ok() && coin(20) && (slack > 0 || !s.attained)) return le < num;
  if (slack == 0 && coin(35)) { Vec na(n); for (int j = 0; j < n; ++j) na[j] = -av[j]; ref::SupResult lo = ref::supremum(n, SX, na); if (lo.bounded && Q(-lo.sup) == s.sup) return le == num; }
  return le <= num;
}
template <class TR> Constraint random_constraint(int n) {
  std::vector<int> a = TR::direction(n);
  Linear_Expression e; for (int j = 0; j < n; ++j) e += a[j] * Variable(j);
  if (n > 0) e += 0 * Variable(n - 1);
  int b = rnd(-4, 4); int k = rnd(0, 9);
  if (TR::strict_ok() && coin(30)) return coin() ? (e < b) : (e > b);
  if (k < 6) return e <= b;
  if (k < 8) return e >= b;
  return e == b;
}

template <class TR> struct ConvexChain {
  typedef typename TR::D D;
  int n;
  std::string dom;
  bool twin_reported, overload_reported, across_reported, have_cur, have_prev;
  BMeas cur_y_cert, prev_y_cert;
  ConvexChain() : n(0), twin_reported(false), overload_reported(false), across_reported(false), have_cur(false), have_prev(false) {}

  static Sys obs(const D& d, bool minimized = false) { D c(d); int n = d.space_dimension(); return ref::conv(minimized ? c.minimized_constraints() : c.constraints(), n); }

  std::string key(const char* mon, const std::string& op, const std::string& what = "") const { return std::string("C08.") + mon + "." + dom + "." + op + what; }

  // own certificate comparison: 1 = z strictly below y, 0 = equal, -1 = not decreasing
  int own_decrease(const WOp<D>& op, const D& y, const D& z, const Sys& SY, const Sys& SZ, std::string& txt) {
    if (op.cert == CERT_H79) {
      Meas my, mz;
      if (TR::nnc()) { // counts are those of the (strongly) minimized forms reported by PPL; affine dimension by LP
        my = measure(n, SY); mz = measure(n, SZ);
        if (!my.empty) { Sys m = obs(y, true); int c = 0; for (size_t i = 0; i < m.size(); ++i) if (!row_zero(m[i], n)) ++c; my.nfacets = c - my.neq; }
        if (!mz.empty) { Sys m = obs(z, true); int c = 0; for (size_t i = 0; i < m.size(); ++i) if (!row_zero(m[i], n)) ++c; mz.nfacets = c - mz.neq; }
      } else { my = measure(n, SY); mz = measure(n, SZ); }
      txt = "y " + show(my) + " result " + show(mz);
      return h79_decrease(my, mz);
    }
    if (op.cert == CERT_BHRZ03) {
      BMeas by, bz;
      for (int k = 0; k < 2; ++k) {
        const Sys& S = k ? SZ : SY; const D& d = k ? z : y; BMeas& b = k ? bz : by;
        Meas m = measure(n, S);
        if (m.empty) continue;
        b.empty = false; b.affdim = m.affdim; b.lindim = lineality_dim(n, S);
        D c1(d), c2(d);
        Sys mc = ref::conv(c1.minimized_constraints(), n); Gens mg = TR::min_gens(c2);
        // the descriptions used are first verified to denote the observed set
        std::string why; Vec wit;
        if (!sys_equal(n, mc, S) || !ref::gens_satisfy(n, mg, S, &why) || ref::cons_in_hull(n, S, mg, &wit, &why) == 0) { txt = "minimized descriptions do not denote the observed set"; return -2; }
        int nl = 0;
        if (TR::nnc()) {
          int c = 0; for (size_t i = 0; i < mc.size(); ++i) if (!row_zero(mc[i], n)) ++c; b.ncons = c;
          b.npoints = 0; b.rayhist.assign(n, 0); std::vector<Vec> lines;
          for (size_t i = 0; i < mg.size(); ++i) { if (mg[i].kind == Gen::LINE) lines.push_back(mg[i].v); else if (mg[i].kind == Gen::RAY) { int zc = 0; for (int dd = 0; dd < n; ++dd) if (mg[i].v[dd] == 0) ++zc; if (zc < n) ++b.rayhist[zc]; } else ++b.npoints; }
          nl = ref::rank_of(lines, n);
        } else { b.ncons = m.neq + m.nfacets; count_generators(n, mg, b.npoints, nl, b.rayhist); }
        if (nl != b.lindim) { txt = "line count of the minimized generators differs from the lineality dimension"; return -2; }
      }
      txt = "y " + show(by) + " result " + show(bz);
      cur_y_cert = by; have_cur = true;
      return bhrz03_decrease(by, bz);
    }
    if (op.cert == CERT_BOXT) {
      BoxView vy = box_view(n, SY), vz = box_view(n, SZ);
      if (vy.empty) { txt = "y empty"; return vz.empty ? 0 : 1; }
      long my = box_threshold_measure(vy, op.thresholds), mz = box_threshold_measure(vz, op.thresholds);
      std::ostringstream o; o << "threshold measure y " << my << " result " << mz; txt = o.str();
      return mz < my ? 1 : (mz == my ? 0 : -1);
    }
    return 1;
  }

  // one widening step with all monitors; returns false if the case must stop
  bool step(const WOp<D>& op, const D& y, const D& x, D& z, bool& stationary, bool full) {
    Sys SY = obs(y), SX = obs(x);
    checked();
    if (!sys_included(n, SY, SX)) { violation("harness.bug.precondition." + dom, "y not contained in x: y=" + show(SY) + " x=" + show(SX)); return false; }
    bool x_empty = !ref::feasible(n, SX), x_univ = !x_empty && sys_universe(n, SX), y_empty = !ref::feasible(n, SY);
    std::string stx = status_of(x), sty = status_of(y);
    hx::count("op." + op.name); hx::count("status." + dom + "." + stx);
    // copies made before any call so that all differentials start from the same representation
    D yc(y), y_tok(y), y_lim(y), y_bnd(y), x_tok(x), x_lim(x), x_bnd(x), x_tok0(x), y_tok0(y), y_lp(y), x_lp(x);
    z = x;
    tr(" | z=x; z." + op.name + "(y)");
    op.call(z, yc, 0);
    Sys SZ = obs(z);
    Vec wit; checked(); hx::count("superset_checks");
    if (!sys_included(n, SX, SZ, &wit)) {
      if (!ref::sat(SX, wit) || ref::sat(SZ, wit)) { violation("harness.bug.superset_witness", op.name); return false; }
      violation(key("superset", op.name), "point " + show(wit) + " of the larger argument " + show(SX) + " is not in the result " + show(SZ) + "; y=" + show(SY));
      return false;
    }
    checked();
    if (!sys_equal(n, SY, obs(yc))) { violation(key("argument", op.name), "the smaller argument changed value: " + show(SY) + " -> " + show(obs(yc))); return false; }
    stationary = sys_included(n, SZ, SY);
    bool changed = !sys_included(n, SZ, SX);   // plain widening loses precision w.r.t. the larger argument
    if (!x_empty && !x_univ) hx::distinct("step|" + dom + "|" + op.name + "|" + stx + "|" + sty + "|" + (y_empty ? "y-empty" : stationary ? "stationary" : changed ? "widened" : "kept"));
    if (changed) hx::count("widened." + op.name);
    // ---- certificate ----
    if (op.cert != CERT_NONE && !stationary) {
      std::string txt; checked(); hx::count("certificate_checks"); have_cur = false;
      int dec = own_decrease(op, y, z, SY, SZ, txt);
      // along the chain: the y used now must be below the y used at the previous non-stationary step, whatever its representation
      if (op.cert == CERT_BHRZ03 && have_cur && have_prev && !across_reported) { checked(); hx::count("certificate_chain_checks");
        if (bhrz03_decrease(prev_y_cert, cur_y_cert) != 1) { across_reported = true; violation(key("certificate", op.name, TR::nnc() ? ":across-representations-nnc" : ":across-representations"), "the certificate of the iterate did not decrease between two non-stationary steps: previous iterate " + show(prev_y_cert) + ", current iterate " + show(cur_y_cert) + " (a strictly larger set, possibly another representation); y=" + show(SY)); } }
      if (op.cert == CERT_BHRZ03 && have_cur) { prev_y_cert = cur_y_cert; have_prev = true; }
      if (dec == -2) { hx::inconclusive("certificate_descriptions"); }
      else if (dec != 1 && TR::nnc()) { hx::inconclusive("certificate_recomputed_on_point_set_for_nnc"); }   // the documented certificate of NNC polyhedra is taken on the epsilon-representation, ours on the point set: not a refutation
      else if (dec != 1) { violation(key("certificate", op.name, TR::nnc() ? ":nnc-counts" : ""), "non-stationary step without strict decrease of the recomputed certificate: " + txt + "; y=" + show(SY) + " x=" + show(SX) + " result=" + show(SZ)); return false; }
      if (!y_empty) {
        D c1(y), c2(z); int pc = TR::ppl_cert_compare(op.cert, c1, c2);
        if (pc != 99 && !overload_reported) { D c3(y), c4(z); int pc2 = TR::ppl_cert_compare_certs(op.cert, c3, c4);
          if (pc2 != 99) { checked(); hx::count("certificate_overload_compares");
            if (pc2 != pc) { overload_reported = true; std::ostringstream o; o << "Certificate(y).compare(result) = " << pc << " but Certificate(y).compare(Certificate(result)) = " << pc2 << "; own: " << txt; violation(key("certificate", op.name, ":compare-overloads-disagree"), o.str() + "; y=" + show(SY) + " result=" + show(SZ)); } } }
        if (pc != 99) { checked(); hx::count("certificate_ppl_compares"); if (pc != 1) { std::ostringstream o; o << "PPL certificate compare(y, result) = " << pc << " on a non-stationary step; own: " << txt; violation(key("certificate", op.name, ":ppl-compare"), o.str() + "; y=" + show(SY) + " result=" + show(SZ)); return false; } }
      }
    }
    if (!full) return true;
    // ---- token protocol (differential against the token-free call above) ----
    if (op.has_tp && coin(60)) {
      unsigned t0 = rnd(1, 3), tp = t0;
      tr(" | tok=x; tok." + op.name + "(y, tp=" + std::to_string(t0) + ")");
      op.call(x_tok, y_tok, &tp);
      Sys ST = obs(x_tok); checked(2); hx::count("token_checks");
      if (tp != t0 && tp != t0 - 1) { violation(key("token", op.name, ".count"), "token count went from " + std::to_string(t0) + " to " + std::to_string(tp)); return false; }
      bool consumed = (tp == t0 - 1);
      if (consumed && !changed) { violation(key("token", op.name, ".consumed_but_precise"), "a token was consumed although the plain widening returns the larger argument; y=" + show(SY) + " x=" + show(SX)); return false; }
      if (!consumed && changed) { violation(key("token", op.name, ".not_consumed_but_lossy"), "no token consumed although the plain widening gives " + show(SZ) + " != x=" + show(SX) + "; y=" + show(SY) + "; with tokens: " + show(ST)); return false; }
      if (!sys_equal(n, ST, SX)) { violation(key("token", op.name, consumed ? ".receiver_changed" : ".result_differs"), "tokens available (" + std::to_string(t0) + "), result " + show(ST) + " differs from the larger argument " + show(SX)); return false; }
      if (coin(30)) { // an exhausted counter behaves as no counter
        unsigned z0 = 0; tr(" | tok0=x; tok0." + op.name + "(y, tp=0)"); op.call(x_tok0, y_tok0, &z0); checked();
        if (z0 != 0 || !sys_equal(n, obs(x_tok0), SZ)) { violation(key("token", op.name, ".zero_tokens"), "with *tp == 0 the result differs from the plain widening"); return false; }
      }
    }
    // ---- limited / bounded extrapolation ----
    for (int lb = 0; lb < 2; ++lb) {
      const std::string& lname = lb ? op.bnd_name : op.lim_name;
      if (lname.empty() || !coin(lb ? 40 : 60)) continue;
      D& xl = lb ? x_bnd : x_lim; D& yl = lb ? y_bnd : y_lim;
      std::vector<Constraint> cv; Constraint_System cs;
      int k = rnd(0, 4);
      for (int i = 0; i < k; ++i) cv.push_back(limiting_constraint<TR>(n, SX));
      for (size_t i = 0; i < cv.size(); ++i) cs.insert(cv[i]);
      std::ostringstream t; t << " | lim=x; lim." << lname << "(y, {"; for (size_t i = 0; i < cv.size(); ++i) t << (i ? ", " : "") << str(cv[i]); t << "}";
      unsigned t0 = coin(25) ? rnd(1, 2) : 0, tp = t0; bool with_tp = coin(40);
      if (with_tp) t << ", tp=" << t0; t << ")"; tr(t.str());
      if (TR::fragile_limiting(cv)) {
        hx::count("isolated_calls");
        bool alive = survives([&]() { D a(xl), b(yl); unsigned t = t0; if (lb) op.bnd(a, b, cs, with_tp ? &t : 0); else op.lim(a, b, cs, with_tp ? &t : 0); });
        if (!alive) { violation(key("crash", lname, ":variable-free-limiting-constraint"), "the call dies (sanitizer report or signal) in an isolated child process; x=" + show(SX) + " y=" + show(SY)); continue; }
      }
      if (lb) op.bnd(xl, yl, cs, with_tp ? &tp : 0); else op.lim(xl, yl, cs, with_tp ? &tp : 0);
      Sys SL = obs(xl); hx::count("limited_checks"); hx::count("op." + lname); checked(3);
      if (!sys_included(n, SX, SL, &wit)) { violation(key("limited", lname, ".below_argument"), "point " + show(wit) + " of the larger argument is not in the result " + show(SL) + "; x=" + show(SX) + " y=" + show(SY)); return false; }
      if (with_tp && t0 > 0) {
        bool consumed = (tp == t0 - 1);
        if (tp != t0 && !consumed) { violation(key("token", lname, ".count"), "token count " + std::to_string(t0) + " -> " + std::to_string(tp)); return false; }
        if (consumed != changed) { violation(key("token", lname, consumed ? ".consumed_but_precise" : ".not_consumed_but_lossy"), "plain " + op.name + " gives " + show(SZ) + ", x=" + show(SX) + " y=" + show(SY)); return false; }
        if (!sys_equal(n, SL, SX)) { violation(key("token", lname, consumed ? ".receiver_changed" : ".result_differs"), "tokens available, result " + show(SL) + " differs from x=" + show(SX)); return false; }
        continue;
      }
      if (with_tp && tp != 0) { violation(key("token", lname, ".count"), "zero tokens became " + std::to_string(tp)); return false; }
      if (!sys_included(n, SL, SZ, &wit)) { violation(key("limited", lname, ".above_widening"), "point " + show(wit) + " of the result " + show(SL) + " is not in the plain widening " + show(SZ) + "; x=" + show(SX) + " y=" + show(SY)); return false; }
      for (size_t i = 0; i < cv.size(); ++i) {
        Con c = ref::conv(cv[i], n); Sys one(1, c);
        if (!sys_included(n, SX, one)) { hx::count("limiting.unsatisfied"); continue; }
        if (!TR::representable(cv[i])) { hx::count("limiting.satisfied_not_representable"); continue; }
        hx::count("limiting.satisfied"); checked();
        if (!sys_included(n, SL, one, &wit)) { violation(key("limited", lname, ".dropped_constraint"), "supplied constraint " + str(cv[i]) + " holds on the larger argument " + show(SX) + " but result point " + show(wit) + " violates it; result " + show(SL) + "; y=" + show(SY)); return false; }
      }
    }
    // ---- representation twins ----
    if (!twin_reported && coin(75)) {
      int hx_ = rnd(0, TR::ntwins() - 1), hy_ = rnd(0, TR::ntwins() - 1); std::string dx, dy;
      D x2 = TR::twin(x_lp, hx_, dx), y2 = TR::twin(y_lp, hy_, dy);
      checked(2);
      if (!sys_equal(n, obs(x2), SX) || !sys_equal(n, obs(y2), SY)) { hx::inconclusive("twin_build_mismatch." + dom); }
      else {
        std::string s2x = status_of(x2), s2y = status_of(y2);
        tr(" | x'=twin(x:" + dx + "); y'=twin(y:" + dy + "); x'." + op.name + "(y')");
        op.call(x2, y2, 0);
        Sys SZ2 = obs(x2); checked(); hx::count("twin_checks"); hx::count("twin." + dx); hx::count("twin." + dy);
        if (!x_empty && !x_univ) hx::distinct("twin|" + dom + "|" + op.name + "|" + s2x + "|" + s2y + "|" + dx + "|" + dy);
        if (!sys_equal(n, SZ, SZ2)) {
          Vec w; std::string side;
          if (!sys_included(n, SZ, SZ2, &w)) side = "in the original result only"; else { sys_included(n, SZ2, SZ, &w); side = "in the twin result only"; }
          // BHRZ03's certificate counts null coordinates of rays, which are not canonical modulo a lineality space
          std::string cls = TR::nnc() ? ":nnc-representation" : ((lineality_dim(n, SX) > 0 || lineality_dim(n, SY) > 0) && !x_empty && !y_empty && op.cert == CERT_BHRZ03 ? ":nontrivial-lineality" : "");
          violation(key("twin", op.name, cls), "x " + show(SX) + " y " + show(SY) + ": result " + show(SZ) + " but on twins (x:" + dx + ", y:" + dy + ") " + show(SZ2) + "; point " + show(w) + " " + side);
          twin_reported = true;
          if (cls.empty()) return false;
        }
      }
    }
    return true;
  }

  // adversarial growth: returns an element containing y
  D grow(const D& y, const Sys& SY, int it, std::string& text) {
    D x(y);
    bool y_empty = !ref::feasible(n, SY);
    int m = rnd(0, 99);
    std::ostringstream t;
    if (n == 0) { if (y_empty && coin()) { x = TR::make(0, false); t << "universe"; } else t << "same"; text = t.str(); return x; }
    int maxc = TR::dyadic() ? 4 : 6;
    if (y_empty || m < 22) { // a new point, farther and farther away
      Linear_Expression e; for (int j = 0; j < n; ++j) e += rnd(-maxc - it, maxc + it) * Variable(j);
      int den = TR::dyadic() ? (1 << rnd(0, 2)) : rnd(1, 3);
      Generator g = point(e, den); std::vector<Generator> gv(1, g);
      if (TR::nnc() && !y_empty && coin(35)) { Vec w; ref::feasible(n, SY, &w); gv.insert(gv.begin(), point_from(w, n)); gv[1] = closure_point(Linear_Expression(g.expression()), g.divisor()); t << "+[" << str(gv[0]) << "," << str(gv[1]) << ")"; }
      else t << "+" << str(g);
      D inc = TR::from_gens(n, gv); x.upper_bound_assign(inc);
    } else if (m < 40) { // hull with an affine image
      D im(y); Variable v(rnd(0, n - 1)); Linear_Expression e = small_expr(n, 2); int den = TR::dyadic() ? (1 << rnd(0, 1)) : rnd(1, 2);
      im.affine_image(v, e, den); x.upper_bound_assign(im); t << "hull-image(" << str(v) << ":=(" << str(e) << ")/" << den << ")";
    } else if (m < 52) { // a ray from a point of y
      Vec w; ref::feasible(n, ref::closure_of(SY), &w);
      Linear_Expression e; for (int j = 0; j < n; ++j) e += rnd(-2, 2) * Variable(j);
      if (e.all_homogeneous_terms_are_zero()) e += Variable(rnd(0, n - 1));
      std::vector<Generator> gv; gv.push_back(point_from(w, n)); gv.push_back(ray(e));
      if (TR::dyadic()) { x.unconstrain(Variable(rnd(0, n - 1))); t << "unconstrain"; }
      else { D inc = TR::from_gens(n, gv); x.upper_bound_assign(inc); t << "+ray(" << str(e) << ") at " << str(gv[0]); }
    } else if (m < 64) { // shift
      D im(y); Variable v(rnd(0, n - 1)); int k = rnd(1, 3) * (coin() ? 1 : -1); im.affine_image(v, Linear_Expression(v) + k, 1); x.upper_bound_assign(im); t << "shift(" << str(v) << "," << k << ")";
    } else if (m < 76) { // bound growing by a shrinking increment
      D im(y); Variable v(rnd(0, n - 1)); int sh = it < 20 ? it : 20; long den = 1L << sh; int s = coin() ? 1 : -1;
      im.affine_image(v, den * Linear_Expression(v) + s, den); x.upper_bound_assign(im); t << "creep(" << str(v) << "," << s << "/" << den << ")";
    } else if (m < 86 && n >= 2 && !TR::dyadic()) { // rotating point (rational rotation by atan(4/3))
      Q px = 5, py = 0; for (int k = 0; k < it % 12 + 1; ++k) { Q nx = (3 * px - 4 * py) / 5, ny = (4 * px + 3 * py) / 5; px = nx; py = ny; }
      Vec w(n); w[0] = px; w[1] = py; if (it > 12) { w[0] *= 2; w[1] *= 2; }
      std::vector<Generator> gv(1, point_from(w, n)); D inc = TR::from_gens(n, gv); x.upper_bound_assign(inc); t << "+rot " << str(gv[0]);
    } else if (m < 92) { // scale about the origin
      D im(y); for (int j = 0; j < n; ++j) im.affine_image(Variable(j), 2 * Linear_Expression(Variable(j)), 1); x.upper_bound_assign(im); t << "hull-scale2";
    } else if (m < 96) { Variable v(rnd(0, n - 1)); x.unconstrain(v); t << "unconstrain(" << str(v) << ")"; }
    else t << "same";
    text = t.str();
    return x;
  }

  D initial(std::string& text) {
    std::ostringstream t; int k = rnd(0, 99);
    if (k < 5) { t << "empty"; text = t.str(); return TR::make(n, true); }
    if (k < 8) { t << "universe"; text = t.str(); return TR::make(n, false); }
    if (k < 60 || n == 0) {
      int np = rnd(1, 4); std::vector<Generator> gv;
      for (int i = 0; i < np; ++i) { Linear_Expression e; for (int j = 0; j < n; ++j) e += rnd(-3, 3) * Variable(j); if (n > 0) e += 0 * Variable(n - 1); gv.push_back(point(e, TR::dyadic() ? (1 << rnd(0, 1)) : rnd(1, 2))); }
      if (n > 0 && coin(15) && !TR::dyadic()) { Linear_Expression e; for (int j = 0; j < n; ++j) e += rnd(-2, 2) * Variable(j); if (e.all_homogeneous_terms_are_zero()) e += Variable(0); gv.push_back(coin(80) ? ray(e) : line(e)); }
      t << "gens{"; for (size_t i = 0; i < gv.size(); ++i) t << (i ? ", " : "") << str(gv[i]); t << "}"; text = t.str();
      return TR::from_gens(n, gv);
    }
    int nc = rnd(1, 5); std::vector<Constraint> cv;
    for (int i = 0; i < nc; ++i) cv.push_back(random_constraint<TR>(n));
    t << "cons{"; for (size_t i = 0; i < cv.size(); ++i) t << (i ? ", " : "") << str(cv[i]); t << "}"; text = t.str();
    return TR::from_cons(n, cv);
  }

  void run() {
    dom = TR::name();
    int dk = rnd(0, 99); n = dk < 4 ? 0 : dk < 28 ? 1 : dk < 72 ? 2 : 3;
    if (hx::opt().thorough && dk >= 93) n = 4;
    if (n > TR::maxdim()) n = TR::maxdim();
    std::vector<WOp<D> > ops = TR::ops(n);
    const WOp<D>& op = ops[rnd(0, (int) ops.size() - 1)];
    std::string t0; D y = initial(t0);
    tr(dom + " n=" + std::to_string(n) + " chain of " + op.name + " y0=" + t0);
    hx::count("chains." + dom + "." + op.name);
    int cap = op.cert == CERT_NONE ? 8 : (int) hx::opt().geti("cap", 200);
    int quiet = 0, len = 0, it = 0;
    for (; it < cap; ++it) {   // (an NNC representation finding does not stop the chain)
      hx::count("steps");
      try {
        Weight_Guard wg(200000000ULL);
        struct Note { Weight_Guard& g; ~Note() { note_weight("step", g.used()); } } note = { wg };
        Sys SY = obs(y);
        std::string gt; D x = grow(y, SY, it, gt);
        tr(" || x=y" + std::string(" (+) ") + gt);
        D z(x); bool stationary = false;
        bool full = it < 12 || coin(15);
        if (!step(op, y, x, z, stationary, full)) return;
        if (stationary) { if (++quiet >= 3) break; }
        else { quiet = 0; ++len; }
        if (coin(30)) { int how = rnd(0, TR::ntwins() - 1); std::string d; D zt = TR::twin(z, how, d); if (sys_equal(n, obs(zt), obs(z))) { y = zt; tr(" || y=twin(z:" + d + ")"); hx::count("alternations"); } else { hx::inconclusive("twin_build_mismatch." + dom); y = z; } }
        else y = z;
      } catch (const Logical_Timeout&) {
        violation(key("hang", op.name), "logical-time budget (weight 2e8) exceeded"); return;
      } catch (const std::exception& e) {
        violation(key("unexpected_exception", op.name, std::string(".") + typeid(e).name()), e.what()); return;
      }
    }
    if (it >= cap && op.cert != CERT_NONE) hx::inconclusive("chain_cap." + dom);
    std::map<std::string, unsigned long>& c = hx::st().counters; std::string k = "max_chain_len." + dom + "." + op.name;
    if (c[k] < (unsigned long) len) c[k] = len;
    hx::count("nonstationary_steps", len);
  }
};

} // namespace wc
#endif
