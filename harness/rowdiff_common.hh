// Shared declarations of the `rowdiff` engine (property C16: sparse == dense,
// the sparse tree is a correct map).  Private to engines/rowdiff*.cc.
#ifndef ROWDIFF_COMMON_HH
#define ROWDIFF_COMMON_HH
#include "pplx.hh"
#include <map>
#include <set>
#include <vector>
#include <functional>
#include <sys/types.h>
#include <sys/wait.h>
#include <unistd.h>
#include <fcntl.h>

namespace rd {
using namespace pplx;
using hx::violation; using hx::tr; using hx::checked;
typedef Coefficient Z;

inline std::string zs(const Z& z) { std::ostringstream o; o << z; return o.str(); }
inline const char* rs(Representation r) { return r == DENSE ? "D" : "S"; }
inline Representation rand_rep() { return coin() ? DENSE : SPARSE; }
inline Representation other(Representation r) { return r == DENSE ? SPARSE : DENSE; }

// Coefficients: mostly tiny (so that cancellations to zero are frequent, which is
// what makes sparse rows erase), sometimes medium, rarely huge / limb-boundary.
inline Z rand_z(bool nonzero = false) {
  int k = rnd(0, 99); Z z;
  if (k < 70) z = rnd(-3, 3);
  else if (k < 88) z = rnd(-12, 12);
  else if (k < 94) z = rnd(-1000, 1000);
  else if (k < 97) { z = 1; z <<= rnd(30, 70); z += rnd(-2, 2); if (coin()) z = -z; }
  else { z = 6; for (int i = rnd(1, 4); i-- > 0; ) z *= 1000003; if (coin()) z = -z; }
  if (nonzero && z == 0) z = coin() ? 1 : -1;
  return z;
}
inline Z rand_small_nz() { int k = rnd(1, 4); return Z(coin() ? k : -k); }

// ascii_dump text with the representation tokens neutralised.
inline std::string neutral(std::string s) {
  for (size_t p = 0; (p = s.find("SPARSE", p)) != std::string::npos; ) s.replace(p, 6, "REPR");
  for (size_t p = 0; (p = s.find("DENSE", p)) != std::string::npos; ) s.replace(p, 5, "REPR");
  return s;
}
template <typename T> inline std::string dump(const T& x) { std::ostringstream o; x.ascii_dump(o); return o.str(); }
template <typename T> inline std::string ndump(const T& x) { return neutral(dump(x)); }
inline std::string clip(const std::string& s, size_t n = 400) { return s.size() > n ? s.substr(0, n) + "..." : s; }

// Runs `f` in a forked child (the step may crash the process: sanitizer report,
// abort, SEGV).  Child exit code: 0 = step ran and f returned 0; 40..49 = f's verdict
// (47 = C++ exception); anything else = crash (sanitizers exit with 1 / 66 / 67 ...).  `headline` receives the first sanitizer headline, if any.
struct Fork_Result { bool crashed; int code; int sig; std::string headline; };
inline Fork_Result run_forked(const std::function<int()>& f) {
  Fork_Result R; R.crashed = false; R.code = 0; R.sig = 0;
  int pfd[2]; if (pipe(pfd) != 0) { R.crashed = false; R.code = 99; return R; }
  fflush(0);
  pid_t pid = fork();
  if (pid < 0) { close(pfd[0]); close(pfd[1]); R.code = 99; return R; }
  if (pid == 0) {
    close(pfd[0]); dup2(pfd[1], 2); close(pfd[1]);
    alarm(20);
    int rc = 98;
    try { rc = f(); } catch (const std::exception& e) { fprintf(stderr, "EXCEPTION %s: %s\n", typeid(e).name(), e.what()); rc = 47; } catch (...) { rc = 47; }
    _exit(rc);
  }
  close(pfd[1]);
  std::string err; char buf[4096]; ssize_t n;
  while ((n = read(pfd[0], buf, sizeof buf)) > 0) { if (err.size() < 65536) err.append(buf, (size_t) n); }
  close(pfd[0]);
  int status = 0; waitpid(pid, &status, 0);
  if (WIFSIGNALED(status)) { R.crashed = true; R.sig = WTERMSIG(status); }
  else { R.code = WEXITSTATUS(status); if (R.code != 0 && (R.code < 40 || R.code > 49)) R.crashed = true; }
  // headline
  size_t p = err.find("ERROR: AddressSanitizer: ");
  if (p != std::string::npos) { size_t a = p + 25, b = err.find_first_of(" \n", a); R.headline = "asan:" + err.substr(a, b - a); }
  else if ((p = err.find("runtime error: ")) != std::string::npos) { size_t b = err.find('\n', p); R.headline = "ubsan:" + err.substr(p + 15, b - p - 15); }
  else if ((p = err.find("Assertion")) != std::string::npos) { size_t b = err.find('\n', p); R.headline = err.substr(p, b - p); }
  else if ((p = err.find("EXCEPTION")) != std::string::npos) { size_t b = err.find('\n', p); R.headline = err.substr(p, b - p); }
  else if (R.sig) R.headline = "signal " + std::to_string(R.sig);
  // first PPL frames, for the detail
  std::string frames; size_t q = 0; int nf = 0;
  while (nf < 4 && (q = err.find(" in ", q)) != std::string::npos) { size_t e = err.find('\n', q); std::string l = err.substr(q + 4, e - q - 4); if (l.find("/repo/") != std::string::npos) { frames += " <- " + l.substr(0, 160); ++nf; } q = e == std::string::npos ? err.size() : e; }
  R.headline += frames;
  return R;
}

// A defect that silently corrupts an object (e.g. the truncating DENSE -> SPARSE copy leaves elements beyond the row
// size) may surface only steps later, in another operation.  Workloads name the corrupting configuration when they
// exercise it; every later violation of the same case carries it as its triage class.
inline std::string& poison() { static std::string p; return p; }
inline void viol(std::string key, const std::string& detail) {
  if (!poison().empty()) { size_t c = key.find(':'); key = key.substr(0, c) + ":" + poison(); }
  hx::violation(key, detail);
}

// Known-defect configurations are entered with a small probability `--kv <name>=<pct>` (so the defect stays
// reported under its own key without blinding the rest of the case), and never with `--kv assertsafe=1`
// (assertion-enabled builds, where each of them aborts the process in a PPL_ASSERT).
inline bool assert_safe() { static int v = -1; if (v < 0) v = hx::opt().geti("assertsafe", 0) ? 1 : 0; return v == 1; }
inline bool risky(const char* name, int dflt_pct) { if (assert_safe()) return false; return coin((int) hx::opt().geti(name, dflt_pct)); }

// logical-time guard shared by all sub-workloads
#define RD_GUARD_BEGIN try { pplx::Weight_Guard wg__(200000000ULL);
#define RD_GUARD_END(prop_site) } catch (const pplx::Logical_Timeout&) { hx::violation(std::string("C16.hang.") + (prop_site), "logical-time budget (weight 2e8) exceeded"); return; }

// sub-workloads (one case each)
void case_expr();      // rowdiff.cc        Linear_Expression twins + model
void case_alias();     // rowdiff.cc        aliased operands, forked (C13.row.alias.*)
void case_obj();       // rowdiff__obj.cc   Constraint / Generator / Congruence / Grid_Generator twins
void case_sys();       // rowdiff__obj.cc   the four systems + Polyhedron / Grid clients
void case_row();       // rowdiff__row.cc   Sparse_Row / Dense_Row vs std::map
void case_tree();      // rowdiff__row.cc   CO_Tree vs std::map

} // namespace rd
#endif
