// Random PPL argument generators and small helpers shared by engines.
#ifndef PPLX_HH
#define PPLX_HH
#include "hx.hh"
#include "pplconv.hh"
#ifdef BUGSENG_PPL_VERIF
#include "verif_hooks.hh"
#endif
#include "defs.hh"
#include <iostream>
#include <algorithm>

namespace pplx {
using namespace Parma_Polyhedra_Library;
using hx::rnd; using hx::coin;
using ref::Q; using ref::Vec; using ref::Sys; using ref::Con; using ref::Gens; using ref::Gen; using ref::ESys;

template <typename T> inline std::string str(const T& x) { using namespace Parma_Polyhedra_Library::IO_Operators; std::ostringstream o; o << x; return o.str(); }
inline std::string show(const Vec& x) { std::ostringstream o; o << "("; for (size_t i = 0; i < x.size(); ++i) o << (i ? "," : "") << x[i]; o << ")"; return o.str(); }
inline std::string show(const Con& c) { std::ostringstream o; for (size_t i = 0; i < c.a.size(); ++i) o << (i ? " " : "") << c.a[i]; o << (c.rel == ref::LE ? " <= " : c.rel == ref::LT ? " < " : " == ") << c.b; return o.str(); }
inline std::string show(const Sys& s) { std::ostringstream o; o << "{"; for (size_t i = 0; i < s.size(); ++i) o << (i ? "; " : "") << show(s[i]); o << "}"; return o.str(); }

inline int small_coeff(int maxc) {
  // mostly small, occasionally large
  int k = rnd(0, 99);
  if (k < 92) return rnd(-maxc, maxc);
  if (k < 97) return rnd(-40, 40);
  return coin() ? rnd(-1000003, 1000003) : (coin() ? 7 : -7) * 1000;
}
inline Linear_Expression rand_expr(int n, int maxc = 3, int pct_zero = 40) {
  Linear_Expression e;
  for (int i = 0; i < n; ++i) if (!coin(pct_zero)) e += small_coeff(maxc) * Variable(i);
  e += small_coeff(4);
  return e;
}
inline Constraint rand_con(int n, bool strict_ok) {
  Linear_Expression e = rand_expr(n);
  int k = rnd(0, strict_ok ? 9 : 6);
  if (k < 5) return e >= 0;
  if (k < 7) return e == 0;
  return e > 0;
}
inline Generator rand_gen(int n, bool nnc, bool must_point) {
  Linear_Expression e;
  for (int i = 0; i < n; ++i) if (!coin(30)) e += rnd(-4, 4) * Variable(i);
  int k = must_point ? 0 : rnd(0, nnc ? 9 : 7);
  if (n == 0) k = (k >= 8) ? 8 : 0;
  if (k < 4) return point(e, rnd(1, 3));
  if (k < 6) { if (e.all_homogeneous_terms_are_zero()) e += Variable(rnd(0, n - 1)); return ray(e); }
  if (k < 8) { if (e.all_homogeneous_terms_are_zero()) e += Variable(rnd(0, n - 1)); return line(e); }
  return closure_point(e, rnd(1, 3));
}
inline Congruence rand_cg(int n, int maxmod = 3) {
  Linear_Expression e = rand_expr(n);
  int m = rnd(0, maxmod);
  return (e %= 0) / m;
}
static const Relation_Symbol REL5[5] = { LESS_THAN, LESS_OR_EQUAL, EQUAL, GREATER_OR_EQUAL, GREATER_THAN };
static const char* const REL5S[5] = { "<", "<=", "==", ">=", ">" };
inline int rand_den() { return coin(70) ? rnd(1, 3) : -rnd(1, 3); }


// ---------- logical-time watchdog (PPL's own deterministic weight counter) ----------
// A step whose computational weight exceeds the budget is abandoned at PPL's next
// abandonment checkpoint by throwing Logical_Timeout: hangs are detected in logical
// time, never by wall clock.
class Logical_Timeout : virtual public std::exception, public Throwable {
public:
  const char* what() const throw() { return "logical-time budget exceeded"; }
  void throw_me() const { throw *this; }
  int priority() const { return 0; }
  ~Logical_Timeout() throw() {}
};
inline void logical_timeout_handler() { throw Logical_Timeout(); }
typedef Threshold_Watcher<Weightwatch_Traits> Weightwatch;
struct Weight_Guard {
  Weightwatch ww; unsigned long long start;
  explicit Weight_Guard(unsigned long long budget) : ww(budget, logical_timeout_handler), start(Weightwatch_Traits::weight) {}
  unsigned long long used() const { return Weightwatch_Traits::weight - start; }
};
inline void note_weight(const char* name, unsigned long long w) {
  std::map<std::string, unsigned long>& c = hx::st().counters; std::string k = std::string("max_weight.") + name;
  if (c[k] < w) c[k] = w;
}

// ---------- reach counters from the guarded hooks in /repo (evidence that the anchored mechanisms ran) ----------
#ifdef BUGSENG_PPL_VERIF
inline void dump_reach() {
  namespace V = Parma_Polyhedra_Library::Implementation::Verif;
  for (int i = 0; i < V::PPL_VR_COUNT; ++i) if (V::reach[i]) hx::count(std::string("reach.") + V::reach_names[i], V::reach[i]);
}
inline bool register_reach_dump() { static bool done = false; if (!done) { done = true; hx::exit_hooks().push_back(&dump_reach); } return true; }
static const bool reach_dump_registered = register_reach_dump();
#endif

} // namespace pplx
#endif
