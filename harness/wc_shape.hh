// widenchain — PPL-side helpers common to the weakly-relational shapes and boxes.
#ifndef WC_SHAPE_HH
#define WC_SHAPE_HH
#include "wc_convex.hh"

namespace wc {

// syntactic classes of a constraint: number of variables, coefficients
struct ConShape { int nvars; int i, j; mpz_class ci, cj; };
inline ConShape con_shape(const Constraint& c) {
  ConShape s; s.nvars = 0; s.i = s.j = -1;
  for (int d = 0; d < (int) c.space_dimension(); ++d) { mpz_class k(c.coefficient(Variable(d))); if (k == 0) continue; if (s.nvars == 0) { s.i = d; s.ci = k; } else if (s.nvars == 1) { s.j = d; s.cj = k; } ++s.nvars; }
  return s;
}
inline bool is_interval_con(const Constraint& c) { return con_shape(c).nvars <= 1; }
inline bool is_bd_con(const Constraint& c) { ConShape s = con_shape(c); return s.nvars <= 1 || (s.nvars == 2 && s.ci == -s.cj); }
inline bool is_oct_con(const Constraint& c) { ConShape s = con_shape(c); return s.nvars <= 1 || (s.nvars == 2 && abs(s.ci) == abs(s.cj)); }

// kind: 0 interval, 1 bounded difference, 2 octagonal; ~20% of the directions are not representable on purpose
inline std::vector<int> shape_direction(int n, int kind) {
  std::vector<int> a(n, 0);
  if (n == 0) return a;
  if (coin(18)) { for (int i = 0; i < n; ++i) a[i] = coin(35) ? 0 : rnd(-3, 3); return a; }
  int i = rnd(0, n - 1), s = coin() ? 1 : -1, m = coin(80) ? 1 : rnd(2, 3);
  a[i] = s * m;
  if (kind >= 1 && n >= 2 && coin(55)) { int j = rnd(0, n - 2); if (j >= i) ++j; a[j] = (kind == 2 && coin()) ? s * m : -s * m; }
  return a;
}

template <class D> D shape_from_cons(int n, const std::vector<Constraint>& cv) { D d(n, UNIVERSE); for (size_t i = 0; i < cv.size(); ++i) d.refine_with_constraint(cv[i]); return d; }
template <class D> D shape_from_gens(int n, const std::vector<Generator>& gv) {
  C_Polyhedron p(n, EMPTY);
  for (size_t i = 0; i < gv.size(); ++i) if (gv[i].is_point()) p.add_generator(gv[i]);
  for (size_t i = 0; i < gv.size(); ++i) if (!gv[i].is_point()) p.add_generator(gv[i]);
  return D(p);
}

// representation twins of a shape / box
template <class D> D shape_twin(const D& p, int how, std::string& desc, bool has_poly_ctor = true) {
  static const char* nm[7] = { "cons-shuffled", "closed", "reduced", "ascii", "via-poly", "mincons", "weaker-first" };
  desc = nm[how];
  int n = p.space_dimension();
  D c(p);
  switch (how) {
  case 0: case 5: case 6: {
    if (D(p).is_empty()) { D e(n, EMPTY); return e; }
    Constraint_System cs = (how == 5) ? c.minimized_constraints() : c.constraints();
    std::vector<Constraint> v(cs.begin(), cs.end()); std::shuffle(v.begin(), v.end(), hx::rng());
    D q(n, UNIVERSE);
    for (size_t i = 0; i < v.size(); ++i) {
      if (how == 6 && v[i].is_nonstrict_inequality()) { Linear_Expression e(v[i].expression()); e += rnd(1, 3); q.add_constraint(e >= 0); }
      q.add_constraint(v[i]);
    }
    return q; }
  case 1: (void) c.is_empty(); return c;
  case 2: (void) c.minimized_constraints(); return c;
  case 3: { std::ostringstream o; p.ascii_dump(o); std::istringstream in(o.str()); D q(0); if (!q.ascii_load(in)) return c; return q; }
  default: {
    if (D(p).is_empty()) { D e(n, EMPTY); return e; }
    NNC_Polyhedron ph(n, UNIVERSE); ph.add_constraints(c.constraints()); return D(ph); }
  }
}

inline int shape_h79_compare(const Constraint_System& ycs, const Constraint_System& zcs, int n) {
  C_Polyhedron py(n, UNIVERSE), pz(n, UNIVERSE); py.add_constraints(ycs); pz.add_constraints(zcs);
  const Polyhedron& a = py; const Polyhedron& b = pz;
  H79_Certificate c(a); return c.compare(b);
}

} // namespace wc
#endif
