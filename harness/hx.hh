// hx — tiny runtime shared by every verification engine.
//
// An engine is a process that runs `count` cases starting at case index
// `first`; each case is a deterministic function of (seed, case index).
// It appends JSON lines to --out:
//   {"t":"c","i":<case>}                    case about to start (crash marker)
//   {"t":"v","key":..,"case":..,"detail":..,"trace":..}   oracle refuted a property
//   {"t":"s", ...cumulative counters, new distinct hashes, samples}   summary
// The driver (bin/check) owns verdicts, known-finding matching and evidence.
#ifndef HX_HH
#define HX_HH
#include <cstdio>
#include <cstdlib>
#include <cstring>
#include <cstdint>
#include <string>
#include <sstream>
#include <vector>
#include <map>
#include <set>
#include <random>
#include <functional>
#include <exception>
#include <typeinfo>
#include <unistd.h>

namespace hx {

struct Opts {
  std::string prop, profile, out;
  uint64_t seed; long first, count; bool verbose; bool thorough;
  std::map<std::string, std::string> kv;
  Opts() : profile("default"), seed(1), first(0), count(100), verbose(false), thorough(false) {}
  long geti(const std::string& k, long dflt) const { std::map<std::string, std::string>::const_iterator i = kv.find(k); return i == kv.end() ? dflt : atol(i->second.c_str()); }
  std::string gets(const std::string& k, const std::string& dflt) const { std::map<std::string, std::string>::const_iterator i = kv.find(k); return i == kv.end() ? dflt : i->second; }
};
inline Opts& opt() { static Opts o; return o; }

inline uint64_t splitmix(uint64_t x) { x += 0x9e3779b97f4a7c15ULL; x = (x ^ (x >> 30)) * 0xbf58476d1ce4e5b9ULL; x = (x ^ (x >> 27)) * 0x94d049bb133111ebULL; return x ^ (x >> 31); }
inline uint64_t fnv(const std::string& s) { uint64_t h = 1469598103934665603ULL; for (size_t i = 0; i < s.size(); ++i) { h ^= (unsigned char) s[i]; h *= 1099511628211ULL; } return h; }

struct Rng {
  std::mt19937_64 g;
  void seed(uint64_t s) { g.seed(s); }
  uint64_t operator()() { return g(); }
  int rnd(int lo, int hi) { return lo + (int) (g() % (uint64_t) (hi - lo + 1)); }
  bool coin(int pct = 50) { return rnd(0, 99) < pct; }
  typedef uint64_t result_type;
  static constexpr uint64_t min() { return 0; }
  static constexpr uint64_t max() { return ~0ULL; }
};
inline Rng& rng() { static Rng r; return r; }
inline int rnd(int lo, int hi) { return rng().rnd(lo, hi); }
inline bool coin(int pct = 50) { return rng().coin(pct); }

struct State {
  FILE* out;
  long cur_case;
  std::string trace;
  std::map<std::string, unsigned long> counters;
  std::map<std::string, unsigned long> viol_count;
  std::set<uint64_t> distinct_all;
  std::vector<uint64_t> distinct_new;
  std::vector<std::string> samples;
  unsigned long checks, cases_done, violations, inconclusive;
  bool case_tainted;   // a violation was reported in the current case
  State() : out(0), cur_case(-1), checks(0), cases_done(0), violations(0), inconclusive(0), case_tainted(false) {}
};
inline State& st() { static State s; return s; }

inline std::string jesc(const std::string& s) {
  std::string o; o.reserve(s.size() + 8);
  for (size_t i = 0; i < s.size(); ++i) {
    unsigned char c = s[i];
    if (c == '"' || c == '\\') { o += '\\'; o += c; }
    else if (c == '\n') o += "\\n";
    else if (c == '\t') o += "\\t";
    else if (c < 0x20) { char b[8]; snprintf(b, sizeof b, "\\u%04x", c); o += b; }
    else o += c;
  }
  return o;
}

inline std::string& trace() { return st().trace; }
inline void tr(const std::string& s) {
  st().trace += s;
  if (opt().verbose) { fprintf(stderr, "op: %s\n", s.c_str()); fflush(stderr); }
}
inline void count(const std::string& name, unsigned long n = 1) { st().counters[name] += n; }
inline void checked(unsigned long n = 1) { st().checks += n; }
// Register one explored configuration; `nontrivial` by the engine's own rule.
inline void distinct(const std::string& token) {
  uint64_t h = fnv(token);
  if (st().distinct_all.insert(h).second) st().distinct_new.push_back(h);
}
inline void sample(const std::string& s) { if (st().samples.size() < 4) st().samples.push_back(s); }

inline void violation(const std::string& key, const std::string& detail) {
  State& S = st();
  ++S.violations; S.case_tainted = true;
  unsigned long k = S.viol_count[key]++;
  if (k < 5 && S.out) {
    fprintf(S.out, "{\"t\":\"v\",\"key\":\"%s\",\"case\":%ld,\"detail\":\"%s\",\"trace\":\"%s\"}\n",
            jesc(key).c_str(), S.cur_case, jesc(detail).c_str(), jesc(S.trace).c_str());
    fflush(S.out);
  }
  if (opt().verbose) fprintf(stderr, "VIOL %s :: %s\n", key.c_str(), detail.c_str());
}
inline void inconclusive(const std::string& reason) { ++st().inconclusive; count("inconclusive." + reason); }

inline std::vector<std::function<void()> >& exit_hooks() { static std::vector<std::function<void()> > v; return v; }

inline void write_summary(bool final) {
  State& S = st();
  if (!S.out) return;
  std::ostringstream o;
  o << "{\"t\":\"s\",\"final\":" << (final ? "true" : "false") << ",\"cases\":" << S.cases_done << ",\"checks\":" << S.checks
    << ",\"violations\":" << S.violations << ",\"inconclusive\":" << S.inconclusive << ",\"counters\":{";
  bool f = true;
  for (std::map<std::string, unsigned long>::iterator i = S.counters.begin(); i != S.counters.end(); ++i) { o << (f ? "" : ",") << "\"" << jesc(i->first) << "\":" << i->second; f = false; }
  o << "},\"viol_keys\":{"; f = true;
  for (std::map<std::string, unsigned long>::iterator i = S.viol_count.begin(); i != S.viol_count.end(); ++i) { o << (f ? "" : ",") << "\"" << jesc(i->first) << "\":" << i->second; f = false; }
  o << "},\"distinct\":["; f = true;
  for (size_t i = 0; i < S.distinct_new.size(); ++i) { char b[24]; snprintf(b, sizeof b, "\"%016llx\"", (unsigned long long) S.distinct_new[i]); o << (f ? "" : ",") << b; f = false; }
  S.distinct_new.clear();
  o << "],\"samples\":["; f = true;
  if (final) for (size_t i = 0; i < S.samples.size(); ++i) { o << (f ? "" : ",") << "\"" << jesc(S.samples[i]) << "\""; f = false; }
  o << "]}\n";
  fputs(o.str().c_str(), S.out); fflush(S.out);
}

inline void usage(const char* a0) { fprintf(stderr, "usage: %s [--prop P] [--profile X] --seed S --first F --count N --out FILE [--verbose] [--thorough] [--kv k=v]...\n", a0); }

// Parses the common command line and runs the case loop.
inline int main_loop(int argc, char** argv, const std::function<void(uint64_t)>& run_case,
                     const std::function<void()>& at_exit = std::function<void()>()) {
  Opts& O = opt();
  for (int i = 1; i < argc; ++i) {
    std::string a = argv[i];
    auto need = [&](const char* n) -> std::string { if (i + 1 >= argc) { fprintf(stderr, "missing value for %s\n", n); exit(2); } return argv[++i]; };
    if (a == "--prop") O.prop = need("--prop");
    else if (a == "--profile") O.profile = need("--profile");
    else if (a == "--seed") O.seed = strtoull(need("--seed").c_str(), 0, 10);
    else if (a == "--first") O.first = atol(need("--first").c_str());
    else if (a == "--count") O.count = atol(need("--count").c_str());
    else if (a == "--out") O.out = need("--out");
    else if (a == "--verbose") O.verbose = true;
    else if (a == "--thorough") O.thorough = true;
    else if (a == "--kv") { std::string kv = need("--kv"); size_t e = kv.find('='); if (e == std::string::npos) O.kv[kv] = "1"; else O.kv[kv.substr(0, e)] = kv.substr(e + 1); }
    else { usage(argv[0]); return 2; }
  }
  State& S = st();
  if (!O.out.empty()) { S.out = fopen(O.out.c_str(), "a"); if (!S.out) { perror("open --out"); return 2; } }
  else S.out = stdout;
  for (long c = O.first; c < O.first + O.count; ++c) {
    S.cur_case = c; S.trace.clear(); S.case_tainted = false;
    fprintf(S.out, "{\"t\":\"c\",\"i\":%ld}\n", c); fflush(S.out);
    uint64_t cs = splitmix(splitmix(O.seed) ^ splitmix((uint64_t) c * 0x9e3779b97f4a7c15ULL + 12345));
    rng().seed(cs);
    if (O.verbose) fprintf(stderr, "case %ld seed %llu\n", c, (unsigned long long) cs);
    try { run_case(cs); }
    catch (const std::exception& e) { violation(std::string("harness.uncaught.") + typeid(e).name(), e.what()); }
    ++S.cases_done;
    if (S.samples.size() < 4 && !S.trace.empty() && (c - O.first) % 37 == 0) sample(S.trace.size() > 1500 ? S.trace.substr(0, 1500) + "..." : S.trace);
    if ((c - O.first) % 64 == 63) write_summary(false);
  }
  if (at_exit) at_exit();
  for (size_t i = 0; i < exit_hooks().size(); ++i) exit_hooks()[i]();
  write_summary(true);
  if (S.out != stdout) fclose(S.out);
  return 0;
}

} // namespace hx
#endif
