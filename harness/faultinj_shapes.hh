// faultinj_shapes.hh — scenarios and rejected calls shared by the weakly-relational
// domains (BD_Shape<T>, Octagonal_Shape<T>, Box<ITV>); one TU per instantiation includes
// this header and says  FI_REGISTER_SHAPE(Type, "Name", kind, big).
#ifndef FAULTINJ_SHAPES_HH
#define FAULTINJ_SHAPES_HH
#include "faultinj.hh"

namespace fi {
enum ShapeKind { K_BD = 0, K_OCT = 1, K_BOX = 2 };

// S: the domain; K: ShapeKind; BIG: bounds may be multi-limb (exact rational T)
template <typename S, int K, bool BIG> struct Shapes {
  static std::string& name() { static std::string n; return n; }
  static int rdim() { return rnd(1, hx::opt().thorough ? 4 : 3); }
  static Coefficient rbound(int around) {
    if (BIG && coin(15)) { Coefficient c = bigc(rnd(-3, 3)); return coin() ? c : Coefficient(-c); }
    return Coefficient(around + rnd(0, 6));
  }
  // left-hand side of a representable constraint
  static Linear_Expression rlhs(int n) {
    int i = rnd(0, n - 1), j = rnd(0, n - 1);
    int form = rnd(0, K == K_BOX ? 1 : (K == K_BD ? 2 : 4));
    if (i == j && form >= 2) form = rnd(0, 1);
    Linear_Expression e;
    switch (form) {
    case 0: e = Linear_Expression(Variable(i)); break;
    case 1: e = -Variable(i); break;
    case 2: e = Variable(i) - Variable(j); break;
    case 3: e = Variable(i) + Variable(j); break;
    default: e = -Variable(i) - Variable(j); break;
    }
    return e;
  }
  // a representable constraint satisfied by pt
  static Constraint rcon(int n, const std::vector<int>& pt) {
    Linear_Expression e = rlhs(n);
    Coefficient v = eval(e, pt);
    int s = coin(20) ? rnd(2, 3) : 1;       // scaled: still representable, rounds on integer T
    int r = rnd(0, 9);
    if (r < 8) { Coefficient b = v * s + (BIG && coin(12) ? bigc(1) : Coefficient(rnd(0, 6))); return s * e <= b; }
    return s * e == v * s;
  }
  static Constraint_System rcs(int n, const std::vector<int>& pt, int m) { Constraint_System cs; for (int i = 0; i < m; ++i) cs.insert(rcon(n, pt)); return cs; }
  static S rshape(int n, int m = -1, bool may_be_empty = true) {
    if (n == 0) return (may_be_empty && coin(30)) ? S(0, EMPTY) : S(0);
    if (m < 0) m = rnd(1, 5);
    std::vector<int> pt = rpoint(n);
    S s(n);
    s.add_constraints(rcs(n, pt, m));
    int st = rnd(0, 5);
    if (st == 0) (void) s.is_empty();                   // closure / emptiness computed
    else if (st == 1) (void) s.minimized_constraints(); // reduced form computed
    else if (st == 2) { (void) s.is_empty(); s.add_constraint(rcon(n, pt)); }   // closed, then perturbed
    else if (st == 3 && may_be_empty && coin(30)) s = S(n, EMPTY);
    return s;
  }
  static S fresh(int n) { S s(n); if (n > 0) { s.add_constraint(Variable(0) >= -1); s.add_constraint(Variable(n - 1) <= 4); } return s; }
  static void use(S& s) {
    int n = (int) s.space_dimension();
    (void) s.is_empty();
    if (n > 0) s.add_constraint(Variable(0) <= 5);
    (void) s.minimized_constraints();
    (void) s.is_bounded();
    S t(s); t.upper_bound_assign(s); (void) t.contains(s);
  }
  static std::string val(const S& s) { S q(s); std::ostringstream o; o << q.space_dimension() << ":" << pplx::str(q.minimized_constraints()); return o.str(); }
  static bool eq(const S& a, const S& b) { return a.space_dimension() == b.space_dimension() && a == b; }
  static void postS(Ctx& c, const char* what, S& s) { c.post(what, s, fresh((int) s.space_dimension()), use, eq); }

  // ---------------------------------------------------------------- scenarios
  static void s_add_constraints(Ctx& c) {
    int n = rdim(); S s = rshape(n); Constraint_System cs = rcs(n, rpoint(n), rnd(1, 4));
    c.run([&] { s.add_constraints(cs); (void) s.minimized_constraints(); });
    c.result([&] { return val(s); });
    postS(c, "s", s);
  }
  static void s_add_constraint(Ctx& c) {
    int n = rdim(); S s = rshape(n); Constraint k = rcon(n, rpoint(n));
    c.run([&] { s.add_constraint(k); (void) s.is_empty(); });
    c.result([&] { return val(s); });
    postS(c, "s", s);
  }
  static void s_refine(Ctx& c) {
    int n = rdim(); S s = rshape(n);
    Constraint_System cs; for (int i = rnd(1, 3); i > 0; --i) cs.insert(pplx::rand_con(n, true));
    Congruence_System cgs; cgs.insert(pplx::rand_cg(n));
    c.run([&] { s.refine_with_constraints(cs); s.refine_with_congruences(cgs); (void) s.is_empty(); });
    c.result([&] { return val(s); });
    postS(c, "s", s);
  }
  static void s_closure(Ctx& c) {
    int n = rdim(); std::vector<int> pt = rpoint(n);
    S s(n); s.add_constraints(rcs(n, pt, rnd(2, 7)));
    c.run([&] { (void) s.minimized_constraints(); (void) s.is_empty(); });
    c.result([&] { return val(s); });
    postS(c, "s", s);
  }
  enum Bin { MEET, JOIN, JOIN_EXACT, DIFF, TELAPSE, CONCAT, SIMPLIFY, QUERIES };
  template <int OP> static void s_binary(Ctx& c) {
    int n = rdim(); S a = rshape(n), b = rshape(OP == CONCAT ? rnd(0, 2) : n);
    bool b1 = false, b2 = false, b3 = false;
    c.run([&] {
      switch (OP) {
      case MEET: a.intersection_assign(b); break;
      case JOIN: a.upper_bound_assign(b); break;
      case JOIN_EXACT: b1 = a.upper_bound_assign_if_exact(b); break;
      case DIFF: a.difference_assign(b); break;
      case TELAPSE: a.time_elapse_assign(b); break;
      case CONCAT: a.concatenate_assign(b); break;
      case SIMPLIFY: b1 = a.simplify_using_context_assign(b); break;
      case QUERIES: b1 = a.contains(b); b2 = a.is_disjoint_from(b); b3 = a.strictly_contains(b); break;
      }
      (void) a.minimized_constraints();
    });
    c.result([&] { return val(a) + (b1 ? "T" : "F") + (b2 ? "T" : "F") + (b3 ? "T" : "F"); });
    postS(c, "a", a); postS(c, "b", b);
  }
  enum Aff { IMG, PRE, GIMG, GIMG2, GPRE, GPRE2, BIMG, BPRE };
  template <int OP> static void s_affine(Ctx& c) {
    int n = rdim(); S s = rshape(n); Variable v(rnd(0, n - 1));
    // mostly expressible right-hand sides, sometimes general ones
    Linear_Expression e = coin(60) ? Linear_Expression(rlhs(n) + rnd(-3, 3)) : rexpr(n), f = coin(60) ? Linear_Expression(rlhs(n) + rnd(-3, 3)) : rexpr(n);
    if (!BIG) { e = coin(70) ? Linear_Expression(rlhs(n) + rnd(-3, 3)) : pplx::rand_expr(n); f = coin(70) ? Linear_Expression(rlhs(n) + rnd(-3, 3)) : pplx::rand_expr(n); }
    Coefficient d = rnd(-2, 3); if (d == 0) d = 1;
    Relation_Symbol rel = pplx::REL5[K == K_BOX ? rnd(0, 4) : rnd(1, 3)];
    c.run([&] {
      switch (OP) {
      case IMG: s.affine_image(v, e, d); break;
      case PRE: s.affine_preimage(v, e, d); break;
      case GIMG: s.generalized_affine_image(v, rel, e, d); break;
      case GIMG2: s.generalized_affine_image(Linear_Expression(v) + rnd(0, 1) * Variable(rnd(0, n - 1)), rel, f); break;
      case GPRE: s.generalized_affine_preimage(v, rel, e, d); break;
      case GPRE2: s.generalized_affine_preimage(Linear_Expression(v), rel, f); break;
      case BIMG: s.bounded_affine_image(v, e, f, d); break;
      case BPRE: s.bounded_affine_preimage(v, e, f, d); break;
      }
      (void) s.minimized_constraints();
    });
    c.result([&] { return val(s); });
    postS(c, "s", s);
  }
  enum Wid { W1, W2, LIM1, LIM2 };
  template <int OP> static void s_widen(Ctx& c) {
    int n = rdim(); std::vector<int> pt = rpoint(n);
    S large(n); large.add_constraints(rcs(n, pt, rnd(1, 4)));
    S small(large); small.add_constraints(rcs(n, pt, rnd(1, 3)));
    if (coin()) (void) small.is_empty();
    if (coin()) (void) large.minimized_constraints();
    Constraint_System cs = rcs(n, pt, rnd(1, 3));
    unsigned tokens = rnd(0, 1); bool wt = coin(30);
    c.run([&] { unsigned* tp = wt ? &tokens : 0; widen<OP>(large, small, cs, tp); (void) large.minimized_constraints(); });
    c.result([&] { return val(large); });
    postS(c, "large", large); postS(c, "small", small);
  }
  template <int OP, typename X> static typename std::enable_if<(K != K_BOX) && sizeof(X) != 0>::type
  widen_impl(X& large, const X& small, const Constraint_System& cs, unsigned* tp) {
    switch (OP) {
    case W1: large.CC76_extrapolation_assign(small, tp); break;
    case W2: large.BHMZ05_widening_assign(small, tp); break;
    case LIM1: large.limited_CC76_extrapolation_assign(small, cs, tp); break;
    default: large.limited_BHMZ05_extrapolation_assign(small, cs, tp); break;
    }
  }
  template <int OP, typename X> static typename std::enable_if<(K == K_BOX) && sizeof(X) != 0>::type
  widen_impl(X& large, const X& small, const Constraint_System& cs, unsigned* tp) {
    switch (OP) {
    case W1: case W2: large.CC76_widening_assign(small, tp); break;
    default: large.limited_CC76_extrapolation_assign(small, cs, tp); break;
    }
  }
  template <int OP> static void widen(S& large, const S& small, const Constraint_System& cs, unsigned* tp) { widen_impl<OP, S>(large, small, cs, tp); }

  struct PFunc {
    std::vector<long> m;
    bool has_empty_codomain() const { for (size_t i = 0; i < m.size(); ++i) if (m[i] >= 0) return false; return true; }
    dimension_type max_in_codomain() const { long r = 0; for (size_t i = 0; i < m.size(); ++i) if (m[i] > r) r = m[i]; return (dimension_type) r; }
    bool maps(dimension_type i, dimension_type& j) const { if (i >= m.size() || m[i] < 0) return false; j = (dimension_type) m[i]; return true; }
  };
  enum Dim { EMBED, PROJECT, REMOVE, REMOVE_HIGHER, EXPAND, FOLD, MAP, UNCONSTRAIN, WRAP, DROP_NONINT, TOPCLOSURE };
  template <int OP> static void s_dims(Ctx& c) {
    int n = rdim(); S s = rshape(n);
    Variables_Set vs; for (int i = 0; i < n; ++i) if (coin(40)) vs.insert(Variable(i));
    int m = rnd(1, 3); Variable v(rnd(0, n - 1));
    Variables_Set fold_vs; for (int i = 0; i < n; ++i) if (i != (int) v.id() && coin()) fold_vs.insert(Variable(i));
    PFunc pf; pf.m.assign(n, -1);
    { std::vector<int> keep; for (int i = 0; i < n; ++i) if (coin(70)) keep.push_back(i); std::vector<int> img; for (size_t i = 0; i < keep.size(); ++i) img.push_back((int) i); std::shuffle(img.begin(), img.end(), hx::rng()); for (size_t i = 0; i < keep.size(); ++i) pf.m[keep[i]] = img[i]; }
    Constraint_System wcs;   // the guard of wrap_assign may only mention wrapped variables
    if (coin() && !vs.empty()) { Variable wv(*vs.begin()); wcs.insert(wv >= rnd(-3, 0)); if (coin()) wcs.insert(wv <= rnd(1, 200)); }
    c.run([&] {
      switch (OP) {
      case EMBED: s.add_space_dimensions_and_embed(m); break;
      case PROJECT: s.add_space_dimensions_and_project(m); break;
      case REMOVE: s.remove_space_dimensions(vs); break;
      case REMOVE_HIGHER: s.remove_higher_space_dimensions(rnd(0, n)); break;
      case EXPAND: s.expand_space_dimension(v, m); break;
      case FOLD: s.fold_space_dimensions(fold_vs, v); break;
      case MAP: s.map_space_dimensions(pf); break;
      case UNCONSTRAIN: if (coin()) s.unconstrain(v); else s.unconstrain(vs); break;
      case WRAP: s.wrap_assign(vs, BITS_8, coin() ? UNSIGNED : SIGNED_2_COMPLEMENT, coin() ? OVERFLOW_WRAPS : OVERFLOW_UNDEFINED, &wcs, 4, coin()); break;
      case DROP_NONINT: if (coin()) s.drop_some_non_integer_points(); else s.drop_some_non_integer_points(vs); break;
      case TOPCLOSURE: s.topological_closure_assign(); break;
      }
      (void) s.minimized_constraints();
    });
    c.result([&] { return val(s); });
    postS(c, "s", s);
  }
  enum Cpy { COPY, ASSIGN, SWAP, GETTERS, FROM_POLY, FROM_GENS, FROM_GRID, TO_POLY };
  template <int OP> static void s_copy(Ctx& c) {
    int n = rdim(); S a = rshape(n), b = rshape(rnd(0, 3));
    C_Polyhedron ph = rpoly<C_Polyhedron>(n); NNC_Polyhedron nph = rpoly<NNC_Polyhedron>(n);
    Generator_System gs = rgs(n, false, rnd(1, 4));
    Grid gr(n); gr.add_congruence((Variable(0) %= 1) / 2); if (coin()) gr.add_constraint(Variable(n - 1) == 2);
    Complexity_Class cx = coin(40) ? POLYNOMIAL_COMPLEXITY : coin() ? SIMPLEX_COMPLEXITY : ANY_COMPLEXITY;
    c.run([&] {
      switch (OP) {
      case COPY: { S t(a); (void) t.minimized_constraints(); break; }
      case ASSIGN: b = a; break;
      case SWAP: { S t(a); t.m_swap(b); swap(t, b); break; }
      case GETTERS: { Constraint_System cs(a.constraints()); Constraint_System mcs(a.minimized_constraints()); Congruence_System cg(a.congruences()); Congruence_System mcg(a.minimized_congruences()); S t(cs); S u(cg); b.m_swap(t); break; }
      case FROM_POLY: { S t(ph, cx); S u(nph, cx); t.upper_bound_assign(u); b.m_swap(t); break; }
      case FROM_GENS: { S t(gs); b.m_swap(t); break; }
      case FROM_GRID: { S t(gr, cx); b.m_swap(t); break; }
      case TO_POLY: { C_Polyhedron p1(a, cx); NNC_Polyhedron p2(a, cx); (void) p1.minimized_generators(); S t(p1); b.m_swap(t); break; }
      }
    });
    c.result([&] { return val(a) + val(b); });
    postS(c, "a", a); postS(c, "b", b);
  }
  enum Io { DUMP, LOAD, PRINT };
  template <int OP> static void s_io(Ctx& c) {
    int n = rdim(); S a = rshape(n), b(rnd(0, 2));
    std::string text = dump(a), out; bool ok = true;
    c.run([&] {
      switch (OP) {
      case DUMP: { std::ostringstream o; a.ascii_dump(o); out = o.str(); break; }
      case LOAD: { std::istringstream i(text); ok = b.ascii_load(i); break; }
      case PRINT: { std::ostringstream o; using namespace IO_Operators; o << a; out = o.str(); break; }
      }
    });
    c.result([&] { return val(a) + (OP == LOAD ? val(b) : std::string()) + (ok ? "T" : "F") + (OP == PRINT ? std::string() : out); });
    if (OP == LOAD && !c.threw && c.mode <= COUNT && (!ok || !(b == a))) c.fail("ascii_load_failed", "ascii_load of an ascii_dump failed without any injected failure");
    postS(c, "a", a); postS(c, "b", b);
  }
  enum Qry { MAXMIN, RELATION, PREDICATES, FREQUENCY };
  template <int OP> static void s_query(Ctx& c) {
    int n = rdim(); S s = rshape(n);
    Linear_Expression e = coin() ? Linear_Expression(rlhs(n)) : pplx::rand_expr(n);
    Constraint k = coin() ? rcon(n, rpoint(n)) : pplx::rand_con(n, true); Generator g = pplx::rand_gen(n, false, false); Congruence cg = pplx::rand_cg(n);
    std::ostringstream r;
    c.run([&] {
      Coefficient a, b, f1, f2; bool mx; Generator w = point();
      switch (OP) {
      case MAXMIN: r << s.maximize(e, a, b, mx, w) << s.minimize(e, a, b, mx) << s.bounds_from_above(e) << s.bounds_from_below(e); break;
      case RELATION: r << s.relation_with(k).implies(Poly_Con_Relation::is_included()) << s.relation_with(g).implies(Poly_Gen_Relation::subsumes()) << s.relation_with(cg).implies(Poly_Con_Relation::is_disjoint()); break;
      case PREDICATES: r << s.is_empty() << s.is_universe() << s.is_bounded() << s.is_topologically_closed() << s.is_discrete() << s.contains_integer_point() << s.constrains(Variable(0)) << s.affine_dimension(); break;
      case FREQUENCY: r << s.frequency(e, a, b, f1, f2); break;
      }
    });
    c.result([&] { return val(s) + r.str(); });
    postS(c, "s", s);
  }

  // ---------------------------------------------------------------- rejected calls
  // (expected types: the \exception clauses of BD_Shape_defs.hh / Octagonal_Shape_defs.hh / Box_defs.hh)
  template <typename F> static void rej(RCtx& r, const char* expected, F f) {
    S s = rshape(2, -1, false), t = rshape(3, -1, false); S s0(s), t0(t);     // non-empty receivers: the class of the key is then a function of the call alone
    r.call(expected, [&] { f(s, t); });
    r.unchanged("receiver", s, s0); r.unchanged("argument", t, t0);
  }
#define FI_SH_REJ(fname, expected, stmt) static void fname(RCtx& r) { Variable x(0), y(1), z(2); (void) x; (void) y; (void) z; rej(r, expected, [&](S& s, S& t) { (void) s; (void) t; stmt; }); }
  FI_SH_REJ(r_addc_dim, "invalid_argument", s.add_constraint(z <= 1))
  FI_SH_REJ(r_addc_nonrep, "invalid_argument", if (K == K_BOX) s.add_constraint(x - y <= 1); else s.add_constraint(x + 2 * y <= 3))
  FI_SH_REJ(r_addc_nonrep2, "invalid_argument", if (K == K_OCT) s.add_constraint(3 * x - y <= 1); else s.add_constraint(x + y <= 1))
  FI_SH_REJ(r_addc_strict, "invalid_argument", if (K == K_BOX) s.add_constraint(x + y < 1); else s.add_constraint(x < 1))
  FI_SH_REJ(r_addcs_dim, "invalid_argument", Constraint_System cs; cs.insert(x <= 1); cs.insert(z >= 0); s.add_constraints(cs))
  FI_SH_REJ(r_addcs_nonrep, "invalid_argument", Constraint_System cs; cs.insert(x <= 1); cs.insert(2 * x - 3 * y >= 0); s.add_constraints(cs))
  FI_SH_REJ(r_addrcs_nonrep, "invalid_argument", Constraint_System cs; cs.insert(y <= 1); cs.insert(2 * x - 3 * y >= 0); s.add_recycled_constraints(cs))
  FI_SH_REJ(r_addcg_dim, "invalid_argument", s.add_congruence((z %= 1) / 0))
  FI_SH_REJ(r_addcg_nonrep, "invalid_argument", s.add_congruence((x + y %= 1) / 2))
  FI_SH_REJ(r_addcgs_nonrep, "invalid_argument", Congruence_System cgs; cgs.insert((x %= 1) / 0); cgs.insert((x - y %= 1) / 3); s.add_congruences(cgs))
  FI_SH_REJ(r_refc_dim, "invalid_argument", s.refine_with_constraint(z <= 1))
  FI_SH_REJ(r_refcg_dim, "invalid_argument", s.refine_with_congruence((z %= 1) / 2))
  FI_SH_REJ(r_meet_dim, "invalid_argument", s.intersection_assign(t))
  FI_SH_REJ(r_join_dim, "invalid_argument", s.upper_bound_assign(t))
  FI_SH_REJ(r_joinx_dim, "invalid_argument", (void) s.upper_bound_assign_if_exact(t))
  FI_SH_REJ(r_diff_dim, "invalid_argument", s.difference_assign(t))
  FI_SH_REJ(r_telapse_dim, "invalid_argument", s.time_elapse_assign(t))
  FI_SH_REJ(r_simplify_dim, "invalid_argument", (void) s.simplify_using_context_assign(t))
  FI_SH_REJ(r_contains_dim, "invalid_argument", (void) s.contains(t))
  FI_SH_REJ(r_disjoint_dim, "invalid_argument", (void) s.is_disjoint_from(t))
  FI_SH_REJ(r_img_den0, "invalid_argument", s.affine_image(x, y + 1, 0))
  FI_SH_REJ(r_img_var, "invalid_argument", s.affine_image(z, y + 1, 1))
  FI_SH_REJ(r_img_expr, "invalid_argument", s.affine_image(x, z + 1, 1))
  FI_SH_REJ(r_pre_den0, "invalid_argument", s.affine_preimage(x, y + 1, 0))
  FI_SH_REJ(r_pre_var, "invalid_argument", s.affine_preimage(z, y + 1, 1))
  FI_SH_REJ(r_pre_expr, "invalid_argument", s.affine_preimage(x, z + 1, 1))
  FI_SH_REJ(r_gimg_den0, "invalid_argument", s.generalized_affine_image(x, LESS_OR_EQUAL, y + 1, 0))
  FI_SH_REJ(r_gimg_expr, "invalid_argument", s.generalized_affine_image(x, LESS_OR_EQUAL, z + 1, 1))
  FI_SH_REJ(r_gimg_strict, "invalid_argument", s.generalized_affine_image(x, LESS_THAN, y + 1, 1))
  FI_SH_REJ(r_gimg_ne, "invalid_argument", s.generalized_affine_image(x, NOT_EQUAL, y + 1, 1))
  FI_SH_REJ(r_gimg2_dim, "invalid_argument", s.generalized_affine_image(x + z, LESS_OR_EQUAL, y))
  FI_SH_REJ(r_gimg2_strict, "invalid_argument", s.generalized_affine_image(Linear_Expression(x), GREATER_THAN, y))
  FI_SH_REJ(r_gpre_den0, "invalid_argument", s.generalized_affine_preimage(x, LESS_OR_EQUAL, y + 1, 0))
  FI_SH_REJ(r_gpre_var, "invalid_argument", s.generalized_affine_preimage(z, LESS_OR_EQUAL, y + 1, 1))
  FI_SH_REJ(r_bimg_den0, "invalid_argument", s.bounded_affine_image(x, y, y + 1, 0))
  FI_SH_REJ(r_bimg_lb, "invalid_argument", s.bounded_affine_image(x, z, y + 1, 1))
  FI_SH_REJ(r_bimg_var, "invalid_argument", s.bounded_affine_image(z, y, y + 1, 1))
  FI_SH_REJ(r_bpre_den0, "invalid_argument", s.bounded_affine_preimage(x, y, y + 1, 0))
  FI_SH_REJ(r_bpre_ub, "invalid_argument", s.bounded_affine_preimage(x, y, z + 1, 1))
  FI_SH_REJ(r_w1_dim, "invalid_argument", Constraint_System cs; widen<W1>(s, t, cs, 0))
  FI_SH_REJ(r_w2_dim, "invalid_argument", Constraint_System cs; widen<W2>(s, t, cs, 0))
  FI_SH_REJ(r_lim_dim, "invalid_argument", Constraint_System cs; cs.insert(x <= 1); widen<LIM1>(s, t, cs, 0))
  FI_SH_REJ(r_lim_csdim, "invalid_argument", Constraint_System cs; cs.insert(z <= 1); S u(s); widen<LIM1>(s, u, cs, 0))
  FI_SH_REJ(r_lim_strict, "invalid_argument", Constraint_System cs; cs.insert(x < 1); S u(s); widen<LIM1>(s, u, cs, 0))
  FI_SH_REJ(r_unc_dim, "invalid_argument", s.unconstrain(z))
  FI_SH_REJ(r_uncs_dim, "invalid_argument", Variables_Set vs; vs.insert(x); vs.insert(z); s.unconstrain(vs))
  FI_SH_REJ(r_rem_dim, "invalid_argument", Variables_Set vs; vs.insert(z); s.remove_space_dimensions(vs))
  FI_SH_REJ(r_remh_dim, "invalid_argument", s.remove_higher_space_dimensions(5))
  FI_SH_REJ(r_exp_dim, "invalid_argument", s.expand_space_dimension(z, 1))
  FI_SH_REJ(r_exp_ovf, "length_error", s.expand_space_dimension(x, S::max_space_dimension()))
  FI_SH_REJ(r_fold_in, "invalid_argument", Variables_Set vs; vs.insert(x); s.fold_space_dimensions(vs, x))
  FI_SH_REJ(r_fold_dest, "invalid_argument", Variables_Set vs; vs.insert(x); s.fold_space_dimensions(vs, z))
  FI_SH_REJ(r_fold_set, "invalid_argument", Variables_Set vs; vs.insert(z); s.fold_space_dimensions(vs, x))
  FI_SH_REJ(r_embed_ovf, "length_error", s.add_space_dimensions_and_embed(S::max_space_dimension()))
  FI_SH_REJ(r_project_ovf, "length_error", s.add_space_dimensions_and_project(S::max_space_dimension()))
  FI_SH_REJ(r_relc_dim, "invalid_argument", (void) s.relation_with(z <= 1))
  FI_SH_REJ(r_relg_dim, "invalid_argument", (void) s.relation_with(point(z)))
  FI_SH_REJ(r_relcg_dim, "invalid_argument", (void) s.relation_with((z %= 1) / 2))
  FI_SH_REJ(r_max_dim, "invalid_argument", Coefficient a; Coefficient b; bool m; (void) s.maximize(z, a, b, m))
  FI_SH_REJ(r_min_dim, "invalid_argument", Coefficient a; Coefficient b; bool m; Generator g = point(); (void) s.minimize(x + z, a, b, m, g))
  FI_SH_REJ(r_bfa_dim, "invalid_argument", (void) s.bounds_from_above(z))
  FI_SH_REJ(r_constrains_dim, "invalid_argument", (void) s.constrains(z))
  FI_SH_REJ(r_wrap_dim, "invalid_argument", Variables_Set vs; vs.insert(z); s.wrap_assign(vs, BITS_8, UNSIGNED, OVERFLOW_WRAPS))
  static void r_ctor_ovf(RCtx& r) { r.call("length_error", [&] { S s(S::max_space_dimension() + 1); }); }
  static void r_ctor_gens_nopoint(RCtx& r) { Generator_System gs; gs.insert(ray(Variable(0))); gs.insert(line(Variable(1))); r.call("invalid_argument", [&] { S s(gs); }); }
  static void r_ctor_cs_nonrep(RCtx& r) {
    // documented for BD shapes and octagons: S(cs) throws on constraints that are not optimally supported? No:
    // "The constraints of cs that are not ... are ignored" for BD/Octagon; Box(cs) likewise.  Only the dimension overflow is documented.
    r.call("length_error", [&] { S s(S::max_space_dimension() + 1, EMPTY); });
  }

  static const char* keep(const std::string& s) { static std::vector<std::string*> pool; pool.push_back(new std::string(s)); return pool.back()->c_str(); }
  static void reg(const char* dom) {
    name() = dom;
    std::string d(dom);
#define FI_SH_S(op, fn) { Scen sc = { keep(d + "." + op), fn }; scenarios().push_back(sc); }
    FI_SH_S("add_constraints", s_add_constraints) FI_SH_S("add_constraint", s_add_constraint) FI_SH_S("refine_with", s_refine) FI_SH_S("closure", s_closure)
    FI_SH_S("intersection_assign", s_binary<MEET>) FI_SH_S("upper_bound_assign", s_binary<JOIN>) FI_SH_S("upper_bound_assign_if_exact", s_binary<JOIN_EXACT>)
    FI_SH_S("difference_assign", s_binary<DIFF>) FI_SH_S("time_elapse_assign", s_binary<TELAPSE>) FI_SH_S("concatenate_assign", s_binary<CONCAT>)
    FI_SH_S("simplify_using_context_assign", s_binary<SIMPLIFY>) FI_SH_S("contains_disjoint", s_binary<QUERIES>)
    FI_SH_S("affine_image", s_affine<IMG>) FI_SH_S("affine_preimage", s_affine<PRE>) FI_SH_S("generalized_affine_image", s_affine<GIMG>)
    FI_SH_S("generalized_affine_image_lhs_rhs", s_affine<GIMG2>) FI_SH_S("generalized_affine_preimage", s_affine<GPRE>)
    FI_SH_S("generalized_affine_preimage_lhs_rhs", s_affine<GPRE2>) FI_SH_S("bounded_affine_image", s_affine<BIMG>) FI_SH_S("bounded_affine_preimage", s_affine<BPRE>)
    if (K == K_BOX) { FI_SH_S("CC76_widening_assign", s_widen<W1>) FI_SH_S("limited_CC76_extrapolation_assign", s_widen<LIM1>) }
    else { FI_SH_S("CC76_extrapolation_assign", s_widen<W1>) FI_SH_S("BHMZ05_widening_assign", s_widen<W2>) FI_SH_S("limited_CC76_extrapolation_assign", s_widen<LIM1>) FI_SH_S("limited_BHMZ05_extrapolation_assign", s_widen<LIM2>) }
    FI_SH_S("add_space_dimensions_and_embed", s_dims<EMBED>) FI_SH_S("add_space_dimensions_and_project", s_dims<PROJECT>) FI_SH_S("remove_space_dimensions", s_dims<REMOVE>)
    FI_SH_S("remove_higher_space_dimensions", s_dims<REMOVE_HIGHER>) FI_SH_S("expand_space_dimension", s_dims<EXPAND>) FI_SH_S("fold_space_dimensions", s_dims<FOLD>)
    FI_SH_S("map_space_dimensions", s_dims<MAP>) FI_SH_S("unconstrain", s_dims<UNCONSTRAIN>) FI_SH_S("wrap_assign", s_dims<WRAP>) FI_SH_S("drop_some_non_integer_points", s_dims<DROP_NONINT>)
    FI_SH_S("topological_closure_assign", s_dims<TOPCLOSURE>)
    FI_SH_S("copy_construct", s_copy<COPY>) FI_SH_S("assign", s_copy<ASSIGN>) FI_SH_S("swap", s_copy<SWAP>) FI_SH_S("getters", s_copy<GETTERS>)
    FI_SH_S("from_polyhedron", s_copy<FROM_POLY>) FI_SH_S("from_generators", s_copy<FROM_GENS>) FI_SH_S("from_grid", s_copy<FROM_GRID>) FI_SH_S("to_polyhedron", s_copy<TO_POLY>)
    FI_SH_S("ascii_dump", s_io<DUMP>) FI_SH_S("ascii_load", s_io<LOAD>) FI_SH_S("print", s_io<PRINT>)
    FI_SH_S("maximize_minimize", s_query<MAXMIN>) FI_SH_S("relation_with", s_query<RELATION>) FI_SH_S("predicates", s_query<PREDICATES>) FI_SH_S("frequency", s_query<FREQUENCY>)
#undef FI_SH_S
#define FI_SH_R(op, cls, fn) { Rej rj = { keep(d), op, cls, fn }; rejects().push_back(rj); }
    FI_SH_R("add_constraint", "dim_too_large", r_addc_dim) FI_SH_R("add_constraint", "not_representable", r_addc_nonrep) FI_SH_R("add_constraint", "not_representable_2", r_addc_nonrep2)
    FI_SH_R("add_constraint", K == K_BOX ? "not_representable_strict" : "strict_inequality", r_addc_strict)
    FI_SH_R("add_constraints", "dim_too_large", r_addcs_dim) FI_SH_R("add_constraints", "not_representable", r_addcs_nonrep) FI_SH_R("add_recycled_constraints", "not_representable", r_addrcs_nonrep)
    FI_SH_R("add_congruence", "dim_too_large", r_addcg_dim) FI_SH_R("add_congruence", "not_representable", r_addcg_nonrep) FI_SH_R("add_congruences", "not_representable", r_addcgs_nonrep)
    FI_SH_R("refine_with_constraint", "dim_too_large", r_refc_dim) FI_SH_R("refine_with_congruence", "dim_too_large", r_refcg_dim)
    FI_SH_R("intersection_assign", "dim_mismatch", r_meet_dim) FI_SH_R("upper_bound_assign", "dim_mismatch", r_join_dim) FI_SH_R("upper_bound_assign_if_exact", "dim_mismatch", r_joinx_dim)
    FI_SH_R("difference_assign", "dim_mismatch", r_diff_dim) FI_SH_R("time_elapse_assign", "dim_mismatch", r_telapse_dim) FI_SH_R("simplify_using_context_assign", "dim_mismatch", r_simplify_dim)
    FI_SH_R("contains", "dim_mismatch", r_contains_dim) FI_SH_R("is_disjoint_from", "dim_mismatch", r_disjoint_dim)
    FI_SH_R("affine_image", "zero_denominator", r_img_den0) FI_SH_R("affine_image", "var_dim_too_large", r_img_var) FI_SH_R("affine_image", "expr_dim_too_large", r_img_expr)
    FI_SH_R("affine_preimage", "zero_denominator", r_pre_den0) FI_SH_R("affine_preimage", "var_dim_too_large", r_pre_var) FI_SH_R("affine_preimage", "expr_dim_too_large", r_pre_expr)
    FI_SH_R("generalized_affine_image", "zero_denominator", r_gimg_den0) FI_SH_R("generalized_affine_image", "expr_dim_too_large", r_gimg_expr) FI_SH_R("generalized_affine_image", "not_equal_relation", r_gimg_ne)
    FI_SH_R("generalized_affine_image_lhs_rhs", "lhs_dim_too_large", r_gimg2_dim)
    if (K != K_BOX) { FI_SH_R("generalized_affine_image", "strict_relation", r_gimg_strict) FI_SH_R("generalized_affine_image_lhs_rhs", "strict_relation", r_gimg2_strict) FI_SH_R("limited_CC76_extrapolation_assign", "strict_in_cs", r_lim_strict) }
    FI_SH_R("generalized_affine_preimage", "zero_denominator", r_gpre_den0) FI_SH_R("generalized_affine_preimage", "var_dim_too_large", r_gpre_var)
    FI_SH_R("bounded_affine_image", "zero_denominator", r_bimg_den0) FI_SH_R("bounded_affine_image", "lb_dim_too_large", r_bimg_lb) FI_SH_R("bounded_affine_image", "var_dim_too_large", r_bimg_var)
    FI_SH_R("bounded_affine_preimage", "zero_denominator", r_bpre_den0) FI_SH_R("bounded_affine_preimage", "ub_dim_too_large", r_bpre_ub)
    FI_SH_R(K == K_BOX ? "CC76_widening_assign" : "CC76_extrapolation_assign", "dim_mismatch", r_w1_dim)
    if (K != K_BOX) FI_SH_R("BHMZ05_widening_assign", "dim_mismatch", r_w2_dim)
    FI_SH_R("limited_CC76_extrapolation_assign", "dim_mismatch", r_lim_dim) FI_SH_R("limited_CC76_extrapolation_assign", "cs_dim_too_large", r_lim_csdim)
    FI_SH_R("unconstrain", "dim_too_large", r_unc_dim) FI_SH_R("unconstrain_set", "dim_too_large", r_uncs_dim) FI_SH_R("remove_space_dimensions", "dim_too_large", r_rem_dim)
    FI_SH_R("remove_higher_space_dimensions", "dim_too_large", r_remh_dim) FI_SH_R("expand_space_dimension", "dim_too_large", r_exp_dim) FI_SH_R("expand_space_dimension", "space_dimension_overflow", r_exp_ovf)
    FI_SH_R("fold_space_dimensions", "dest_in_set", r_fold_in) FI_SH_R("fold_space_dimensions", "dest_dim_too_large", r_fold_dest) FI_SH_R("fold_space_dimensions", "set_dim_too_large", r_fold_set)
    FI_SH_R("add_space_dimensions_and_embed", "space_dimension_overflow", r_embed_ovf) FI_SH_R("add_space_dimensions_and_project", "space_dimension_overflow", r_project_ovf)
    FI_SH_R("relation_with_constraint", "dim_too_large", r_relc_dim) FI_SH_R("relation_with_generator", "dim_too_large", r_relg_dim) FI_SH_R("relation_with_congruence", "dim_too_large", r_relcg_dim)
    FI_SH_R("maximize", "dim_too_large", r_max_dim) FI_SH_R("minimize", "dim_too_large", r_min_dim) FI_SH_R("bounds_from_above", "dim_too_large", r_bfa_dim) FI_SH_R("constrains", "dim_too_large", r_constrains_dim)
    FI_SH_R("wrap_assign", "dim_too_large", r_wrap_dim)
    FI_SH_R("construct", "space_dimension_overflow", r_ctor_ovf) FI_SH_R("construct_from_generators", "no_point", r_ctor_gens_nopoint) FI_SH_R("construct_empty", "space_dimension_overflow", r_ctor_cs_nonrep)
#undef FI_SH_R
  }
};
template <typename S, int K, bool BIG> struct Shape_Registrar { Shape_Registrar(const char* n) { Shapes<S, K, BIG>::reg(n); } };
#define FI_REGISTER_SHAPE(TYPE, NAME, KIND, BIGFLAG) static fi::Shape_Registrar<TYPE, KIND, BIGFLAG> fi_shape_registrar_(NAME)
} // namespace fi
#endif
