// widenchain — PPL Grid <-> reference lattice conversions, twins and measures
// (shared by the Grid and Pointset_Powerset<Grid> translation units).
#ifndef WC_GRID_HH
#define WC_GRID_HH
#include "wc_common.hh"

namespace wc {
using ref::Lattice; using ref::Cg;

inline Cg conv_cg(const Congruence& c, int n) { Cg r; r.a.assign(n, Q(0)); for (int i = 0; i < n && i < (int) c.space_dimension(); ++i) r.a[i] = ref::toQ(c.coefficient(Variable(i))); r.b = -ref::toQ(c.inhomogeneous_term()); r.m = ref::toQ(c.modulus()); return r; }
inline std::vector<Cg> conv_cgs(const Congruence_System& cs, int n) { std::vector<Cg> v; for (Congruence_System::const_iterator i = cs.begin(); i != cs.end(); ++i) v.push_back(conv_cg(*i, n)); return v; }
inline Lattice conv_ggs(const Grid_Generator_System& gs, int n) {
  Lattice g; g.n = n; g.empty = true; g.p.assign(n, Q(0));
  std::vector<Vec> pts;
  for (Grid_Generator_System::const_iterator i = gs.begin(); i != gs.end(); ++i) {
    Vec v(n); Q d = i->is_line() ? Q(1) : ref::toQ(i->divisor());
    for (int k = 0; k < n && k < (int) i->space_dimension(); ++k) { v[k] = ref::toQ(i->coefficient(Variable(k))) / d; v[k].canonicalize(); }
    if (i->is_line()) g.lines.push_back(v); else if (i->is_parameter()) g.params.push_back(v); else pts.push_back(v);
  }
  if (pts.empty()) { g.params.clear(); g.lines.clear(); return g; }
  g.empty = false; g.p = pts[0];
  for (size_t k = 1; k < pts.size(); ++k) { Vec q(n); for (int d = 0; d < n; ++d) q[d] = pts[k][d] - pts[0][d]; g.params.push_back(q); }
  return g;
}
inline std::string show(const Lattice& g0) {
  Lattice g = g0; ref::canonicalize(g); std::ostringstream o;
  if (g.empty) return "{empty}";
  o << "{p=" << pplx::show(g.p); for (size_t i = 0; i < g.params.size(); ++i) o << " q" << pplx::show(g.params[i]); for (size_t i = 0; i < g.lines.size(); ++i) o << " l" << pplx::show(g.lines[i]); o << "}";
  return o.str();
}
// observed value of a grid: generator form, cross-validated against the congruence form (both through copies)
inline bool obs_grid(const Grid& g, Lattice& out) {
  int n = g.space_dimension(); Grid c1(g), c2(g);
  out = conv_ggs(c1.grid_generators(), n);
  Lattice lc = ref::from_congruences(n, conv_cgs(c2.congruences(), n));
  return ref::same(out, lc);
}
inline bool lat_satisfies(const Lattice& g, const Cg& c) {
  if (g.empty) return true;
  if (!ref::sat_cg(c, g.p)) return false;
  for (size_t i = 0; i < g.params.size(); ++i) { Q v = ref::dot(c.a, g.params[i]); if (c.m == 0 ? v != 0 : !ref::is_int(Q(v / c.m))) return false; }
  for (size_t i = 0; i < g.lines.size(); ++i) if (ref::dot(c.a, g.lines[i]) != 0) return false;
  return true;
}
struct GMeas { bool empty; int eq, proper; };
inline GMeas grid_measure(const Lattice& g0) { Lattice g = g0; ref::canonicalize(g); GMeas m; m.empty = g.empty; m.eq = m.proper = 0; if (!g.empty) { m.eq = g.n - (int) g.params.size() - (int) g.lines.size(); m.proper = (int) g.params.size(); } return m; }
inline int grid_decrease(const GMeas& y, const GMeas& z) { if (y.empty) return z.empty ? 0 : 1; if (z.empty) return -1; if (z.eq != y.eq) return z.eq < y.eq ? 1 : -1; if (z.proper != y.proper) return z.proper < y.proper ? 1 : -1; return 0; }
inline std::string show(const GMeas& m) { std::ostringstream o; if (m.empty) o << "(empty)"; else o << "(equalities " << m.eq << ", proper congruences " << m.proper << "+1)"; return o.str(); }
// lattice join (smallest grid containing both)
inline Lattice lat_join(const Lattice& a, const Lattice& b) {
  if (a.empty) return b; if (b.empty) return a;
  Lattice r = a; r.params.insert(r.params.end(), b.params.begin(), b.params.end()); r.lines.insert(r.lines.end(), b.lines.begin(), b.lines.end());
  Vec d(a.n); bool z = true; for (int i = 0; i < a.n; ++i) { d[i] = b.p[i] - a.p[i]; if (d[i] != 0) z = false; } if (!z) r.params.push_back(d);
  return r;
}

inline Grid_Generator gg_from(const Vec& v, int n, int kind) { // 0 point, 1 parameter, 2 line
  mpz_class l = 1; for (int d = 0; d < n; ++d) { mpz_class den = v[d].get_den(); mpz_lcm(l.get_mpz_t(), l.get_mpz_t(), den.get_mpz_t()); }
  Linear_Expression e; for (int d = 0; d < n; ++d) { Q x = v[d] * Q(l); e += Coefficient(x.get_num()) * Variable(d); }
  if (n > 0) e += 0 * Variable(n - 1);
  if (kind == 0) return grid_point(e, Coefficient(l));
  if (kind == 1) return parameter(e, Coefficient(l));
  return grid_line(e);
}
inline Congruence cg_from(const Cg& c, int n) { // integer-scaled PPL congruence
  mpz_class l = 1; for (int d = 0; d < n; ++d) { mpz_class den = c.a[d].get_den(); mpz_lcm(l.get_mpz_t(), l.get_mpz_t(), den.get_mpz_t()); }
  { mpz_class den = c.b.get_den(); mpz_lcm(l.get_mpz_t(), l.get_mpz_t(), den.get_mpz_t()); den = c.m.get_den(); mpz_lcm(l.get_mpz_t(), l.get_mpz_t(), den.get_mpz_t()); }
  Linear_Expression e; for (int d = 0; d < n; ++d) { Q x = c.a[d] * Q(l); e += Coefficient(x.get_num()) * Variable(d); }
  if (n > 0) e += 0 * Variable(n - 1);
  Q b = c.b * Q(l), m = c.m * Q(l);
  e -= Coefficient(b.get_num());
  return (e %= 0) / Coefficient(m.get_num());
}

inline Grid grid_twin(const Grid& p, int how, std::string& desc) {
  static const char* nm[10] = { "cgs-shuffled", "gens-shuffled", "mincgs", "mingens", "ascii", "copy+mincgs", "copy+mingens", "gens-redundant", "affine-roundtrip+mingens", "mincgs+mingens+affine-roundtrip" };
  desc = nm[how];
  int n = p.space_dimension();
  Grid c(p);
  if (Grid(p).is_empty()) { if (how % 2 && n > 0) { Grid u(n); u.add_congruence((Variable(0) %= 0) / 2); u.add_congruence((Variable(0) %= 1) / 2); return u; } return Grid(n, EMPTY); }
  switch (how) {
  case 0: case 2: {
    Congruence_System cs = (how == 2) ? c.minimized_congruences() : c.congruences(); std::vector<Congruence> v(cs.begin(), cs.end()); std::shuffle(v.begin(), v.end(), hx::rng());
    Grid q(n);
    for (size_t i = 0; i < v.size(); ++i) { q.add_congruence(v[i]); if (how == 0 && coin(30) && v[i].is_proper_congruence()) { Cg r = conv_cg(v[i], n); r.m *= 2; if (lat_satisfies(conv_ggs(Grid(p).grid_generators(), n), r)) q.add_congruence(cg_from(r, n)); } }
    return q; }
  case 1: case 3: case 7: {
    Grid_Generator_System gs = (how == 3) ? c.minimized_grid_generators() : c.grid_generators(); std::vector<Grid_Generator> v(gs.begin(), gs.end()); std::shuffle(v.begin(), v.end(), hx::rng());
    Grid q(n, EMPTY);
    for (size_t i = 0; i < v.size(); ++i) if (v[i].is_point()) { q.add_grid_generator(v[i]); break; }
    for (size_t i = 0; i < v.size(); ++i) q.add_grid_generator(v[i]);
    if (how == 7) { Lattice l = conv_ggs(gs, n); ref::canonicalize(l); for (size_t i = 0; i < l.params.size(); ++i) { Vec x = l.p; Q k = rnd(-2, 3); for (int d = 0; d < n; ++d) x[d] += k * l.params[i][d]; q.add_grid_generator(gg_from(x, n, 0)); } }
    return q; }
  case 4: { std::ostringstream o; p.ascii_dump(o); std::istringstream in(o.str()); Grid q(0); if (!q.ascii_load(in)) return c; return q; }
  case 8: case 9: {
    // lazy states reached through mutators: an invertible affine image and its inverse leave the value unchanged but
    // rewrite one description in place (congruences up to date but no longer minimized, generators minimized, ...)
    if (n == 0) return c;
    if (how == 9) { (void) c.minimized_congruences(); (void) c.minimized_grid_generators(); }
    else { (void) c.congruences(); (void) c.grid_generators(); }
    Variable v(rnd(0, n - 1)); int k = rnd(1, 3);
    Linear_Expression up = v + k, down = v - k;
    if (n > 1 && coin()) { Variable w((v.id() + 1) % n); up = v + w; down = v - w; }
    c.affine_image(v, up); c.affine_image(v, down);
    if (coin(70)) (void) c.minimized_grid_generators(); else if (coin()) (void) c.minimized_congruences();
    return c; }
  case 5: (void) c.minimized_congruences(); return c;
  default: (void) c.minimized_grid_generators(); return c;
  }
}

} // namespace wc
#endif
