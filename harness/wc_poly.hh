// widenchain — PPL-side traits of C / NNC polyhedra (shared by the polyhedra and powerset TUs).
#ifndef WC_POLY_HH
#define WC_POLY_HH
#include "wc_convex.hh"

namespace wc {

template <typename PH> struct PolyTR {
  typedef PH D;
  static bool nnc() { return std::is_same<PH, NNC_Polyhedron>::value; }
  static const char* name() { return nnc() ? "NNC_Polyhedron" : "C_Polyhedron"; }
  static bool strict_ok() { return nnc(); }
  static bool dyadic() { return false; }
  static int maxdim() { return 4; }
  static D make(int n, bool empty) { return PH(n, empty ? EMPTY : UNIVERSE); }
  static std::vector<int> direction(int n) { std::vector<int> a(n); for (int i = 0; i < n; ++i) a[i] = coin(35) ? 0 : rnd(-3, 3); return a; }
  static bool representable(const Constraint&) { return true; }
  static bool fragile_limiting(const std::vector<Constraint>&) { return false; }
  static D from_cons(int n, const std::vector<Constraint>& cv) { PH p(n, UNIVERSE); for (size_t i = 0; i < cv.size(); ++i) p.add_constraint(cv[i]); return p; }
  static D from_gens(int n, const std::vector<Generator>& gv0) {
    std::vector<Generator> gv = gv0;
    if (nnc()) for (size_t i = 1; i < gv.size(); ++i) if (gv[i].is_point() && coin(30)) gv[i] = closure_point(Linear_Expression(gv[i].expression()), gv[i].divisor());
    PH p(n, EMPTY);
    for (size_t i = 0; i < gv.size(); ++i) if (gv[i].is_point()) p.add_generator(gv[i]);
    for (size_t i = 0; i < gv.size(); ++i) if (!gv[i].is_point()) p.add_generator(gv[i]);
    return p;
  }
  static Gens min_gens(const D& d) { return ref::conv(d.minimized_generators(), d.space_dimension()); }
  static int ntwins() { return 9; }
  static D twin(const D& p, int how, std::string& desc) {
    int n = p.space_dimension();
    static const char* nm[9] = { "gens", "gens+mincons", "cons-shuffled", "cons-min+gens", "ascii", "copy+mingens", "copy+pending-cons", "dims", "copy+pending-gens" };
    desc = nm[how];
    PH c(p);
    bool empty = PH(p).is_empty();
    if (empty) { PH e(n, EMPTY); if (how % 2 && n > 0) { PH u(n, UNIVERSE); u.add_constraint(Variable(0) >= 1); u.add_constraint(Variable(0) <= 0); return u; } return e; }
    switch (how) {
    case 0: case 1: {
      Generator_System gs = c.generators(); std::vector<Generator> v(gs.begin(), gs.end()); std::shuffle(v.begin(), v.end(), hx::rng());
      PH q(n, EMPTY);
      for (size_t i = 0; i < v.size(); ++i) if (v[i].is_point()) { q.add_generator(v[i]); break; }
      for (size_t i = 0; i < v.size(); ++i) q.add_generator(v[i]);
      if (how == 1) (void) q.minimized_constraints();
      return q; }
    case 2: {
      Constraint_System cs = c.constraints(); std::vector<Constraint> v(cs.begin(), cs.end()); std::shuffle(v.begin(), v.end(), hx::rng());
      PH q(n, UNIVERSE);
      for (size_t i = 0; i < v.size(); ++i) {
        q.add_constraint(v[i]);
        if (coin(30)) { Linear_Expression e(v[i].expression()); e *= rnd(2, 3); if (v[i].is_equality()) q.add_constraint(e == 0); else if (v[i].is_strict_inequality()) q.add_constraint(e > 0); else q.add_constraint(e >= 0); }
      }
      if (v.size() >= 2 && v[0].is_nonstrict_inequality() && v[1].is_nonstrict_inequality()) { Linear_Expression e(v[0].expression()); e += Linear_Expression(v[1].expression()); q.add_constraint(e >= 0); }
      return q; }
    case 3: { PH q(n, UNIVERSE); q.add_constraints(c.minimized_constraints()); (void) q.generators(); return q; }
    case 4: { std::ostringstream o; p.ascii_dump(o); std::istringstream in(o.str()); PH q(0); if (!q.ascii_load(in)) return c; return q; }
    case 5: (void) c.minimized_generators(); return c;
    case 6: {
      PH o(p); Constraint_System cs = o.constraints();
      for (Constraint_System::const_iterator i = cs.begin(); i != cs.end(); ++i) if (i->is_nonstrict_inequality()) { Linear_Expression e(i->expression()); e += rnd(1, 3); c.add_constraint(e >= 0); break; }
      return c; }
    case 7: c.add_space_dimensions_and_embed(2); c.remove_higher_space_dimensions(n); return c;
    default: {
      PH o(p); Generator_System gs = o.generators();
      for (Generator_System::const_iterator i = gs.begin(); i != gs.end(); ++i) if (i->is_point()) { c.add_generator(*i); break; }
      return c; }
    }
  }
  static int ppl_cert_compare(int cert, const D& y, const D& z) {
    const Polyhedron& yp = y; const Polyhedron& zp = z;   // (the template overloads would go through C_Polyhedron(constraints()))
    if (cert == CERT_H79) { H79_Certificate c(yp); return c.compare(zp); }
    if (cert == CERT_BHRZ03) { BHRZ03_Certificate c(yp); return c.compare(zp); }
    return 99;
  }
  // the same comparison through the certificate-vs-certificate overload
  static int ppl_cert_compare_certs(int cert, const D& y, const D& z) {
    const Polyhedron& yp = y; const Polyhedron& zp = z;
    if (cert == CERT_H79) { H79_Certificate a(yp), b(zp); return a.compare(b); }
    if (cert == CERT_BHRZ03) { BHRZ03_Certificate a(yp), b(zp); return a.compare(b); }
    return 99;
  }
  static std::vector<WOp<D> > ops(int) {
    std::vector<WOp<D> > v;
    { WOp<D> o; o.name = "H79_widening_assign"; o.cert = CERT_H79; o.call = [](D& x, const D& y, unsigned* tp) { x.H79_widening_assign(y, tp); };
      o.lim_name = "limited_H79_extrapolation_assign"; o.lim = [](D& x, const D& y, const Constraint_System& cs, unsigned* tp) { x.limited_H79_extrapolation_assign(y, cs, tp); };
      o.bnd_name = "bounded_H79_extrapolation_assign"; o.bnd = [](D& x, const D& y, const Constraint_System& cs, unsigned* tp) { x.bounded_H79_extrapolation_assign(y, cs, tp); };
      v.push_back(o); v.push_back(o); }
    { WOp<D> o; o.name = "BHRZ03_widening_assign"; o.cert = CERT_BHRZ03; o.call = [](D& x, const D& y, unsigned* tp) { x.BHRZ03_widening_assign(y, tp); };
      o.lim_name = "limited_BHRZ03_extrapolation_assign"; o.lim = [](D& x, const D& y, const Constraint_System& cs, unsigned* tp) { x.limited_BHRZ03_extrapolation_assign(y, cs, tp); };
      o.bnd_name = "bounded_BHRZ03_extrapolation_assign"; o.bnd = [](D& x, const D& y, const Constraint_System& cs, unsigned* tp) { x.bounded_BHRZ03_extrapolation_assign(y, cs, tp); };
      v.push_back(o); v.push_back(o); v.push_back(o); }
    { WOp<D> o; o.name = "widening_assign"; o.cert = CERT_H79; o.call = [](D& x, const D& y, unsigned* tp) { x.widening_assign(y, tp); }; v.push_back(o); }
    return v;
  }
};


} // namespace wc
#endif
