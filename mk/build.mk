# Out-of-tree build of libppl (from /repo's *working tree*) and of the
# verification engines, one build directory per sanitizer/config variant.
#
#   make -f /verif/mk/build.mk VARIANT=san lib            # library only
#   make -f /verif/mk/build.mk VARIANT=san ENGINES="polyseq wdvt" engines
#
# Never uses /repo/src/.libs or the generated src/ppl.hh.

REPO    ?= /repo
VERIF   ?= /verif
VARIANT ?= san
B       := $(VERIF)/build/$(VARIANT)
CXX     := g++

BASEFLAGS := -std=gnu++17 -g1 -fno-omit-frame-pointer -frounding-math -w -DBUGSENG_PPL_VERIF
SANFLAGS  := -O1 -fsanitize=address,undefined -fno-sanitize-recover=all

# Per-variant flags and (optional) ppl-config.h override.
CFGSED :=
ifeq ($(VARIANT),san)
  VFLAGS := $(SANFLAGS)
else ifeq ($(VARIANT),san-assert)
  VFLAGS := $(SANFLAGS)
  CFGSED := -e 's/^\#define PPL_NDEBUG 1/\/* PPL_NDEBUG off *\//'
else ifneq ($(filter san-i8 san-i16 san-i32 san-i64,$(VARIANT)),)
  BITS   := $(patsubst san-i%,%,$(VARIANT))
  VFLAGS := $(SANFLAGS)
  CFGSED := -e 's/^\#define PPL_GMP_INTEGERS 1/\/* no GMP integers *\//' \
            -e 's/^\/\* \#undef PPL_CHECKED_INTEGERS \*\//\#define PPL_CHECKED_INTEGERS 1/' \
            -e 's/^\#define PPL_COEFFICIENT_BITS 0/\#define PPL_COEFFICIENT_BITS $(BITS)/' \
            -e 's/^\#define PPL_COEFFICIENT_TYPE mpz_class/\#define PPL_COEFFICIENT_TYPE Checked_Number<int$(BITS)_t, Bounded_Integer_Coefficient_Policy>/'
else ifeq ($(VARIANT),plain)
  VFLAGS := -O2
else ifeq ($(VARIANT),cov)
  VFLAGS := -O0 --coverage
else
  $(error unknown VARIANT $(VARIANT))
endif

ifneq ($(CFGSED),)
  CFGINC := -I$(B)/cfg
  CFGDEP := $(B)/cfg/ppl-config.h
else
  CFGINC :=
  CFGDEP :=
endif

INCS := $(CFGINC) -I$(REPO) -I$(REPO)/src -I$(VERIF)/ref -I$(VERIF)/harness
CXXFLAGS_ALL := $(BASEFLAGS) $(VFLAGS) $(EXTRA) $(INCS)

# Library sources: every src/*.cc that is part of libppl (the three
# excluded files are separate programs / not in am_libppl_la_OBJECTS; the
# three generated text blobs are not needed by anything we link).
LIBSRC := $(filter-out %/Affine_Space.cc %/Pointset_Ask_Tell.cc %/ppl-config.cc \
            %/BUGS.cc %/COPYING.cc %/CREDITS.cc, $(wildcard $(REPO)/src/*.cc))
LIBOBJ := $(patsubst $(REPO)/src/%.cc,$(B)/lib/%.o,$(LIBSRC))

ENGSRC := $(foreach e,$(ENGINES),$(wildcard $(VERIF)/engines/$(e).cc $(VERIF)/engines/$(e)__*.cc))
ENGOBJ := $(patsubst $(VERIF)/engines/%.cc,$(B)/eng/%.o,$(ENGSRC))
ENGBIN := $(foreach e,$(ENGINES),$(B)/bin/$(e))

.PHONY: lib engines
lib: $(B)/libppl.a
engines: $(ENGBIN)

$(B)/cfg/ppl-config.h: $(REPO)/ppl-config.h $(VERIF)/mk/build.mk
	@mkdir -p $(B)/cfg
	sed $(CFGSED) $< > $@

$(B)/lib/%.o: $(REPO)/src/%.cc $(CFGDEP)
	@mkdir -p $(B)/lib
	$(CXX) $(CXXFLAGS_ALL) -MMD -MP -c $< -o $@

$(B)/libppl.a: $(LIBOBJ)
	@rm -f $@
	ar rcs $@ $(LIBOBJ)

$(B)/eng/%.o: $(VERIF)/engines/%.cc $(CFGDEP)
	@mkdir -p $(B)/eng
	$(CXX) $(CXXFLAGS_ALL) -MMD -MP -c $< -o $@

# One executable per engine: engines/<e>.cc plus engines/<e>__*.cc
define ENGINE_RULE
$(B)/bin/$(1): $$(patsubst $(VERIF)/engines/%.cc,$(B)/eng/%.o,$$(wildcard $(VERIF)/engines/$(1).cc $(VERIF)/engines/$(1)__*.cc)) $(B)/libppl.a
	@mkdir -p $(B)/bin
	$(CXX) $(BASEFLAGS) $(VFLAGS) $$(filter %.o,$$^) $(B)/lib/assertions.o $(B)/libppl.a -lgmpxx -lgmp -ldl -o $$@
endef
$(foreach e,$(ENGINES),$(eval $(call ENGINE_RULE,$(e))))

-include $(wildcard $(B)/lib/*.d) $(wildcard $(B)/eng/*.d)
