# Build of the `ciface` engine (property C20): regenerates the C interface
# from the m4 templates of /repo's *working tree* into build/<variant>/ciface,
# compiles it with the variant's sanitizer flags against build/<variant>/libppl.a,
# generates the per-entry-point driver with tools/gen_ciface.py and links
# build/<variant>/bin/ciface.
#
#   make -f mk/ciface.mk VARIANT=san -j6
#
# Nothing under /repo/interfaces/C that is a build product (ppl_c.h,
# ppl_c_<Domain>.cc/.hh, ppl_c_domains.h, ppl_c_implementation_domains.hh) is
# used: the hand-written sources are *copied* into the build directory so that
# their quoted #includes resolve to the regenerated files, and "ppl.hh" is a
# shim for src/ppl_header.hh (the concatenated src/ppl.hh goes stale).
# Configure products used: ppl-config.h, interfaces/ppl_interface_instantiations.m4,
# interfaces/C/ppl_c_version.h, utils/build_header.

.DEFAULT_GOAL := ciface
ENGINES :=
include $(dir $(lastword $(MAKEFILE_LIST)))build.mk

G     := $(B)/ciface
CSRC  := $(REPO)/interfaces/C
ISRC  := $(REPO)/interfaces
M4    ?= m4
M4FLAGS := --prefix-builtin -I$(ISRC) -I$(CSRC)
PY    ?= python3

INSTANTIATIONS := $(ISRC)/ppl_interface_instantiations.m4
DOMS := $(shell sed -n "s/^m4_define(.m4_interface_classes_names', .\(.*\)')$$/\1/p" $(INSTANTIATIONS) | tr '@' ' ')
ifeq ($(strip $(DOMS)),)
  $(error cannot read the interfaced domains from $(INSTANTIATIONS))
endif

M4DEPS := $(wildcard $(CSRC)/*.m4) $(wildcard $(ISRC)/*.m4) $(ISRC)/ppl_interface_generator_copyright
COMMON_HAND := ppl_c_implementation_common.cc ppl_c_implementation_common_defs.hh \
               ppl_c_implementation_common_inlines.hh ppl_c_header.h

CIFLAGS := $(BASEFLAGS) $(VFLAGS) $(EXTRA) -I$(G) -I$(ISRC) $(INCS)

# ---- 1. generation ---------------------------------------------------------
$(G)/.dir:
	@mkdir -p $(G)/obj $(G)/gen
	@touch $@

$(G)/ppl.hh: $(G)/.dir
	printf '/* shim: never the stale concatenated src/ppl.hh */\n#include "ppl_header.hh"\n' > $@

$(addprefix $(G)/,$(COMMON_HAND)): $(G)/%: $(CSRC)/% $(G)/.dir
	cp -f $< $@

$(G)/ppl_c_version.h: $(CSRC)/ppl_c_version.h $(G)/.dir
	cp -f $< $@

$(G)/ppl_c_domains.h: $(M4DEPS) $(G)/.dir
	$(M4) $(M4FLAGS) $(CSRC)/ppl_interface_generator_c_h.m4 > $@.tmp
	mv -f $@.tmp $@

# cm_splitter appends to files named in the blob, relative to the cwd.
$(G)/cc.stamp: $(M4DEPS) $(G)/.dir
	cd $(G) && $(M4) $(M4FLAGS) $(CSRC)/ppl_interface_generator_c_cc_files.m4 > ppl_c_cc_blob \
	  && $(REPO)/utils/cm_cleaner.sh ./ppl_c_cc_blob && $(REPO)/utils/cm_splitter.sh ./ppl_c_cc_blob \
	  && rm -f ppl_c_cc_blob
	echo timestamp > $@

$(G)/hh.stamp: $(M4DEPS) $(G)/.dir
	cd $(G) && $(M4) $(M4FLAGS) $(CSRC)/ppl_interface_generator_c_hh_files.m4 > ppl_c_hh_blob \
	  && $(REPO)/utils/cm_cleaner.sh ./ppl_c_hh_blob && $(REPO)/utils/cm_splitter.sh ./ppl_c_hh_blob \
	  && rm -f ppl_c_hh_blob
	echo timestamp > $@

$(G)/ppl_c.h: $(G)/ppl_c_header.h $(G)/ppl_c_version.h $(G)/ppl_c_domains.h
	perl $(REPO)/utils/build_header -I $(G) -I $(REPO)/src $(G)/ppl_c_header.h > $@.tmp
	mv -f $@.tmp $@

GENHDRS := $(G)/ppl.hh $(G)/ppl_c.h $(G)/hh.stamp $(G)/cc.stamp $(addprefix $(G)/,$(COMMON_HAND))

$(foreach d,$(DOMS),$(G)/ppl_c_$(d).cc): | $(G)/cc.stamp

# ---- 2. the C interface objects -------------------------------------------
CIF_OBJS := $(G)/obj/ppl_c_implementation_common.o $(foreach d,$(DOMS),$(G)/obj/ppl_c_$(d).o)

$(G)/obj/ppl_c_%.o: $(G)/ppl_c_%.cc $(GENHDRS) $(CFGDEP)
	$(CXX) $(CIFLAGS) -MMD -MP -c $< -o $@

$(G)/libppl_c.a: $(CIF_OBJS)
	@rm -f $@
	ar rcs $@ $(CIF_OBJS)

# ---- 3. the generated driver ----------------------------------------------
GEN_SRCS := $(G)/gen/cifgen_core.cc $(foreach d,$(DOMS),$(G)/gen/cifgen_$(d).cc) $(G)/gen/cifgen_table.cc
GEN_OBJS := $(patsubst $(G)/gen/%.cc,$(G)/obj/%.o,$(GEN_SRCS))

# Entry points that are declared in ppl_c.h but defined nowhere in the interface
# library cannot be linked: the generator gets the list of defined symbols and
# emits a null thunk for them (the engine reports them as violations).
$(G)/defined.txt: $(G)/libppl_c.a
	nm -g --defined-only $(G)/libppl_c.a | awk 'NF == 3 && $$2 ~ /^[TDBRW]$$/ { print $$3 }' | sort -u > $@.tmp
	cmp -s $@.tmp $@ && rm -f $@.tmp || mv -f $@.tmp $@

$(G)/gen.stamp: $(VERIF)/tools/gen_ciface.py $(G)/ppl_c.h $(INSTANTIATIONS) $(G)/defined.txt
	$(PY) $(VERIF)/tools/gen_ciface.py --header $(G)/ppl_c.h --instantiations $(INSTANTIATIONS) --defined $(G)/defined.txt --outdir $(G)/gen
	echo timestamp > $@

$(GEN_SRCS): | $(G)/gen.stamp

$(G)/obj/cifgen_%.o: $(G)/gen/cifgen_%.cc $(GENHDRS) $(CFGDEP) $(VERIF)/harness/ciface_rt.hh
	$(CXX) $(CIFLAGS) -I$(G)/gen -MMD -MP -c $< -o $@

# ---- 4. the hand-written engine -------------------------------------------
ENG_SRCS := $(wildcard $(VERIF)/engines/ciface.cc $(VERIF)/engines/ciface__*.cc)
ENG_OBJS := $(patsubst $(VERIF)/engines/%.cc,$(G)/obj/eng_%.o,$(ENG_SRCS))

$(G)/obj/eng_%.o: $(VERIF)/engines/%.cc $(GENHDRS) $(CFGDEP) $(G)/gen.stamp
	$(CXX) $(CIFLAGS) -I$(G)/gen -MMD -MP -c $< -o $@

$(B)/bin/ciface: $(ENG_OBJS) $(GEN_OBJS) $(G)/libppl_c.a $(B)/libppl.a
	@mkdir -p $(B)/bin
	$(CXX) $(BASEFLAGS) $(VFLAGS) $(ENG_OBJS) $(GEN_OBJS) $(G)/libppl_c.a $(B)/libppl.a -lgmpxx -lgmp -ldl -o $@

.PHONY: ciface cif-generate cif-lib
ciface: $(B)/bin/ciface
cif-generate: $(GENHDRS)
cif-lib: $(G)/libppl_c.a

-include $(wildcard $(G)/obj/*.d)
