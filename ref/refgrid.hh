// Prototype reference model for rational grids (affine lattices over Q).
#ifndef REF_GRID_HH
#define REF_GRID_HH
#include "refpoly.hh"   // Vec, Q, rref, nullspace
#include <algorithm>

namespace ref {

typedef mpz_class Z;

inline bool is_int(const Q& q) { return q.get_den() == 1; }

// Solve E t = f for integer t (E rational r x k, f rational r).
// On success: t0 (particular) and T (columns = Z-basis of the homogeneous solutions).
// Column-style HNF with unimodular tracking.
inline bool solve_integer(std::vector<Vec> E, Vec f, int k, std::vector<Z>& t0, std::vector<std::vector<Z> >& T) {
  int r = E.size();
  // scale each row to integers
  std::vector<std::vector<Z> > A(r, std::vector<Z>(k)); std::vector<Z> b(r);
  for (int i = 0; i < r; ++i) {
    Z l = 1;
    for (int j = 0; j < k; ++j) { Z d = E[i][j].get_den(); Z g; mpz_lcm(l.get_mpz_t(), l.get_mpz_t(), d.get_mpz_t()); }
    { Z d = f[i].get_den(); mpz_lcm(l.get_mpz_t(), l.get_mpz_t(), d.get_mpz_t()); }
    for (int j = 0; j < k; ++j) { Q v = E[i][j] * Q(l); A[i][j] = v.get_num(); }
    Q v = f[i] * Q(l); b[i] = v.get_num();
  }
  // U = identity k x k ; column ops on [A; U]
  std::vector<std::vector<Z> > U(k, std::vector<Z>(k));
  for (int j = 0; j < k; ++j) U[j][j] = 1;
  int col = 0; std::vector<int> piv_row;
  for (int i = 0; i < r && col < k; ++i) {
    // make A[i][col..k-1] have a single nonzero at col via gcd column ops
    for (;;) {
      int best = -1;
      for (int j = col; j < k; ++j) if (A[i][j] != 0 && (best < 0 || abs(A[i][j]) < abs(A[i][best]))) best = j;
      if (best < 0) break;
      if (best != col) { for (int x = 0; x < r; ++x) std::swap(A[x][col], A[x][best]); for (int x = 0; x < k; ++x) std::swap(U[x][col], U[x][best]); }
      bool done = true;
      for (int j = col + 1; j < k; ++j) if (A[i][j] != 0) {
        Z q; mpz_fdiv_q(q.get_mpz_t(), A[i][j].get_mpz_t(), A[i][col].get_mpz_t());
        for (int x = 0; x < r; ++x) A[x][j] -= q * A[x][col];
        for (int x = 0; x < k; ++x) U[x][j] -= q * U[x][col];
        if (A[i][j] != 0) done = false;
      }
      if (done) break;
    }
    if (A[i][col] != 0) { piv_row.push_back(i); ++col; }
  }
  // Now A = [H | 0] with `col' pivot columns (lower-trapezoidal in pivot rows). Solve A s = b.
  std::vector<Z> s(k);
  std::vector<Z> resid = b;
  for (int c = 0; c < col; ++c) {
    int i = piv_row[c];
    // resid[i] must be divisible by A[i][c] after subtracting earlier columns (already subtracted)
    if (resid[i] % A[i][c] != 0) return false;
    s[c] = resid[i] / A[i][c];
    for (int x = 0; x < r; ++x) resid[x] -= s[c] * A[x][c];
  }
  for (int x = 0; x < r; ++x) if (resid[x] != 0) return false;
  t0.assign(k, Z(0));
  for (int x = 0; x < k; ++x) for (int c = 0; c < col; ++c) t0[x] += U[x][c] * s[c];
  T.clear();
  for (int c = col; c < k; ++c) { std::vector<Z> v(k); for (int x = 0; x < k; ++x) v[x] = U[x][c]; T.push_back(v); }
  return true;
}

struct Lattice {
  int n; bool empty;
  Vec p;                    // a point
  std::vector<Vec> params;  // Z-combinations
  std::vector<Vec> lines;   // Q-combinations
  Lattice() : n(0), empty(true) {}
};

// canonical form: lines RREF; params reduced modulo lines and put in (row) HNF; point reduced.
inline void reduce_mod_lines(const std::vector<Vec>& L, const std::vector<int>& piv, Vec& v) {
  for (size_t i = 0; i < L.size(); ++i) { Q f = v[piv[i]]; if (f != 0) for (size_t d = 0; d < v.size(); ++d) v[d] -= f * L[i][d]; }
}
inline void canonicalize(Lattice& g) {
  if (g.empty) { g.params.clear(); g.lines.clear(); g.p.assign(g.n, Q(0)); return; }
  int n = g.n;
  std::vector<Vec> L = g.lines; std::vector<int> piv = rref(L, n);
  g.lines = L;
  for (size_t i = 0; i < g.params.size(); ++i) reduce_mod_lines(L, piv, g.params[i]);
  reduce_mod_lines(L, piv, g.p);
  // integer row-HNF of params (scaled by common denominator)
  Z D = 1;
  for (size_t i = 0; i < g.params.size(); ++i) for (int d = 0; d < n; ++d) { Z den = g.params[i][d].get_den(); mpz_lcm(D.get_mpz_t(), D.get_mpz_t(), den.get_mpz_t()); }
  std::vector<std::vector<Z> > M;
  for (size_t i = 0; i < g.params.size(); ++i) { std::vector<Z> r(n); bool z = true; for (int d = 0; d < n; ++d) { Q v = g.params[i][d] * Q(D); r[d] = v.get_num(); if (r[d] != 0) z = false; } if (!z) M.push_back(r); }
  size_t row = 0;
  for (int c = 0; c < n && row < M.size(); ++c) {
    for (;;) {
      int best = -1;
      for (size_t i = row; i < M.size(); ++i) if (M[i][c] != 0 && (best < 0 || abs(M[i][c]) < abs(M[best][c]))) best = i;
      if (best < 0) break;
      std::swap(M[row], M[best]);
      bool done = true;
      for (size_t i = row + 1; i < M.size(); ++i) if (M[i][c] != 0) { Z q; mpz_fdiv_q(q.get_mpz_t(), M[i][c].get_mpz_t(), M[row][c].get_mpz_t()); for (int d = 0; d < n; ++d) M[i][d] -= q * M[row][d]; if (M[i][c] != 0) done = false; }
      if (done) break;
    }
    if (row < M.size() && M[row][c] != 0) {
      if (M[row][c] < 0) for (int d = 0; d < n; ++d) M[row][d] = -M[row][d];
      for (size_t i = 0; i < row; ++i) { Z q; mpz_fdiv_q(q.get_mpz_t(), M[i][c].get_mpz_t(), M[row][c].get_mpz_t()); if (q != 0) for (int d = 0; d < n; ++d) M[i][d] -= q * M[row][d]; }
      ++row;
    }
  }
  M.resize(row);
  g.params.clear();
  for (size_t i = 0; i < M.size(); ++i) { Vec v(n); for (int d = 0; d < n; ++d) { v[d] = Q(M[i][d]) / Q(D); v[d].canonicalize(); } g.params.push_back(v); }
  // reduce point modulo params (pivot col of param i = first nonzero)
  for (size_t i = 0; i < g.params.size(); ++i) { int c = 0; while (g.params[i][c] == 0) ++c; Q q = g.p[c] / g.params[i][c]; Z fl; mpz_fdiv_q(fl.get_mpz_t(), q.get_num_mpz_t(), q.get_den_mpz_t()); if (fl != 0) for (int d = 0; d < n; ++d) g.p[d] -= Q(fl) * g.params[i][d]; }
}
inline bool same(Lattice a, Lattice b) {
  canonicalize(a); canonicalize(b);
  if (a.empty != b.empty) return false; if (a.empty) return true;
  return a.p == b.p && a.params == b.params && a.lines == b.lines;
}
// membership of direction d in dir-lattice (params over Z + lines over Q); g canonical
inline bool dir_member(const Lattice& g, Vec d, bool rational_coeffs_ok = false) {
  std::vector<Vec> L = g.lines; std::vector<int> piv = rref(L, g.n);
  reduce_mod_lines(L, piv, d);
  for (size_t i = 0; i < g.params.size(); ++i) { int c = 0; while (g.params[i][c] == 0) ++c; Q q = d[c] / g.params[i][c]; if (q == 0) continue; if (!rational_coeffs_ok && !is_int(q)) return false; for (int x = 0; x < g.n; ++x) d[x] -= q * g.params[i][x]; }
  for (int x = 0; x < g.n; ++x) if (d[x] != 0) return false;
  return true;
}
inline bool member(Lattice g, const Vec& x) { if (g.empty) return false; canonicalize(g); Vec d(g.n); for (int i = 0; i < g.n; ++i) d[i] = x[i] - g.p[i]; return dir_member(g, d); }
inline bool included(Lattice a, Lattice b) {   // a subseteq b
  if (a.empty) return true; if (b.empty) return false;
  canonicalize(b);
  if (!member(b, a.p)) return false;
  for (auto& q : a.params) if (!dir_member(b, q)) return false;
  for (auto& l : a.lines) { Lattice bl = b; bl.params.clear(); if (!dir_member(bl, l, true)) return false; }
  return true;
}

struct Cg { Vec a; Q b; Q m; };   // a.x == b (mod m), m = 0: equality
// congruence system -> generator form
inline Lattice from_congruences(int n, const std::vector<Cg>& cgs) {
  Lattice g; g.n = n; g.empty = false; g.p.assign(n, Q(0));
  int k = cgs.size();
  if (k == 0) { for (int i = 0; i < n; ++i) { Vec e(n); e[i] = 1; g.lines.push_back(e); } return g; }
  std::vector<Vec> A; for (auto& c : cgs) { Vec a = c.a; a.resize(n); A.push_back(a); }
  g.lines = nullspace(A, n);
  // column basis: pivots of A^T ... we need w-coordinates: pick a maximal set of independent columns of A (pivot columns of rref(A))
  std::vector<Vec> R = A; std::vector<int> pc = rref(R, n); int r = pc.size();
  // C = A restricted to pivot columns (k x r), full column rank; x has zeros in non-pivot coords (mod lines)
  std::vector<Vec> C(k, Vec(r)); for (int i = 0; i < k; ++i) for (int j = 0; j < r; ++j) C[i][j] = A[i][pc[j]];
  // left null space K of C: K C = 0  => nullspace of C^T rows
  std::vector<Vec> Ct(r, Vec(k)); for (int i = 0; i < k; ++i) for (int j = 0; j < r; ++j) Ct[j][i] = C[i][j];
  std::vector<Vec> K = nullspace(Ct, k);
  // unknown integers t (k): y = b + M t must satisfy K y = 0
  std::vector<Vec> E; Vec f;
  for (auto& kr : K) { Vec e(k); Q s = 0; for (int i = 0; i < k; ++i) { e[i] = kr[i] * cgs[i].m; s += kr[i] * cgs[i].b; } E.push_back(e); f.push_back(-s); }
  std::vector<Z> t0; std::vector<std::vector<Z> > T;
  if (!solve_integer(E, f, k, t0, T)) { g.empty = true; return g; }
  // solve C w = y for y = b + M t0 (consistent)
  auto solveC = [&](const Vec& y, Vec& w) -> bool {
    std::vector<Vec> M(k, Vec(r + 1)); for (int i = 0; i < k; ++i) { for (int j = 0; j < r; ++j) M[i][j] = C[i][j]; M[i][r] = y[i]; }
    std::vector<int> pv = rref(M, r + 1); for (auto p : pv) if (p == r) return false;
    w.assign(r, Q(0)); for (size_t i = 0; i < pv.size(); ++i) w[pv[i]] = M[i][r]; return true; };
  Vec y0(k); for (int i = 0; i < k; ++i) y0[i] = cgs[i].b + cgs[i].m * Q(t0[i]);
  Vec w0; if (!solveC(y0, w0)) { g.empty = true; return g; }
  for (int j = 0; j < r; ++j) g.p[pc[j]] = w0[j];
  for (auto& tv : T) { Vec y(k); bool z = true; for (int i = 0; i < k; ++i) { y[i] = cgs[i].m * Q(tv[i]); if (y[i] != 0) z = false; } if (z) continue; Vec w; if (!solveC(y, w)) continue; Vec q(n); for (int j = 0; j < r; ++j) q[pc[j]] = w[j]; g.params.push_back(q); }
  return g;
}
inline bool sat_cg(const Cg& c, const Vec& x) { Q v = dot(c.a, x) - c.b; if (c.m == 0) return v == 0; return is_int(Q(v / c.m)); }

// ======================================================================
// Extensions used by the gridseq engine (C05): congruence form of a
// lattice, lattice operations, value set of a linear expression.
// Everything below only uses the primitives above (own HNF + exact
// rational linear algebra); nothing is taken from PPL.
// ======================================================================

inline Lattice lat_empty(int n) { Lattice g; g.n = n; g.empty = true; g.p.assign(n, Q(0)); return g; }
inline Lattice lat_universe(int n) { Lattice g; g.n = n; g.empty = false; g.p.assign(n, Q(0)); for (int i = 0; i < n; ++i) { Vec e(n); e[i] = 1; g.lines.push_back(e); } return g; }
inline Lattice lat_point(const Vec& p) { Lattice g; g.n = p.size(); g.empty = false; g.p = p; return g; }

inline Q qabs(const Q& q) { if (q < 0) return Q(-q); return q; }
// generator (>= 0) of the group aZ + bZ, a, b rational
inline Q qgcd(const Q& a, const Q& b) {
  if (a == 0) return qabs(b);
  if (b == 0) return qabs(a);
  Z x = abs(a.get_num()) * b.get_den(), y = abs(b.get_num()) * a.get_den(), g;
  mpz_gcd(g.get_mpz_t(), x.get_mpz_t(), y.get_mpz_t());
  Q r = Q(g) / Q(Z(a.get_den() * b.get_den())); r.canonicalize(); return r;
}
inline Q qfloor(const Q& q) { Z f; mpz_fdiv_q(f.get_mpz_t(), q.get_num_mpz_t(), q.get_den_mpz_t()); return Q(f); }

// Number of independent directions (affine dimension of a non-empty lattice).
inline int affine_dim(Lattice g) { if (g.empty) return 0; canonicalize(g); return (int) (g.params.size() + g.lines.size()); }
inline bool is_universe(Lattice g) { if (g.empty) return false; canonicalize(g); return (int) g.lines.size() == g.n; }
// is direction d in the line space of g?
inline bool line_member(const Lattice& g, const Vec& d) { Lattice t = g; t.params.clear(); return dir_member(t, d, true); }

// Values taken by a.x + b over the lattice.
struct ValSet {
  enum Kind { NONE, CONST, PERIODIC, ALL } kind;   // {} | {base} | {base + k step, k in Z} | Q
  Q base, step;
  ValSet() : kind(NONE) {}
};
inline ValSet values(const Lattice& g, const Vec& a, const Q& b) {
  ValSet v; if (g.empty) return v;
  for (size_t i = 0; i < g.lines.size(); ++i) if (dot(a, g.lines[i]) != 0) { v.kind = ValSet::ALL; return v; }
  v.base = dot(a, g.p) + b; Q s = 0;
  for (size_t i = 0; i < g.params.size(); ++i) s = qgcd(s, Q(dot(a, g.params[i])));
  if (s == 0) { v.kind = ValSet::CONST; return v; }
  v.kind = ValSet::PERIODIC; v.step = s;
  v.base -= qfloor(Q(v.base / s)) * s;    // representative in [0, step)
  v.base.canonicalize();
  return v;
}
inline bool vs_contains(const ValSet& v, const Q& x) {
  switch (v.kind) {
  case ValSet::NONE: return false;
  case ValSet::CONST: return x == v.base;
  case ValSet::PERIODIC: return is_int(Q((x - v.base) / v.step));
  default: return true;
  }
}
// does some / every value t of the set satisfy "t in mZ" (m == 0: t == 0)?
inline void vs_vs_modulus(const ValSet& v, const Q& m, bool& some, bool& every) {
  some = false; every = true;
  switch (v.kind) {
  case ValSet::NONE: return;
  case ValSet::CONST: some = every = (m == 0 ? v.base == 0 : is_int(Q(v.base / m))); return;
  case ValSet::ALL: some = true; every = false; return;
  case ValSet::PERIODIC:
    if (m == 0) { every = false; some = vs_contains(v, Q(0)); return; }
    every = is_int(Q(v.base / m)) && is_int(Q(v.step / m));
    { Q h = qgcd(v.step, m); some = is_int(Q(v.base / h)); }   // base + k step = j m solvable iff gcd(step, m) | base
    return;
  }
}

// Congruence description of a lattice, computed from the canonical generator form:
// x in L  iff  R(x - p) in Z-span(params), R = reduction modulo the lines.
inline std::vector<Cg> to_congruences(Lattice g) {
  std::vector<Cg> out; int n = g.n;
  if (g.empty) { Cg c; c.a.assign(n, Q(0)); c.b = 1; c.m = 0; out.push_back(c); return out; }
  canonicalize(g);
  std::vector<Vec> L = g.lines; std::vector<int> piv = rref(L, n);
  std::vector<Vec> Y(n, Vec(n + 1));                 // affine forms in x: coefficients, then constant
  for (int d = 0; d < n; ++d) { Y[d][d] = 1; Y[d][n] = -g.p[d]; }
  for (size_t i = 0; i < L.size(); ++i) {
    Vec f = Y[piv[i]];
    for (int d = 0; d < n; ++d) if (L[i][d] != 0) for (int j = 0; j <= n; ++j) Y[d][j] -= f[j] * L[i][d];
  }
  for (size_t i = 0; i < g.params.size(); ++i) {
    int c = 0; while (g.params[i][c] == 0) ++c;
    Vec T = Y[c]; for (int j = 0; j <= n; ++j) T[j] /= g.params[i][c];
    Cg cg; cg.a.assign(T.begin(), T.begin() + n); cg.b = -T[n]; cg.m = 1; out.push_back(cg);
    for (int d = 0; d < n; ++d) if (g.params[i][d] != 0) for (int j = 0; j <= n; ++j) Y[d][j] -= T[j] * g.params[i][d];
  }
  for (int d = 0; d < n; ++d) {
    bool z = true; for (int j = 0; j <= n; ++j) if (Y[d][j] != 0) z = false;
    if (z) continue;
    Cg cg; cg.a.assign(Y[d].begin(), Y[d].begin() + n); cg.b = -Y[d][n]; cg.m = 0; out.push_back(cg);
  }
  for (size_t i = 0; i < out.size(); ++i) { for (int d = 0; d < n; ++d) out[i].a[d].canonicalize(); out[i].b.canonicalize(); }
  return out;
}
inline bool sat_all(const std::vector<Cg>& cs, const Vec& x) { for (size_t i = 0; i < cs.size(); ++i) if (!sat_cg(cs[i], x)) return false; return true; }

inline Lattice intersect(const Lattice& A, const Lattice& B) {
  if (A.empty || B.empty) return lat_empty(A.n);
  std::vector<Cg> c = to_congruences(A), d = to_congruences(B);
  c.insert(c.end(), d.begin(), d.end());
  return from_congruences(A.n, c);
}
// smallest lattice containing both
inline Lattice join(const Lattice& A, const Lattice& B) {
  if (A.empty) return B; if (B.empty) return A;
  Lattice E = A;
  E.params.insert(E.params.end(), B.params.begin(), B.params.end());
  E.lines.insert(E.lines.end(), B.lines.begin(), B.lines.end());
  Vec q(A.n); for (int d = 0; d < A.n; ++d) q[d] = B.p[d] - A.p[d];
  E.params.push_back(q);
  return E;
}
// [dir(A) : dir(C)] for C subseteq A, both non-empty; 0 = infinite (different rank or line space)
inline Q lattice_index(Lattice A, Lattice C) {
  canonicalize(A); canonicalize(C);
  if (A.lines.size() != C.lines.size() || A.params.size() != C.params.size()) return Q(0);
  Q k = 1;
  for (size_t i = 0; i < A.params.size(); ++i) {
    int ca = 0; while (A.params[i][ca] == 0) ++ca;
    int cc = 0; while (C.params[i][cc] == 0) ++cc;
    if (ca != cc) return Q(-1);   // cannot happen for a sublattice of full rank
    k *= C.params[i][cc] / A.params[i][ca];
  }
  k.canonicalize(); return k;
}
// smallest lattice containing A \ B (closed form, DESIGN C05):
//   A subseteq B -> empty; A n B empty or of smaller rank / line space -> A;
//   index 2 -> the complementary coset; index >= 3 -> A.
inline Lattice difference(const Lattice& A, const Lattice& B, bool* internal_error = 0) {
  if (A.empty || B.empty) return A;
  if (included(A, B)) return lat_empty(A.n);
  Lattice C = intersect(A, B);
  if (C.empty) return A;
  Q k = lattice_index(A, C);
  if (k == 0) return A;
  if (k < 2 || !is_int(k)) { if (internal_error) *internal_error = true; return A; }
  if (k != 2) return A;
  Lattice a = A, c = C; canonicalize(a); canonicalize(c);
  for (size_t i = 0; i < a.params.size(); ++i) {
    Vec x = c.p; for (int d = 0; d < a.n; ++d) x[d] += a.params[i][d];
    if (!member(c, x)) { Lattice r = c; r.p = x; return r; }
  }
  if (internal_error) *internal_error = true;
  return A;
}

// Affine map x -> M (x,1): M has n_out rows of n_in + 1 entries.
typedef std::vector<Vec> AffMap;
inline AffMap identity_map(int n) { AffMap M(n, Vec(n + 1)); for (int i = 0; i < n; ++i) M[i][i] = 1; return M; }
inline Vec map_apply(const AffMap& M, const Vec& x, bool direction) {
  Vec y(M.size()); int n = x.size();
  for (size_t r = 0; r < M.size(); ++r) { Q s = direction ? Q(0) : M[r][n]; for (int j = 0; j < n; ++j) if (M[r][j] != 0 && x[j] != 0) s += M[r][j] * x[j]; y[r] = s; }
  return y;
}
inline Lattice image(const Lattice& L, const AffMap& M) {
  Lattice R; R.n = M.size(); R.empty = L.empty; R.p.assign(R.n, Q(0));
  if (L.empty) return R;
  R.p = map_apply(M, L.p, false);
  for (size_t i = 0; i < L.params.size(); ++i) R.params.push_back(map_apply(M, L.params[i], true));
  for (size_t i = 0; i < L.lines.size(); ++i) R.lines.push_back(map_apply(M, L.lines[i], true));
  return R;
}
// { x in Q^n_in : M(x,1) in L }
inline Lattice preimage(const Lattice& L, const AffMap& M, int n_in) {
  if (L.empty) return lat_empty(n_in);
  std::vector<Cg> c = to_congruences(L), out;
  for (size_t i = 0; i < c.size(); ++i) {
    Cg g; g.a.assign(n_in, Q(0)); g.b = c[i].b; g.m = c[i].m;
    for (size_t d = 0; d < M.size(); ++d) if (c[i].a[d] != 0) { for (int j = 0; j < n_in; ++j) g.a[j] += c[i].a[d] * M[d][j]; g.b -= c[i].a[d] * M[d][n_in]; }
    out.push_back(g);
  }
  return from_congruences(n_in, out);
}
// Generalized affine relation of the grid domain:
//   (v, w) in phi  iff  lc.w + ld == ra.v + rb (mod f)  and  w_i = v_i whenever lc_i == 0.
// image: { w | exists v in L, (v,w) in phi };  preimage: { v | exists w in L, (v,w) in phi }.
inline Lattice rel_image(const Lattice& L, const Vec& lc, const Q& ld, const Vec& ra, const Q& rb, const Q& f, bool pre) {
  int n = L.n;
  if (L.empty) return lat_empty(n);
  // unknowns: (v, w) in Q^{2n}; the block constrained by L is v (image) or w (preimage)
  int src = pre ? n : 0, dst = pre ? 0 : n;
  std::vector<Cg> c = to_congruences(L), sys;
  for (size_t i = 0; i < c.size(); ++i) { Cg g; g.a.assign(2 * n, Q(0)); for (int d = 0; d < n; ++d) g.a[src + d] = c[i].a[d]; g.b = c[i].b; g.m = c[i].m; sys.push_back(g); }
  for (int i = 0; i < n; ++i) if (lc[i] == 0) { Cg g; g.a.assign(2 * n, Q(0)); g.a[i] = 1; g.a[n + i] = -1; g.b = 0; g.m = 0; sys.push_back(g); }
  { Cg g; g.a.assign(2 * n, Q(0)); for (int i = 0; i < n; ++i) { g.a[n + i] += lc[i]; g.a[i] -= ra[i]; } g.b = rb - ld; g.m = qabs(f); sys.push_back(g); }
  Lattice P = from_congruences(2 * n, sys);
  AffMap M(n, Vec(2 * n + 1)); for (int i = 0; i < n; ++i) M[i][dst + i] = 1;
  return image(P, M);
}

} // namespace ref
#endif
