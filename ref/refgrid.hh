// Prototype reference model for rational grids (affine lattices over Q).
#ifndef REF_GRID_HH
#define REF_GRID_HH
#include "refpoly.hh"   // Vec, Q, rref, nullspace
#include <algorithm>

namespace ref {

typedef mpz_class Z;

inline bool is_int(const Q& q) { return q.get_den() == 1; }

// Solve E t = f for integer t (E rational r x k, f rational r).
// On success: t0 (particular) and T (columns = Z-basis of the homogeneous solutions).
// Column-style HNF with unimodular tracking.
inline bool solve_integer(std::vector<Vec> E, Vec f, int k, std::vector<Z>& t0, std::vector<std::vector<Z> >& T) {
  int r = E.size();
  // scale each row to integers
  std::vector<std::vector<Z> > A(r, std::vector<Z>(k)); std::vector<Z> b(r);
  for (int i = 0; i < r; ++i) {
    Z l = 1;
    for (int j = 0; j < k; ++j) { Z d = E[i][j].get_den(); Z g; mpz_lcm(l.get_mpz_t(), l.get_mpz_t(), d.get_mpz_t()); }
    { Z d = f[i].get_den(); mpz_lcm(l.get_mpz_t(), l.get_mpz_t(), d.get_mpz_t()); }
    for (int j = 0; j < k; ++j) { Q v = E[i][j] * Q(l); A[i][j] = v.get_num(); }
    Q v = f[i] * Q(l); b[i] = v.get_num();
  }
  // U = identity k x k ; column ops on [A; U]
  std::vector<std::vector<Z> > U(k, std::vector<Z>(k));
  for (int j = 0; j < k; ++j) U[j][j] = 1;
  int col = 0; std::vector<int> piv_row;
  for (int i = 0; i < r && col < k; ++i) {
    // make A[i][col..k-1] have a single nonzero at col via gcd column ops
    for (;;) {
      int best = -1;
      for (int j = col; j < k; ++j) if (A[i][j] != 0 && (best < 0 || abs(A[i][j]) < abs(A[i][best]))) best = j;
      if (best < 0) break;
      if (best != col) { for (int x = 0; x < r; ++x) std::swap(A[x][col], A[x][best]); for (int x = 0; x < k; ++x) std::swap(U[x][col], U[x][best]); }
      bool done = true;
      for (int j = col + 1; j < k; ++j) if (A[i][j] != 0) {
        Z q; mpz_fdiv_q(q.get_mpz_t(), A[i][j].get_mpz_t(), A[i][col].get_mpz_t());
        for (int x = 0; x < r; ++x) A[x][j] -= q * A[x][col];
        for (int x = 0; x < k; ++x) U[x][j] -= q * U[x][col];
        if (A[i][j] != 0) done = false;
      }
      if (done) break;
    }
    if (A[i][col] != 0) { piv_row.push_back(i); ++col; }
  }
  // Now A = [H | 0] with `col' pivot columns (lower-trapezoidal in pivot rows). Solve A s = b.
  std::vector<Z> s(k);
  std::vector<Z> resid = b;
  for (int c = 0; c < col; ++c) {
    int i = piv_row[c];
    // resid[i] must be divisible by A[i][c] after subtracting earlier columns (already subtracted)
    if (resid[i] % A[i][c] != 0) return false;
    s[c] = resid[i] / A[i][c];
    for (int x = 0; x < r; ++x) resid[x] -= s[c] * A[x][c];
  }
  for (int x = 0; x < r; ++x) if (resid[x] != 0) return false;
  t0.assign(k, Z(0));
  for (int x = 0; x < k; ++x) for (int c = 0; c < col; ++c) t0[x] += U[x][c] * s[c];
  T.clear();
  for (int c = col; c < k; ++c) { std::vector<Z> v(k); for (int x = 0; x < k; ++x) v[x] = U[x][c]; T.push_back(v); }
  return true;
}

struct Lattice {
  int n; bool empty;
  Vec p;                    // a point
  std::vector<Vec> params;  // Z-combinations
  std::vector<Vec> lines;   // Q-combinations
  Lattice() : n(0), empty(true) {}
};

// canonical form: lines RREF; params reduced modulo lines and put in (row) HNF; point reduced.
inline void reduce_mod_lines(const std::vector<Vec>& L, const std::vector<int>& piv, Vec& v) {
  for (size_t i = 0; i < L.size(); ++i) { Q f = v[piv[i]]; if (f != 0) for (size_t d = 0; d < v.size(); ++d) v[d] -= f * L[i][d]; }
}
inline void canonicalize(Lattice& g) {
  if (g.empty) { g.params.clear(); g.lines.clear(); g.p.assign(g.n, Q(0)); return; }
  int n = g.n;
  std::vector<Vec> L = g.lines; std::vector<int> piv = rref(L, n);
  g.lines = L;
  for (size_t i = 0; i < g.params.size(); ++i) reduce_mod_lines(L, piv, g.params[i]);
  reduce_mod_lines(L, piv, g.p);
  // integer row-HNF of params (scaled by common denominator)
  Z D = 1;
  for (size_t i = 0; i < g.params.size(); ++i) for (int d = 0; d < n; ++d) { Z den = g.params[i][d].get_den(); mpz_lcm(D.get_mpz_t(), D.get_mpz_t(), den.get_mpz_t()); }
  std::vector<std::vector<Z> > M;
  for (size_t i = 0; i < g.params.size(); ++i) { std::vector<Z> r(n); bool z = true; for (int d = 0; d < n; ++d) { Q v = g.params[i][d] * Q(D); r[d] = v.get_num(); if (r[d] != 0) z = false; } if (!z) M.push_back(r); }
  size_t row = 0;
  for (int c = 0; c < n && row < M.size(); ++c) {
    for (;;) {
      int best = -1;
      for (size_t i = row; i < M.size(); ++i) if (M[i][c] != 0 && (best < 0 || abs(M[i][c]) < abs(M[best][c]))) best = i;
      if (best < 0) break;
      std::swap(M[row], M[best]);
      bool done = true;
      for (size_t i = row + 1; i < M.size(); ++i) if (M[i][c] != 0) { Z q; mpz_fdiv_q(q.get_mpz_t(), M[i][c].get_mpz_t(), M[row][c].get_mpz_t()); for (int d = 0; d < n; ++d) M[i][d] -= q * M[row][d]; if (M[i][c] != 0) done = false; }
      if (done) break;
    }
    if (row < M.size() && M[row][c] != 0) {
      if (M[row][c] < 0) for (int d = 0; d < n; ++d) M[row][d] = -M[row][d];
      for (size_t i = 0; i < row; ++i) { Z q; mpz_fdiv_q(q.get_mpz_t(), M[i][c].get_mpz_t(), M[row][c].get_mpz_t()); if (q != 0) for (int d = 0; d < n; ++d) M[i][d] -= q * M[row][d]; }
      ++row;
    }
  }
  M.resize(row);
  g.params.clear();
  for (size_t i = 0; i < M.size(); ++i) { Vec v(n); for (int d = 0; d < n; ++d) { v[d] = Q(M[i][d]) / Q(D); v[d].canonicalize(); } g.params.push_back(v); }
  // reduce point modulo params (pivot col of param i = first nonzero)
  for (size_t i = 0; i < g.params.size(); ++i) { int c = 0; while (g.params[i][c] == 0) ++c; Q q = g.p[c] / g.params[i][c]; Z fl; mpz_fdiv_q(fl.get_mpz_t(), q.get_num_mpz_t(), q.get_den_mpz_t()); if (fl != 0) for (int d = 0; d < n; ++d) g.p[d] -= Q(fl) * g.params[i][d]; }
}
inline bool same(Lattice a, Lattice b) {
  canonicalize(a); canonicalize(b);
  if (a.empty != b.empty) return false; if (a.empty) return true;
  return a.p == b.p && a.params == b.params && a.lines == b.lines;
}
// membership of direction d in dir-lattice (params over Z + lines over Q); g canonical
inline bool dir_member(const Lattice& g, Vec d, bool rational_coeffs_ok = false) {
  std::vector<Vec> L = g.lines; std::vector<int> piv = rref(L, g.n);
  reduce_mod_lines(L, piv, d);
  for (size_t i = 0; i < g.params.size(); ++i) { int c = 0; while (g.params[i][c] == 0) ++c; Q q = d[c] / g.params[i][c]; if (q == 0) continue; if (!rational_coeffs_ok && !is_int(q)) return false; for (int x = 0; x < g.n; ++x) d[x] -= q * g.params[i][x]; }
  for (int x = 0; x < g.n; ++x) if (d[x] != 0) return false;
  return true;
}
inline bool member(Lattice g, const Vec& x) { if (g.empty) return false; canonicalize(g); Vec d(g.n); for (int i = 0; i < g.n; ++i) d[i] = x[i] - g.p[i]; return dir_member(g, d); }
inline bool included(Lattice a, Lattice b) {   // a subseteq b
  if (a.empty) return true; if (b.empty) return false;
  canonicalize(b);
  if (!member(b, a.p)) return false;
  for (auto& q : a.params) if (!dir_member(b, q)) return false;
  for (auto& l : a.lines) { Lattice bl = b; bl.params.clear(); if (!dir_member(bl, l, true)) return false; }
  return true;
}

struct Cg { Vec a; Q b; Q m; };   // a.x == b (mod m), m = 0: equality
// congruence system -> generator form
inline Lattice from_congruences(int n, const std::vector<Cg>& cgs) {
  Lattice g; g.n = n; g.empty = false; g.p.assign(n, Q(0));
  int k = cgs.size();
  if (k == 0) { for (int i = 0; i < n; ++i) { Vec e(n); e[i] = 1; g.lines.push_back(e); } return g; }
  std::vector<Vec> A; for (auto& c : cgs) { Vec a = c.a; a.resize(n); A.push_back(a); }
  g.lines = nullspace(A, n);
  // column basis: pivots of A^T ... we need w-coordinates: pick a maximal set of independent columns of A (pivot columns of rref(A))
  std::vector<Vec> R = A; std::vector<int> pc = rref(R, n); int r = pc.size();
  // C = A restricted to pivot columns (k x r), full column rank; x has zeros in non-pivot coords (mod lines)
  std::vector<Vec> C(k, Vec(r)); for (int i = 0; i < k; ++i) for (int j = 0; j < r; ++j) C[i][j] = A[i][pc[j]];
  // left null space K of C: K C = 0  => nullspace of C^T rows
  std::vector<Vec> Ct(r, Vec(k)); for (int i = 0; i < k; ++i) for (int j = 0; j < r; ++j) Ct[j][i] = C[i][j];
  std::vector<Vec> K = nullspace(Ct, k);
  // unknown integers t (k): y = b + M t must satisfy K y = 0
  std::vector<Vec> E; Vec f;
  for (auto& kr : K) { Vec e(k); Q s = 0; for (int i = 0; i < k; ++i) { e[i] = kr[i] * cgs[i].m; s += kr[i] * cgs[i].b; } E.push_back(e); f.push_back(-s); }
  std::vector<Z> t0; std::vector<std::vector<Z> > T;
  if (!solve_integer(E, f, k, t0, T)) { g.empty = true; return g; }
  // solve C w = y for y = b + M t0 (consistent)
  auto solveC = [&](const Vec& y, Vec& w) -> bool {
    std::vector<Vec> M(k, Vec(r + 1)); for (int i = 0; i < k; ++i) { for (int j = 0; j < r; ++j) M[i][j] = C[i][j]; M[i][r] = y[i]; }
    std::vector<int> pv = rref(M, r + 1); for (auto p : pv) if (p == r) return false;
    w.assign(r, Q(0)); for (size_t i = 0; i < pv.size(); ++i) w[pv[i]] = M[i][r]; return true; };
  Vec y0(k); for (int i = 0; i < k; ++i) y0[i] = cgs[i].b + cgs[i].m * Q(t0[i]);
  Vec w0; if (!solveC(y0, w0)) { g.empty = true; return g; }
  for (int j = 0; j < r; ++j) g.p[pc[j]] = w0[j];
  for (auto& tv : T) { Vec y(k); bool z = true; for (int i = 0; i < k; ++i) { y[i] = cgs[i].m * Q(tv[i]); if (y[i] != 0) z = false; } if (z) continue; Vec w; if (!solveC(y, w)) continue; Vec q(n); for (int j = 0; j < r; ++j) q[pc[j]] = w[j]; g.params.push_back(q); }
  return g;
}
inline bool sat_cg(const Cg& c, const Vec& x) { Q v = dot(c.a, x) - c.b; if (c.m == 0) return v == 0; return is_int(Q(v / c.m)); }

} // namespace ref
#endif
