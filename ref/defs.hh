// Operator definitions of doc/definitions.dox written as exists-projected
// linear systems (ESys) over the argument's constraint shadow.  Shared by the
// polyhedra, shape, box, powerset and product engines.
#ifndef REF_DEFS_HH
#define REF_DEFS_HH
#include "refpoly.hh"

namespace ref {

inline Con shift(const Con& c, int nv, int off) {
  Con r; r.a.assign(nv, Q(0));
  for (size_t i = 0; i < c.a.size(); ++i) r.a[off + i] = c.a[i];
  r.b = c.b; r.rel = c.rel; return r;
}
inline ESys esys_of(const Sys& s, int n) { ESys T; T.n = n; T.aux = 0; T.s = s; return T; }
inline Sys closure_of(Sys s) { for (size_t i = 0; i < s.size(); ++i) if (s[i].rel == LT) s[i].rel = LE; return s; }

// relation index: 0 '<', 1 '<=', 2 '==', 3 '>=', 4 '>'
// push  a.x REL b
inline void push_rel(Sys& s, const Vec& a, const Q& b, int r) {
  if (r == 2) s.push_back(Con(a, b, EQ));
  else if (r < 2) s.push_back(Con(a, b, r == 0 ? LT : LE));
  else { Vec na(a.size()); for (size_t j = 0; j < a.size(); ++j) na[j] = -a[j]; s.push_back(Con(na, Q(-b), r == 4 ? LT : LE)); }
}

// Affine relation  d * w_k  REL  e(v) + eb,  w_i = v_i (i != k).
// image:    visible w at [0,n), aux v at [n,2n), S(v)
// preimage: visible v at [0,n), aux w at [n,2n), S(w)
inline ESys def_gen_affine(const Sys& S, int n, int k, int rel, const Vec& ea, const Q& eb, const Q& d, bool pre) {
  ESys T; T.n = n; T.aux = n; int nv = 2 * n;
  for (size_t i = 0; i < S.size(); ++i) T.s.push_back(shift(S[i], nv, n));
  int offW = pre ? n : 0, offV = pre ? 0 : n;
  for (int i = 0; i < n; ++i) {
    Vec a(nv);
    if (i == k) {
      a[offW + i] += d;
      for (int j = 0; j < n; ++j) a[offV + j] -= ea[j];
      int r = rel; if (d < 0) r = 4 - r;
      // d*w_k - e(v) REL eb   (for d<0 dividing by d flips REL: w_k REL e/d  <=>  d*w_k REL' e)
      push_rel(T.s, a, eb, r);
    } else { a[i] = 1; a[n + i] = -1; T.s.push_back(Con(a, Q(0), EQ)); }
  }
  return T;
}
inline ESys def_affine_image(const Sys& S, int n, int k, const Vec& ea, const Q& eb, const Q& d) { return def_gen_affine(S, n, k, 2, ea, eb, d, false); }
inline ESys def_affine_preimage(const Sys& S, int n, int k, const Vec& ea, const Q& eb, const Q& d) { return def_gen_affine(S, n, k, 2, ea, eb, d, true); }

// lhs/rhs form: image  { w | exists v in S: lhs(w) REL rhs(v), w_i = v_i for all i with lhs coeff zero }
// preimage { v | exists w in S: lhs(w) REL rhs(v), w_i = v_i for i with zero lhs coeff }
inline ESys def_gen_affine_lr(const Sys& S, int n, const Vec& la, const Q& lb, int rel, const Vec& ra, const Q& rb, bool pre) {
  ESys T; T.n = n; T.aux = n; int nv = 2 * n;
  for (size_t i = 0; i < S.size(); ++i) T.s.push_back(shift(S[i], nv, n));
  int offW = pre ? n : 0, offV = pre ? 0 : n;
  Vec a(nv);
  for (int j = 0; j < n; ++j) { a[offW + j] += la[j]; a[offV + j] -= ra[j]; }
  push_rel(T.s, a, Q(rb - lb), rel);
  for (int i = 0; i < n; ++i) if (la[i] == 0) { Vec e(nv); e[i] = 1; e[n + i] = -1; T.s.push_back(Con(e, Q(0), EQ)); }
  return T;
}

// bounded: lb(v)/d <= w_k <= ub(v)/d
inline ESys def_bounded_affine(const Sys& S, int n, int k, const Vec& la, const Q& lbb, const Vec& ua, const Q& ubb, const Q& d, bool pre) {
  ESys T; T.n = n; T.aux = n; int nv = 2 * n;
  for (size_t i = 0; i < S.size(); ++i) T.s.push_back(shift(S[i], nv, n));
  int offW = pre ? n : 0, offV = pre ? 0 : n;
  for (int i = 0; i < n; ++i) {
    if (i == k) {
      Vec c1(nv), c2(nv);
      // d*w_k >= lb(v) (d>0)   i.e.  d*w_k - la.v  >= lbb
      c1[offW + i] += d; for (int j = 0; j < n; ++j) c1[offV + j] -= la[j];
      c2[offW + i] += d; for (int j = 0; j < n; ++j) c2[offV + j] -= ua[j];
      push_rel(T.s, c1, lbb, d > 0 ? 3 : 1);
      push_rel(T.s, c2, ubb, d > 0 ? 1 : 3);
    } else { Vec a(nv); a[i] = 1; a[n + i] = -1; T.s.push_back(Con(a, Q(0), EQ)); }
  }
  return T;
}

// unconstrain a set of variables
inline ESys def_unconstrain(const Sys& S, int n, const std::vector<bool>& vars) {
  ESys T; T.n = n; T.aux = n; int nv = 2 * n;
  for (size_t i = 0; i < S.size(); ++i) T.s.push_back(shift(S[i], nv, n));
  for (int i = 0; i < n; ++i) if (!vars[i]) { Vec a(nv); a[i] = 1; a[n + i] = -1; T.s.push_back(Con(a, Q(0), EQ)); }
  return T;
}
inline ESys def_add_dims(const Sys& S, int n, int m, bool project) {
  Sys T; for (size_t i = 0; i < S.size(); ++i) T.push_back(shift(S[i], n + m, 0));
  if (project) for (int i = 0; i < m; ++i) { Vec a(n + m); a[n + i] = 1; T.push_back(Con(a, Q(0), EQ)); }
  return esys_of(T, n + m);
}
// keep[j] = original index of result dimension j
inline ESys def_project_onto(const Sys& S, int n, const std::vector<int>& keep) {
  int k = keep.size(); ESys T; T.n = k; T.aux = n; int nv = k + n;
  for (size_t i = 0; i < S.size(); ++i) T.s.push_back(shift(S[i], nv, k));
  for (int j = 0; j < k; ++j) { Vec a(nv); a[j] = 1; a[k + keep[j]] = -1; T.s.push_back(Con(a, Q(0), EQ)); }
  return T;
}
// img[j] = new index of original dimension j or -1; k = number of result dimensions
inline ESys def_map_dims(const Sys& S, int n, const std::vector<int>& img, int k) {
  ESys T; T.n = k; T.aux = n; int nv = k + n;
  for (size_t i = 0; i < S.size(); ++i) T.s.push_back(shift(S[i], nv, k));
  for (int j = 0; j < n; ++j) if (img[j] >= 0) { Vec a(nv); a[img[j]] = 1; a[k + j] = -1; T.s.push_back(Con(a, Q(0), EQ)); }
  return T;
}
inline ESys def_expand(const Sys& S, int n, int i, int m) {
  ESys T; T.n = n + m; T.aux = n * (1 + m); int nv = T.n + T.aux; int offv = n + m;
  for (size_t c = 0; c < S.size(); ++c) T.s.push_back(shift(S[c], nv, offv));
  for (int k = 0; k < n; ++k) { Vec a(nv); a[k] = 1; a[offv + k] = -1; T.s.push_back(Con(a, Q(0), EQ)); }
  for (int j = 0; j < m; ++j) {
    int offw = offv + n * (1 + j);
    for (size_t c = 0; c < S.size(); ++c) T.s.push_back(shift(S[c], nv, offw));
    for (int k = 0; k < n; ++k) if (k != i) { Vec a(nv); a[offw + k] = 1; a[offv + k] = -1; T.s.push_back(Con(a, Q(0), EQ)); }
    Vec a(nv); a[n + j] = 1; a[offw + i] = -1; T.s.push_back(Con(a, Q(0), EQ));
  }
  return T;
}
inline ESys def_concat(const Sys& SA, int n, const Sys& SB, int m) {
  Sys T; for (size_t i = 0; i < SA.size(); ++i) T.push_back(shift(SA[i], n + m, 0));
  for (size_t i = 0; i < SB.size(); ++i) T.push_back(shift(SB[i], n + m, n));
  return esys_of(T, n + m);
}

// ---------- finite unions of NNC polyhedra (all over n visible variables, no aux) ----------
// negation pieces of a single constraint
inline std::vector<Con> negate(const Con& c) {
  std::vector<Con> r; Vec na(c.a.size()); for (size_t j = 0; j < c.a.size(); ++j) na[j] = -c.a[j];
  if (c.rel == LE) r.push_back(Con(na, Q(-c.b), LT));
  else if (c.rel == LT) r.push_back(Con(na, Q(-c.b), LE));
  else { r.push_back(Con(na, Q(-c.b), LT)); r.push_back(Con(c.a, c.b, LT)); }
  return r;
}
struct UnionStats { unsigned long nodes; bool capped; UnionStats() : nodes(0), capped(false) {} };
// Is P \ (Q_0 u ... u Q_{k-1}) empty?  1 = yes, 0 = no (witness), -1 = node cap hit.
inline int diff_empty_rec(int n, const Sys& P, const std::vector<Sys>& Q, size_t from, UnionStats& st, Vec* wit, unsigned long cap) {
  if (++st.nodes > cap) { st.capped = true; return -1; }
  Vec w;
  if (!feasible(n, P, &w)) return 1;
  // skip the Q_j that do not meet P
  size_t j = from;
  for (; j < Q.size(); ++j) { Sys m = P; m.insert(m.end(), Q[j].begin(), Q[j].end()); if (feasible(n, m)) break; }
  if (j == Q.size()) { if (wit) *wit = w; return 0; }
  // disjoint partition of P \ Q_j:  P & c_1 & .. & c_{i-1} & !c_i
  Sys acc = P;
  for (size_t i = 0; i < Q[j].size(); ++i) {
    std::vector<Con> ng = negate(Q[j][i]);
    for (size_t t = 0; t < ng.size(); ++t) {
      Sys piece = acc; Con c = ng[t]; c.a.resize(n); piece.push_back(c);
      int r = diff_empty_rec(n, piece, Q, j + 1, st, wit, cap);
      if (r != 1) return r;
    }
    Con c = Q[j][i]; c.a.resize(n); acc.push_back(c);
  }
  return 1;
}
// U subseteq V ?
inline int union_included(int n, const std::vector<Sys>& U, const std::vector<Sys>& V, Vec* wit = 0, unsigned long cap = 20000) {
  UnionStats st;
  for (size_t i = 0; i < U.size(); ++i) { int r = diff_empty_rec(n, U[i], V, 0, st, wit, cap); if (r != 1) return r; }
  return 1;
}
// pieces of A \ B (B a single polyhedron), overlapping form is fine for hull computations
inline std::vector<Sys> difference_pieces(int n, const Sys& A, const Sys& B) {
  std::vector<Sys> out;
  for (size_t i = 0; i < B.size(); ++i) { std::vector<Con> ng = negate(B[i]); for (size_t t = 0; t < ng.size(); ++t) { Sys p = A; Con c = ng[t]; c.a.resize(n); p.push_back(c); if (feasible(n, p)) out.push_back(p); } }
  return out;
}
// Is x (a point, closure point, ray or line of a candidate) inside the closed convex hull of the non-empty pieces?
inline bool in_closed_hull_of_pieces(int n, const std::vector<Sys>& ne, const Gen& g) {
  int k = ne.size(); int nv = n + k * (n + 1);
  bool homog = (g.kind == Gen::RAY || g.kind == Gen::LINE);
  for (int rep = 0; rep < (g.kind == Gen::LINE ? 2 : 1); ++rep) {
    Sys s;
    for (int d = 0; d < n; ++d) { Vec a(nv); a[d] = 1; for (int i = 0; i < k; ++i) a[n + i * (n + 1) + d] = -1; s.push_back(Con(a, Q(0), EQ)); }
    Vec sl(nv);
    for (int i = 0; i < k; ++i) {
      int off = n + i * (n + 1);
      for (size_t c = 0; c < ne[i].size(); ++c) { Vec a(nv); for (int d = 0; d < n && d < (int) ne[i][c].a.size(); ++d) a[off + d] = ne[i][c].a[d]; a[off + n] = -ne[i][c].b; s.push_back(Con(a, Q(0), ne[i][c].rel == EQ ? EQ : LE)); }
      Vec a(nv); a[off + n] = -1; s.push_back(Con(a, Q(0), LE));
      sl[off + n] = 1;
    }
    s.push_back(Con(sl, homog ? Q(0) : Q(1), EQ));
    for (int d = 0; d < n; ++d) { Vec a(nv); a[d] = 1; s.push_back(Con(a, rep ? Q(-g.v[d]) : g.v[d], EQ)); }
    if (!feasible(nv, s)) return false;
  }
  return true;
}

} // namespace ref
#endif
