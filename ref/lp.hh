// Prototype exact LP (two-phase dense simplex over mpq, Bland's rule).
// Decides feasibility/optimum of systems of linear constraints with
// strict / non-strict inequalities and equalities over free rational vars.
#ifndef REF_LP_HH
#define REF_LP_HH
#include <gmpxx.h>
#include <vector>
#include <cassert>
#include <cstdio>

namespace ref {

typedef mpq_class Q;
typedef std::vector<Q> Vec;

enum Rel { LE, LT, EQ };   // a.x <= b, a.x < b, a.x == b

struct Con {
  Vec a; Q b; Rel rel;
  Con() : b(0), rel(LE) {}
  Con(const Vec& a_, const Q& b_, Rel r) : a(a_), b(b_), rel(r) {}
};

typedef std::vector<Con> Sys;

inline Q dot(const Vec& a, const Vec& x) {
  Q s = 0;
  size_t n = a.size() < x.size() ? a.size() : x.size();
  for (size_t i = 0; i < n; ++i) if (a[i] != 0 && x[i] != 0) s += a[i]*x[i];
  return s;
}

inline bool sat(const Con& c, const Vec& x) {
  Q v = dot(c.a, x);
  switch (c.rel) {
  case LE: return v <= c.b;
  case LT: return v < c.b;
  case EQ: return v == c.b;
  }
  return false;
}
inline bool sat(const Sys& s, const Vec& x) {
  for (size_t i = 0; i < s.size(); ++i) if (!sat(s[i], x)) return false;
  return true;
}

enum Status { INFEASIBLE, OPTIMAL, UNBOUNDED };

struct LPCounters { unsigned long solves, pivots; LPCounters() : solves(0), pivots(0) {} };
inline LPCounters& lp_counters() { static LPCounters c; return c; }

// Core: maximize obj.y subject to M y = rhs, y >= 0  (rhs >= 0 made by sign flip),
// two-phase with artificials. Dense tableau.
class Simplex {
public:
  // rows: constraints; cols: structural vars (all >= 0)
  std::vector<Vec> T;      // m rows, each ncols+1 (last = rhs)
  std::vector<int> basis;  // basic var index per row
  int ncols;
  Simplex(int m, int n) : T(m, Vec(n + 1)), basis(m, -1), ncols(n) {}

  void pivot(int r, int c) {
    ++lp_counters().pivots;
    Q p = T[r][c];
    for (int j = 0; j <= ncols; ++j) if (T[r][j] != 0) T[r][j] /= p;
    for (size_t i = 0; i < T.size(); ++i) {
      if ((int) i == r) continue;
      Q f = T[i][c];
      if (f == 0) continue;
      for (int j = 0; j <= ncols; ++j)
        if (T[r][j] != 0) T[i][j] -= f * T[r][j];
    }
    basis[r] = c;
  }

  // Maximize cost over current basic feasible tableau; allowed[j] says
  // whether column j may enter. Returns OPTIMAL or UNBOUNDED.
  Status optimize(const Vec& cost, const std::vector<bool>& allowed, Q& value) {
    int m = T.size();
    for (;;) {
      // reduced costs: d_j = cost_j - sum_i cost_basis[i] * T[i][j]
      int enter = -1;
      for (int j = 0; j < ncols && enter < 0; ++j) {
        if (!allowed[j]) continue;
        bool is_basic = false;
        for (int i = 0; i < m; ++i) if (basis[i] == j) { is_basic = true; break; }
        if (is_basic) continue;
        Q d = cost[j];
        for (int i = 0; i < m; ++i)
          if (cost[basis[i]] != 0 && T[i][j] != 0) d -= cost[basis[i]] * T[i][j];
        if (d > 0) enter = j;   // Bland: first improving index
      }
      if (enter < 0) break;
      int leave = -1; Q best;
      for (int i = 0; i < m; ++i) {
        if (T[i][enter] > 0) {
          Q ratio = T[i][ncols] / T[i][enter];
          if (leave < 0 || ratio < best
              || (ratio == best && basis[i] < basis[leave])) {
            leave = i; best = ratio;
          }
        }
      }
      if (leave < 0) return UNBOUNDED;
      pivot(leave, enter);
    }
    value = 0;
    for (int i = 0; i < m; ++i) value += cost[basis[i]] * T[i][ncols];
    return OPTIMAL;
  }
};

struct LPResult {
  Status status;
  Q value;       // optimum (if OPTIMAL)
  Vec x;         // witness (if OPTIMAL) in original free variables
};

// Maximize obj.x s.t. closed system (LT treated as LE) over n free variables.
inline LPResult lp_max_closed(int n, const Sys& sys, const Vec& obj) {
  ++lp_counters().solves;
  int m = sys.size();
  // columns: x+ (n), x- (n), slack per inequality row (m, unused for EQ), artificial (m)
  int ncols = 2*n + m + m;
  Simplex S(m, ncols);
  std::vector<bool> allowed(ncols, true);
  for (int i = 0; i < m; ++i) {
    const Con& c = sys[i];
    Vec& row = S.T[i];
    for (int j = 0; j < n && j < (int) c.a.size(); ++j) {
      row[j] = c.a[j];
      row[n + j] = -c.a[j];
    }
    if (c.rel != EQ) row[2*n + i] = 1; else allowed[2*n + i] = false;
    row[ncols] = c.b;
    if (row[ncols] < 0) {
      for (int j = 0; j <= ncols; ++j) if (row[j] != 0) row[j] = -row[j];
    }
    // use slack as initial basis when its coefficient is +1 and it exists
    if (c.rel != EQ && row[2*n + i] == 1) {
      S.basis[i] = 2*n + i;
      allowed[2*n + m + i] = false;  // artificial not needed
    } else {
      row[2*n + m + i] = 1;
      S.basis[i] = 2*n + m + i;
    }
  }
  LPResult res;
  // Phase 1: maximize -(sum of artificials)
  Vec cost1(ncols);
  bool need1 = false;
  for (int i = 0; i < m; ++i)
    if (S.basis[i] >= 2*n + m) { cost1[S.basis[i]] = -1; need1 = true; }
  if (need1) {
    Q v;
    Status st = S.optimize(cost1, allowed, v);
    assert(st == OPTIMAL); (void) st;
    if (v < 0) { res.status = INFEASIBLE; return res; }
    // drive artificials out of basis where possible
    for (int i = 0; i < m; ++i) {
      if (S.basis[i] >= 2*n + m) {
        int c = -1;
        for (int j = 0; j < 2*n + m; ++j)
          if (allowed[j] && S.T[i][j] != 0) { c = j; break; }
        if (c >= 0) S.pivot(i, c);
        // else: redundant row (all zero), harmless: keep artificial basic at 0
      }
    }
    for (int j = 2*n + m; j < ncols; ++j) allowed[j] = false;
  }
  Vec cost2(ncols);
  for (int j = 0; j < n && j < (int) obj.size(); ++j) { cost2[j] = obj[j]; cost2[n+j] = -obj[j]; }
  Q v;
  Status st = S.optimize(cost2, allowed, v);
  res.status = st;
  if (st == OPTIMAL) {
    res.value = v;
    Vec y(ncols);
    for (int i = 0; i < m; ++i) y[S.basis[i]] = S.T[i][ncols];
    res.x.assign(n, Q(0));
    for (int j = 0; j < n; ++j) res.x[j] = y[j] - y[n + j];
  }
  return res;
}

// Feasibility with strict inequalities: returns true and a witness iff
// there is x with all constraints satisfied (strict ones strictly).
inline bool feasible(int n, const Sys& sys, Vec* witness = 0) {
  bool has_strict = false;
  for (size_t i = 0; i < sys.size(); ++i) if (sys[i].rel == LT) has_strict = true;
  if (!has_strict) {
    LPResult r = lp_max_closed(n, sys, Vec(n));
    if (r.status == INFEASIBLE) return false;
    if (witness) *witness = r.x;
    return true;
  }
  // add epsilon variable e (index n): a.x + e <= b for strict rows, 0 <= e <= 1
  Sys s2;
  for (size_t i = 0; i < sys.size(); ++i) {
    Con c = sys[i];
    c.a.resize(n + 1);
    if (c.rel == LT) { c.a[n] = 1; c.rel = LE; }
    s2.push_back(c);
  }
  Vec e(n + 1); e[n] = 1;
  s2.push_back(Con(e, Q(1), LE));
  Vec me(n + 1); me[n] = -1;
  s2.push_back(Con(me, Q(0), LE));
  LPResult r = lp_max_closed(n + 1, s2, e);
  if (r.status == INFEASIBLE) return false;
  assert(r.status == OPTIMAL);
  if (r.value <= 0) return false;
  if (witness) { witness->assign(r.x.begin(), r.x.begin() + n); }
  return true;
}

struct SupResult {
  bool nonempty;
  bool bounded;
  Q sup;
  bool attained;
  Vec witness;   // a point attaining sup if attained
};

// Supremum of obj.x over the (possibly strict) system.
inline SupResult supremum(int n, const Sys& sys, const Vec& obj) {
  SupResult R; R.nonempty = false; R.bounded = false; R.attained = false;
  Vec w;
  if (!feasible(n, sys, &w)) return R;
  R.nonempty = true;
  LPResult r = lp_max_closed(n, sys, obj);
  assert(r.status != INFEASIBLE);
  if (r.status == UNBOUNDED) return R;
  R.bounded = true; R.sup = r.value;
  // attained?
  Sys s2 = sys;
  s2.push_back(Con(obj, r.value, EQ));
  s2.back().a.resize(n);
  R.attained = feasible(n, s2, &R.witness);
  return R;
}

} // namespace ref
#endif
