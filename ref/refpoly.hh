// Prototype reference model for NNC polyhedra: constraint form (Sys over
// n vars) and generator form; DD-pair verification by brute-force vertex
// enumeration + LP; inclusion tests for exists-projected systems.
#ifndef REF_POLY_HH
#define REF_POLY_HH
#include "lp.hh"
#include <string>
#include <sstream>
#include <algorithm>
#include <set>

namespace ref {

struct Gen { enum Kind { POINT, CLOSURE_POINT, RAY, LINE } kind; Vec v; };
typedef std::vector<Gen> Gens;

// ---------- exact linear algebra ----------
// Row-reduce matrix M (rows x cols) in place; returns pivot columns.
inline std::vector<int> rref(std::vector<Vec>& M, int cols) {
  std::vector<int> piv;
  size_t r = 0;
  for (int c = 0; c < cols && r < M.size(); ++c) {
    size_t p = r;
    while (p < M.size() && M[p][c] == 0) ++p;
    if (p == M.size()) continue;
    std::swap(M[p], M[r]);
    Q d = M[r][c];
    for (size_t j = 0; j < M[r].size(); ++j) if (M[r][j] != 0) M[r][j] /= d;
    for (size_t i = 0; i < M.size(); ++i) {
      if (i == r || M[i][c] == 0) continue;
      Q f = M[i][c];
      for (size_t j = 0; j < M[r].size(); ++j) if (M[r][j] != 0) M[i][j] -= f*M[r][j];
    }
    piv.push_back(c);
    ++r;
  }
  M.resize(r);
  return piv;
}
inline int rank_of(std::vector<Vec> M, int cols) { return rref(M, cols).size(); }

// Nullspace basis of the rows of M (vectors d with M d = 0).
inline std::vector<Vec> nullspace(std::vector<Vec> M, int cols) {
  std::vector<int> piv = rref(M, cols);
  std::vector<bool> is_piv(cols, false);
  for (size_t i = 0; i < piv.size(); ++i) is_piv[piv[i]] = true;
  std::vector<Vec> basis;
  for (int f = 0; f < cols; ++f) {
    if (is_piv[f]) continue;
    Vec d(cols); d[f] = 1;
    for (size_t i = 0; i < piv.size(); ++i) d[piv[i]] = -M[i][f];
    basis.push_back(d);
  }
  return basis;
}

// Solve square/over-determined system rows.x = rhs exactly if unique.
// returns 0 = no solution, 1 = unique, 2 = not unique.
inline int solve_unique(const std::vector<Vec>& rows, const Vec& rhs, int n, Vec& x) {
  std::vector<Vec> M(rows.size(), Vec(n + 1));
  for (size_t i = 0; i < rows.size(); ++i) {
    for (int j = 0; j < n; ++j) M[i][j] = rows[i][j];
    M[i][n] = rhs[i];
  }
  std::vector<int> piv = rref(M, n + 1);
  for (size_t i = 0; i < piv.size(); ++i) if (piv[i] == n) return 0;
  if ((int) piv.size() < n) return 2;
  x.assign(n, Q(0));
  for (size_t i = 0; i < piv.size(); ++i) x[piv[i]] = M[i][n];
  return 1;
}

// ---------- membership in generator-described NNC polyhedron ----------
// x in hull(G) (NNC semantics: at least one POINT with positive weight).
// closure = true: closure semantics (points and closure points alike).
inline bool in_hull(int n, const Gens& G, const Vec& x, bool closure) {
  int k = G.size();
  // unknown coefficients t_0..t_{k-1}
  Sys s;
  for (int d = 0; d < n; ++d) {
    Vec a(k);
    for (int j = 0; j < k; ++j) a[j] = G[j].v[d];
    s.push_back(Con(a, x[d], EQ));
  }
  Vec sum(k), psum(k);
  bool any_point = false;
  for (int j = 0; j < k; ++j) {
    if (G[j].kind == Gen::POINT || G[j].kind == Gen::CLOSURE_POINT) sum[j] = 1;
    if (G[j].kind == Gen::POINT || (closure && G[j].kind == Gen::CLOSURE_POINT)) { psum[j] = -1; any_point = true; }
    if (G[j].kind != Gen::LINE) { Vec a(k); a[j] = -1; s.push_back(Con(a, Q(0), LE)); }
  }
  if (!any_point) return false;
  s.push_back(Con(sum, Q(1), EQ));
  if (!closure) s.push_back(Con(psum, Q(0), LT));   // sum of point weights > 0
  return feasible(k, s);
}
// direction r in rec cone: r = sum mu_j ray_j + sum nu_l line_l
inline bool in_cone(int n, const Gens& G, const Vec& r) {
  std::vector<int> idx;
  for (size_t j = 0; j < G.size(); ++j) if (G[j].kind == Gen::RAY || G[j].kind == Gen::LINE) idx.push_back(j);
  int k = idx.size();
  bool zero = true; for (int d = 0; d < n; ++d) if (r[d] != 0) zero = false;
  if (zero) return true;
  if (k == 0) return false;
  Sys s;
  for (int d = 0; d < n; ++d) {
    Vec a(k);
    for (int j = 0; j < k; ++j) a[j] = G[idx[j]].v[d];
    s.push_back(Con(a, r[d], EQ));
  }
  for (int j = 0; j < k; ++j) if (G[idx[j]].kind == Gen::RAY) { Vec a(k); a[j] = -1; s.push_back(Con(a, Q(0), LE)); }
  return feasible(k, s);
}

// ---------- generators satisfy constraints (hull(G) subseteq set(C)) ----------
inline bool gens_satisfy(int n, const Gens& G, const Sys& C, std::string* why = 0) {
  for (size_t j = 0; j < G.size(); ++j) {
    for (size_t i = 0; i < C.size(); ++i) {
      Q v = dot(C[i].a, G[j].v);
      bool ok = true;
      switch (G[j].kind) {
      case Gen::POINT: ok = sat(C[i], G[j].v); break;
      case Gen::CLOSURE_POINT: ok = (C[i].rel == EQ) ? (v == C[i].b) : (v <= C[i].b); break;
      case Gen::RAY: ok = (C[i].rel == EQ) ? (v == 0) : (v <= 0); break;
      case Gen::LINE: ok = (v == 0); break;
      }
      if (!ok) { if (why) { std::ostringstream o; o << "generator " << j << " violates constraint " << i; *why = o.str(); } return false; }
    }
  }
  return true;
}

struct DDStats { unsigned long vertices, rays, faces, skipped; DDStats() : vertices(0), rays(0), faces(0), skipped(0) {} };
inline DDStats& dd_stats() { static DDStats s; return s; }

// ---------- set(C) subseteq hull(G) by brute-force V-enumeration ----------
// Returns 1 = holds, 0 = refuted (witness in *wit), -1 = too large (skipped).
inline int cons_in_hull(int n, const Sys& C, const Gens& G, Vec* wit, std::string* why, size_t max_comb = 200000) {
  Vec w0;
  if (!feasible(n, C, &w0)) return 1;             // empty set included in anything
  bool has_point = false;
  for (size_t j = 0; j < G.size(); ++j) if (G[j].kind == Gen::POINT) has_point = true;
  if (!has_point) { if (wit) *wit = w0; if (why) *why = "constraints nonempty but generators have no point"; return 0; }
  if (n == 0) return 1;
  // closed rows: a.x <= b (EQ split)
  std::vector<Vec> A; Vec B; std::vector<bool> strict; std::vector<bool> iseq;
  for (size_t i = 0; i < C.size(); ++i) {
    bool z = true; for (int d = 0; d < n && d < (int) C[i].a.size(); ++d) if (C[i].a[d] != 0) z = false;
    if (z) continue;  // trivially true (set nonempty)
    Vec a = C[i].a; a.resize(n);
    A.push_back(a); B.push_back(C[i].b); strict.push_back(C[i].rel == LT); iseq.push_back(C[i].rel == EQ);
    if (C[i].rel == EQ) { Vec na(n); for (int d = 0; d < n; ++d) na[d] = -a[d]; A.push_back(na); B.push_back(-C[i].b); strict.push_back(false); iseq.push_back(true); }
  }
  int m = A.size();
  // lineality space
  std::vector<Vec> L = nullspace(A, n);
  // every basis line must be in cone(G) both ways
  for (size_t l = 0; l < L.size(); ++l) {
    Vec neg(n); for (int d = 0; d < n; ++d) neg[d] = -L[l][d];
    if (!in_cone(n, G, L[l]) || !in_cone(n, G, neg)) {
      if (wit) { *wit = w0; for (int d = 0; d < n; ++d) (*wit)[d] += L[l][d]; }
      if (why) *why = "lineality direction of constraints not generated";
      return 0;
    }
  }
  // pin free coordinates of the lineality basis to zero => pointed polyhedron P'
  std::vector<Vec> A2 = A; Vec B2 = B;
  std::vector<int> pinned;
  {
    std::vector<Vec> M = A; std::vector<int> piv = rref(M, n);
    std::vector<bool> is_piv(n, false);
    for (size_t i = 0; i < piv.size(); ++i) is_piv[piv[i]] = true;
    for (int f = 0; f < n; ++f) if (!is_piv[f]) pinned.push_back(f);
  }
  for (size_t k = 0; k < pinned.size(); ++k) {
    Vec a(n); a[pinned[k]] = 1; A2.push_back(a); B2.push_back(0);
    Vec na(n); na[pinned[k]] = -1; A2.push_back(na); B2.push_back(0);
  }
  int m2 = A2.size();
  // enumerate n-subsets of rows of A2 (tight) -> vertices
  // count combinations
  double comb = 1; for (int i = 0; i < n; ++i) comb = comb * (m2 - i) / (i + 1);
  if (n >= 5 && max_comb > 30000) max_comb = 30000;   // keep high-dimensional checks cheap
  if (comb > (double) max_comb) { ++dd_stats().skipped; return -1; }
  std::vector<Vec> verts; std::vector<Vec> rays;
  std::vector<int> idx(n);
  // vertices
  {
    std::vector<int> c(n); for (int i = 0; i < n; ++i) c[i] = i;
    if (m2 >= n) for (;;) {
      std::vector<Vec> rows; Vec rhs;
      for (int i = 0; i < n; ++i) { rows.push_back(A2[c[i]]); rhs.push_back(B2[c[i]]); }
      Vec x;
      if (solve_unique(rows, rhs, n, x) == 1) {
        bool ok = true;
        for (int i = 0; i < m2 && ok; ++i) if (dot(A2[i], x) > B2[i]) ok = false;
        if (ok && std::find(verts.begin(), verts.end(), x) == verts.end()) verts.push_back(x);
      }
      int i = n - 1;
      while (i >= 0 && c[i] == m2 - n + i) --i;
      if (i < 0) break;
      ++c[i]; for (int j = i + 1; j < n; ++j) c[j] = c[j-1] + 1;
    }
  }
  // extreme rays of recession cone {A2 d <= 0}: (n-1)-subsets tight
  if (n >= 1) {
    int k = n - 1;
    std::vector<int> c(k); for (int i = 0; i < k; ++i) c[i] = i;
    if (m2 >= k) for (;;) {
      std::vector<Vec> rows;
      for (int i = 0; i < k; ++i) rows.push_back(A2[c[i]]);
      std::vector<Vec> ns = nullspace(rows, n);
      if (ns.size() == 1) {
        for (int sgn = 0; sgn < 2; ++sgn) {
          Vec d = ns[0]; if (sgn) for (int j = 0; j < n; ++j) d[j] = -d[j];
          bool ok = true;
          for (int i = 0; i < m2 && ok; ++i) if (dot(A2[i], d) > 0) ok = false;
          if (!ok) continue;
          // normalise: divide by first nonzero abs
          Q s = 0; for (int j = 0; j < n; ++j) if (d[j] != 0) { s = abs(d[j]); break; }
          if (s == 0) continue;
          for (int j = 0; j < n; ++j) d[j] /= s;
          if (std::find(rays.begin(), rays.end(), d) == rays.end()) rays.push_back(d);
        }
      }
      int i = k - 1;
      while (i >= 0 && c[i] == m2 - k + i) --i;
      if (i < 0) break;
      ++c[i]; for (int j = i + 1; j < k; ++j) c[j] = c[j-1] + 1;
    }
  }
  dd_stats().vertices += verts.size(); dd_stats().rays += rays.size();
  // closure inclusion: each vertex in closure-hull(G), each ray in cone(G)
  for (size_t v = 0; v < verts.size(); ++v)
    if (!in_hull(n, G, verts[v], true)) { if (wit) *wit = verts[v]; if (why) *why = "vertex of constraint set not in closure of generator hull"; return 0; }
  for (size_t r = 0; r < rays.size(); ++r)
    if (!in_cone(n, G, rays[r])) {
      if (wit) { *wit = verts.empty() ? w0 : verts[0]; for (int d = 0; d < n; ++d) (*wit)[d] += rays[r][d]; }
      if (why) *why = "extreme ray of constraint set not in generator cone"; return 0; }
  // NNC level: for every face F of K (closed set of tight rows) with relint in P,
  // the relint sample must be in hull_NNC(G).
  bool any_strict = false; for (int i = 0; i < m; ++i) if (strict[i]) any_strict = true;
  bool any_cp = false; for (size_t j = 0; j < G.size(); ++j) if (G[j].kind == Gen::CLOSURE_POINT) any_cp = true;
  if (!any_strict && !any_cp) return 1;   // closed on both sides: done
  // tight sets of vertices / rays (w.r.t. A, original rows)
  typedef std::vector<bool> Bits;
  std::vector<Bits> vt, rt;
  for (size_t v = 0; v < verts.size(); ++v) { Bits b(m); for (int i = 0; i < m; ++i) b[i] = (dot(A[i], verts[v]) == B[i]); vt.push_back(b); }
  for (size_t r = 0; r < rays.size(); ++r) { Bits b(m); for (int i = 0; i < m; ++i) b[i] = (dot(A[i], rays[r]) == 0); rt.push_back(b); }
  // faces = closure under intersection of vertex tight-sets (each face has a vertex since P' pointed)
  std::set<Bits> faces;
  std::vector<Bits> work(vt.begin(), vt.end());
  for (size_t i = 0; i < work.size(); ++i) faces.insert(work[i]);
  std::vector<Bits> all(faces.begin(), faces.end());
  for (size_t i = 0; i < all.size(); ++i) {
    for (size_t v = 0; v < vt.size(); ++v) {
      Bits b(m); for (int k2 = 0; k2 < m; ++k2) b[k2] = all[i][k2] && vt[v][k2];
      if (faces.insert(b).second) { all.push_back(b); if (all.size() > 5000) { ++dd_stats().skipped; return -1; } }
    }
  }
  for (size_t f = 0; f < all.size(); ++f) {
    const Bits& T = all[f];
    // sample point: barycenter of vertices whose tight set includes T, plus rays likewise
    Vec x(n); int cnt = 0;
    for (size_t v = 0; v < vt.size(); ++v) { bool inc = true; for (int i = 0; i < m; ++i) if (T[i] && !vt[v][i]) inc = false; if (inc) { for (int d = 0; d < n; ++d) x[d] += verts[v][d]; ++cnt; } }
    if (cnt == 0) continue;
    for (int d = 0; d < n; ++d) x[d] /= cnt;
    for (size_t r = 0; r < rt.size(); ++r) { bool inc = true; for (int i = 0; i < m; ++i) if (T[i] && !rt[r][i]) inc = false; if (inc) for (int d = 0; d < n; ++d) x[d] += rays[r][d]; }
    ++dd_stats().faces;
    if (sat(C, x) && !in_hull(n, G, x, false)) { if (wit) *wit = x; if (why) *why = "face sample in constraint set but not in NNC generator hull"; return 0; }
  }
  return 1;
}

// exists-projected system: variables [0,n) are the visible ones, [n, n+aux) existential.
struct ESys { int n, aux; Sys s; ESys() : n(0), aux(0) {} };

// T subseteq set(C)?  For each constraint c of C: T and not c infeasible.
inline bool esys_in_cons(const ESys& T, const Sys& C, Vec* wit, std::string* why) {
  int nv = T.n + T.aux;
  for (size_t i = 0; i < C.size(); ++i) {
    std::vector<Con> negs;
    Vec a = C[i].a; a.resize(nv);
    Vec na(nv); for (int d = 0; d < nv; ++d) na[d] = -a[d];
    if (C[i].rel == LE) negs.push_back(Con(na, -C[i].b, LT));         // a.x > b
    else if (C[i].rel == LT) negs.push_back(Con(na, -C[i].b, LE));    // a.x >= b
    else { negs.push_back(Con(na, -C[i].b, LT)); negs.push_back(Con(a, C[i].b, LT)); }
    for (size_t k = 0; k < negs.size(); ++k) {
      Sys s = T.s; s.push_back(negs[k]);
      Vec w;
      if (feasible(nv, s, &w)) { if (wit) { wit->assign(w.begin(), w.begin() + T.n); } if (why) { std::ostringstream o; o << "target point violates result constraint " << i; *why = o.str(); } return false; }
    }
  }
  return true;
}

// hull(G) subseteq T (T nonempty NNC polyhedron given as ESys)?
inline bool gens_in_esys(const Gens& G, const ESys& T, std::string* why) {
  int nv = T.n + T.aux;
  for (size_t j = 0; j < G.size(); ++j) {
    Sys s;
    bool homog = (G[j].kind == Gen::RAY || G[j].kind == Gen::LINE);
    bool closed = (G[j].kind != Gen::POINT);
    for (size_t i = 0; i < T.s.size(); ++i) {
      Con c = T.s[i]; c.a.resize(nv);
      if (homog) c.b = 0;
      if (closed && c.rel == LT) c.rel = LE;
      s.push_back(c);
    }
    int reps = (G[j].kind == Gen::LINE) ? 2 : 1;
    for (int rep = 0; rep < reps; ++rep) {
      Sys s2 = s;
      for (int d = 0; d < T.n; ++d) { Vec a(nv); a[d] = 1; s2.push_back(Con(a, rep ? Q(-G[j].v[d]) : G[j].v[d], EQ)); }
      if (!feasible(nv, s2)) { if (why) { std::ostringstream o; o << "result generator " << j << " not in target"; *why = o.str(); } return false; }
    }
  }
  return true;
}

} // namespace ref
#endif
