// Conversions PPL -> reference model (prototype).
#ifndef REF_PPLCONV_HH
#define REF_PPLCONV_HH
#include "ppl_header.hh"
#include "refpoly.hh"

namespace ref {
namespace PPL = Parma_Polyhedra_Library;

inline Q toQ(const PPL::Coefficient& c) { return Q(mpz_class(c)); }

// PPL: sum a_i x_i + b (>=|>|==) 0   ->   (-a).x (<=|<|==) b
inline Con conv(const PPL::Constraint& c, int n) {
  Con r; r.a.assign(n, Q(0));
  for (int i = 0; i < n && i < (int) c.space_dimension(); ++i)
    r.a[i] = -toQ(c.coefficient(PPL::Variable(i)));
  r.b = toQ(c.inhomogeneous_term());
  r.rel = c.is_equality() ? EQ : (c.is_strict_inequality() ? LT : LE);
  return r;
}
inline Sys conv(const PPL::Constraint_System& cs, int n) {
  Sys s;
  for (PPL::Constraint_System::const_iterator i = cs.begin(), e = cs.end(); i != e; ++i)
    s.push_back(conv(*i, n));
  return s;
}
inline Gen conv(const PPL::Generator& g, int n) {
  Gen r; r.v.assign(n, Q(0));
  switch (g.type()) {
  case PPL::Generator::POINT: r.kind = Gen::POINT; break;
  case PPL::Generator::CLOSURE_POINT: r.kind = Gen::CLOSURE_POINT; break;
  case PPL::Generator::RAY: r.kind = Gen::RAY; break;
  case PPL::Generator::LINE: r.kind = Gen::LINE; break;
  }
  Q d = 1;
  if (g.is_point() || g.is_closure_point()) d = toQ(g.divisor());
  for (int i = 0; i < n && i < (int) g.space_dimension(); ++i)
    r.v[i] = toQ(g.coefficient(PPL::Variable(i))) / d;
  return r;
}
inline Gens conv(const PPL::Generator_System& gs, int n) {
  Gens G;
  for (PPL::Generator_System::const_iterator i = gs.begin(), e = gs.end(); i != e; ++i)
    G.push_back(conv(*i, n));
  return G;
}
// linear expression e = sum a_i x_i + b  -> (a, b)
inline void conv(const PPL::Linear_Expression& e, int n, Vec& a, Q& b) {
  a.assign(n, Q(0));
  for (int i = 0; i < n && i < (int) e.space_dimension(); ++i)
    a[i] = toQ(e.coefficient(PPL::Variable(i)));
  b = toQ(e.inhomogeneous_term());
}
} // namespace ref
#endif
