# Per-property check configuration: which engines/profiles run, how many cases
# per tier, which violation-key prefixes belong to the property, and the text
# that goes into the evidence file.

POLY_RULE = ("cases = random histories (4-12 steps) over a pool of 3 same-topology polyhedra, dimension 0-3 (4 in thorough), "
             "deterministic in (VERIF_SEED, case index); every step is checked by the exact-LP reference model. "
             "distinct_nontrivial = number of distinct (operation | receiver status line of ascii_dump | receiver shape class "
             "[| argument shape class | aliased]) configurations actually executed and checked, counted by hashing; "
             "evaluations = oracle checks executed (DD-pair verifications, operator-definition inclusions, query re-decisions, bystander comparisons).")

CHECKS = {
    'C01': {
        'level': 'exploration',
        'jobs': [
            {'engine': 'polyseq', 'variant': 'san', 'profile': 'dd', 'quick': 1600, 'thorough': 40000, 'avg_case_s': 0.15},
            {'engine': 'polyseq', 'variant': 'san-assert', 'profile': 'dd', 'quick': 0, 'thorough': 8000, 'avg_case_s': 0.3, 'thorough_only': True},
        ],
        'prefixes': ['C01.'],
        'required_counters': ['dd_checks', 'twins', 'q.max_min', 'q.relation_with_c', 'q.relation_with_cg', 'q.relation_with_g'],
        'rule': POLY_RULE,
        'assumptions': ['GMP arithmetic', 'reference model /verif/ref (exact simplex, brute-force vertex enumeration)', 'dimension <= 4, small coefficients'],
    },
    'C02': {
        'level': 'exploration',
        'jobs': [{'engine': 'polyseq', 'variant': 'san', 'profile': 'ops', 'quick': 1600, 'thorough': 40000, 'avg_case_s': 0.15}],
        'prefixes': ['C02.'],
        'required_counters': ['op_checks', 'op.affine_image', 'op.poly_difference_assign', 'op.fold_space_dimensions', 'op.map_space_dimensions'],
        'rule': POLY_RULE,
        'assumptions': ['GMP arithmetic', 'reference model /verif/ref', 'operator definitions transcribed from doc/definitions.dox into /verif/ref/defs.hh'],
    },
}

CHECKS['C13'] = {
    'level': 'exploration',
    'jobs': [{'engine': 'polyseq', 'variant': 'san', 'profile': 'alias', 'quick': 1600, 'thorough': 40000, 'avg_case_s': 0.15}],
    'prefixes': ['C13.'],
    'required_counters': ['bystander_checks', 'alias_checks', 'op.m_swap', 'op.assign'],
    'rule': POLY_RULE,
    'assumptions': ['GMP arithmetic', 'reference model /verif/ref'],
}
CHECKS['C15'] = {
    'level': 'exploration',
    'jobs': [{'engine': 'polyseq', 'variant': 'san', 'profile': 'ascii', 'quick': 1600, 'thorough': 40000, 'avg_case_s': 0.15}],
    'prefixes': ['C15.'],
    'required_counters': ['ascii_roundtrips', 'lockstep_checks'],
    'rule': POLY_RULE,
    'assumptions': ['GMP arithmetic', 'reference model /verif/ref'],
}
