# Per-property check configuration: which engines/profiles run, how many cases
# per tier, which violation-key prefixes belong to the property, and the text
# that goes into the evidence file.

POLY_RULE = ("cases = random histories (4-12 steps) over a pool of 3 same-topology polyhedra, dimension 0-3 (4 in thorough), "
             "deterministic in (VERIF_SEED, case index); every step is checked by the exact-LP reference model. "
             "distinct_nontrivial = number of distinct (operation | receiver status line of ascii_dump | receiver shape class "
             "[| argument shape class | aliased]) configurations actually executed and checked, counted by hashing; "
             "evaluations = oracle checks executed (DD-pair verifications, operator-definition inclusions, query re-decisions, bystander comparisons).")

CHECKS = {
    'C01': {
        'level': 'exploration',
        'jobs': [
            {'engine': 'polyseq', 'variant': 'san', 'profile': 'dd', 'quick': 1600, 'thorough': 12800, 'avg_case_s': 0.15},
        ],
        'prefixes': ['C01.'],
        'required_counters': ['dd_checks', 'twins', 'q.max_min', 'q.relation_with_c', 'q.relation_with_cg', 'q.relation_with_g'],
        'rule': POLY_RULE,
        'assumptions': ['GMP arithmetic', 'reference model /verif/ref (exact simplex, brute-force vertex enumeration)', 'dimension <= 4, small coefficients'],
    },
    'C02': {
        'level': 'exploration',
        'jobs': [{'engine': 'polyseq', 'variant': 'san', 'profile': 'ops', 'quick': 1600, 'thorough': 12800, 'avg_case_s': 0.15}],
        'prefixes': ['C02.'],
        'required_counters': ['op_checks', 'op.affine_image', 'op.poly_difference_assign', 'op.fold_space_dimensions', 'op.map_space_dimensions'],
        'rule': POLY_RULE,
        'assumptions': ['GMP arithmetic', 'reference model /verif/ref', 'operator definitions transcribed from doc/definitions.dox into /verif/ref/defs.hh'],
    },
}

CHECKS['C13'] = {
    'level': 'exploration',
    'jobs': [
        {'engine': 'polyseq', 'variant': 'san', 'profile': 'alias', 'quick': 1200, 'thorough': 9600, 'avg_case_s': 0.15},
        {'engine': 'gridseq', 'variant': 'san', 'profile': 'alias', 'quick': 800, 'thorough': 6400, 'avg_case_s': 0.05},
        {'engine': 'psetseq', 'variant': 'san', 'profile': 'alias', 'kv': {'inst': 'all'}, 'quick': 1200, 'thorough': 9600, 'avg_case_s': 0.06},
        {'engine': 'prodseq', 'variant': 'san', 'profile': 'value', 'kv': {'inst': 'all'}, 'quick': 900, 'thorough': 6000, 'avg_case_s': 0.15},
        {'engine': 'mipdiff', 'variant': 'san', 'profile': 'alias', 'quick': 4000, 'thorough': 32000, 'avg_case_s': 0.02},
        {'engine': 'pipbrute', 'variant': 'san', 'profile': 'alias', 'quick': 320, 'thorough': 2560, 'avg_case_s': 0.4},
        {'engine': 'rowdiff', 'variant': 'san', 'profile': 'alias', 'quick': 1600, 'thorough': 12800, 'avg_case_s': 0.08},
    ],
    'prefixes': ['C13.'],
    'required_counters': ['bystander_checks', 'alias_checks', 'op.m_swap', 'op.assign', 'snapshot_checks', 'c13.checks'],
    'rule': POLY_RULE + ' The same value-semantics monitors (bystanders, const arguments, copies/snapshots, x.op(x) against x.op(copy), self-assignment/self-swap) run inside the grid, powerset, '
            'product, MIP, PIP engines and, for linear expressions/rows, in forked children of the rowdiff engine.',
    'assumptions': ['GMP arithmetic', 'reference model /verif/ref'],
}
CHECKS['C15'] = {
    'level': 'exploration',
    'jobs': [
        {'engine': 'polyseq', 'variant': 'san', 'profile': 'ascii', 'quick': 1200, 'thorough': 9600, 'avg_case_s': 0.15},
        {'engine': 'gridseq', 'variant': 'san', 'profile': 'ascii', 'quick': 800, 'thorough': 6400, 'avg_case_s': 0.05},
        {'engine': 'psetseq', 'variant': 'san', 'profile': 'ascii', 'kv': {'inst': 'all'}, 'quick': 1200, 'thorough': 9600, 'avg_case_s': 0.06},
        {'engine': 'prodseq', 'variant': 'san', 'profile': 'value', 'kv': {'inst': 'all'}, 'quick': 900, 'thorough': 6000, 'avg_case_s': 0.15},
        {'engine': 'mipdiff', 'variant': 'san', 'profile': 'ascii', 'quick': 4000, 'thorough': 32000, 'avg_case_s': 0.02},
        {'engine': 'pipbrute', 'variant': 'san', 'profile': 'ascii', 'quick': 320, 'thorough': 2560, 'avg_case_s': 0.4},
        {'engine': 'rowdiff', 'variant': 'san', 'profile': 'default', 'quick': 8000, 'thorough': 64000, 'avg_case_s': 0.006},
    ],
    'prefixes': ['C15.'],
    'required_counters': ['ascii_roundtrips', 'lockstep_checks', 'c15.roundtrips'],
    'rule': POLY_RULE + ' The same dump -> load -> re-dump -> value -> lock-step continuation monitor runs on grids, powersets, products, MIP and PIP problems (incl. solution trees) and on '
            'linear expressions, rows and the four systems in both representations.',
    'assumptions': ['GMP arithmetic', 'reference model /verif/ref'],
}

CHECKS['C19'] = {
    'level': 'fault_enumeration',
    'jobs': [
        {'engine': 'wdvt', 'variant': 'san', 'profile': 'wd', 'quick': 2000, 'thorough': 16000, 'avg_case_s': 0.01},
        {'engine': 'wdvt', 'variant': 'san', 'profile': 'ww', 'quick': 1500, 'thorough': 12000, 'avg_case_s': 0.01},
        {'engine': 'wdvt', 'variant': 'san', 'profile': 'soak', 'quick': 0, 'thorough': 500, 'avg_case_s': 0.1, 'thorough_only': True, 'max_workers': 4},
    ],
    'prefixes': ['C19.'],
    'required_counters': ['wd.histories', 'wd.placements_deliver', 'wd.placements_elapse', 'wd.deliveries_deferred_in_critical_section',
                          'wd.fired_plain', 'op.wd.create', 'op.wd.destroy', 'ww.checks_verified', 'ww.checks_inside_ppl_ops', 'ww.fired',
                          'ww.ppl_op_abandoned', 'op.ww.add_to_threshold'],
    'rule': ('cases = random watchdog histories (2-6 watchdogs, delays 1-300 cs incl. equal and sub-second deadlines, random create/destroy order), each executed once '
             'plainly and once per (statement boundary of the library\'s bookkeeping [45 source failpoints + entry/exit of setitimer/getitimer] x {time elapses, expiry delivered}) '
             'against a virtual ITIMER_PROF, every handler invocation decided by a reference timer queue; weight-watcher histories with every check compared with a shadow queue. '
             'evaluations = oracle predicates evaluated; distinct_nontrivial = distinct (boundary id | mode | pending count | deferred count | outcome) with the timer armed, '
             'plus create/destroy/expire and weight-check configuration classes, counted by hashing.'),
    'assumptions': ['virtual timer interposed at link time (static libppl.a)', 'statement-level, not instruction-level, placement of signal delivery'],
}
CHECKS['C18'] = {
    'level': 'exploration',
    'jobs': [{'engine': 'termrank', 'variant': 'san', 'profile': 'default', 'quick': 3000, 'thorough': 24000, 'avg_case_s': 0.04}],
    'prefixes': ['C18.'],
    'required_counters': ['selftest_runs', 'rf_verified', 'complete_checks', 'ms_vs_pr_checks', 'members.point', 'members.ray', 'members.line', 'members.random',
                          'relation.has_rf', 'relation.no_rf', 'form.one', 'form.two', 'op.test_MS', 'op.test_PR', 'op.one_MS', 'op.one_PR', 'op.all_MS', 'op.all_PR',
                          'op.quasi_MS', 'op.test_MS_2', 'op.test_PR_2', 'op.one_MS_2', 'op.one_PR_2', 'op.all_MS_2', 'op.all_PR_2', 'op.quasi_MS_2'],
    'rule': ('cases = one random loop relation over 0-3 (thorough: 0-4) program variables given to all 14 termination entry points as one 2n-dim pointset or a before/after pair '
             'in one of 5 pointset classes; evaluations = LP-decided ranking-function tests (returned mu, every generator-derived and 20 random members of every returned mu_space), '
             'verdict-vs-Farkas existence comparisons and MS-vs-PR comparisons; distinct_nontrivial = distinct (entry point | pointset class | n | relation class | workload template | '
             'lazy-state word | row bucket | verdict | fresh-copy) tuples for relations that are neither empty nor universe, counted by hashing.'),
    'assumptions': ['GMP arithmetic', 'RefLP (/verif/ref/lp.hh)', 'affine Farkas lemma', 'n <= 4, <= 14 inequality rows'],
}

CHECKS['C17'] = {
    'level': 'exploration',
    'jobs': [
        {'engine': 'wrapseq', 'variant': 'san', 'profile': 'default', 'kv': {'inst': 'all'}, 'quick': 8000, 'thorough': 64000, 'avg_case_s': 0.04},
        {'engine': 'boxseq', 'variant': 'san', 'profile': 'wrap', 'kv': {'inst': 'all'}, 'quick': 1600, 'thorough': 12800, 'avg_case_s': 0.15},
        {'engine': 'polyseq', 'variant': 'san', 'profile': 'wrap', 'quick': 800, 'thorough': 6400, 'avg_case_s': 0.15},
    ],
    'prefixes': ['C17.'],
    'required_counters': ['q.contains_integer_point', 'op.drop_some_non_integer_points', 'int_points_checked', 'op.wrap_assign', 'op.contains_integer_point', 'images.checked',
                          'pts.moved', 'wrap.mode.wraps', 'wrap.mode.undefined', 'wrap.mode.impossible', 'wrap.collectively', 'wrap.individually', 'wrap.guarded',
                          'wrap.multi_quadrant_arg', 'wrap.unbounded_arg', 'wrap.w64', 'drop.exact_subset_checks', 'cip.decided_by.exhaustive', 'inst.grid', 'inst.pset', 'inst.prod',
                          'wrap_checks', 'int_points_moved_by_wrap'],
    'rule': ('wrapseq: cases = one random argument (dim 1-3, 4 in thorough) of one of 9 domain instances (C/NNC polyhedra, BD shapes and octagons over mpq/mpz, Grid, powerset, product; rotating) '
             'and one call of wrap_assign / drop_some_non_integer_points / contains_integer_point; boxseq profile wrap: the same on 11 Box instantiations; polyseq profile wrap: the integer-aware '
             'operators inside polyhedra histories (all lazy states). The integer points of the argument (integral on the designated dimensions, a few rational values elsewhere) are enumerated '
             'exhaustively when the window is small, sampled at quadrant boundaries otherwise; every required image is tested by exact arithmetic on the result read back through a copy. '
             'evaluations = 1 per call + 1 per required image / kept point / exact inclusion; distinct_nontrivial = distinct (operation | instance | overflow mode | width+signedness | '
             'individual/collective | threshold | guard | lazy-state word | quadrants spanned | bounded/unbounded | #vars/#dims) configurations with at least one enumerated point.'),
    'assumptions': ['GMP arithmetic', 'integer points enumerated exhaustively in the bounded window of the argument'],
}

CHECKS['C07'] = {
    'level': 'exploration',
    'jobs': [{'engine': 'pipbrute', 'variant': 'san', 'profile': 'default', 'quick': 1200, 'thorough': 9600, 'avg_case_s': 0.4, 'case_timeout': 120}],
    'prefixes': ['C07.'],
    'required_counters': ['solves', 'solves.incremental', 'walk.point', 'walk.bottom', 'tree.with_cuts', 'tree.with_splits', 'mode.bigparam', 'op.add_constraint',
                          'op.add_constraints', 'op.add_dims', 'op.add_params', 'runs.cut_all+pivot_max_column', 'ref.bruteforce_crosschecks',
                          'reach.PIP_ROW_SIGN', 'reach.PIP_COMPAT_CHECK', 'reach.PIP_GENERATE_CUT'],
    'rule': ('cases = random PIP histories (initial problem + 0-2 incremental stages) run under all six CUTTING x PIVOT_ROW strategy settings; evaluations = (solve, parameter valuation) '
             'pairs whose documented tree walk was compared with an independent exact integer lexicographic minimum; distinct_nontrivial = distinct (strategy | stage op | #vars | #params | '
             'big | tree shape D/A/B) with a non-trivial tree, counted by hashing.'),
    'assumptions': ['GMP arithmetic', 'own exact ILP (unimodular elimination + branch and bound over RefLP, cross-checked by window brute force)', 'parameter values <= 8 (big parameter: 4 large values)'],
}

CHECKS['C05'] = {
    'level': 'exploration',
    'jobs': [
        {'engine': 'gridseq', 'variant': 'san', 'profile': 'default', 'quick': 1600, 'thorough': 12800, 'avg_case_s': 0.05},
        {'engine': 'gridseq', 'variant': 'san', 'profile': 'dd', 'quick': 800, 'thorough': 6400, 'avg_case_s': 0.05},
        {'engine': 'gridseq', 'variant': 'san', 'profile': 'ops', 'quick': 800, 'thorough': 6400, 'avg_case_s': 0.05},
        {'engine': 'gridseq', 'variant': 'san', 'profile': 'selftest', 'quick': 320, 'thorough': 2560, 'avg_case_s': 0.06},
    ],
    'prefixes': ['C05.'],
    'required_counters': ['dd_checks', 'op_checks', 'q.relation_with_cg', 'q.frequency', 'op.difference_assign', 'op.generalized_affine_preimage', 'st.difference',
                          'reach.GRID_CONV_C2G', 'reach.GRID_CONV_G2C', 'reach.GRID_SIMPLIFY_C', 'reach.GRID_SIMPLIFY_G'],
    'rule': ('cases = random histories (4-12 steps) over a pool of 3 grids, dimension 0-3 (4 thorough), built from congruences (moduli 0-6) and generator systems with non-unit divisors, '
             'parameters and lines; after every step the four descriptions of each grid must denote one lattice (own Hermite-normal-form model), every query is answered from that lattice, '
             'every operator must equal its lattice definition, join and difference must be the smallest grid; profile selftest checks the reference model itself against brute-force membership. '
             'distinct_nontrivial = distinct (operation | status word | shape class) configurations, counted by hashing; evaluations = oracle checks.'),
    'assumptions': ['GMP arithmetic', 'RefGrid (/verif/ref/refgrid.hh), self-tested against brute force in the same check'],
}
CHECKS['C06'] = {
    'level': 'exploration',
    'jobs': [{'engine': 'mipdiff', 'variant': 'san', 'profile': 'default', 'quick': 16000, 'thorough': 128000, 'avg_case_s': 0.02}],
    'prefixes': ['C06.'],
    'required_counters': ['q.solve', 'q.is_satisfiable', 'q.feasible_point', 'q.optimizing_point', 'q.optimal_value', 'fresh.float', 'fresh.exact', 'fresh.textbook',
                          'ref.enum', 'ref.bb', 'incremental_requery', 'reach.MIP_PIVOT', 'reach.MIP_PRICE_FLOAT', 'reach.MIP_PRICE_EXACT', 'reach.MIP_PRICE_TEXTBOOK',
                          'reach.MIP_SOLVE_MIP', 'reach.MIP_IS_MIP_SAT', 'reach.MIP_MERGE_SPLIT'],
    'rule': ('cases = random incremental histories (4-11 steps + immediate re-queries) over two MIP_Problem objects, dim 0-3 (4 thorough), deterministic in (VERIF_SEED, case); '
             'evaluations = oracle checks (arithmetic certifications of returned points/values, reference status/optimum comparisons by own exact simplex + integer enumeration / branch and bound, '
             'incremental-vs-fresh x6 under the three pricing rules, copy/twin comparisons, accessor-vs-log comparisons); distinct_nontrivial = distinct (operation | status/initialized/pending '
             'word of ascii_dump | lp/mip | reference status | pricing) configurations with >= 1 constraint and dim >= 1.'),
    'assumptions': ['GMP arithmetic', 'RefLP + own integer enumeration / branch and bound (node cap => inconclusive)'],
}

CHECKS['C12'] = {
    'level': 'exploration',
    'jobs': [
        {'engine': 'ivalencl', 'variant': 'san', 'profile': 'default', 'quick': 48000, 'thorough': 384000, 'avg_case_s': 0.004},
        {'engine': 'fplin', 'variant': 'san', 'profile': 'default', 'quick': 4000, 'thorough': 32000, 'avg_case_s': 0.05},
    ],
    'prefixes': ['C12.'],
    'required_counters': ['encl_checks', 'exact_checks', 'flag_checks', 'pred_checks', 'op.mul', 'op.div', 'op.wrap_assign', 'op.refine_universal', 'pol.rat_oc', 'pol.flt_oc',
                          'pol.dbl_oc', 'pol.ldbl_oc', 'pol.i8_c', 'lin_evals', 'linearize_true', 'lf_checks', 'roundings_checked', 'emulator_selftest_ok'],
    'rule': ('ivalencl: case = pool of 3 intervals of one of 9 policies (rational open/closed, mpz, int8/uint8/int32/int64, float/double/long double), 4-12 operations; evaluations = sampled member '
             'pairs applied exactly in mpq and tested for membership + exact-reference equalities + flag/predicate re-derivations; distinct_nontrivial = distinct (policy | operation | '
             'sign/openness/infinity class of each operand | class of result). fplin: case = one random expression tree with its abstract store (every subtree checked at 60/500 concrete '
             'stores x 4 rounding modes with machine arithmetic) or 3-8 linear-form operator steps at 6 rational stores.'),
    'assumptions': ['GMP arithmetic', 'member sampling at end points, just inside open ends, midpoints, zero and random interior points', 'x86-64 FPU for the concrete evaluations'],
}

SHAPE_RULE = ('shapeseq: cases = random histories (4-12 steps) over a pool of 3 elements of one instantiation ({BD_Shape, Octagonal_Shape} x {mpq, mpz, int8..int64, float, double, long double}, '
              'rotating by case index), dimension 0-3 (4 thorough), bounds drawn near the limits of T in 40% of cases (100% in profile limits); every element is read as the exact rational image '
              'of its matrix; each step computes the exact result as an exists-projected linear system and decides inclusion / template suprema / predicates by exact LP. '
              'boxseq: the same for 11 Box instantiations (rational open/closed, mpz, native ints, floats) read through get_interval()/constraints(). '
              'evaluations = oracle checks; distinct_nontrivial = distinct (kind | instantiation | operation or query | ascii_dump status word | receiver class [| argument class]) tuples whose '
              'receiver was neither empty nor universe, counted by hashing.')
CHECKS['C03'] = {
    'level': 'exploration',
    'jobs': [
        {'engine': 'shapeseq', 'variant': 'san', 'profile': 'default', 'kv': {'inst': 'all'}, 'quick': 3600, 'thorough': 28800, 'avg_case_s': 0.05},
        {'engine': 'shapeseq', 'variant': 'san', 'profile': 'limits', 'kv': {'inst': 'all'}, 'quick': 1200, 'thorough': 9600, 'avg_case_s': 0.05},
        {'engine': 'boxseq', 'variant': 'san', 'profile': 'ops', 'kv': {'inst': 'all'}, 'quick': 2400, 'thorough': 19200, 'avg_case_s': 0.1},
        {'engine': 'boxseq', 'variant': 'san', 'profile': 'conv', 'kv': {'inst': 'all'}, 'quick': 800, 'thorough': 6400, 'avg_case_s': 0.1},
        # constraint propagation on boxes with independently open/closed finite bounds, >= 3 variables (one branch per sign pattern)
        {'engine': 'boxseq', 'variant': 'san', 'profile': 'prop', 'kv': {'inst': 'all'}, 'quick': 3600, 'thorough': 28800, 'avg_case_s': 0.08},
    ],
    'prefixes': ['C03.'],
    'required_counters': ['sound_checks', 'view_checks', 'pred_checks', 'ctor_checks', 'op.affine_image', 'op.bounded_affine_preimage', 'op.generalized_affine_image_lr',
                          'op.difference_assign', 'op.fold_space_dimensions', 'q.max_min', 'cases.bd_int8', 'cases.oct_ldouble', 'reach.BDS_CLOSURE', 'reach.OCT_CLOSURE',
                          'reach.BDS_REDUCTION', 'reach.BOX_PROPAGATE'],
    'rule': SHAPE_RULE,
    'assumptions': ['GMP arithmetic', 'reference model /verif/ref', 'float bounds are exact dyadic rationals'],
}
CHECKS['C04'] = {
    'level': 'exploration',
    'jobs': [
        {'engine': 'shapeseq', 'variant': 'san', 'profile': 'exact', 'kv': {'inst': 'rational'}, 'quick': 1600, 'thorough': 12800, 'avg_case_s': 0.05},
        {'engine': 'boxseq', 'variant': 'san', 'profile': 'pred', 'kv': {'inst': 'rat'}, 'quick': 1600, 'thorough': 12800, 'avg_case_s': 0.05},
        {'engine': 'boxseq', 'variant': 'san', 'profile': 'ops', 'kv': {'inst': 'rat'}, 'quick': 1200, 'thorough': 9600, 'avg_case_s': 0.08},
        {'engine': 'boxseq', 'variant': 'san', 'profile': 'conv', 'kv': {'inst': 'rat'}, 'quick': 640, 'thorough': 5120, 'avg_case_s': 0.08},
    ],
    'prefixes': ['C04.'],
    'required_counters': ['best_checks', 'exact_checks', 'pred_checks', 'twins', 'op.upper_bound_assign_if_exact', 'q.relation_with_cg', 'q.relation_with_g', 'q.affine_dimension', 'q.constrains'],
    'rule': SHAPE_RULE,
    'assumptions': ['GMP arithmetic', 'reference model /verif/ref', 'exactness demanded only for expressible transfer relations (DESIGN C04)'],
}
CHECKS['C09'] = {
    'level': 'exploration',
    'jobs': [
        {'engine': 'psetseq', 'variant': 'san', 'profile': 'default', 'kv': {'inst': 'all'}, 'quick': 2400, 'thorough': 19200, 'avg_case_s': 0.06},
        {'engine': 'psetseq', 'variant': 'san', 'profile': 'geom', 'kv': {'inst': 'all'}, 'quick': 1200, 'thorough': 9600, 'avg_case_s': 0.06},
        {'engine': 'psetseq', 'variant': 'san', 'profile': 'cow', 'kv': {'inst': 'all'}, 'quick': 1200, 'thorough': 9600, 'avg_case_s': 0.06},
    ],
    'prefixes': ['C09.'],
    'required_counters': ['op_checks', 'reduction_checks', 'difference_checks', 'geom_checks', 'simplify_checks', 'op.collapse', 'op.drop_disjunct', 'op.concatenate_assign',
                          'op.fold_space_dimensions', 'cases.cpoly', 'cases.nncpoly', 'cases.grid', 'cases.bds', 'cases.oct', 'cases.box', 'reach.DETERMINATE_MUTATE',
                          'reach.POWERSET_OMEGA_REDUCE'],
    'rule': ('cases = random histories (4-12 steps) over a pool of 3 same-dimension Pointset_Powerset<D> objects (D rotating over C/NNC polyhedra, Grid, BD_Shape<mpq>, Octagonal_Shape<mpq>, '
             'Rational_Box; dimension 0-3; <= 6 disjuncts incl. duplicate/subset/adjacent/empty/universe members) plus <= 3 live snapshots; every step is compared with the union of the disjunct '
             'shadows (exact LP RefUnion / exact lattice-coset comparison). distinct_nontrivial = distinct (inst | operation | state word: reduced flag, size class, shares-a-representation, '
             'has-empty-disjunct | argument class) configurations whose receiver had >= 2 non-empty disjuncts, counted by hashing. evaluations = union comparisons, reduction/flag/OK checks, '
             'boolean re-decisions, bystander/snapshot comparisons.'),
    'assumptions': ['GMP arithmetic', 'RefUnion (recursive subtraction with node cap => inconclusive)', 'RefGrid coset enumeration (cap 20000 => inconclusive)'],
}

CHECKS['C08'] = {
    'level': 'exploration',
    'jobs': [{'engine': 'widenchain', 'variant': 'san', 'profile': 'default', 'quick': 1600, 'thorough': 12800, 'avg_case_s': 0.3}],
    'prefixes': ['C08.'],
    'required_counters': ['superset_checks', 'certificate_checks', 'certificate_ppl_compares', 'token_checks', 'limited_checks', 'twin_checks',
                          'chains.C_Polyhedron.BHRZ03_widening_assign', 'chains.NNC_Polyhedron.H79_widening_assign', 'chains.BD_Shape<mpq_class>.BHMZ05_widening_assign',
                          'chains.Octagonal_Shape<mpq_class>.BHMZ05_widening_assign', 'chains.Rational_Box.CC76_widening_assign', 'chains.Box<double>.CC76_widening_assign',
                          'chains.Grid.congruence_widening_assign', 'chains.Grid.generator_widening_assign', 'op.bounded_BHRZ03_extrapolation_assign',
                          'op.limited_congruence_extrapolation_assign', 'reach.BHRZ03_WIDENING', 'reach.H79_WIDENING'],
    'rule': ('cases = adversarial ascending chains y_{k+1} = y_k widen (y_k join F(y_k)) in one domain with one widening (H79/BHRZ03 on C/NNC polyhedra, BHMZ05/H79/CC76 on BD shapes and octagons, '
             'CC76 on rational and double boxes, the three grid widenings, BHZ03/BGP99 on powersets of polyhedra and grids, plus limited/bounded extrapolations and tokens), dimension 0-3 (4 thorough), '
             'until 3 stationary steps or cap 200 (cap = inconclusive); evaluations = exact-LP / reference-lattice decisions (superset, argument unchanged, certificate recomputation + PPL compare, '
             'token differential, limited/bounded bounds and kept constraints, twin equality); distinct_nontrivial = distinct (domain | operator | status word of x | status word of y | outcome class) '
             'and twin-kind configurations with x neither empty nor universe.'),
    'assumptions': ['GMP arithmetic', 'reference model /verif/ref', 'well-foundedness of the certificate orders (mathematics, trusted)', 'convergence restated as strict certificate decrease at each non-stationary step'],
}

CHECKS['C10'] = {
    'level': 'exploration',
    'jobs': [
        {'engine': 'prodseq', 'variant': 'san', 'profile': 'default', 'kv': {'inst': 'all'}, 'quick': 2400, 'thorough': 9600, 'avg_case_s': 0.15},
        {'engine': 'prodseq', 'variant': 'san', 'profile': 'reduce', 'kv': {'inst': 'all'}, 'quick': 1200, 'thorough': 4800, 'avg_case_s': 0.15},
    ],
    'prefixes': ['C10.'],
    'required_counters': ['reduction_checks', 'image_checks', 'answer_checks', 'lp_image_checks', 'enum_points', 'reduce.effective.smash', 'reduce.effective.constraints',
                          'reduce.effective.congruences', 'reduce.effective.shapepres', 'inconsistent_pairs.unreduced', 'complete_enumerations', 'op.reduce', 'op.is_empty',
                          'op.affine_image', 'op.time_elapse_assign', 'op.fold_space_dimensions', 'op.construct_from_product', 'inst.cpoly_bds_shapepres', 'inst.oct_grid_congruences'],
    'rule': ('cases = random histories (4-10 steps) over a pool of 3 products of one of 30 (component pair, reduction policy) instantiations, dim 0-3, deterministic in (VERIF_SEED, case index); '
             'the model of a product is d1 intersect d2 of its raw components observed through copies: lattice points of the grid in a window (own HNF) tested in the convex part, plus exact LP '
             'for convex x convex; distinct_nontrivial = distinct (inst | operation | reduced flag + component classes + intersection class | argument class [| argument state | alias]) with '
             '>= 1 enumerated intersection point and not universe; evaluations = reduction monitors, image-containment checks, definite-answer re-decisions, OK/copy/ascii/bystander comparisons.'),
    'assumptions': ['GMP arithmetic', 'reference model (RefLP, RefGrid HNF)', 'dimension <= 3, window |k| <= 6: lattice points outside the window are not seen'],
}

CHECKS['C11'] = {
    'level': 'exploration',
    'jobs': [
        {'engine': 'numkernel', 'variant': 'san', 'profile': 'i8', 'quick': 1382, 'thorough': 5478, 'avg_case_s': 0.4, 'min_chunk': 1},
        {'engine': 'numkernel', 'variant': 'san', 'profile': 'wide', 'quick': 640, 'thorough': 5120, 'avg_case_s': 0.1},
        {'engine': 'numkernel', 'variant': 'san', 'profile': 'float', 'quick': 640, 'thorough': 5120, 'avg_case_s': 0.1},
        {'engine': 'numkernel', 'variant': 'san', 'profile': 'gmp', 'quick': 480, 'thorough': 3840, 'avg_case_s': 0.1},
        # configuration differential: the san (mpz) cfgdiff spawns ../../san-iN/bin/cfgdiff for the same cases and compares
        {'engine': 'cfgdiff', 'variant': 'san', 'profile': 'i8', 'kv': {'bits': 8}, 'quick': 1600, 'thorough': 12800, 'avg_case_s': 0.01},
        {'engine': 'cfgdiff', 'variant': 'san', 'profile': 'i16', 'kv': {'bits': 16}, 'quick': 1600, 'thorough': 12800, 'avg_case_s': 0.01},
        {'engine': 'cfgdiff', 'variant': 'san', 'profile': 'i32', 'kv': {'bits': 32}, 'quick': 1600, 'thorough': 12800, 'avg_case_s': 0.01},
        {'engine': 'cfgdiff', 'variant': 'san', 'profile': 'i64', 'kv': {'bits': 64}, 'quick': 1600, 'thorough': 12800, 'avg_case_s': 0.01},
        # build-only jobs (0 cases): the bounded-coefficient binaries the san job spawns
        {'engine': 'cfgdiff', 'variant': 'san-i8', 'quick': 0, 'thorough': 0},
        {'engine': 'cfgdiff', 'variant': 'san-i16', 'quick': 0, 'thorough': 0},
        {'engine': 'cfgdiff', 'variant': 'san-i32', 'quick': 0, 'thorough': 0},
        {'engine': 'cfgdiff', 'variant': 'san-i64', 'quick': 0, 'thorough': 0},
    ],
    'prefixes': ['C11.'],
    'required_counters': ['i8.units_run', 'op.div', 'op.add_mul', 'op.assign', 'op.sqrt', 'op.smod_2exp', 'op.compare', 'op.bounded_throwing_interface',
                          'ok.overflow', 'ok.unknown_overflow', 'ok.nan', 'ok.inexact', 'steps', 'ovf', 'cmp_text_equal', 'child_runs'],
    'rule': ('cfgdiff: case = seeded script of 5-12 steps on one domain (polyhedra, grids, BD shapes, octagons, MIP, PIP, linear expressions / coefficient kernel) run in the unbounded (mpz) build '
             'and in the checked-int8/16/32/64 builds; evaluations = steps whose bounded-build outcome was compared with the unbounded build (OVERFLOW accepted, otherwise text or semantic equality). '
             'numkernel: evaluations = single checked-number calls judged against the exact GMP result (relation truthful, directed rounding on the right side, overflow/infinity/NaN classification truthful, '
             'policy contracts respected); profile i8 enumerates all 256x256 raw operand patterns (x 5-6 rounding directions, 4 policies, 8 binary + 2 fused + 7 unary + 6 2exp operations, comparisons, '
             'conversions from all 8/16-bit sources, bounded throwing operators) - exhaustive iff counter i8.units_run equals i8.units_in_tier; the other profiles draw boundary-biased operands for '
             '16/32/64-bit integers, float/double/long double (volatile, incl. denormals, infinities, NaN) and mpz/mpq; distinct_nontrivial = distinct (op, type, policy, direction, operand/result class, '
             'Result code) configurations.'),
    'assumptions': ['GMP arithmetic', 'floats decoded from their bit patterns; oracle never uses floating point', 'x86-64 FPU control paths only'],
    'exhaustive': False,
}

CHECKS['C16'] = {
    'level': 'exploration',
    'jobs': [{'engine': 'rowdiff', 'variant': 'san', 'profile': 'default', 'quick': 32000, 'thorough': 256000, 'avg_case_s': 0.006}],
    'prefixes': ['C16.', 'C15.row.'],
    'required_counters': ['row_checks', 'tree_checks', 'client_checks', 'ascii_roundtrips', 'expr.binary_query_combos', 'obj.binary_query_combos', 'reach.COTREE_BIGGER',
                          'reach.COTREE_SMALLER', 'reach.COTREE_REDISTRIBUTE', 'reach.COTREE_REBALANCE', 'row.hint.stale', 'row.hint.fresh', 'row.hint.end',
                          'op.row.erase_during_iteration', 'op.row.linear_combine_range', 'op.expr.permute_space_dimensions', 'op.expr.remove_space_dimensions',
                          'client.sparse_system_in_domain_object', 'expr.repr_flips', 'sys.repr_flips'],
    'rule': ('cases = random histories (6-30 steps for expressions and objects, 15-320 for rows and trees), deterministic in (seed, case); every step is mirrored on a DENSE and a SPARSE twin '
             '(Linear_Expression, Constraint, Generator, Congruence, Grid_Generator, the four systems, C/NNC polyhedra and grids built from the twin systems) and compared through the whole public API, '
             'and for Linear_Expression, Sparse_Row and CO_Tree also against an exact model (vector<mpz> / std::map); structural invariant and the 38%-91% density rule checked after every row/tree step. '
             'distinct_nontrivial = distinct (workload | operation | twin representations | argument representation | dimension class | fill class, or reserved size x fill decile for rows and trees) '
             'with a receiver having at least one non-zero coefficient.'),
    'assumptions': ['GMP arithmetic', 'std::map as the reference ordered map'],
}

CHECKS['C20'] = {
    'level': 'exploration',
    'jobs': [
        {'engine': 'ciface', 'variant': 'san', 'mk': 'ciface.mk', 'profile': 'equiv', 'quick': 2000, 'thorough': 16000, 'avg_case_s': 0.005},
        {'engine': 'ciface', 'variant': 'san', 'mk': 'ciface.mk', 'profile': 'illformed', 'quick': 2000, 'thorough': 16000, 'avg_case_s': 0.02},
        {'engine': 'ciface', 'variant': 'san', 'mk': 'ciface.mk', 'profile': 'timeout', 'quick': 2000, 'thorough': 16000, 'avg_case_s': 0.01},
        {'engine': 'ciface', 'variant': 'san', 'mk': 'ciface.mk', 'profile': 'alloc', 'quick': 2000, 'thorough': 8000, 'avg_case_s': 0.15},
        {'engine': 'ciface', 'variant': 'san', 'mk': 'ciface.mk', 'profile': 'seq', 'quick': 650, 'thorough': 5200, 'avg_case_s': 0.02},
    ],
    'prefixes': ['C20.'],
    'required_counters': ['twin_checked', 'calls', 'alloc.failure_points', 'timeout.fired_det', 'ret.OUT_OF_MEMORY', 'ret.TIMEOUT_EXCEPTION', 'ret.INVALID_ARGUMENT', 'ret.LENGTH_ERROR',
                          'scenario.dim_mismatch', 'scenario.bad_enum', 'seq.steps', 'calls.forked'],
    'rule': ('case i drives entry point i mod 1987 of the C interface regenerated (m4) from the working tree (all 1839 PPL_PROTO prototypes, 1987 after macro expansion; 1938 with a C++ twin): '
             'profile equiv compares return value, every handle, created objects and output parameters with the same operation applied in C++ to pre-call copies and checks const handles unchanged; '
             'illformed / alloc / timeout drive every entry point with an ill-formed argument, the k-th allocation failing, and an armed (deterministic or real) timeout: the call must return the '
             'documented negative code after exactly one error-handler call, no exception may escape, every handle must still pass OK and be deletable exactly once; seq runs short random call '
             'sequences per domain. evaluations = individual comparisons and tightness checks; distinct_nontrivial = distinct (function, scenario, outcome code, dimension, mode) tuples whose '
             'receiver, when a domain element, was neither empty nor universe.'),
    'assumptions': ['handles are reinterpret_casts of the C++ objects', 'risky scenarios run in forked children whose verdict comes back through a pipe'],
}

CHECKS['C14'] = {
    'level': 'fault_enumeration',
    'jobs': [{'engine': 'faultinj', 'variant': 'san', 'profile': 'default', 'quick': 2400, 'thorough': 2400, 'avg_case_s': 4.0, 'case_timeout': 300, 'kv': {'maxk': 200},
              'env': {'ASAN_OPTIONS': 'abort_on_error=0:halt_on_error=1:detect_leaks=1:detect_stack_use_after_return=1:strict_string_checks=1:exitcode=66:allocator_may_return_null=1'}}],
    'prefixes': ['C14.'],
    'required_counters': ['inj.alloc', 'alloc.thrown', 'inj.abandon', 'abandon.thrown', 'inj.weight', 'weight.thrown', 'rejects', 'leak_checks', 'table.scenarios', 'table.rejects'],
    'rule': ('case = one scenario (one operation of one domain/solver on generated arguments, 599 scenario kinds over polyhedra, grids, BD shapes and octagons over mpq and int8, boxes, powersets, '
             'products, MIP, PIP, expressions/rows/trees/systems in both representations) or 12 rejected calls (690 op x ill-formedness entries); for each scenario the k-th allocation '
             '(operator new + GMP) is made to fail for a stride of k plus the last 10 (every k in thorough), every abandonment checkpoint is fired and weight thresholds are spread over the measured '
             'weight; evaluations = post-condition checks (only the injected exception leaves, OK/usable/assignable/destructible per object, library canary, in-process LeakSanitizer check, exception '
             'type and value-unchanged for rejected calls); distinct_nontrivial = distinct (scenario, failing-allocation call site | checkpoint index | weight bucket) whose injected exception actually '
             'propagated, plus distinct reject entries, counted by hashing.'),
    'assumptions': ['one fault per call (no double faults)', 'LeakSanitizer reachability (a leak may be attributed one failure point late)', 'every case runs in a forked child'],
}
