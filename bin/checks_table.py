# Per-property check configuration: which engines/profiles run, how many cases
# per tier, which violation-key prefixes belong to the property, and the text
# that goes into the evidence file.

POLY_RULE = ("cases = random histories (4-12 steps) over a pool of 3 same-topology polyhedra, dimension 0-3 (4 in thorough), "
             "deterministic in (VERIF_SEED, case index); every step is checked by the exact-LP reference model. "
             "distinct_nontrivial = number of distinct (operation | receiver status line of ascii_dump | receiver shape class "
             "[| argument shape class | aliased]) configurations actually executed and checked, counted by hashing; "
             "evaluations = oracle checks executed (DD-pair verifications, operator-definition inclusions, query re-decisions, bystander comparisons).")

CHECKS = {
    'C01': {
        'level': 'exploration',
        'jobs': [
            {'engine': 'polyseq', 'variant': 'san', 'profile': 'dd', 'quick': 1600, 'thorough': 40000, 'avg_case_s': 0.15},
            {'engine': 'polyseq', 'variant': 'san-assert', 'profile': 'dd', 'quick': 0, 'thorough': 8000, 'avg_case_s': 0.3, 'thorough_only': True},
        ],
        'prefixes': ['C01.'],
        'required_counters': ['dd_checks', 'twins', 'q.max_min', 'q.relation_with_c', 'q.relation_with_cg', 'q.relation_with_g'],
        'rule': POLY_RULE,
        'assumptions': ['GMP arithmetic', 'reference model /verif/ref (exact simplex, brute-force vertex enumeration)', 'dimension <= 4, small coefficients'],
    },
    'C02': {
        'level': 'exploration',
        'jobs': [{'engine': 'polyseq', 'variant': 'san', 'profile': 'ops', 'quick': 1600, 'thorough': 40000, 'avg_case_s': 0.15}],
        'prefixes': ['C02.'],
        'required_counters': ['op_checks', 'op.affine_image', 'op.poly_difference_assign', 'op.fold_space_dimensions', 'op.map_space_dimensions'],
        'rule': POLY_RULE,
        'assumptions': ['GMP arithmetic', 'reference model /verif/ref', 'operator definitions transcribed from doc/definitions.dox into /verif/ref/defs.hh'],
    },
}

CHECKS['C13'] = {
    'level': 'exploration',
    'jobs': [{'engine': 'polyseq', 'variant': 'san', 'profile': 'alias', 'quick': 1600, 'thorough': 40000, 'avg_case_s': 0.15}],
    'prefixes': ['C13.'],
    'required_counters': ['bystander_checks', 'alias_checks', 'op.m_swap', 'op.assign'],
    'rule': POLY_RULE,
    'assumptions': ['GMP arithmetic', 'reference model /verif/ref'],
}
CHECKS['C15'] = {
    'level': 'exploration',
    'jobs': [{'engine': 'polyseq', 'variant': 'san', 'profile': 'ascii', 'quick': 1600, 'thorough': 40000, 'avg_case_s': 0.15}],
    'prefixes': ['C15.'],
    'required_counters': ['ascii_roundtrips', 'lockstep_checks'],
    'rule': POLY_RULE,
    'assumptions': ['GMP arithmetic', 'reference model /verif/ref'],
}

CHECKS['C19'] = {
    'level': 'fault_enumeration',
    'jobs': [
        {'engine': 'wdvt', 'variant': 'san', 'profile': 'wd', 'quick': 2000, 'thorough': 60000, 'avg_case_s': 0.01},
        {'engine': 'wdvt', 'variant': 'san', 'profile': 'ww', 'quick': 1500, 'thorough': 40000, 'avg_case_s': 0.01},
        {'engine': 'wdvt', 'variant': 'san', 'profile': 'soak', 'quick': 0, 'thorough': 500, 'avg_case_s': 0.1, 'thorough_only': True, 'max_workers': 4},
    ],
    'prefixes': ['C19.'],
    'required_counters': ['wd.histories', 'wd.placements_deliver', 'wd.placements_elapse', 'wd.deliveries_deferred_in_critical_section',
                          'wd.fired_plain', 'op.wd.create', 'op.wd.destroy', 'ww.checks_verified', 'ww.checks_inside_ppl_ops', 'ww.fired',
                          'ww.ppl_op_abandoned', 'op.ww.add_to_threshold'],
    'rule': ('cases = random watchdog histories (2-6 watchdogs, delays 1-300 cs incl. equal and sub-second deadlines, random create/destroy order), each executed once '
             'plainly and once per (statement boundary of the library\'s bookkeeping [45 source failpoints + entry/exit of setitimer/getitimer] x {time elapses, expiry delivered}) '
             'against a virtual ITIMER_PROF, every handler invocation decided by a reference timer queue; weight-watcher histories with every check compared with a shadow queue. '
             'evaluations = oracle predicates evaluated; distinct_nontrivial = distinct (boundary id | mode | pending count | deferred count | outcome) with the timer armed, '
             'plus create/destroy/expire and weight-check configuration classes, counted by hashing.'),
    'assumptions': ['virtual timer interposed at link time (static libppl.a)', 'statement-level, not instruction-level, placement of signal delivery'],
}
CHECKS['C18'] = {
    'level': 'exploration',
    'jobs': [{'engine': 'termrank', 'variant': 'san', 'profile': 'default', 'quick': 3000, 'thorough': 120000, 'avg_case_s': 0.04}],
    'prefixes': ['C18.'],
    'required_counters': ['selftest_runs', 'rf_verified', 'complete_checks', 'ms_vs_pr_checks', 'members.point', 'members.ray', 'members.line', 'members.random',
                          'relation.has_rf', 'relation.no_rf', 'form.one', 'form.two', 'op.test_MS', 'op.test_PR', 'op.one_MS', 'op.one_PR', 'op.all_MS', 'op.all_PR',
                          'op.quasi_MS', 'op.test_MS_2', 'op.test_PR_2', 'op.one_MS_2', 'op.one_PR_2', 'op.all_MS_2', 'op.all_PR_2', 'op.quasi_MS_2'],
    'rule': ('cases = one random loop relation over 0-3 (thorough: 0-4) program variables given to all 14 termination entry points as one 2n-dim pointset or a before/after pair '
             'in one of 5 pointset classes; evaluations = LP-decided ranking-function tests (returned mu, every generator-derived and 20 random members of every returned mu_space), '
             'verdict-vs-Farkas existence comparisons and MS-vs-PR comparisons; distinct_nontrivial = distinct (entry point | pointset class | n | relation class | workload template | '
             'lazy-state word | row bucket | verdict | fresh-copy) tuples for relations that are neither empty nor universe, counted by hashing.'),
    'assumptions': ['GMP arithmetic', 'RefLP (/verif/ref/lp.hh)', 'affine Farkas lemma', 'n <= 4, <= 14 inequality rows'],
}

CHECKS['C17'] = {
    'level': 'exploration',
    'jobs': [{'engine': 'polyseq', 'variant': 'san', 'profile': 'wrap', 'quick': 1200, 'thorough': 30000, 'avg_case_s': 0.15}],
    'prefixes': ['C17.'],
    'required_counters': ['q.contains_integer_point', 'op.drop_some_non_integer_points', 'int_points_checked'],
    'rule': POLY_RULE,
    'assumptions': ['GMP arithmetic', 'integer points enumerated exhaustively in the bounded window of the argument'],
}

CHECKS['C07'] = {
    'level': 'exploration',
    'jobs': [{'engine': 'pipbrute', 'variant': 'san', 'profile': 'default', 'quick': 1200, 'thorough': 40000, 'avg_case_s': 0.4, 'case_timeout': 120}],
    'prefixes': ['C07.'],
    'required_counters': ['solves', 'solves.incremental', 'walk.point', 'walk.bottom', 'tree.with_cuts', 'tree.with_splits', 'mode.bigparam', 'op.add_constraint',
                          'op.add_constraints', 'op.add_dims', 'op.add_params', 'runs.cut_all+pivot_max_column', 'ref.bruteforce_crosschecks',
                          'reach.PIP_ROW_SIGN', 'reach.PIP_COMPAT_CHECK', 'reach.PIP_GENERATE_CUT'],
    'rule': ('cases = random PIP histories (initial problem + 0-2 incremental stages) run under all six CUTTING x PIVOT_ROW strategy settings; evaluations = (solve, parameter valuation) '
             'pairs whose documented tree walk was compared with an independent exact integer lexicographic minimum; distinct_nontrivial = distinct (strategy | stage op | #vars | #params | '
             'big | tree shape D/A/B) with a non-trivial tree, counted by hashing.'),
    'assumptions': ['GMP arithmetic', 'own exact ILP (unimodular elimination + branch and bound over RefLP, cross-checked by window brute force)', 'parameter values <= 8 (big parameter: 4 large values)'],
}

CHECKS['C05'] = {
    'level': 'exploration',
    'jobs': [
        {'engine': 'gridseq', 'variant': 'san', 'profile': 'default', 'quick': 1600, 'thorough': 40000, 'avg_case_s': 0.05},
        {'engine': 'gridseq', 'variant': 'san', 'profile': 'dd', 'quick': 800, 'thorough': 16000, 'avg_case_s': 0.05},
        {'engine': 'gridseq', 'variant': 'san', 'profile': 'ops', 'quick': 800, 'thorough': 16000, 'avg_case_s': 0.05},
        {'engine': 'gridseq', 'variant': 'san', 'profile': 'selftest', 'quick': 320, 'thorough': 3200, 'avg_case_s': 0.06},
    ],
    'prefixes': ['C05.'],
    'required_counters': ['dd_checks', 'op_checks', 'q.relation_with_cg', 'q.frequency', 'op.difference_assign', 'op.generalized_affine_preimage', 'st.difference',
                          'reach.GRID_CONV_C2G', 'reach.GRID_CONV_G2C', 'reach.GRID_SIMPLIFY_C', 'reach.GRID_SIMPLIFY_G'],
    'rule': ('cases = random histories (4-12 steps) over a pool of 3 grids, dimension 0-3 (4 thorough), built from congruences (moduli 0-6) and generator systems with non-unit divisors, '
             'parameters and lines; after every step the four descriptions of each grid must denote one lattice (own Hermite-normal-form model), every query is answered from that lattice, '
             'every operator must equal its lattice definition, join and difference must be the smallest grid; profile selftest checks the reference model itself against brute-force membership. '
             'distinct_nontrivial = distinct (operation | status word | shape class) configurations, counted by hashing; evaluations = oracle checks.'),
    'assumptions': ['GMP arithmetic', 'RefGrid (/verif/ref/refgrid.hh), self-tested against brute force in the same check'],
}
CHECKS['C06'] = {
    'level': 'exploration',
    'jobs': [{'engine': 'mipdiff', 'variant': 'san', 'profile': 'default', 'quick': 16000, 'thorough': 600000, 'avg_case_s': 0.02}],
    'prefixes': ['C06.'],
    'required_counters': ['q.solve', 'q.is_satisfiable', 'q.feasible_point', 'q.optimizing_point', 'q.optimal_value', 'fresh.float', 'fresh.exact', 'fresh.textbook',
                          'ref.enum', 'ref.bb', 'incremental_requery', 'reach.MIP_PIVOT', 'reach.MIP_PRICE_FLOAT', 'reach.MIP_PRICE_EXACT', 'reach.MIP_PRICE_TEXTBOOK',
                          'reach.MIP_SOLVE_MIP', 'reach.MIP_IS_MIP_SAT', 'reach.MIP_MERGE_SPLIT'],
    'rule': ('cases = random incremental histories (4-11 steps + immediate re-queries) over two MIP_Problem objects, dim 0-3 (4 thorough), deterministic in (VERIF_SEED, case); '
             'evaluations = oracle checks (arithmetic certifications of returned points/values, reference status/optimum comparisons by own exact simplex + integer enumeration / branch and bound, '
             'incremental-vs-fresh x6 under the three pricing rules, copy/twin comparisons, accessor-vs-log comparisons); distinct_nontrivial = distinct (operation | status/initialized/pending '
             'word of ascii_dump | lp/mip | reference status | pricing) configurations with >= 1 constraint and dim >= 1.'),
    'assumptions': ['GMP arithmetic', 'RefLP + own integer enumeration / branch and bound (node cap => inconclusive)'],
}

CHECKS['C12'] = {
    'level': 'exploration',
    'jobs': [
        {'engine': 'ivalencl', 'variant': 'san', 'profile': 'default', 'quick': 48000, 'thorough': 1200000, 'avg_case_s': 0.004},
        {'engine': 'fplin', 'variant': 'san', 'profile': 'default', 'quick': 4000, 'thorough': 40000, 'avg_case_s': 0.05},
    ],
    'prefixes': ['C12.'],
    'required_counters': ['encl_checks', 'exact_checks', 'flag_checks', 'pred_checks', 'op.mul', 'op.div', 'op.wrap_assign', 'op.refine_universal', 'pol.rat_oc', 'pol.flt_oc',
                          'pol.dbl_oc', 'pol.ldbl_oc', 'pol.i8_c', 'lin_evals', 'linearize_true', 'lf_checks', 'roundings_checked', 'emulator_selftest_ok'],
    'rule': ('ivalencl: case = pool of 3 intervals of one of 9 policies (rational open/closed, mpz, int8/uint8/int32/int64, float/double/long double), 4-12 operations; evaluations = sampled member '
             'pairs applied exactly in mpq and tested for membership + exact-reference equalities + flag/predicate re-derivations; distinct_nontrivial = distinct (policy | operation | '
             'sign/openness/infinity class of each operand | class of result). fplin: case = one random expression tree with its abstract store (every subtree checked at 60/500 concrete '
             'stores x 4 rounding modes with machine arithmetic) or 3-8 linear-form operator steps at 6 rational stores.'),
    'assumptions': ['GMP arithmetic', 'member sampling at end points, just inside open ends, midpoints, zero and random interior points', 'x86-64 FPU for the concrete evaluations'],
}
