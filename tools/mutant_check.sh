#!/bin/bash
# Apply a seeded change to /repo, run the quick check(s) of the given properties, undo the change.
# usage: mutant_check.sh <patch.diff> <PROP> [<PROP>...]
P=$1; shift
git -C /repo apply "$P" || { echo "patch does not apply"; exit 3; }
trap 'git -C /repo checkout -- . ' EXIT
for prop in "$@"; do
  out=$(/verif/bin/check $prop --tier quick 2>&1); rc=$?
  echo "$out" | grep -E "^VIOLATION|^  key|^KNOWN|seed=" | head -12
  echo "== $prop exit=$rc"
done
