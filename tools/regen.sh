#!/bin/bash
cd "$(dirname "$0")/.." && python3 tools/gen_manifest.py && python3 tools/gen_fixed.py && python3-vt -c "import json,jsonschema; jsonschema.validate(json.load(open(\"MANIFEST.json\")), json.load(open(\"/root/.vp/MANIFEST.schema.json\"))); print(\"manifest valid\")"
