#!/bin/bash
# Run the repository's own test suite on a scratch copy of /repo, bind-mounted
# at /repo inside a private mount namespace (so absolute paths baked into the
# autotools build keep working).  Usage: suite_run.sh <copydir> <logfile> [patch.diff]
# The copy is synchronised from /repo's tracked sources (working tree) first.
set -u
COPY=$1; LOG=$2; PATCH=${3:-}
mkdir -p "$COPY"
# sync only tracked source files that differ (keeps build products, so make is incremental)
# SUITE_FROM_HEAD=1: take the sources from a clean worktree of /repo's HEAD (so that a change applied to /repo's
# working tree by a concurrent mutant sweep can never leak in); files are compared by checksum, unchanged files keep
# their time stamps in the copy and make stays incremental.
if [ "${SUITE_FROM_HEAD:-0}" = 1 ]; then
  CLEAN=${SUITE_CLEAN:-/var/tmp/suite/clean}
  H=$(git -C /repo rev-parse HEAD)
  if [ -d "$CLEAN/.git" ] || [ -f "$CLEAN/.git" ]; then git -C "$CLEAN" checkout -q --detach "$H"; else git -C /repo worktree add -q --detach "$CLEAN" "$H"; fi
  (cd "$CLEAN" && git ls-files -z | rsync -a -c --files-from=- --from0 "$CLEAN/" "$COPY/")
else
  cd /repo && git ls-files -z | rsync -a --files-from=- --from0 /repo/ "$COPY/"
fi
if [ -n "$PATCH" ]; then (cd "$COPY" && git apply "$PATCH") || { echo "patch failed" > "$LOG"; exit 3; }; fi
unshare -m bash -c "mount --bind '$COPY' /repo && cd /repo && (make -j16 >/dev/null 2>'$LOG.build.err' || echo BUILD-FAILED) && make -k -j16 check 2>&1" > "$LOG" 2>&1
grep -hE "^# (TOTAL|PASS|FAIL|XFAIL|XPASS|ERROR|SKIP):" "$LOG" | awk '{a[$2]+=$3} END{for(k in a) print k, a[k]}' | sort > "$LOG.summary"
grep -E "^(FAIL|ERROR):" "$LOG" >> "$LOG.summary"
if [ -n "$PATCH" ]; then (cd "$COPY" && git apply -R "$PATCH"); fi
cat "$LOG.summary"
