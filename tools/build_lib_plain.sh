#!/bin/bash
# usage: build_lib.sh <worktree> [extra g++ flags]   -> <worktree>/_build/libppl.a   (about 30-60 s)
# Out-of-tree build of the PPL library from the worktree's src/ (no autotools needed).
set -e
W=$1; shift
EXTRA="$@"
mkdir -p $W/_build/obj
for f in ppl-config.h config.h; do [ -f $W/$f ] || cp /repo/$f $W/$f; done
for f in version.hh ppl_include_files.hh; do [ -f $W/src/$f ] || cp /repo/src/$f $W/src/$f; done
cd $W/src
ls *.cc | grep -v -E '^(Affine_Space|Pointset_Ask_Tell|ppl-config|BUGS|COPYING|CREDITS)\.cc$' | \
  xargs -P 8 -I{} sh -c "g++ -std=gnu++17 -O1 -g1 -frounding-math -w $EXTRA -I$W -I$W/src -c {} -o $W/_build/obj/\$(basename {} .cc).o"
rm -f $W/_build/libppl.a; ar rcs $W/_build/libppl.a $W/_build/obj/*.o
echo "built $W/_build/libppl.a"
echo "compile a program:  g++ -std=gnu++17 -O1 -g1 -frounding-math -w $EXTRA -I$W -I$W/src prog.cc $W/_build/libppl.a -lgmpxx -lgmp -o prog   (include \"ppl_header.hh\", not ppl.hh)"
echo "compile an existing test, e.g. tests/Polyhedron/affineimage1.cc:  g++ ... -I$W/tests tests/Polyhedron/affineimage1.cc tests/ppl_test.cc tests/files.cc $W/_build/libppl.a -lgmpxx -lgmp   (tests include ppl_test.hh which includes ppl_header.hh; if it includes \"ppl.hh\" add -include ppl_header.hh or create src/ppl.hh as a copy of ppl_header.hh)"
