#!/bin/bash
# usage: thorough_all.sh [props...] — runs the thorough tier of each check once, one line per run plus VIOLATION lines
PROPS=${@:-C01 C02 C03 C04 C05 C06 C07 C08 C09 C10 C11 C12 C13 C14 C15 C16 C17 C18 C19 C20}
cd "$(dirname "$0")/.."
for p in $PROPS; do
  echo "== $p thorough start $(date +%T)"
  bin/check $p --tier thorough ${THOR_SEED:+--seed $THOR_SEED} 2>&1 | grep -E "^VIOLATION|^  key|seed=|HARNESS|BUILD FAILED" | cut -c1-300
done
echo "== all done $(date +%T)"
