#!/bin/bash
# Sequentially confirm seeded changes against the full repository test suite.
# Queue file: one "<id> <patch path>" per line, appended by hand; results in /var/tmp/suite/mut_<id>.log.summary
Q=/var/tmp/suite/queue.txt; DONE=/var/tmp/suite/queue.done; touch $Q $DONE
while true; do
  line=$(grep -v -x -F -f $DONE $Q | head -1)
  if [ -z "$line" ]; then sleep 30; continue; fi
  id=$(echo $line | cut -d' ' -f1); patch=$(echo $line | cut -s -d' ' -f2)   # a line without a second field = no patch (the tree as it is)
  echo "== $id start $(date +%T)" >> /var/tmp/suite/queue.log
  SUITE_FROM_HEAD=1 nice -n 10 /verif/tools/suite_run.sh /var/tmp/suite/repo /var/tmp/suite/mut_$id.log "$patch" > /var/tmp/suite/mut_$id.out 2>&1
  echo "== $id done $(date +%T): $(tr '\n' ' ' < /var/tmp/suite/mut_$id.log.summary)" >> /var/tmp/suite/queue.log
  echo "$line" >> $DONE
done
