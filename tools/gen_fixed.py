#!/usr/bin/env python3
"""Regenerate the 'fixed' list of known_findings.json and MANIFEST hooks.source_commits from /repo's git log
(commit ids change when history is edited, so they are never typed by hand)."""
import json, re, subprocess
log = subprocess.run(['git', '-C', '/repo', 'log', '--reverse', '--format=%h\t%s'], capture_output=True, text=True).stdout.splitlines()
RULES = [  # first match wins
 (r'Time equality|Threshold_Watcher', 'C19'),
 (r'C interface|ppl_set_deterministic_timeout|ppl_io_wrap_string', 'C20'),
 (r'^fix: PIP|PIP_Decision_Node|PIP split|PIP solution|PIP row_sign|PIP is_better', 'C07'),
 (r'PIP_Problem::m_swap', 'C13'),
 (r'MIP_Problem', 'C06'),
 (r'Status::ascii_load|ascii_load', 'C15'),
 (r'Grid::wrap_assign|wrap_assign|contains_integer_point|drop_some_non_integer_points', 'C17'),
 (r'Grid', 'C05'),
 (r'Pointset_Powerset', 'C09'),
 (r'Partially_Reduced_Product|Congruences_Reduction', 'C10'),
 (r'Interval::', 'C12'),
 (r'div_signed_int|sqrt on native|sub_mul on native|gt_ext|assign_special_mpq', 'C11'),
 (r'Sparse_Row|linear_combine_lax|all_zeroes_except', 'C16'),
 (r'limited extrapolations|limited_congruence_extrapolation|H79_Certificate', 'C08'),
 (r'Box::|BD_Shape|Octagonal_Shape|Box constraint propagation', 'C03'),
 (r'relation_with\(Congruence\)|positive_time_elapse_assign left', 'C01'),
 (r'.', 'C02'),
]
fixed, hooks = [], []
for l in log:
    h, s = l.split('\t', 1)
    if s.startswith('verif hooks'):
        hooks.append(h)
    if not s.startswith('fix:'):
        continue
    prop = next(p for rx, p in RULES if re.search(rx, s))
    fixed.append('fixed: property=%s %s %s' % (prop, h, s[5:]))
k = json.load(open('/verif/known_findings.json'))
k['fixed'] = fixed
json.dump(k, open('/verif/known_findings.json', 'w'), indent=1)
m = json.load(open('/verif/MANIFEST.json'))
m['hooks']['source_commits'] = hooks
json.dump(m, open('/verif/MANIFEST.json', 'w'), indent=1)
print(len(fixed), 'fix commits;', hooks)
