#!/usr/bin/env python3
"""One-shot tool that inserted the guarded reach-counter hooks into /repo/src
(kept for the record; the result is committed in /repo)."""
import re
SITES=[
 ('Polyhedron_conversion_templates.hh', r'^Polyhedron::conversion\(Source_Linear_System& source,', 'POLY_CONVERSION'),
 ('Polyhedron_simplify_templates.hh', r'^Polyhedron::simplify\(Linear_System1& sys, Bit_Matrix& sat\) \{', 'POLY_SIMPLIFY'),
 ('Polyhedron_nonpublic.cc', r'^PPL::Polyhedron::strongly_minimize_constraints\(\) const \{', 'POLY_STRONG_MIN_CONS'),
 ('Polyhedron_nonpublic.cc', r'^PPL::Polyhedron::strongly_minimize_generators\(\) const \{', 'POLY_STRONG_MIN_GENS'),
 ('Polyhedron_widenings.cc', r'^PPL::Polyhedron::H79_widening_assign\(const Polyhedron& y, unsigned\* tp\) \{', 'H79_WIDENING'),
 ('Polyhedron_widenings.cc', r'^PPL::Polyhedron::BHRZ03_widening_assign\(const Polyhedron& y, unsigned\* tp\) \{', 'BHRZ03_WIDENING'),
 ('MIP_Problem.cc', r'^PPL::MIP_Problem::merge_split_variable\(dimension_type var_index\) \{', 'MIP_MERGE_SPLIT'),
 ('MIP_Problem.cc', r'^PPL::MIP_Problem::steepest_edge_float_entering_index\(\) const \{', 'MIP_PRICE_FLOAT'),
 ('MIP_Problem.cc', r'^PPL::MIP_Problem::steepest_edge_exact_entering_index\(\) const \{', 'MIP_PRICE_EXACT'),
 ('MIP_Problem.cc', r'^PPL::MIP_Problem::textbook_entering_index\(\) const \{', 'MIP_PRICE_TEXTBOOK'),
 ('MIP_Problem.cc', r'^PPL::MIP_Problem::pivot\(const dimension_type entering_var_index,', 'MIP_PIVOT'),
 ('MIP_Problem.cc', r'^PPL::MIP_Problem::solve_mip\(bool& have_incumbent_solution,', 'MIP_SOLVE_MIP'),
 ('MIP_Problem.cc', r'^PPL::MIP_Problem::is_mip_satisfiable\(MIP_Problem& mip,', 'MIP_IS_MIP_SAT'),
 ('PIP_Tree.cc', r'^PIP_Solution_Node::row_sign\(const Row& x,', 'PIP_ROW_SIGN'),
 ('PIP_Tree.cc', r'^PIP_Tree_Node::compatibility_check\(Matrix<Row>& s\) \{', 'PIP_COMPAT_CHECK'),
 ('PIP_Tree.cc', r'^PIP_Solution_Node::generate_cut\(const dimension_type index,', 'PIP_GENERATE_CUT'),
 ('Grid_conversion.cc', r'^Grid::conversion\(Grid_Generator_System& source, Congruence_System& dest,', 'GRID_CONV_G2C'),
 ('Grid_conversion.cc', r'^Grid::conversion\(Congruence_System& source, Grid_Generator_System& dest,', 'GRID_CONV_C2G'),
 ('Grid_simplify.cc', r'^Grid::simplify\(Grid_Generator_System& ggs, Dimension_Kinds& dim_kinds\) \{', 'GRID_SIMPLIFY_G'),
 ('Grid_simplify.cc', r'^Grid::simplify\(Congruence_System& cgs, Dimension_Kinds& dim_kinds\) \{', 'GRID_SIMPLIFY_C'),
 ('CO_Tree.cc', r'^PPL::CO_Tree::rebuild_bigger_tree\(\) \{', 'COTREE_BIGGER'),
 ('CO_Tree.cc', r'^PPL::CO_Tree::rebalance\(tree_iterator itr, const dimension_type key,', 'COTREE_REBALANCE'),
 ('CO_Tree.cc', r'^PPL::CO_Tree::redistribute_elements_in_subtree\(const dimension_type root_index,', 'COTREE_REDISTRIBUTE'),
 ('CO_Tree_inlines.hh', r'^CO_Tree::rebuild_smaller_tree\(\) \{', 'COTREE_SMALLER'),
 ('BD_Shape_templates.hh', r'^BD_Shape<T>::shortest_path_closure_assign\(\) const \{', 'BDS_CLOSURE'),
 ('BD_Shape_templates.hh', r'^BD_Shape<T>::incremental_shortest_path_closure_assign\(Variable var\) const \{', 'BDS_INCR_CLOSURE'),
 ('BD_Shape_templates.hh', r'^BD_Shape<T>::shortest_path_reduction_assign\(\) const \{', 'BDS_REDUCTION'),
 ('Octagonal_Shape_templates.hh', r'^Octagonal_Shape<T>::strong_closure_assign\(\) const \{', 'OCT_CLOSURE'),
 ('Octagonal_Shape_templates.hh', r'^::incremental_strong_closure_assign\(const Variable var\) const \{', 'OCT_INCR_CLOSURE'),
 ('Octagonal_Shape_templates.hh', r'^Octagonal_Shape<T>::strong_reduction_assign\(\) const \{', 'OCT_REDUCTION'),
 ('Box_templates.hh', r'^::propagate_constraints_no_check\(const Constraint_System& cs,', 'BOX_PROPAGATE'),
 ('Determinate_inlines.hh', r'^Determinate<PSET>::mutate\(\) \{', 'DETERMINATE_MUTATE'),
 ('Powerset_templates.hh', r'^Powerset<D>::omega_reduce\(\) const \{', 'POWERSET_OMEGA_REDUCE'),
]
EXTRA=['BHRZ03_COMBINING_OK','BHRZ03_EVOLVING_POINTS_OK','BHRZ03_EVOLVING_RAYS_OK','BHRZ03_FALLBACK_H79']
ids=[s[2] for s in SITES]+EXTRA
hdr='''/* Verification hooks (failpoints and reach counters); active only when
   BUGSENG_PPL_VERIF is defined.  Not part of the library proper.  */
#ifndef PPL_verif_hooks_hh
#define PPL_verif_hooks_hh 1

#ifdef BUGSENG_PPL_VERIF

namespace Parma_Polyhedra_Library {
namespace Implementation {
namespace Verif {

enum Reach_Id {
%s
  PPL_VR_COUNT
};

//! Reach counters: incremented each time the instrumented mechanism runs.
extern unsigned long reach[PPL_VR_COUNT];
//! Names of the reach counters, indexed by Reach_Id.
extern const char* const reach_names[PPL_VR_COUNT];
//! Failpoint hook: called with the failpoint's name, if non-null.
extern void (*point_hook)(const char* id);

} // namespace Verif
} // namespace Implementation
} // namespace Parma_Polyhedra_Library

#define PPL_VERIF_REACH(id)                                             \\
  (++::Parma_Polyhedra_Library::Implementation::Verif::reach            \\
     [::Parma_Polyhedra_Library::Implementation::Verif::PPL_VR_##id])

#define PPL_VERIF_POINT(name)                                                \\
  do {                                                                       \\
    if (::Parma_Polyhedra_Library::Implementation::Verif::point_hook != 0) { \\
      ::Parma_Polyhedra_Library::Implementation::Verif::point_hook(name);    \\
    }                                                                        \\
  } while (false)

#endif // defined(BUGSENG_PPL_VERIF)

#endif // !defined(PPL_verif_hooks_hh)
''' % '\n'.join('  PPL_VR_%s,'%i for i in ids)
open('verif_hooks.hh','w').write(hdr)
g=open('globals.cc').read()
defs='''
#ifdef BUGSENG_PPL_VERIF
namespace Implementation {
namespace Verif {
unsigned long reach[PPL_VR_COUNT];
const char* const reach_names[PPL_VR_COUNT] = {
%s
};
void (*point_hook)(const char*) = 0;
} // namespace Verif
} // namespace Implementation
#endif // defined(BUGSENG_PPL_VERIF)
''' % '\n'.join('  "%s",'%i for i in ids)
anchor="\ndimension_type\ncheck_space_dimension_overflow(const dimension_type dim,"
assert g.count(anchor)==1
open('globals.cc','w').write(g.replace(anchor, defs+anchor))
INC=['#ifdef BUGSENG_PPL_VERIF','#include "verif_hooks.hh"','#endif']
files={}
for f,rx,idn in SITES: files.setdefault(f,[]).append((rx,idn))
files.setdefault('globals.cc',[]); files.setdefault('Polyhedron_widenings.cc',[])
for f,lst in files.items():
    lines=open(f).read().split('\n')
    for rx,idn in lst:
        hits=[i for i,l in enumerate(lines) if re.search(rx,l)]
        assert len(hits)==1,(f,rx,hits)
        i=hits[0]
        while not lines[i].rstrip().endswith('{'): i+=1
        lines[i+1:i+1]=['#ifdef BUGSENG_PPL_VERIF','  PPL_VERIF_REACH(%s);'%idn,'#endif']
    k=[i for i,l in enumerate(lines) if l.startswith('#include')]
    assert k,f
    j=k[0]
    while j+1<len(lines) and lines[j+1].startswith('#include'): j+=1
    lines[j+1:j+1]=INC
    open(f,'w').write('\n'.join(lines))
p='Polyhedron_widenings.cc'; s=open(p).read()
for call,idn in (('if (x.BHRZ03_combining_constraints(y, y_cert, H79, x_minus_H79_cs)) {\n    return;','BHRZ03_COMBINING_OK'),('if (x.BHRZ03_evolving_points(y, y_cert, H79)) {\n    return;','BHRZ03_EVOLVING_POINTS_OK'),('if (x.BHRZ03_evolving_rays(y, y_cert, H79)) {\n    return;','BHRZ03_EVOLVING_RAYS_OK')):
    assert s.count(call)==1
    s=s.replace(call, call.replace('\n    return;','\n#ifdef BUGSENG_PPL_VERIF\n    PPL_VERIF_REACH(%s);\n#endif\n    return;'%idn))
old="  // No previous technique was successful: fall back to the H79 widening.\n  x.m_swap(H79);"
assert s.count(old)==1
s=s.replace(old,"  // No previous technique was successful: fall back to the H79 widening.\n#ifdef BUGSENG_PPL_VERIF\n  PPL_VERIF_REACH(BHRZ03_FALLBACK_H79);\n#endif\n  x.m_swap(H79);")
open(p,'w').write(s)
