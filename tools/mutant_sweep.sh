#!/bin/bash
# For each seeded change: apply to /repo, run the quick check of the property it breaks, undo.
# usage: mutant_sweep.sh <id>...      (log: /var/tmp/mutsweep.log)
for id in "$@"; do
  P=/verif/seeded/$id/patch.diff
  prop=${id:0:3}
  echo "=== $id $(date +%T)"
  git -C /repo apply "$P" || { echo "$id: patch does not apply"; continue; }
  out=$(/verif/bin/check $prop --tier quick 2>&1); rc=$?
  git -C /repo checkout -- .
  echo "$out" | grep -E "^VIOLATION|^  key|seed=|HARNESS|BUILD" | cut -c1-220 | head -14
  echo "=== $id exit=$rc"
done
# leave the builds consistent with the clean tree again
/verif/bin/setup > /dev/null 2>&1
echo "=== sweep done $(date +%T)"
