#!/usr/bin/env python3
"""Regenerate /verif/MANIFEST.json from bin/checks_table.py (single source of truth for jobs)."""
import json, os, sys
VERIF = os.path.dirname(os.path.dirname(os.path.abspath(__file__)))
sys.path.insert(0, os.path.join(VERIF, 'bin'))
from checks_table import CHECKS

TEXT = {
 'C01': ("Held on every execution produced: random histories over polyhedra (dim 0-4) in which, after every step, both descriptions (plain and minimized, each observed through its own copy) are verified to denote one set by brute-force vertex/ray/face enumeration plus exact LP, every query is re-decided on that set, observers are checked for purity and twins built another way must answer identically. Universality is not claimed; evidence lists the (operation, lazy state, shape) configurations seen.",
         "sanitized random histories + exact-LP reference-model oracle (DD-pair verification, query re-decision, twin differential)"),
 'C02': ("Held on every execution produced: each set-transforming operator result is compared two-sidedly (LP inclusions) with the set defined in doc/definitions.dox written as an exists-projected linear system over the arguments' verified shadows; smallest-enclosing results are checked for containment and minimality; *_if_exact Booleans against exact union coverage.",
         "sanitized random histories + operator-definition oracle (exists-projected linear systems decided by exact LP)"),
 'C03': ("Held on every execution produced (modulo the listed known findings): for 18 BD-shape/octagon instantiations and 11 box instantiations every operation's result, read as exact rationals, must contain the exact result computed by LP on the arguments' denotations; definite answers are re-decided in the safe direction; unobservable elements (NaN entries) are violations.",
         "sanitized random histories per coefficient type + exact-LP soundness oracle on rational images of the matrices/intervals"),
 'C04': ("Held on every execution produced (modulo known findings): over rationals, predicates are re-decided exactly, operations the statement calls exact are compared two-sidedly, 'best' operations by equality of all template-direction suprema, *_if_exact Booleans by exact union coverage, twins with different histories must agree.",
         "sanitized random histories on mpq shapes/boxes + exact-LP exactness/best-abstraction oracle"),
 'C05': ("Held on every execution produced (modulo known findings): after every step the four descriptions of each grid denote one lattice according to an independent Hermite-normal-form model, every query and operator equals its lattice definition, join/difference are the smallest grid; the model itself is self-tested against brute-force membership in the same check.",
         "sanitized random histories + independent lattice reference model (own HNF), self-tested"),
 'C06': ("Held on every execution produced (modulo the branch-and-bound non-termination finding): every answer of incremental MIP histories is certified arithmetically, compared with an own exact simplex + integer enumeration / branch and bound, and with six fresh problems under the three pricing rules.",
         "sanitized incremental histories + self-certification + reference exact simplex/ILP + incremental-vs-fresh differential"),
 'C07': ("Held on every execution produced for fresh solves with PIVOT_ROW_STRATEGY_FIRST outside the listed known classes: the documented tree walk for every small parameter valuation satisfying the context is compared with an independent exact integer lexicographic minimum under all six strategy settings; the incremental re-solve, big-parameter and max-column strategy clauses are known findings (the solver is genuinely wrong there).",
         "sanitized random PIP histories + brute-force/own-ILP lexmin oracle over all small parameter valuations"),
 'C08': ("Held on every execution produced (modulo known findings): along adversarial ascending chains every widening result contains the larger argument, depends only on point sets (representation twins), strictly decreases an independently recomputed certificate at each non-stationary step; token protocol and limited/bounded extrapolations checked differentially. Convergence on all chains is restated as this safety property.",
         "sanitized adversarial chains + LP/lattice inclusion, twin differential and independent certificate recomputation"),
 'C09': ("Held on every execution produced (modulo known findings): every powerset operation is compared with the union of the disjunct shadows (exact recursive subtraction with LP; exact coset comparison for grids), reductions must not change the union nor increase size, copies/snapshots are re-checked after every step.",
         "sanitized random histories + union-of-convex-sets reference model"),
 'C10': ("Held on every execution produced (modulo known findings): for 30 (pair, reduction) instantiations the intersection of the raw components (lattice points in a window / exact LP) is never reduced by a reduction, components only shrink, transformer results contain the exact image, definite answers are true of the intersections.",
         "sanitized random histories + intersection model (lattice enumeration in a window, exact LP for convex pairs)"),
 'C11': ("Held on every execution produced (modulo the listed kernel findings): every checked-number call is judged against the exact GMP result; the 8-bit part enumerates all operand patterns; bounded-coefficient builds (checked-int8/16/32/64) are run against the unbounded build on the same scripts and must overflow or agree.",
         "exhaustive (8-bit) and boundary-biased enumeration with exact GMP oracle + configuration differential (mpz vs checked-intN builds)"),
 'C12': ("Held on every execution produced (modulo known findings): interval operations on 9 policies are checked by member sampling with exact mpq application plus exact-reference equality for exact bound types; linear forms and linearize() against real machine evaluations under 4 rounding modes.",
         "member-sampling enclosure oracle in exact arithmetic + concrete floating-point evaluation under all rounding modes"),
 'C13': ("Held on every execution produced (modulo the sparse-expression aliasing finding): after every step of the histories of all engines every other pool object, const argument and snapshot keeps its value in the reference model; x.op(x) equals x.op(copy); self-assignment/self-swap harmless; ASan for use-after-free forms.",
         "sanitized histories with pooled objects + value snapshots in the reference model + alias differential"),
 'C14': ("Held on the enumerated fault points modulo fourteen FAMILY findings (DESIGN.md 7.8): exception safety is largely unimplemented in the library, so for the listed domains any not-OK state in a listed triage class, crash or unusable object after an injected fault is attributed to the family. Decided on every run: leaks at PPL allocation sites, exception type and value preservation of about 620 rejected-call entries, not-OK states in unlisted triage classes (clause-by-clause re-evaluation of Polyhedron::OK on the dump), hangs. For every scenario the k-th allocation (operator new and GMP) is made to fail at a stride of points (200 per scenario in thorough), every abandonment checkpoint is fired and weight thresholds are spread over the measured weight.",
         "fault enumeration (allocation countdown, abandonment checkpoints, ill-formed argument classes) under ASan/LSan"),
 'C15': ("Held on every execution produced: at random points of the histories of all engines the object is dumped, loaded into a fresh object, checked for OK(), identical re-dump and equal value, and the loaded twin is then driven in lock-step and must keep answering like the original.",
         "sanitized histories + dump/load/re-dump fixpoint + lock-step twin differential"),
 'C16': ("Held on every execution produced (modulo known findings): DENSE and SPARSE twins of expressions, rows, constraints, generators, congruences and systems are driven in lock-step through the whole public API and compared; Sparse_Row/CO_Tree against std::map with structural checks after every step.",
         "lock-step dense/sparse differential + std::map reference + structural invariant checks under ASan"),
 'C17': ("Held on every execution produced (modulo known findings): for wrap_assign / drop_some_non_integer_points / contains_integer_point on all domains the integer points of the argument are enumerated (or sampled at quadrant boundaries) and every required image is tested by exact arithmetic in the result.",
         "sanitized calls on constructed arguments + exhaustive integer-point enumeration oracle"),
 'C18': ("Held on every execution produced (modulo the PR_2 incompleteness finding): every returned ranking function and every generator-derived and random member of every returned space is LP-checked for boundedness and strict decrease; verdicts are compared with an independently written Farkas system; MS vs PR on closed relations.",
         "random loop relations + exact-LP ranking-function oracle + independent Farkas existence test"),
 'C19': ("Held on the enumerated placements (modulo the in-critical-section finding): each watchdog history is re-executed once per (statement boundary of the bookkeeping code x {time elapses, expiry delivered}) against a virtual ITIMER_PROF and every handler invocation is decided by a reference timer queue; weight watchers against a shadow queue at every check.",
         "fault/schedule enumeration: virtual timer interposition + source failpoints + reference timer-queue model"),
 'C20': ("Held on every execution produced (modulo known findings): all 1987 entry points of the regenerated C interface are driven for equivalence with their C++ twin and for exception tightness under ill-formed arguments, allocation failure and timeouts.",
         "generated per-entry-point harness: C-vs-C++ differential + ill-formed/alloc-failure/timeout injection under ASan"),
}
NOTE = ("Trusted: GMP, the reference code under /verif/ref and the engine's own model, gcc ASan/UBSan. Bounded: small dimensions (0-4), small coefficients with occasional large / type-limit ones, "
        "case counts in bin/checks_table.py. Violations matching /verif/known_findings.json are printed as KNOWN-FINDING and do not fail the check.")

engines = {}
for pid, spec in CHECKS.items():
    for j in spec['jobs']:
        engines.setdefault(j['engine'], set()).add(pid)

m = {
 'version': 1,
 'setup_cmd': 'bin/setup',
 'hooks': {
   'guard': 'BUGSENG_PPL_VERIF',
   'enable': '-DBUGSENG_PPL_VERIF on every out-of-tree compile of /repo/src, of the regenerated C interface and of the engines (mk/build.mk BASEFLAGS)',
   'baseline_off_cmd': 'cd /repo && make -k check',
   'source_commits': [],
   'add_only': True,
 },
 'engines': [{'name': e, 'path': 'engines/%s.cc' % e, 'serves_properties': sorted(ps),
              'kind_free_text': 'runtime-monitoring engine (see DESIGN.md section 3 and 7); one process per worker, JSONL event protocol of harness/hx.hh'} for e, ps in sorted(engines.items())],
 'checks': [],
 'notes': 'All checks are driven by bin/check <ID>; job tables in bin/checks_table.py; known findings in known_findings.json; seeded breaking changes in seeded/.',
 'not_applicable': [],
}
for pid in sorted(TEXT):
    if pid not in CHECKS:
        m['not_applicable'].append({'property_id': pid, 'reason': 'check under construction (engine not yet integrated); see DESIGN.md section 7'})
        continue
    spec = CHECKS[pid]
    text, tech = TEXT[pid]
    m['checks'].append({
        'property_id': pid,
        'quick_cmd': 'bin/check %s --tier quick' % pid,
        'thorough_cmd': 'bin/check %s --tier thorough' % pid,
        'evidence_file': 'evidence/%s.json' % pid,
        'replay_cmd_template': 'bin/check replay {path}',
        'engine': '+'.join(sorted(set(j['engine'] for j in spec['jobs']))),
        'level_claimed': {'category': spec['level'], 'text': text, 'design_ref': 'DESIGN.md section 3 %s and section 7' % pid},
        'level_note': NOTE,
        'technique': 'runtime monitoring: ' + tech,
    })
json.dump(m, open(os.path.join(VERIF, 'MANIFEST.json'), 'w'), indent=1)
print('checks:', [c['property_id'] for c in m['checks']], 'n/a:', [c['property_id'] for c in m['not_applicable']])
