#!/usr/bin/env python3
"""Write seeded/<id>/meta.json for every seeded change from what was confirmed here:
   demo exits (tools/mutant_demo.sh output file), repository test suite summary (tools/suite_run.sh, *.log.summary)
   and the verdict of the quick check with the change applied (tools/mutant_sweep.sh log).
usage: seed_finalize.py <demo.out> <suite-dir> <sweep.log>"""
import sys, os, re, json
demo_out, suite_dir, sweep_log = sys.argv[1:4]
demos = {}
for l in open(demo_out):
    m = re.match(r'(C\d\d): demo exit on unchanged tree = (\d+), with the change = (\d+)', l)
    if m: demos[m.group(1)] = (int(m.group(2)), int(m.group(3)))
sweeps = {}; cur = None
for l in open(sweep_log):
    m = re.match(r'=== (C\d\d) (\d\d:\d\d:\d\d)', l)
    if m: cur = m.group(1); sweeps[cur] = {'keys': [], 'exit': None, 'summary': ''}; continue
    m = re.match(r'=== (C\d\d) exit=(\d+)', l)
    if m: sweeps[m.group(1)]['exit'] = int(m.group(2)); continue
    if cur and l.startswith('  key: '): sweeps[cur]['keys'].append(l[7:].strip())
    if cur and 'seed=' in l: sweeps[cur]['summary'] = l.strip()
for i in range(1, 21):
    sid = 'C%02d' % i
    d = os.path.join('/verif/seeded', sid)
    ma = {}
    try: ma = json.load(open(os.path.join(d, 'meta.agent.json')))
    except Exception: pass
    m = {'id': sid, 'breaks_property': sid, 'summary': ma.get('summary', ''), 'needs_to_manifest': ma.get('needs_to_manifest', ''),
         'files_changed': ma.get('files_changed', []),
         'written_by': 'independent sub-agent given only the property text and its own scratch git worktree (nothing from /verif)',
         'author_ran': ma.get('tests_checked', []), 'confirmed_here': {}, 'quick_check': {}}
    if sid in demos:
        m['confirmed_here']['demonstration'] = {'exit_on_unchanged_tree': demos[sid][0], 'exit_with_change': demos[sid][1],
            'how': 'tools/mutant_demo.sh: two scratch worktrees of /repo HEAD (one with patch.diff applied), plain -O1 library built from each, demo.cc compiled against each tree\'s headers and run'}
    sp = os.path.join(suite_dir, 'mut_%s.log.summary' % sid)
    if os.path.exists(sp):
        txt = open(sp).read()
        tot = dict(re.findall(r'^(\w+):? (\d+)$', txt, re.M))
        fails = [l for l in txt.splitlines() if re.match(r'^(FAIL|ERROR): \D', l)]
        m['confirmed_here']['repository_test_suite'] = {'totals': {k: int(v) for k, v in tot.items()}, 'failing_tests': fails,
            'how': 'tools/suite_run.sh: patch applied to a scratch copy of the built tree (sources of /repo HEAD), bind-mounted at /repo in a private mount namespace, make -j16 && make -k -j16 check, guard BUGSENG_PPL_VERIF off'}
    else:
        m['confirmed_here']['repository_test_suite'] = {'status': 'full suite run not completed in the time available; the author ran the test directories listed under author_ran'}
    if sid in sweeps:
        s = sweeps[sid]
        m['quick_check'] = {'command': 'bin/check %s --tier quick (VERIF_SEED=1) with patch.diff applied to /repo (git apply; git checkout -- . afterwards)' % sid,
                            'exit': s['exit'], 'verdict': 'caught' if s['exit'] == 1 else ('missed' if s['exit'] == 0 else 'harness failure'),
                            'first_keys': s['keys'][:8], 'run': s['summary']}
    if sid == 'C07' and m.get('quick_check', {}).get('verdict') == 'missed':
        m['quick_check']['note'] = ('masked: what the change breaks (re-solving after parameters were added to a tree that has artificial parameters) is the triage class C07.incremental_vs_fresh.add_params.*:prior-tree-has-artificials, '
                                    'in which the unchanged tree already fails (open known finding: PIP incremental re-solve), so nothing new is reported and the check exits 0; '
                                    'the change becomes visible once that defect is repaired, because a fixed entry suppresses nothing')
    json.dump(m, open(os.path.join(d, 'meta.json'), 'w'), indent=1)
    print(sid, m['quick_check'].get('verdict'), m['confirmed_here'].get('demonstration', {}).get('exit_with_change'), m['confirmed_here'].get('repository_test_suite', {}).get('totals'))
