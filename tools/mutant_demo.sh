#!/bin/bash
# Confirm a seeded change's demonstration: demo.cc must exit 0 on the unchanged tree and
# non-zero with the change.  Scratch worktrees live under /var/tmp/mutdemo and are removed.
# usage: mutant_demo.sh <id> <dir containing patch.diff and demo.cc>
set -u
ID=$1; D=$2
ROOT=/var/tmp/mutdemo; mkdir -p $ROOT
ORIG=$ROOT/orig
if [ ! -f $ORIG/_build/libppl.a ] || [ "$(git -C /repo rev-parse HEAD)" != "$(cat $ORIG/.head 2>/dev/null)" ]; then
  git -C /repo worktree remove --force $ORIG 2>/dev/null; rm -rf $ORIG
  git -C /repo worktree add -q --detach $ORIG HEAD
  nice /verif/tools/build_lib_plain.sh $ORIG > $ORIG.log 2>&1
  git -C /repo rev-parse HEAD > $ORIG/.head
fi
W=$ROOT/$ID
git -C /repo worktree remove --force $W 2>/dev/null; rm -rf $W
git -C /repo worktree add -q --detach $W HEAD
(cd $W && git apply $D/patch.diff) || { echo "$ID: PATCH DOES NOT APPLY"; git -C /repo worktree remove --force $W; exit 3; }
nice /verif/tools/build_lib_plain.sh $W > $W.log 2>&1 || { echo "$ID: PATCHED TREE DOES NOT COMPILE"; tail -5 $W.log; git -C /repo worktree remove --force $W; exit 3; }
FL="-std=gnu++17 -O1 -g1 -frounding-math -w"
g++ $FL -I$ORIG -I$ORIG/src $D/demo.cc $ORIG/_build/libppl.a -lgmpxx -lgmp -o $ROOT/demo_${ID}_orig || { echo "$ID: demo does not compile (orig)"; exit 3; }
g++ $FL -I$W -I$W/src $D/demo.cc $W/_build/libppl.a -lgmpxx -lgmp -o $ROOT/demo_${ID}_mut || { echo "$ID: demo does not compile (patched)"; exit 3; }
timeout 300 $ROOT/demo_${ID}_orig > $ROOT/demo_${ID}_orig.out 2>&1; r1=$?
timeout 300 $ROOT/demo_${ID}_mut > $ROOT/demo_${ID}_mut.out 2>&1; r2=$?
echo "$ID: demo exit on unchanged tree = $r1, with the change = $r2"
git -C /repo worktree remove --force $W; rm -f $W.log
[ $r1 -eq 0 ] && [ $r2 -ne 0 ]
