#!/bin/bash
# usage: soak.sh "<seeds>" [props...]  — runs quick checks at several seeds, prints one line per run plus any VIOLATION lines
SEEDS=$1; shift
PROPS=${@:-C01 C02 C03 C04 C05 C06 C07 C08 C09 C10 C11 C12 C13 C14 C15 C16 C17 C18 C19 C20}
cd "$(dirname "$0")/.."
for s in $SEEDS; do for p in $PROPS; do
  VERIF_SEED=$s bin/check $p 2>&1 | grep -E "^VIOLATION|^  key|seed=|HARNESS|BUILD FAILED" | cut -c1-300
done; done
