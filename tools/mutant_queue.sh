#!/bin/bash
# Confirm seeded mutants against the repository's own test suite, one after the other,
# in the scratch copy /var/tmp/suite/repo (bind-mounted at /repo in a private namespace).
# usage: mutant_queue.sh <patch-id>...   where the patch is /tmp/mut/<id>/_deliver/patch.diff
for id in "$@"; do
  P=/tmp/mut/$id/_deliver/patch.diff
  [ -f "$P" ] || { echo "$id: no patch"; continue; }
  echo "== $id start $(date +%T)"
  nice -n 10 /verif/tools/suite_run.sh /var/tmp/suite/repo /var/tmp/suite/mut_$id.log "$P" > /var/tmp/suite/mut_$id.out 2>&1
  echo "== $id done $(date +%T): $(tr '\n' ' ' < /var/tmp/suite/mut_$id.log.summary)"
done
