#!/bin/bash
# Compile one of the repository's own tests against the out-of-tree san library and run it.
# usage: run_repo_test.sh tests/Grid/wrap1.cc [extra -D flags]
T=$1; shift
O=/tmp/w/rt_$(basename $T .cc)
g++ -std=gnu++17 -O1 -g1 -frounding-math -w -fsanitize=address,undefined "$@" -I/repo -I/repo/src -I/repo/tests /repo/$T /repo/tests/ppl_test.cc /repo/tests/files.cc /verif/build/san/lib/assertions.o /verif/build/san/libppl.a -lgmpxx -lgmp -o $O && $O; echo "exit=$?"
