#!/usr/bin/env python3
"""Write /verif/seeded/<id>/meta.json from the sub-agent's meta.agent.json plus what
was confirmed here.

usage: seed_register.py <id> --demo <unchanged_exit> <changed_exit> [--suite <summary-file>]
                        [--caught PROP:key[,key...]]... [--missed PROP]... [--note text]
"""
import sys, json, os, re
a = sys.argv[1:]
sid = a[0]
d = os.path.join('/verif/seeded', sid)
meta_agent = {}
p = os.path.join(d, 'meta.agent.json')
if os.path.exists(p):
    try:
        meta_agent = json.load(open(p))
    except Exception as e:
        meta_agent = {'unparsed': open(p).read()[:2000]}
old = {}
if os.path.exists(os.path.join(d, 'meta.json')):
    old = json.load(open(os.path.join(d, 'meta.json')))
m = old or {
    'id': sid,
    'breaks_property': meta_agent.get('property', sid[:3]),
    'summary': meta_agent.get('summary', ''),
    'needs_to_manifest': meta_agent.get('needs_to_manifest', ''),
    'files_changed': meta_agent.get('files_changed', []),
    'written_by': 'independent sub-agent given only the property text and a scratch worktree',
    'confirmed_here': {},
    'checks': {},
}
i = 1
while i < len(a):
    if a[i] == '--demo':
        m['confirmed_here']['demo'] = {'exit_on_unchanged_tree': int(a[i + 1]), 'exit_with_change': int(a[i + 2]),
                                       'how': 'tools/mutant_demo.sh: scratch worktrees under /var/tmp/mutdemo, plain -O1 build of the library from each tree, demo.cc compiled against each tree\'s headers'}
        i += 3
    elif a[i] == '--suite':
        txt = open(a[i + 1]).read()
        tot = dict(re.findall(r'^(\w+) (\d+)$', txt, re.M))
        fails = [l for l in txt.splitlines() if l.startswith('FAIL:') or l.startswith('ERROR:')]
        fails = [l for l in fails if not re.match(r'^(FAIL|ERROR) \d+$', l)]
        m['confirmed_here']['test_suite'] = {'totals': {k: int(v) for k, v in tot.items()}, 'failing_tests': fails,
                                             'how': 'tools/suite_run.sh: patch applied to a scratch copy of the built tree bind-mounted at /repo, make -j16 && make -k -j16 check'}
        i += 2
    elif a[i] == '--caught':
        prop, keys = a[i + 1].split(':', 1)
        m['checks'][prop] = {'verdict': 'caught by quick check', 'keys': keys.split(',')}
        i += 2
    elif a[i] == '--missed':
        m['checks'][a[i + 1]] = {'verdict': 'missed by quick check'}
        i += 2
    elif a[i] == '--note':
        m.setdefault('notes', []).append(a[i + 1]); i += 2
    else:
        raise SystemExit('bad arg ' + a[i])
json.dump(m, open(os.path.join(d, 'meta.json'), 'w'), indent=1)
print(json.dumps(m, indent=1)[:600])
