#!/usr/bin/env python3
"""Generator of the `ciface` engine's per-entry-point driver (property C20).

Reads the *freshly generated* ppl_c.h (all PPL_PROTO((...)) prototypes plus the
functions declared through the PPL_DECLARE_* macros, obtained by running the C
preprocessor on it) and the list of interfaced domains, and writes into --outdir

  cifgen.hh              type ids, C++ typedefs of the interfaced domains
  cifgen_core.cc         thunks / argument descriptors / C++ twins, non-domain part
  cifgen_<Domain>.cc     the same for every interfaced domain (one TU each)
  cifgen_table.cc        the type table and the list of function tables
  cifgen_report.txt      classification summary (schemas, unclassified names)

Per function it emits
  * an ArgSpec vector (kind, constness, handle type, topology requirement, name),
  * a call thunk  int C_k(cif::Val* a)   (uniform calling convention),
  * if the function matches one of the schemas below, a C++ twin
    void W_k(cif::Twin& t)  that applies the same operation of the C++ library
    to pre-call copies, and optionally a post-condition P_k.
Functions that match no schema are still driven for exception tightness; they
are listed in cifgen_report.txt and counted by the engine.
"""
import argparse, os, re, subprocess, sys, collections

# --------------------------------------------------------------------------
# parsing
# --------------------------------------------------------------------------
def preprocess(header):
    inc = os.path.dirname(os.path.abspath(header))
    r = subprocess.run(['gcc', '-E', '-P', '-x', 'c', '-I', inc, header],
                       stdout=subprocess.PIPE, stderr=subprocess.PIPE, universal_newlines=True)
    if r.returncode != 0:
        sys.stderr.write(r.stderr)
        sys.exit('gen_ciface: preprocessing of %s failed' % header)
    return r.stdout

def raw_proto_count(header):
    s = open(header).read()
    s = re.sub(r'/\*.*?\*/', '', s, flags=re.S)
    # entries that are real prototypes (the macro *definitions* use ##Type)
    return len([m for m in re.findall(r'\b(\w+)\s+PPL_PROTO\(\(', s) if m != 'Type'])

def parse_decls(pp):
    handle_types = re.findall(r'typedef struct (ppl_\w+)_tag\s*\*\s*ppl_(\w+)_t\s*;', pp)
    handle_types = [h[1] for h in handle_types]
    enums = re.findall(r'\benum (ppl_enum_\w+)\s*\{', pp)
    s = re.sub(r'\btypedef\b[^;{}]*(\{[^}]*\})?[^;{}]*;', ';', pp)
    s = re.sub(r'\benum \w+\s*\{[^}]*\}\s*;', ';', s)
    decls = []
    for m in re.finditer(r'\b(int|void|char\s*\*|const char\s*\*)\s*(ppl_\w+)\s*\(([^;{}]*)\)\s*;', s):
        decls.append((m.group(1).replace(' ', ''), m.group(2), ' '.join(m.group(3).split())))
    return handle_types, enums, decls

def parse_instantiations(path):
    s = open(path).read()
    a = re.search(r"m4_interface_classes_names', `([^']*)'", s).group(1).split('@')
    b = re.search(r"m4_cplusplus_classes_names', `([^']*)'", s).group(1).split('@')
    assert len(a) == len(b)
    return list(zip(a, b))

# --------------------------------------------------------------------------
# type universe
# --------------------------------------------------------------------------
CORE_CPP = {
    'Coefficient': ('Coefficient', 'COEF'),
    'Linear_Expression': ('Linear_Expression', 'LE'),
    'Constraint': ('Constraint', 'ROW'),
    'Constraint_System': ('Constraint_System', 'SYS'),
    'Constraint_System_const_iterator': ('Constraint_System_const_iterator', 'ITER'),
    'Generator': ('Generator', 'ROW'),
    'Generator_System': ('Generator_System', 'SYS'),
    'Generator_System_const_iterator': ('Generator_System_const_iterator', 'ITER'),
    'Congruence': ('Congruence', 'ROW'),
    'Congruence_System': ('Congruence_System', 'SYS'),
    'Congruence_System_const_iterator': ('Congruence_System::const_iterator', 'ITER'),
    'Grid_Generator': ('Grid_Generator', 'ROW'),
    'Grid_Generator_System': ('Grid_Generator_System', 'SYS'),
    'Grid_Generator_System_const_iterator': ('Grid_Generator_System::const_iterator', 'ITER'),
    'MIP_Problem': ('MIP_Problem', 'MIP'),
    'PIP_Problem': ('PIP_Problem', 'PIP'),
    'PIP_Tree_Node': ('PIP_Tree_Node', 'BORROWED'),
    'PIP_Decision_Node': ('PIP_Decision_Node', 'BORROWED'),
    'PIP_Solution_Node': ('PIP_Solution_Node', 'BORROWED'),
    'Artificial_Parameter': ('PIP_Tree_Node::Artificial_Parameter', 'BORROWED'),
    'Artificial_Parameter_Sequence': ('PIP_Tree_Node::Artificial_Parameter_Sequence', 'BORROWED'),
    'Artificial_Parameter_Sequence_const_iterator': ('PIP_Tree_Node::Artificial_Parameter_Sequence::const_iterator', 'ITER'),
}
ITER_CONTAINER = {
    'Constraint_System_const_iterator': 'Constraint_System',
    'Generator_System_const_iterator': 'Generator_System',
    'Congruence_System_const_iterator': 'Congruence_System',
    'Grid_Generator_System_const_iterator': 'Grid_Generator_System',
    'Artificial_Parameter_Sequence_const_iterator': 'PIP_Tree_Node',
}

def cpp_of_domain(cppname):
    m = re.match(r'^(\w+_Product)<(.*)>$', cppname)
    if m:
        return 'Domain_Product<%s >::%s' % (m.group(2), m.group(1))
    m = re.match(r'^Pointset_Powerset<(.*)>$', cppname)
    if m:
        return 'Pointset_Powerset<%s >' % m.group(1)
    return cppname

class Types:
    def __init__(self, handle_types, doms):
        self.doms = doms                      # [(cname, cppname)]
        self.domnames = [d[0] for d in doms]
        self.names = []                       # all handle type names, fixed order
        self.cpp = {}
        self.cat = {}
        self.container = {}
        self.home = {}                        # TU of the type ops
        domcpp = dict((c, cpp_of_domain(p)) for c, p in doms)
        for h in handle_types:
            if h in CORE_CPP:
                self.cpp[h], self.cat[h] = CORE_CPP[h]
                self.home[h] = 'core'
            elif h in domcpp:
                self.cpp[h] = domcpp[h]
                self.cat[h] = 'POLY' if h == 'Polyhedron' else ('PSET' if h.startswith('Pointset_Powerset') else 'DOM')
                self.home[h] = h
            else:
                m = re.match(r'^(.*?)_(const_iterator|iterator)$', h)
                if m and m.group(1) in domcpp:
                    self.cpp[h] = domcpp[m.group(1)] + '::' + m.group(2)
                    self.cat[h] = 'ITER'
                    self.container[h] = m.group(1)
                    self.home[h] = m.group(1)
                else:
                    sys.stderr.write('gen_ciface: unknown handle type %s (driven as opaque)\n' % h)
                    continue
            if h in ITER_CONTAINER:
                self.container[h] = ITER_CONTAINER[h]
            self.names.append(h)
        self.id = dict((n, i) for i, n in enumerate(self.names))
    def tid(self, n):
        return 'cif::T_' + n

# --------------------------------------------------------------------------
# argument classification
# --------------------------------------------------------------------------
Arg = collections.namedtuple('Arg', 'kind const type topo name ctype enum')

def classify_arg(text, T, enums):
    text = text.strip()
    if text == 'void' or text == '':
        return None
    m = re.match(r'^(.*?)(\w+)(\[\])?$', text)
    ctype = m.group(1).strip()
    name = m.group(2)
    arr = m.group(3)
    if arr:
        assert ctype == 'ppl_dimension_type', text
        return Arg('K_DIMARR', 0, None, 0, name, 'ppl_dimension_type*', None)
    mm = re.match(r'^ppl_(const_)?(\w+)_t$', ctype)
    if mm and mm.group(2) in T.id:
        return Arg('K_HIN', 1 if mm.group(1) else 0, mm.group(2), 0, name, ctype, None)
    mm = re.match(r'^ppl_(const_)?(\w+)_t\s*\*$', ctype)
    if mm and mm.group(2) in T.id:
        return Arg('K_HREF' if mm.group(1) else 'K_HOUT', 1 if mm.group(1) else 0, mm.group(2), 0, name, ctype, None)
    mm = re.match(r'^const ppl_const_Constraint_System_t\s*\*$', ctype)
    if mm:
        return Arg('K_CSPTR', 1, 'Constraint_System', 0, name, ctype, None)
    mm = re.match(r'^enum (ppl_enum_\w+)$', ctype)
    if mm:
        return Arg('K_ENUM', 0, None, 0, name, ctype, mm.group(1))
    simple = {'ppl_dimension_type': 'K_DIM', 'size_t': 'K_SIZE', 'int': 'K_INT', 'unsigned': 'K_UINT',
              'unsigned long': 'K_ULONG', 'ppl_dimension_type*': 'K_PDIM', 'size_t*': 'K_PSIZE',
              'int*': 'K_PINT', 'unsigned*': 'K_PUINT', 'char**': 'K_PSTR', 'const char**': 'K_PCSTR',
              'const char*': 'K_CSTR', 'FILE*': 'K_FILE', 'mpz_t': 'K_MPZ'}
    key = ctype.replace(' *', '*')
    if key in simple:
        return Arg(simple[key], 0, None, 0, name, 'mpz_ptr' if key == 'mpz_t' else key, None)
    return Arg('K_OTHER', 0, None, 0, name, ctype, None)

ACCESS = {'K_DIM': 'z', 'K_SIZE': 'z', 'K_INT': 'i', 'K_UINT': 'u', 'K_ULONG': 'ul', 'K_ENUM': 'i'}
OUTACC = {'K_PDIM': 'z', 'K_PSIZE': 'z', 'K_PINT': 'i', 'K_PUINT': 'u'}

def call_expr(a, k):
    if a.kind in ACCESS:
        if a.kind == 'K_ENUM':
            return '(%s) a[%d].i' % (a.ctype, k)
        return 'a[%d].%s' % (k, ACCESS[a.kind])
    return '(%s) a[%d].p' % (a.ctype, k)

# --------------------------------------------------------------------------
# schemas: name regex -> C++ twin
# --------------------------------------------------------------------------
# Template language of the twin bodies:
#   $k      C++ view of argument k: a reference to the twin-side copy of a handle
#           (const for ppl_const_* handles), the value of a scalar, the lvalue of
#           the twin-side slot of an output scalar, `t.obj[k]` for output handles
#   $ok     reference to the *C-side* object of handle argument k (for iterators)
#   {n}     regex group n ; {Tn} C++ class of group n (C_Polyhedron, BD_Shape<mpz_class>, ...)
#   {D}     C++ class of the home domain
# Prefix:  V: statements (expected return 0)   B: Boolean expression
#          I: int expression                   R: raw (sets t.ret itself)
class Schema:
    def __init__(self, name, rx, twin=None, flags=(), post=None, topo=None, skip_cmp=()):
        self.name, self.rx, self.twin, self.flags, self.post, self.topo, self.skip_cmp = name, rx, twin, flags, post, topo, skip_cmp

def build_schemas(T):
    D = '(' + '|'.join(sorted(T.domnames, key=len, reverse=True)) + ')'
    tdn = ['C_Polyhedron', 'NNC_Polyhedron'] + [d for d in T.domnames if d != 'Polyhedron']
    TD = '(' + '|'.join(sorted(tdn, key=len, reverse=True)) + ')'
    PS = '(' + '|'.join(sorted([d for d in T.domnames if d.startswith('Pointset_Powerset')], key=len, reverse=True) or ['@none@']) + ')'
    SYS = '(Constraint|Congruence|Generator|Grid_Generator)'
    S = []
    def add(*a, **k):
        S.append(Schema(*a, **k))
    # ---- domain constructors / destructor / assignment
    add('new_@TOPOLOGY@@CLASS@_from_space_dimension', r'ppl_new_%s_from_space_dimension' % TD,
        'R: $0 = new {T1}($1, ($2 != 0) ? EMPTY : UNIVERSE); t.ret = 0;')
    add('new_@TOPOLOGY@@CLASS@_from_@BUILD_REPRESENT@s', r'ppl_new_%s_from_%s_System' % (TD, SYS),
        'R: $0 = new {T1}($1); t.ret = 0;')
    add('new_@TOPOLOGY@@CLASS@_recycle_@BUILD_REPRESENT@s', r'ppl_new_%s_recycle_%s_System' % (TD, SYS),
        'R: $0 = new {T1}($1); t.ret = 0;', flags=('F_CLOBBER1',))
    add('new_@TOPOLOGY@@CLASS@_from_@FRIEND@_with_complexity', r'ppl_new_%s_from_%s_with_complexity' % (TD, TD),
        'R: switch ($2) { case 0: $0 = new {T1}(static_cast<const {T2}&>($1), POLYNOMIAL_COMPLEXITY); break;'
        ' case 1: $0 = new {T1}(static_cast<const {T2}&>($1), SIMPLEX_COMPLEXITY); break;'
        ' case 2: $0 = new {T1}(static_cast<const {T2}&>($1), ANY_COMPLEXITY); break; } t.ret = 0;', topo={1: 2})
    add('new_@TOPOLOGY@@CLASS@_from_@FRIEND@', r'ppl_new_%s_from_%s' % (TD, TD),
        'R: $0 = new {T1}(static_cast<const {T2}&>($1)); t.ret = 0;', topo={1: 2})
    add('delete_@CLASS@', r'ppl_delete_%s' % D, None, flags=('F_DELETE',))
    add('assign_@TOPOLOGY@@CLASS@_from_@TOPOLOGY@@CLASS@', r'ppl_assign_%s_from_%s' % (TD, TD),
        'V: static_cast<{T1}&>($0) = static_cast<const {T2}&>($1);', topo={0: 1, 1: 2})
    # ---- observers
    add('@CLASS@_@DIMENSION@', r'ppl_%s_(space_dimension|affine_dimension)' % D, 'V: $1 = $0.{2}();')
    add('@CLASS@_get_@CLASS_REPRESENT@s', r'ppl_%s_get_(constraints|congruences|generators|grid_generators)' % D,
        'V: cif::keep(t, 1, $0.{2}());')
    add('@CLASS@_get_minimized_@CLASS_REPRESENT@s', r'ppl_%s_get_minimized_(constraints|congruences|generators|grid_generators)' % D,
        'V: cif::keep(t, 1, $0.minimized_{2}());')
    add('@CLASS@_relation_with_@RELATION_REPRESENT@', r'ppl_%s_relation_with_(Constraint|Generator|Congruence|Grid_Generator)' % D,
        'I: $0.relation_with($1).get_flags()')
    add('@CLASS@_OK', r'ppl_%s_OK' % D, 'B: $0.OK()')
    add('@CLASS@_@HAS_PROPERTY@', r'ppl_%s_(is_empty|is_universe|is_bounded|contains_integer_point|is_topologically_closed|is_discrete)' % D,
        'B: $0.{2}()')
    add('@CLASS@_bounds_from_@ABOVEBELOW@', r'ppl_%s_bounds_from_(above|below)' % D, 'B: $0.bounds_from_{2}($1)')
    add('@CLASS@_@MAXMIN@_with_point', r'ppl_%s_(maximize|minimize)_with_point' % D,
        'R: { bool opt; const bool ok = $0.{2}($1, $2, $3, opt, $5); if (ok) $4 = opt ? 1 : 0; t.ret = ok ? 1 : 0; }')
    add('@CLASS@_@MAXMIN@', r'ppl_%s_(maximize|minimize)' % D,
        'R: { bool opt; const bool ok = $0.{2}($1, $2, $3, opt); if (ok) $4 = opt ? 1 : 0; t.ret = ok ? 1 : 0; }')
    add('@CLASS@_has_@UPPERLOWER@_bound', r'ppl_%s_has_(upper|lower)_bound' % D,
        'R: { bool cl; const bool b = $0.has_{2}_bound(Variable($1), $2, $3, cl); if (b) $4 = cl ? 1 : 0; t.ret = b ? 1 : 0; }')
    add('@CLASS@_frequency', r'ppl_%s_frequency' % D, 'B: $0.frequency($1, $2, $3, $4, $5)')
    add('@CLASS@_equals_@CLASS@', r'ppl_%s_equals_%s' % (D, D), 'B: $0 == $1')
    add('@CLASS@_@COMPARISON@_@CLASS@', r'ppl_%s_(contains|strictly_contains|is_disjoint_from|geometrically_covers|geometrically_equals)_%s' % (D, D),
        'B: $0.{2}($1)')
    add('@CLASS@_@MEMBYTES@', r'ppl_%s_(total_memory_in_bytes|external_memory_in_bytes)' % D,
        'V: $1 = $0.{2}();', flags=('F_NOCMP_OUT',))
    add('@CLASS@_constrains', r'ppl_%s_constrains' % D, 'B: $0.constrains(Variable($1))')
    # ---- mutators
    add('@CLASS@_@SIMPLIFY@', r'ppl_%s_(topological_closure_assign|omega_reduce|pairwise_reduce)' % D, 'V: $0.{2}();')
    add('@CLASS@_unconstrain_space_dimension', r'ppl_%s_unconstrain_space_dimension' % D, 'V: $0.unconstrain(Variable($1));')
    add('@CLASS@_unconstrain_space_dimensions', r'ppl_%s_unconstrain_space_dimensions' % D,
        'V: $0.unconstrain(cif::varset($1, $2));')
    add('@CLASS@_positive_time_elapse_assign', r'ppl_%s_positive_time_elapse_assign' % D,
        'V: cif::poly2($0, $1, cif::Op_positive_time_elapse());')
    add('@CLASS@_@UB_EXACT@', r'ppl_(Polyhedron)_(upper_bound_assign_if_exact|poly_hull_assign_if_exact)',
        'B: cif::poly2($0, $1, cif::Op_{2}())')
    add('@CLASS@_@UB_EXACT@', r'ppl_%s_(upper_bound_assign_if_exact)' % D, 'B: $0.{2}($1)')
    add('@CLASS@_simplify_using_context_assign', r'ppl_%s_simplify_using_context_assign' % D,
        'B: $0.simplify_using_context_assign($1)')
    add('@CLASS@_@BINOP@', r'ppl_%s_(intersection_assign|upper_bound_assign|difference_assign|concatenate_assign|time_elapse_assign|poly_hull_assign|poly_difference_assign)' % D,
        'V: $0.{2}($1);')
    add('@CLASS@_add_@CLASS_REPRESENT@', r'ppl_%s_add_(constraint|congruence|generator|grid_generator)' % D, 'V: $0.add_{2}($1);')
    add('@CLASS@_refine_with_@REFINE_REPRESENT@', r'ppl_%s_refine_with_(constraint|congruence)' % D, 'V: $0.refine_with_{2}($1);')
    add('@CLASS@_add_@CLASS_REPRESENT@s', r'ppl_%s_add_(constraints|congruences|generators|grid_generators)' % D, 'V: $0.add_{2}($1);')
    add('@CLASS@_refine_with_@REFINE_REPRESENT@s', r'ppl_%s_refine_with_(constraints|congruences)' % D, 'V: $0.refine_with_{2}($1);')
    add('@CLASS@_add_recycled_@CLASS_REPRESENT@s', r'ppl_%s_add_recycled_(constraints|congruences|generators|grid_generators)' % D,
        'V: $0.add_{2}($1);', flags=('F_CLOBBER1',))
    add('@CLASS@_bounded_@AFFIMAGE@', r'ppl_%s_bounded_(affine_image|affine_preimage)' % D,
        'V: $0.bounded_{2}(Variable($1), $2, $3, $4);')
    add('@CLASS@_generalized_@AFFIMAGE@_lhs_rhs_with_congruence', r'ppl_%s_generalized_(affine_image|affine_preimage)_lhs_rhs_with_congruence' % D,
        'V: $0.generalized_{2}($1, cif::relsym($2), $3, $4);', flags=('F_ENUMCAST',))
    add('@CLASS@_generalized_@AFFIMAGE@_with_congruence', r'ppl_%s_generalized_(affine_image|affine_preimage)_with_congruence' % D,
        'V: $0.generalized_{2}(Variable($1), cif::relsym($2), $3, $4, $5);', flags=('F_ENUMCAST',))
    add('@CLASS@_generalized_@AFFIMAGE@_lhs_rhs', r'ppl_%s_generalized_(affine_image|affine_preimage)_lhs_rhs' % D,
        'V: $0.generalized_{2}($1, cif::relsym($2), $3);', flags=('F_ENUMCAST',))
    add('@CLASS@_generalized_@AFFIMAGE@', r'ppl_%s_generalized_(affine_image|affine_preimage)' % D,
        'V: $0.generalized_{2}(Variable($1), cif::relsym($2), $3, $4);', flags=('F_ENUMCAST',))
    add('@CLASS@_@AFFIMAGE@', r'ppl_%s_(affine_image|affine_preimage)' % D, 'V: $0.{2}(Variable($1), $2, $3);')
    # widenings / extrapolations
    W = '(BHRZ03|H79|BHMZ05|CC76|congruence|generator)'
    add('@CLASS@_@WIDEN@_widening_assign_with_tokens', r'ppl_%s_%s_widening_assign_with_tokens' % (D, W),
        'V: $0.{2}_widening_assign($1, $2);', flags=('F_WIDEN',))
    add('@CLASS@_@WIDEN@_widening_assign', r'ppl_%s_%s_widening_assign' % (D, W),
        'V: $0.{2}_widening_assign($1);', flags=('F_WIDEN',))
    add('@CLASS@_widening_assign_with_tokens', r'ppl_%s_widening_assign_with_tokens' % D,
        'V: $0.widening_assign($1, $2);', flags=('F_WIDEN',))
    add('@CLASS@_widening_assign', r'ppl_%s_widening_assign' % D, 'V: $0.widening_assign($1);', flags=('F_WIDEN',))
    add('@CLASS@_@LIMITEDBOUNDED@_@WIDENEXPN@_extrapolation_assign_with_tokens',
        r'ppl_%s_(limited|bounded)_%s_extrapolation_assign_with_tokens' % (D, W),
        'V: $0.{2}_{3}_extrapolation_assign($1, $2, $3);', flags=('F_WIDEN',))
    add('@CLASS@_@LIMITEDBOUNDED@_@WIDENEXPN@_extrapolation_assign',
        r'ppl_%s_(limited|bounded)_%s_extrapolation_assign' % (D, W),
        'V: $0.{2}_{3}_extrapolation_assign($1, $2);', flags=('F_WIDEN',))
    add('@CLASS@_@EXTRAPOLATION@_extrapolation_assign_with_tokens', r'ppl_%s_(CC76)_extrapolation_assign_with_tokens' % D,
        'V: $0.{2}_extrapolation_assign($1, $2);', flags=('F_WIDEN',))
    add('@CLASS@_@EXTRAPOLATION@_extrapolation_assign', r'ppl_%s_(CC76)_extrapolation_assign' % D,
        'V: $0.{2}_extrapolation_assign($1);', flags=('F_WIDEN',))
    add('@CLASS@_@EXTRAPOLATION@_narrowing_assign', r'ppl_%s_(CC76)_narrowing_assign' % D,
        'V: $0.{2}_narrowing_assign($1);', flags=('F_NARROW',))
    add('@CLASS@_BHZ03_@A_DISJUNCT_WIDEN@_@DISJUNCT_WIDEN@_widening_assign',
        r'ppl_%s_BHZ03_(BHRZ03|H79)_(BHRZ03|H79)_widening_assign' % PS,
        'V: $0.template BHZ03_widening_assign<{2}_Certificate>($1, widen_fun_ref(&{D}::element_type::{3}_widening_assign));',
        flags=('F_WIDEN',))
    add('@CLASS@_BGP99_@DISJUNCT_WIDEN@_extrapolation_assign', r'ppl_%s_BGP99_(BHRZ03|H79)_extrapolation_assign' % PS,
        'V: $0.BGP99_extrapolation_assign($1, widen_fun_ref(&{D}::element_type::{2}_widening_assign), $2);',
        flags=('F_WIDEN',))
    # dimensions
    add('@CLASS@_add_space_dimensions_@EMBEDPROJECT@', r'ppl_%s_add_space_dimensions_(and_embed|and_project)' % D,
        'V: $0.add_space_dimensions_{2}($1);')
    add('@CLASS@_remove_space_dimensions', r'ppl_%s_remove_space_dimensions' % D, 'V: $0.remove_space_dimensions(cif::varset($1, $2));')
    add('@CLASS@_remove_higher_space_dimensions', r'ppl_%s_remove_higher_space_dimensions' % D, 'V: $0.remove_higher_space_dimensions($1);')
    add('@CLASS@_map_space_dimensions', r'ppl_%s_map_space_dimensions' % D,
        'V: { const cif::PFunc pf($1, $2); $0.map_space_dimensions(pf); }', flags=('F_MAP',))
    add('@CLASS@_expand_space_dimension', r'ppl_%s_expand_space_dimension' % D, 'V: $0.expand_space_dimension(Variable($1), $2);')
    add('@CLASS@_fold_space_dimensions', r'ppl_%s_fold_space_dimensions' % D,
        'V: $0.fold_space_dimensions(cif::varset($1, $2), Variable($3));')
    add('@CLASS@_drop_some_non_integer_points_2', r'ppl_%s_drop_some_non_integer_points_2' % D,
        'V: switch ($3) { case 0: $0.drop_some_non_integer_points(cif::varset($1, $2), POLYNOMIAL_COMPLEXITY); break;'
        ' case 1: $0.drop_some_non_integer_points(cif::varset($1, $2), SIMPLEX_COMPLEXITY); break;'
        ' case 2: $0.drop_some_non_integer_points(cif::varset($1, $2), ANY_COMPLEXITY); break; }')
    add('@CLASS@_drop_some_non_integer_points', r'ppl_%s_drop_some_non_integer_points' % D,
        'V: switch ($1) { case 0: $0.drop_some_non_integer_points(POLYNOMIAL_COMPLEXITY); break;'
        ' case 1: $0.drop_some_non_integer_points(SIMPLEX_COMPLEXITY); break;'
        ' case 2: $0.drop_some_non_integer_points(ANY_COMPLEXITY); break; }')
    add('@CLASS@_wrap_assign', r'ppl_%s_wrap_assign' % D,
        'V: $0.wrap_assign(cif::varset($1, $2), cif::bit_width($3), cif::bit_rep($4), cif::bit_ovf($5),'
        ' (const Constraint_System*) $6, $7, $8 != 0);', flags=('F_ENUMCAST', 'F_WRAP'))
    # powerset iterators and disjuncts
    IT = '(iterator|const_iterator)'
    add('new_@CLASS@_iterator', r'ppl_new_%s_%s' % (PS, IT), 'R: $0 = new {D}::{2}(); t.ret = 0;', flags=('F_NOCMP_OBJ',))
    add('new_@CLASS@_iterator_from_iterator', r'ppl_new_%s_%s_from_%s' % (PS, IT, IT), 'R: $0 = new {D}::{2}($1); t.ret = 0;')
    add('delete_@CLASS@_iterator', r'ppl_delete_%s_%s' % (PS, IT), None, flags=('F_DELETE',))
    add('@CLASS@_iterator_equals_iterator', r'ppl_%s_%s_equal_test' % (PS, IT), 'B: $0 == $1')
    add('@CLASS@_@BEGINEND@_iterator', r'ppl_%s_%s_(begin|end)' % (PS, IT), 'V: $1 = $o0.{3}();', flags=('F_ITER_SEAT',))
    add('@CLASS@_@INCDEC@_iterator', r'ppl_%s_%s_increment' % (PS, IT), 'V: ++$0;', flags=('F_ITER_INC',))
    add('@CLASS@_@INCDEC@_iterator', r'ppl_%s_%s_decrement' % (PS, IT), 'V: --$0;', flags=('F_ITER_DEC',))
    add('@CLASS@_get_disjunct', r'ppl_%s_%s_dereference' % (PS, IT), 'V: $1 = (void*) &$0->pointset();', flags=('F_ITER_DEREF',))
    add('@CLASS@_drop_disjunct', r'ppl_%s_drop_disjunct' % PS,
        'V: { {D}::iterator i = $0.begin(); std::advance(i, cif::iter_pos($o0, $o1)); i = $0.drop_disjunct(i);'
        ' t.out[2].z = (size_t) std::distance($0.begin(), i); }',
        post='cif::post_pos(t, cif::iter_pos($o0, $o2), 2)',
        flags=('F_ITER_DEREF', 'F_ITER_LINKED'), skip_cmp=(1, 2))
    add('@CLASS@_drop_disjuncts', r'ppl_%s_drop_disjuncts' % PS,
        'V: { {D}::iterator i = $0.begin(), j = $0.begin(); std::advance(i, cif::iter_pos($o0, $o1));'
        ' std::advance(j, cif::iter_pos($o0, $o2)); $0.drop_disjuncts(i, j); }',
        flags=('F_ITER_LINKED', 'F_ITER_RANGE'), skip_cmp=(1, 2))
    add('@CLASS@_add_disjunct', r'ppl_%s_add_disjunct' % PS, 'V: $0.add_disjunct(static_cast<const {D}::element_type&>($1));',
        flags=('F_DISJUNCT_TOPO',))
    add('@CLASS@_size', r'ppl_%s_size' % PS, 'V: $1 = $0.size();')
    # partitions
    add('@CLASS@_linear_@PARTITION@', r'ppl_%s_linear_partition' % D,
        'R: cif::twin_linear_partition($0, $1, $2, $3); t.ret = 0;', flags=('F_PARTITION',))
    # termination
    TID = '(MS|PR)'
    add('termination_test_@TERMINATION_ID@_@TOPOLOGY@@CLASS@_2', r'ppl_termination_test_%s_%s_2' % (TID, TD),
        'B: termination_test_{1}_2(static_cast<const {T2}&>($0), static_cast<const {T2}&>($1))', topo={0: 2, 1: 2}, flags=('F_TERM2',))
    add('termination_test_@TERMINATION_ID@_@TOPOLOGY@@CLASS@', r'ppl_termination_test_%s_%s' % (TID, TD),
        'B: termination_test_{1}(static_cast<const {T2}&>($0))', topo={0: 2}, flags=('F_TERM1',))
    add('one_affine_ranking_function_@TERMINATION_ID@_@TOPOLOGY@@CLASS@_2', r'ppl_one_affine_ranking_function_%s_%s_2' % (TID, TD),
        'B: one_affine_ranking_function_{1}_2(static_cast<const {T2}&>($0), static_cast<const {T2}&>($1), $2)', topo={0: 2, 1: 2}, flags=('F_TERM2',))
    add('one_affine_ranking_function_@TERMINATION_ID@_@TOPOLOGY@@CLASS@', r'ppl_one_affine_ranking_function_%s_%s' % (TID, TD),
        'B: one_affine_ranking_function_{1}(static_cast<const {T2}&>($0), $1)', topo={0: 2}, flags=('F_TERM1',))
    add('all_affine_ranking_functions_@TERMINATION_ID@_@TOPOLOGY@@CLASS@_2', r'ppl_all_affine_ranking_functions_%s_%s_2' % (TID, TD),
        'V: all_affine_ranking_functions_{1}_2(static_cast<const {T2}&>($0), static_cast<const {T2}&>($1), static_cast<{RK1}&>($2));',
        topo={0: 2, 1: 2, 2: 'RK1'}, flags=('F_TERM2',))
    add('all_affine_ranking_functions_@TERMINATION_ID@_@TOPOLOGY@@CLASS@', r'ppl_all_affine_ranking_functions_%s_%s' % (TID, TD),
        'V: all_affine_ranking_functions_{1}(static_cast<const {T2}&>($0), static_cast<{RK1}&>($1));',
        topo={0: 2, 1: 'RK1'}, flags=('F_TERM1',))
    add('all_affine_quasi_ranking_functions_MS_@TOPOLOGY@@CLASS@_2', r'ppl_all_affine_quasi_ranking_functions_(MS)_%s_2' % TD,
        'V: all_affine_quasi_ranking_functions_MS_2(static_cast<const {T2}&>($0), static_cast<const {T2}&>($1),'
        ' static_cast<C_Polyhedron&>($2), static_cast<C_Polyhedron&>($3));', topo={0: 2, 1: 2, 2: 'C', 3: 'C'}, flags=('F_TERM2',))
    add('all_affine_quasi_ranking_functions_MS_@TOPOLOGY@@CLASS@', r'ppl_all_affine_quasi_ranking_functions_(MS)_%s' % TD,
        'V: all_affine_quasi_ranking_functions_MS(static_cast<const {T2}&>($0), static_cast<C_Polyhedron&>($1),'
        ' static_cast<C_Polyhedron&>($2));', topo={0: 2, 1: 'C', 2: 'C'}, flags=('F_TERM1',))
    # ---- input / output (domains and core types alike)
    ANY = '(' + '|'.join(sorted(T.names, key=len, reverse=True)) + ')'
    add('io_print', r'ppl_io_print_%s' % ANY, 'V: t.sout = cif::print_str($o0); t.has_sout = true;', flags=('F_IO_STDOUT',))
    add('io_fprint', r'ppl_io_fprint_%s' % ANY, 'V: t.sout = cif::print_str($o1); t.has_sout = true;', flags=('F_IO_FILE_OUT',))
    add('io_asprint', r'ppl_io_asprint_%s' % ANY, 'V: t.sout = cif::print_str($o1); t.has_sout = true;', flags=('F_IO_STR',))
    add('ascii_dump', r'ppl_%s_ascii_dump' % ANY, 'V: t.sout = cif::dump_str($o0); t.has_sout = true;', flags=('F_IO_FILE_OUT',))
    add('ascii_load', r'ppl_%s_ascii_load' % ANY,
        'R: { std::istringstream is(t.sin); t.ret = $0.ascii_load(is) ? 0 : PPL_STDIO_ERROR; }', flags=('F_IO_FILE_IN',))
    # ---- core: value types
    VT = '(Coefficient|Linear_Expression|Constraint_System|Constraint|Generator_System|Generator|Congruence_System|Congruence|Grid_Generator_System|Grid_Generator|MIP_Problem|PIP_Problem)'
    CIT = '(Constraint_System|Generator_System|Congruence_System|Grid_Generator_System|Artificial_Parameter_Sequence)_const_iterator'
    add('new_iterator', r'ppl_new_%s' % CIT, 'R: $0 = new {T0}(); t.ret = 0;', flags=('F_NOCMP_OBJ',))
    add('new_iterator_from_iterator', r'ppl_new_%s_from_%s' % (CIT, CIT), 'R: $0 = new {T0}($1); t.ret = 0;')
    add('assign_iterator', r'ppl_assign_%s_from_%s' % (CIT, CIT), 'V: $0 = $1;')
    add('delete_iterator', r'ppl_delete_%s' % CIT, None, flags=('F_DELETE',))
    add('iterator_dereference', r'ppl_%s_dereference' % CIT, 'V: $1 = (void*) &*$0;', flags=('F_ITER_DEREF',))
    add('iterator_increment', r'ppl_%s_increment' % CIT, 'V: ++$0;', flags=('F_ITER_INC',))
    add('iterator_equal_test', r'ppl_%s_equal_test' % CIT, 'B: $0 == $1')
    add('system_begin_end', r'ppl_(Constraint_System|Generator_System|Congruence_System|Grid_Generator_System)_(begin|end)',
        'V: $1 = $o0.{2}();', flags=('F_ITER_SEAT',))
    add('new_Coefficient', r'ppl_new_Coefficient', 'R: $0 = new Coefficient(0); t.ret = 0;')
    add('new_Coefficient_from_mpz_t', r'ppl_new_Coefficient_from_mpz_t', 'R: $0 = new Coefficient($1); t.ret = 0;')
    add('assign_Coefficient_from_mpz_t', r'ppl_assign_Coefficient_from_mpz_t', 'V: $0 = $1;')
    add('Coefficient_to_mpz_t', r'ppl_Coefficient_to_mpz_t', 'V: $1 = $0;')
    add('Coefficient_OK', r'ppl_Coefficient_OK', 'B: true')
    add('Coefficient_is_bounded', r'ppl_Coefficient_is_bounded', 'B: std::numeric_limits<Coefficient>::is_bounded')
    add('Coefficient_minmax', r'ppl_Coefficient_(min|max)',
        'R: if (std::numeric_limits<Coefficient>::is_bounded) { $0 = mpz_class(std::numeric_limits<Coefficient>::{1}()); t.ret = 1; } else t.ret = 0;')
    add('new_from_same', r'ppl_new_%s_from_%s' % (VT, VT), 'R: $0 = new {T1}($1); t.ret = 0;', flags=('F_SAME12',))
    add('assign_from_same', r'ppl_assign_%s_from_%s' % (VT, VT), 'V: $0 = $1;', flags=('F_SAME12',))
    add('delete_value', r'ppl_delete_%s' % VT, None, flags=('F_DELETE',))
    add('value_OK', r'ppl_%s_OK' % VT, 'B: $0.OK()')
    add('borrowed_OK', r'ppl_(PIP_Tree_Node|PIP_Solution_Node|PIP_Decision_Node)_OK', 'B: $0.OK()')
    add('space_dimension', r'ppl_%s_space_dimension' % VT, 'V: $1 = $0.space_dimension();')
    add('new_Linear_Expression', r'ppl_new_Linear_Expression', 'R: $0 = new Linear_Expression(); t.ret = 0;')
    add('new_Linear_Expression_with_dimension', r'ppl_new_Linear_Expression_with_dimension',
        'R: $0 = ($1 == 0) ? new Linear_Expression(0) : new Linear_Expression(0*Variable($1-1)); t.ret = 0;')
    add('new_Linear_Expression_from_row', r'ppl_new_Linear_Expression_from_(Constraint|Generator|Congruence|Grid_Generator)',
        'R: $0 = new Linear_Expression($1.expression()); t.ret = 0;')
    add('Linear_Expression_add_to_coefficient', r'ppl_Linear_Expression_add_to_coefficient', 'V: add_mul_assign($0, $2, Variable($1));')
    add('Linear_Expression_add_to_inhomogeneous', r'ppl_Linear_Expression_add_to_inhomogeneous', 'V: $0 += $1;')
    add('add_Linear_Expression_to_Linear_Expression', r'ppl_add_Linear_Expression_to_Linear_Expression', 'V: $0 += $1;')
    add('subtract_Linear_Expression_from_Linear_Expression', r'ppl_subtract_Linear_Expression_from_Linear_Expression', 'V: $0 -= $1;')
    add('multiply_Linear_Expression_by_Coefficient', r'ppl_multiply_Linear_Expression_by_Coefficient', 'V: $0 *= $1;')
    add('row_coefficient', r'ppl_(Linear_Expression|Constraint|Generator|Congruence|Grid_Generator|Artificial_Parameter)_coefficient',
        'V: $2 = $0.coefficient(Variable($1));')
    add('row_inhomogeneous_term', r'ppl_(Linear_Expression|Constraint|Congruence|Artificial_Parameter)_inhomogeneous_term',
        'V: $1 = $0.inhomogeneous_term();')
    add('Linear_Expression_is_zero', r'ppl_Linear_Expression_(is_zero|all_homogeneous_terms_are_zero)', 'B: $0.{1}()')
    add('new_Constraint', r'ppl_new_Constraint', 'R: $0 = cif::twin_new_constraint($1, $2); t.ret = 0;')
    add('new_zero_dim', r'ppl_new_(Constraint)_(zero_dim_false|zero_dim_positivity)', 'R: $0 = new {T1}({T1}::{2}()); t.ret = 0;')
    add('new_zero_dim', r'ppl_new_(Congruence)_(zero_dim_false|zero_dim_integrality)', 'R: $0 = new {T1}({T1}::{2}()); t.ret = 0;')
    add('new_zero_dim', r'ppl_new_(Generator)_(zero_dim_point|zero_dim_closure_point)', 'R: $0 = new {T1}({T1}::{2}()); t.ret = 0;')
    add('new_zero_dim', r'ppl_new_(Grid_Generator)_(zero_dim_point)', 'R: $0 = new {T1}({T1}::{2}()); t.ret = 0;')
    add('new_zero_dim', r'ppl_new_(Constraint_System|Congruence_System)_(zero_dim_empty)', 'R: $0 = new {T1}({T1}::{2}()); t.ret = 0;')
    add('new_zero_dim', r'ppl_new_(Generator_System|Grid_Generator_System)_(zero_dim_univ)', 'R: $0 = new {T1}({T1}::{2}()); t.ret = 0;')
    add('Constraint_type', r'ppl_Constraint_type', 'I: cif::twin_constraint_type($0)')
    add('new_Generator', r'ppl_new_Generator', 'R: $0 = cif::twin_new_generator($1, $2, $3); t.ret = 0;')
    add('Generator_type', r'ppl_Generator_type', 'I: cif::twin_generator_type($0)')
    add('Generator_divisor', r'ppl_(Generator|Grid_Generator)_divisor', 'V: $1 = $0.divisor();')
    add('new_Congruence', r'ppl_new_Congruence', 'R: $0 = new Congruence(($1 %= 0) / $2); t.ret = 0;')
    add('Congruence_modulus', r'ppl_Congruence_modulus', 'V: $1 = $0.modulus();')
    add('new_Grid_Generator', r'ppl_new_Grid_Generator', 'R: $0 = cif::twin_new_grid_generator($1, $2, $3); t.ret = 0;')
    add('Grid_Generator_type', r'ppl_Grid_Generator_type', 'I: cif::twin_grid_generator_type($0)')
    add('new_System', r'ppl_new_(Constraint_System|Generator_System|Congruence_System|Grid_Generator_System)', 'R: $0 = new {T1}(); t.ret = 0;')
    add('new_System_from_row', r'ppl_new_(Constraint_System|Generator_System|Congruence_System|Grid_Generator_System)_from_(Constraint|Generator|Congruence|Grid_Generator)',
        'R: $0 = new {T1}($1); t.ret = 0;')
    add('System_empty', r'ppl_(Constraint_System|Generator_System|Congruence_System|Grid_Generator_System)_empty', 'B: $0.empty()')
    add('System_has_strict_inequalities', r'ppl_Constraint_System_has_strict_inequalities', 'B: $0.has_strict_inequalities()')
    add('System_clear', r'ppl_(Constraint_System|Generator_System|Congruence_System|Grid_Generator_System)_clear', 'V: $0.clear();')
    add('System_insert', r'ppl_(Constraint_System|Generator_System|Congruence_System|Grid_Generator_System)_insert_(Constraint|Generator|Congruence|Grid_Generator)',
        'V: $0.insert($1);')
    # ---- MIP
    add('new_MIP_Problem_from_space_dimension', r'ppl_new_MIP_Problem_from_space_dimension', 'R: $0 = new MIP_Problem($1); t.ret = 0;')
    add('new_MIP_Problem', r'ppl_new_MIP_Problem',
        'R: $0 = new MIP_Problem($1, $2, $3, ($4 == PPL_OPTIMIZATION_MODE_MINIMIZATION) ? MINIMIZATION : MAXIMIZATION); t.ret = 0;')
    add('MIP_Problem_number_of_integer_space_dimensions', r'ppl_MIP_Problem_number_of_integer_space_dimensions',
        'V: $1 = $0.integer_space_dimensions().size();')
    add('MIP_Problem_integer_space_dimensions', r'ppl_MIP_Problem_integer_space_dimensions',
        'V: cif::copy_varset($0.integer_space_dimensions(), t, 1);', flags=('F_DIMARR_OUT',))
    add('MIP_Problem_number_of_constraints', r'ppl_(MIP|PIP)_Problem_number_of_constraints',
        'V: $1 = (size_t) ($0.constraints_end() - $0.constraints_begin());')
    add('MIP_Problem_constraint_at_index', r'ppl_(MIP|PIP)_Problem_constraint_at_index',
        'V: $2 = (void*) &*($0.constraints_begin() + $1);', flags=('F_INDEX',))
    add('MIP_Problem_objective_function', r'ppl_MIP_Problem_objective_function', 'V: $1 = (void*) &$0.objective_function();')
    add('MIP_Problem_optimization_mode', r'ppl_MIP_Problem_optimization_mode', 'I: $0.optimization_mode()')
    add('Problem_clear', r'ppl_(MIP|PIP)_Problem_clear', 'V: $0.clear();')
    add('MIP_Problem_add_space_dimensions_and_embed', r'ppl_MIP_Problem_add_space_dimensions_and_embed', 'V: $0.add_space_dimensions_and_embed($1);')
    add('PIP_Problem_add_space_dimensions_and_embed', r'ppl_PIP_Problem_add_space_dimensions_and_embed', 'V: $0.add_space_dimensions_and_embed($1, $2);')
    add('MIP_Problem_add_to_integer_space_dimensions', r'ppl_MIP_Problem_add_to_integer_space_dimensions',
        'V: $0.add_to_integer_space_dimensions(cif::varset($1, $2));')
    add('PIP_Problem_add_to_parameter_space_dimensions', r'ppl_PIP_Problem_add_to_parameter_space_dimensions',
        'V: $0.add_to_parameter_space_dimensions(cif::varset($1, $2));')
    add('Problem_add_constraint', r'ppl_(MIP|PIP)_Problem_add_(constraint|constraints)', 'V: $0.add_{2}($1);')
    add('MIP_Problem_set_objective_function', r'ppl_MIP_Problem_set_objective_function', 'V: $0.set_objective_function($1);')
    add('MIP_Problem_set_optimization_mode', r'ppl_MIP_Problem_set_optimization_mode',
        'V: $0.set_optimization_mode(($1 == PPL_OPTIMIZATION_MODE_MINIMIZATION) ? MINIMIZATION : MAXIMIZATION);')
    add('Problem_is_satisfiable', r'ppl_(MIP|PIP)_Problem_is_satisfiable', 'B: $0.is_satisfiable()')
    add('Problem_solve', r'ppl_(MIP|PIP)_Problem_solve', 'I: $0.solve()')
    add('MIP_Problem_evaluate_objective_function', r'ppl_MIP_Problem_evaluate_objective_function',
        'V: $0.evaluate_objective_function($1, $2, $3);')
    add('MIP_Problem_point', r'ppl_MIP_Problem_(feasible_point|optimizing_point)', 'V: $1 = (void*) &$0.{1}();')
    add('MIP_Problem_optimal_value', r'ppl_MIP_Problem_optimal_value', 'V: $0.optimal_value($1, $2);')
    add('MIP_Problem_get_control_parameter', r'ppl_MIP_Problem_get_control_parameter',
        'I: $0.get_control_parameter(static_cast<MIP_Problem::Control_Parameter_Name>($1))')
    add('MIP_Problem_set_control_parameter', r'ppl_MIP_Problem_set_control_parameter',
        'V: $0.set_control_parameter(static_cast<MIP_Problem::Control_Parameter_Value>($1));')
    add('Problem_memory', r'ppl_(MIP|PIP)_Problem_(total|external)_memory_in_bytes', 'V: $1 = $0.{2}_memory_in_bytes();', flags=('F_NOCMP_OUT',))
    # ---- PIP
    add('new_PIP_Problem_from_space_dimension', r'ppl_new_PIP_Problem_from_space_dimension', 'R: $0 = new PIP_Problem($1); t.ret = 0;')
    add('new_PIP_Problem_from_constraints', r'ppl_new_PIP_Problem_from_constraints',
        'R: $0 = new PIP_Problem($1, $2, $3, cif::varset($5, $4)); t.ret = 0;', flags=('F_ITER_RANGE', 'F_PIPCTOR'))
    add('PIP_Problem_number_of_parameter_space_dimensions', r'ppl_PIP_Problem_number_of_parameter_space_dimensions',
        'V: $1 = $0.parameter_space_dimensions().size();')
    add('PIP_Problem_parameter_space_dimensions', r'ppl_PIP_Problem_parameter_space_dimensions',
        'V: cif::copy_varset($0.parameter_space_dimensions(), t, 1);', flags=('F_DIMARR_OUT',))
    add('PIP_Problem_big_parameter_dimension', r'ppl_PIP_Problem_get_big_parameter_dimension', 'V: $1 = $0.get_big_parameter_dimension();')
    add('PIP_Problem_set_big_parameter_dimension', r'ppl_PIP_Problem_set_big_parameter_dimension', 'V: $0.set_big_parameter_dimension($1);')
    add('PIP_Problem_solution', r'ppl_PIP_Problem_(solution|optimizing_solution)', 'V: $1 = (void*) $0.{1}();', flags=('F_TREE_OUT',))
    add('PIP_Problem_get_control_parameter', r'ppl_PIP_Problem_get_control_parameter',
        'I: $0.get_control_parameter(static_cast<PIP_Problem::Control_Parameter_Name>($1))')
    add('PIP_Problem_set_control_parameter', r'ppl_PIP_Problem_set_control_parameter',
        'V: $0.set_control_parameter(static_cast<PIP_Problem::Control_Parameter_Value>($1));')
    add('PIP_Tree_Node_as', r'ppl_PIP_Tree_Node_as_(solution|decision)', 'V: $1 = (void*) $0.as_{1}();', flags=('F_PTR_OUT',))
    add('PIP_Tree_Node_get_constraints', r'ppl_PIP_Tree_Node_get_constraints', 'V: $1 = (void*) &$0.constraints();')
    add('PIP_Tree_Node_number_of_artificials', r'ppl_PIP_Tree_Node_number_of_artificials', 'V: $1 = $0.art_parameter_count();')
    add('PIP_Tree_Node_begin_end', r'ppl_PIP_Tree_Node_(begin|end)', 'V: $1 = $o0.art_parameter_{1}();', flags=('F_ITER_SEAT',))
    add('PIP_Solution_Node_get_parametric_values', r'ppl_PIP_Solution_Node_get_parametric_values',
        'V: $2 = (void*) &$0.parametric_values(Variable($1));')
    add('PIP_Decision_Node_get_child_node', r'ppl_PIP_Decision_Node_get_child_node', 'V: $2 = (void*) $0.child_node($1 != 0);', flags=('F_PTR_OUT',))
    add('Artificial_Parameter_get_Linear_Expression', r'ppl_Artificial_Parameter_get_Linear_Expression', 'V: $1 = $0;')
    add('Artificial_Parameter_denominator', r'ppl_Artificial_Parameter_denominator', 'V: $1 = $0.denominator();')
    # ---- library-level
    add('version_number', r'ppl_version_(major|minor|revision|beta)', 'I: version_{1}()')
    add('version_string', r'ppl_(version|banner)', 'V: $0 = (void*) Parma_Polyhedra_Library::{1}();')
    add('max_space_dimension', r'ppl_(max_space_dimension|not_a_dimension)', 'V: $0 = {1}();')
    add('irrational_precision', r'ppl_irrational_precision', 'V: $0 = irrational_precision();')
    add('set_irrational_precision', r'ppl_set_irrational_precision', 'V: set_irrational_precision($0);', flags=('F_GLOBAL_STATE',))
    add('io_print_variable', r'ppl_io_print_variable', 'V: t.sout = cif::var_str($0) + "\\n"; t.has_sout = true;', flags=('F_IO_STDOUT',))
    add('io_fprint_variable', r'ppl_io_fprint_variable', 'V: t.sout = cif::var_str($1); t.has_sout = true;', flags=('F_IO_FILE_OUT',))
    add('io_asprint_variable', r'ppl_io_asprint_variable', 'V: t.sout = cif::var_str($1); t.has_sout = true;', flags=('F_IO_STR',))
    # functions driven only by hand-written special drivers (no random calls)
    for n in ('ppl_initialize', 'ppl_finalize', 'ppl_thread_initialize', 'ppl_thread_finalize',
              'ppl_set_rounding_for_PPL', 'ppl_restore_pre_PPL_rounding', 'ppl_set_error_handler',
              'ppl_set_timeout', 'ppl_reset_timeout', 'ppl_set_deterministic_timeout', 'ppl_reset_deterministic_timeout',
              'ppl_io_set_variable_output_function', 'ppl_io_get_variable_output_function', 'ppl_io_wrap_string'):
        add('special:' + n[4:], n, None, flags=('F_SPECIAL',))
    return S, D, TD

# --------------------------------------------------------------------------
def cpp_class(T, name):
    if name in ('C_Polyhedron', 'NNC_Polyhedron'):
        return name
    return T.cpp[name]

def topo_of(name):
    return {'C_Polyhedron': 1, 'NNC_Polyhedron': 2}.get(name, 0)

class FnInfo:
    pass

def home_of(name, T, Drx, TDrx):
    D = Drx
    pats = [r'^ppl_(?:new|assign)_(?:C_|NNC_)?%s_(?:from|recycle|iterator|const_iterator)' % D,
            r'^ppl_delete_%s(?:_iterator|_const_iterator)?$' % D,
            r'^ppl_io_(?:print|fprint|asprint)_%s$' % D,
            r'^ppl_(?:termination_test|one_affine_ranking_function|all_affine_ranking_functions|all_affine_quasi_ranking_functions)_(?:MS|PR)_(?:C_|NNC_)?%s(?:_2)?$' % D,
            r'^ppl_%s_(?!Generator)' % D]
    for p in pats:
        m = re.match(p, name)
        if m:
            return m.group(1)
    return 'core'

def pattern_of(name, T):
    alt = '|'.join(sorted(['C_Polyhedron', 'NNC_Polyhedron'] + T.domnames, key=len, reverse=True))
    k = [0]
    def rep(m):
        k[0] += 1
        return '@D@' if k[0] == 1 else '@F@'
    return re.sub(alt, rep, name)

def expand(tw, fn, m, T, home):
    """Expand a twin template for function fn (regex match m)."""
    args = fn.args
    def cls(g):
        return cpp_class(T, m.group(g))
    s = tw
    s = re.sub(r'\{T(\d)\}', lambda x: (cls(int(x.group(1))) if x.group(1) != '0' else T.cpp[args[0].type]), s)
    if '{RK1}' in s:
        s = s.replace('{RK1}', 'C_Polyhedron' if m.group(1) == 'MS' else 'NNC_Polyhedron')
    if '{D}' in s:
        s = s.replace('{D}', T.cpp[home] if home in T.cpp else 'void')
    s = re.sub(r'\{(\d)\}', lambda x: m.group(int(x.group(1))), s)
    def acc(x):
        orig = x.group(1) == 'o'
        k = int(x.group(2))
        a = args[k]
        if a.kind == 'K_HIN':
            cpp = T.cpp[a.type]
            if orig:
                return 'cif::orig<%s >(t, %d)' % (cpp, k)
            return ('cif::cref<%s >(t, %d)' if a.const else 'cif::mref<%s >(t, %d)') % (cpp, k)
        if a.kind in ('K_HOUT', 'K_HREF'):
            return 't.obj[%d]' % k
        if a.kind in ACCESS:
            return 't.a[%d].%s' % (k, ACCESS[a.kind])
        if a.kind == 'K_PUINT' and a.name == 'tp':
            return 't.uptr(%d)' % k
        if a.kind in OUTACC:
            return 't.out[%d].%s' % (k, OUTACC[a.kind])
        if a.kind == 'K_PCSTR':
            return 't.out[%d].p' % k
        if a.kind == 'K_DIMARR':
            return '((const size_t*) t.a[%d].p)' % k
        if a.kind == 'K_MPZ':
            return 'cif::mref<mpz_class >(t, %d)' % k
        if a.kind == 'K_CSPTR':
            return 't.cp[%d]' % k
        return 't.a[%d].p' % k
    s = re.sub(r'\$(o?)(\d)', acc, s)
    return s

def twin_body(kindtext):
    kind, body = kindtext.split(':', 1)
    body = body.strip()
    if kind == 'V':
        return body + ' t.ret = 0;'
    if kind == 'B':
        return 't.ret = (%s) ? 1 : 0;' % body
    if kind == 'I':
        return 't.ret = (long) (%s);' % body
    return body

def main():
    ap = argparse.ArgumentParser()
    ap.add_argument('--header', required=True)
    ap.add_argument('--instantiations', required=True)
    ap.add_argument('--outdir', required=True)
    ap.add_argument('--defined', help='file with the symbols defined by the interface library')
    o = ap.parse_args()
    pp = preprocess(o.header)
    handle_types, enums, decls = parse_decls(pp)
    doms = parse_instantiations(o.instantiations)
    T = Types(handle_types, doms)
    schemas, Drx, TDrx = build_schemas(T)
    nproto = raw_proto_count(o.header)
    defined = set(open(o.defined).read().split()) if o.defined else None

    fns = []
    unclassified = []
    by_schema = collections.Counter()
    for ret, name, argtext in decls:
        f = FnInfo()
        f.name, f.ret = name, ret
        if '(*' in argtext:
            f.args = [Arg('K_OTHER', 0, None, 0, 'h', 'void*', None)]
        else:
            f.args = [a for a in (classify_arg(x, T, enums) for x in argtext.split(',')) if a is not None]
        f.home = home_of(name, T, Drx, TDrx)
        f.pattern = pattern_of(name, T)
        f.schema, f.twin, f.post, f.flags, f.skip_cmp = '', None, None, [], ()
        topo = {}
        for sc in schemas:
            m = re.match('^' + sc.rx + '$', name)
            if not m:
                continue
            if 'F_SAME12' in sc.flags and m.group(1) != m.group(2):
                continue
            f.schema = sc.name
            if sc.name in ('io_print', 'io_fprint', 'io_asprint', 'ascii_dump', 'ascii_load'):
                # input/output entry points exist for every handle type: abstract the type
                f.pattern = name.replace(m.group(1), '@X@', 1)
            f.flags = [x for x in sc.flags if x != 'F_SAME12']
            f.skip_cmp = sc.skip_cmp
            if sc.twin:
                try:
                    f.twin = twin_body(expand(sc.twin, f, m, T, f.home))
                except Exception as e:
                    sys.stderr.write('gen_ciface: twin expansion failed for %s: %r\n' % (name, e))
                    f.twin = None
            if sc.post:
                f.post = expand(sc.post, f, m, T, f.home)
            if sc.topo:
                for k, g in sc.topo.items():
                    if g == 'C':
                        topo[k] = 1
                    elif g == 'RK1':
                        topo[k] = 1 if m.group(1) == 'MS' else 2
                    else:
                        topo[k] = topo_of(m.group(g))
            break
        if f.ret != 'int' or any(a.kind == 'K_OTHER' for a in f.args):
            if 'F_SPECIAL' not in f.flags:
                f.flags.append('F_SPECIAL')
        f.args = [a._replace(topo=topo.get(k, 0)) for k, a in enumerate(f.args)]
        if not f.schema:
            unclassified.append(name)
        by_schema[f.schema or '(none)'] += 1
        fns.append(f)

    os.makedirs(o.outdir, exist_ok=True)
    def write_if_changed(path, text):
        try:
            if open(path).read() == text:
                return
        except IOError:
            pass
        open(path, 'w').write(text)

    # ---- cifgen.hh
    h = ['// generated by tools/gen_ciface.py -- do not edit', '#ifndef CIFGEN_HH', '#define CIFGEN_HH', '#include "ciface_rt.hh"', 'namespace cif {']
    h.append('enum TypeId { ' + ', '.join('T_' + n for n in T.names) + ', T_COUNT };')
    enum_ids = dict((e, i) for i, e in enumerate(enums))
    h.append('enum EnumId { ' + ', '.join('E_' + e for e in enums) + ', E_COUNT };')
    h.append('static const int N_RAW_PROTOS = %d;' % nproto)
    for n in T.names:
        if T.cat[n] == 'ITER' and n not in ITER_CONTAINER:
            h.append('CIF_CONTAINER(%s, %s);' % (T.cpp[n], T.cpp[T.container[n]]))
    h.append('} // namespace cif')
    h.append('#endif')
    write_if_changed(os.path.join(o.outdir, 'cifgen.hh'), '\n'.join(h) + '\n')

    # ---- per-TU sources
    tus = ['core'] + T.domnames
    group = collections.defaultdict(list)
    for f in fns:
        group[f.home].append(f)
    undefined = []
    for tu in tus:
        L = ['// generated by tools/gen_ciface.py -- do not edit', '#include "cifgen.hh"', 'using namespace Parma_Polyhedra_Library;', 'namespace {']
        recs = []
        for idx, f in enumerate(group[tu]):
            specs = []
            for a in f.args:
                specs.append('{cif::%s, %d, %d, %s, %s, "%s"}' % (a.kind, a.const, a.topo,
                             ('cif::T_' + a.type) if a.type else '-1',
                             ('cif::E_' + a.enum) if a.enum else '-1', a.name))
            L.append('const cif::ArgSpec A_%d[] = { %s };' % (idx, ', '.join(specs) if specs else '{cif::K_OTHER, 0, 0, -1, -1, ""}'))
            special_sig = f.ret != 'int' or any(a.kind == 'K_OTHER' for a in f.args)
            if defined is not None and f.name not in defined:
                callname = '0'
                f.flags.append('F_UNDEFINED')
                f.twin = None
                undefined.append(f.name)
            elif special_sig:
                callname = '0'
            else:
                L.append('int C_%d(cif::Val* a) { (void) a; return %s(%s); }' % (idx, f.name, ', '.join(call_expr(a, k) for k, a in enumerate(f.args))))
                callname = 'C_%d' % idx
            if f.twin:
                L.append('void W_%d(cif::Twin& t) { %s }' % (idx, f.twin))
            if f.post:
                L.append('const char* P_%d(cif::Twin& t) { return %s; }' % (idx, f.post))
            skip = 0
            for k in f.skip_cmp:
                skip |= 1 << k
            recs.append('{"%s", "%s", "%s", %s, %d, A_%d, %s, %s, %s, %s, %d}' % (
                f.name, f.pattern, f.schema, ('cif::T_' + f.home) if f.home != 'core' else '-1', len(f.args), idx, callname,
                ('W_%d' % idx) if f.twin else '0', ('P_%d' % idx) if f.post else '0',
                ' | '.join('cif::' + x for x in f.flags) if f.flags else '0', skip))
        L.append('} // namespace')
        L.append('namespace cif {')
        tuid = re.sub(r'\W', '_', tu)
        L.append('extern const Fn fns_%s[] = {\n  %s\n};' % (tuid, ',\n  '.join(recs)))
        L.append('extern const int nfns_%s = %d;' % (tuid, len(recs)))
        for n in T.names:
            if T.home[n] == tu:
                L.append('extern const TypeOps ops_%s = CIF_TYPEOPS(%s, %s);' % (n, T.cat[n], T.cpp[n]))
        L.append('} // namespace cif')
        write_if_changed(os.path.join(o.outdir, 'cifgen_%s.cc' % tu), '\n'.join(L) + '\n')

    # ---- table
    L = ['// generated by tools/gen_ciface.py -- do not edit', '#include "cifgen.hh"', 'namespace cif {']
    for tu in tus:
        tuid = re.sub(r'\W', '_', tu)
        L.append('extern const Fn fns_%s[]; extern const int nfns_%s;' % (tuid, tuid))
    for n in T.names:
        L.append('extern const TypeOps ops_%s;' % n)
    L.append('const FnGroup fn_groups[] = { %s };' % ', '.join('{"%s", fns_%s, &nfns_%s}' % (tu, re.sub(r'\W', '_', tu), re.sub(r'\W', '_', tu)) for tu in tus))
    L.append('const int n_fn_groups = %d;' % len(tus))
    rows = []
    for n in T.names:
        rows.append('{"%s", CAT_%s, &ops_%s, %s, %d}' % (n, T.cat[n], n,
                    ('T_' + T.container[n]) if n in T.container else '-1', 1 if n in T.domnames else 0))
    L.append('const TypeInfo type_table[] = {\n  %s\n};' % ',\n  '.join(rows))
    L.append('const int n_types = %d;' % len(T.names))
    L.append('const char* const enum_names[] = { %s };' % ', '.join('"%s"' % e for e in enums))
    L.append('} // namespace cif')
    write_if_changed(os.path.join(o.outdir, 'cifgen_table.cc'), '\n'.join(L) + '\n')

    # ---- report
    R = ['raw PPL_PROTO prototypes: %d' % nproto, 'entry points after macro expansion: %d' % len(fns),
         'with C++ twin: %d' % sum(1 for f in fns if f.twin), 'special drivers: %d' % sum(1 for f in fns if 'F_SPECIAL' in f.flags),
         'unclassified (tightness only): %d' % len(unclassified), '']
    R += ['unclassified: ' + n for n in unclassified]
    R += ['declared but not defined in the interface library: ' + n for n in undefined]
    R += ['', 'functions per schema:'] + ['%5d %s' % (c, s) for s, c in sorted(by_schema.items())]
    write_if_changed(os.path.join(o.outdir, 'cifgen_report.txt'), '\n'.join(R) + '\n')
    sys.stderr.write('gen_ciface: %d prototypes, %d entry points, %d with twin, %d unclassified\n'
                     % (nproto, len(fns), sum(1 for f in fns if f.twin), len(unclassified)))

if __name__ == '__main__':
    main()
