#!/bin/bash
# Final sweep: every seeded change applied to /repo in turn, the property's quick check run, the change reverted.
# Nothing else may build or run checks meanwhile.  Log: /var/tmp/finalsweep.log (input of tools/seed_finalize.py)
LOG=/var/tmp/finalsweep.log; : > $LOG
for i in 01 02 03 04 05 06 07 08 09 10 11 12 13 14 15 16 17 18 19 20; do
  id=C$i; P=/verif/seeded/$id/patch.diff
  echo "=== $id $(date +%T)" >> $LOG
  [ -z "$(git -C /repo status --short | grep -v '^??')" ] || { echo "/repo not clean before $id" >> $LOG; exit 2; }
  git -C /repo apply "$P" || { echo "$id: patch does not apply" >> $LOG; continue; }
  out=$(/verif/bin/check $id --tier quick 2>&1); rc=$?
  if [ $id = C20 ]; then /verif/tools/c20_demo.sh | sed 's/^/  with the change: /' >> $LOG; fi
  git -C /repo checkout -- .
  echo "$out" | grep -E "^VIOLATION|^  key|seed=|HARNESS|BUILD" | cut -c1-260 | head -24 >> $LOG
  echo "=== $id exit=$rc" >> $LOG
done
/verif/bin/setup > /dev/null 2>&1
/verif/tools/c20_demo.sh | sed 's/^/  unchanged tree: /' >> $LOG
echo "=== sweep done $(date +%T)" >> $LOG
