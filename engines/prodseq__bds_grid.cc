// prodseq, pair (BD_Shape<mpq_class>, Grid): the five reduction policies of this pair.
#include "prodseq.hh"
namespace prodseq {
IFactory* factory_bds_grid(int red) { return pair_factory<BD_Shape<mpq_class>, Grid >("bds_grid", red); }
}
