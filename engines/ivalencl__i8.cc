// ivalencl, policy i8_c: Interval<int8_t, Native_Integer_Box_Interval_Info>
#include "ivalencl_impl.hh"
#include "interfaces/interfaced_boxes.hh"
namespace ivx { void case_i8() { run_policy<Interval<int8_t, Native_Integer_Box_Interval_Info> >("i8_c", K_INT_BOUNDED); } }
