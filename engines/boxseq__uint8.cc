// boxseq: instantiation of the box adapter for Parma_Polyhedra_Library::Uint8_Box (see boxseq.hh).
#include "boxseq.hh"
BOXSEQ_REGISTER(uint8, 7, Parma_Polyhedra_Library::Uint8_Box)
