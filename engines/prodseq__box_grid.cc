// prodseq, pair (Rational_Box, Grid): the five reduction policies of this pair.
#include "prodseq.hh"
namespace prodseq {
IFactory* factory_box_grid(int red) { return pair_factory<Rational_Box, Grid >("box_grid", red); }
}
