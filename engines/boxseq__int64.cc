// boxseq: instantiation of the box adapter for Parma_Polyhedra_Library::Int64_Box (see boxseq.hh).
#include "boxseq.hh"
BOXSEQ_REGISTER(int64, 6, Parma_Polyhedra_Library::Int64_Box)
