// faultinj: scenarios and rejected calls on BD_Shape<int8_t> (see harness/faultinj_shapes.hh).
#include "faultinj_shapes.hh"
using namespace Parma_Polyhedra_Library;
FI_REGISTER_SHAPE(BD_Shape<int8_t>, "BD_Shape<int8_t>", fi::K_BD, false);
