// prodseq — random operation histories on partially reduced products
// (property C10; copies C13.prod.*, ascii round trip C15.prod.*).
//
// Model of a product: the intersection d1 ∩ d2 of the point sets of its two
// components, observed through copies of the raw (unreduced) components.
//   convex x Grid   : the lattice points of the grid inside a window (own HNF
//                     generator form, |k_i| <= 6) that lie in the convex part;
//   convex x convex : the points of (1/2)Z^n in a window AND exact LP on the
//                     conjunction of the two constraint systems.
// Monitors:
//   C10.<inst>.<op>.reduce_changed_intersection  explicit/implicit reduction lost a point
//   C10.<inst>.<op>.component_grew               a reduction enlarged a component
//   C10.<inst>.<op>.lost_point                   a transformer's result misses an image point
//   C10.<inst>.<op>.wrong_definite_answer        a definite predicate answer is false of d1 ∩ d2
//   C10.<inst>.<op>.OK_false / unexpected_exception / hang
//   C13.prod.<inst>.* copies/assign/swap/bystanders, C15.prod.<inst>.* ascii round trip
// --kv inst=<pair>_<reduction> | all (rotates with the case index).
#include "prodseq.hh"
#include <memory>
#include <csignal>
#include <sys/wait.h>

using namespace prodseq;
using hx::violation; using hx::tr; using hx::checked;

static IFactory* F = 0;          // instantiation of the current case
static std::string KP;           // "C10.<inst>."
static bool g_grid_pair = true;
static int g_W = 6, g_W3 = 4;

typedef std::unique_ptr<IProd> Hold;

// ---------------------------------------------------------------- shadows
struct Shadow {
  int n; Comp c[2]; bool flag;
  Sys conj;                 // constraints of the convex component(s)
  Lattice L[2];             // lattice of a grid component (own conversion from its congruences)
  Lattice EL;               // lattice used for the enumeration (canonical)
  bool enumerated, exact_empty, complete;   // complete: pts is the whole of d1 ∩ d2
  std::vector<Vec> pts;     // enumerated points of d1 ∩ d2
  Shadow() : n(0), flag(false), enumerated(false), exact_empty(false), complete(false) {}
  bool member_comp(int i, const Vec& x) const {
    if (c[i].is_grid) { for (size_t k = 0; k < c[i].cgs.size(); ++k) if (!ref::sat_cg(c[i].cgs[k], x)) return false; return true; }
    return ref::sat(c[i].S, x);
  }
  bool member(const Vec& x) const { return member_comp(0, x) && member_comp(1, x); }
};

static Lattice half_lattice(int n) {
  Lattice L; L.n = n; L.empty = false; L.p.assign(n, Q(0));
  for (int i = 0; i < n; ++i) { Vec e(n); e[i] = Q(1, 2); L.params.push_back(e); }
  return L;
}

static Q qfloor(const Q& q) { mpz_class f; mpz_fdiv_q(f.get_mpz_t(), q.get_num_mpz_t(), q.get_den_mpz_t()); return Q(f); }

// Points of  {x | conj(x)} ∩ L  in a window of the generator form of L centred on the convex part.
static void enumerate_points(int n, const Sys& conj, Lattice L, int W, std::vector<Vec>& pts, bool& exact_empty, Lattice* canon = 0, bool* complete = 0) {
  pts.clear(); exact_empty = false; if (complete) *complete = false;
  ref::canonicalize(L);
  if (canon) *canon = L;
  if (L.empty) { exact_empty = true; return; }
  std::vector<Vec> V = L.params; int np = V.size(); V.insert(V.end(), L.lines.begin(), L.lines.end());
  int K = V.size();
  Sys T;
  for (size_t i = 0; i < conj.size(); ++i) { Vec a(K); for (int k = 0; k < K; ++k) a[k] = ref::dot(conj[i].a, V[k]); T.push_back(Con(a, Q(conj[i].b - ref::dot(conj[i].a, L.p)), conj[i].rel)); }
  Vec w;
  if (!ref::feasible(K, T, &w)) { exact_empty = true; return; }
  Vec base(K); std::vector<Q> lo(K), hi(K); std::vector<bool> bnd(K, false);
  for (int k = 0; k < K; ++k) {
    Vec e(K); e[k] = 1; ref::SupResult u = ref::supremum(K, T, e); e[k] = -1; ref::SupResult l = ref::supremum(K, T, e);
    Q c;
    if (u.bounded && l.bounded) { c = (u.sup - l.sup) / 2; bnd[k] = true; hi[k] = u.sup; lo[k] = -l.sup; }
    else if (u.bounded) c = u.sup - (W - 1);
    else if (l.bounded) c = -l.sup + (W - 1);
    else c = w[k];
    if (k < np) base[k] = qfloor(c + Q(1, 2)); else base[k] = qfloor(2 * c + Q(1, 2)) / 2;
  }
  int Wk = (K >= 3) ? g_W3 : W;
  if (complete) { bool all = true; for (int k = 0; k < K; ++k) { if (!bnd[k]) all = false; else if (k < np) { if (lo[k] < base[k] - Wk || hi[k] > base[k] + Wk) all = false; } else if (lo[k] != hi[k]) all = false; } *complete = all; }
  std::vector<int> kk(K, -Wk);
  for (;;) {
    Vec t(K); for (int k = 0; k < K; ++k) t[k] = base[k] + (k < np ? Q(kk[k]) : Q(kk[k]) / 2);
    if (ref::sat(T, t)) { Vec x = L.p; for (int k = 0; k < K; ++k) if (t[k] != 0) for (int d = 0; d < n; ++d) x[d] += t[k] * V[k][d]; pts.push_back(x); }
    int j = 0; while (j < K) { if (kk[j] < Wk) { ++kk[j]; break; } kk[j] = -Wk; ++j; }
    if (j == K) break;
  }
}

static Shadow observe(const IProd& A) {
  Shadow s; s.n = A.dim(); A.observe(s.c[0], s.c[1], s.flag);
  for (int i = 0; i < 2; ++i) {
    if (s.c[i].is_grid) s.L[i] = ref::from_congruences(s.n, s.c[i].cgs);
    else s.conj.insert(s.conj.end(), s.c[i].S.begin(), s.c[i].S.end());
  }
  return s;
}
// returns false on a harness bug (already reported)
static bool enumerate(Shadow& s) {
  if (s.enumerated) return true;
  s.enumerated = true;
  Lattice L = s.c[1].is_grid ? s.L[1] : (s.c[0].is_grid ? s.L[0] : half_lattice(s.n));
  bool cmp = false; enumerate_points(s.n, s.conj, L, g_W, s.pts, s.exact_empty, &s.EL, &cmp);
  s.complete = cmp && (s.c[0].is_grid || s.c[1].is_grid); if (s.exact_empty) s.complete = true;
  hx::count("enum_points", s.pts.size());
  // second, independent evaluation: plain arithmetic against what PPL reported
  for (size_t i = 0; i < s.pts.size(); ++i) if (!s.member(s.pts[i])) { violation("harness.bug.enum_point", "enumerated point " + show(s.pts[i]) + " is not a member by plain arithmetic"); return false; }
  return true;
}
static Shadow observe_enum(const IProd& A, bool& ok) { Shadow s = observe(A); ok = enumerate(s); return s; }

static std::string show_comp(const Comp& c) {
  std::ostringstream o;
  if (c.is_grid) { o << "{"; for (size_t i = 0; i < c.cgs.size(); ++i) { o << (i ? "; " : ""); for (size_t j = 0; j < c.cgs[i].a.size(); ++j) o << (j ? " " : "") << c.cgs[i].a[j]; o << " == " << c.cgs[i].b << " mod " << c.cgs[i].m; } o << "}"; return o.str(); }
  return show(c.S);
}
static std::string show_shadow(const Shadow& s) { return "d1=" + show_comp(s.c[0]) + " d2=" + show_comp(s.c[1]) + (s.flag ? " +reduced" : " -reduced"); }

static bool comp_is_empty(const Shadow& s, int i) { return s.c[i].is_grid ? s.L[i].empty : !ref::feasible(s.n, s.c[i].S); }
static bool comp_is_universe(const Shadow& s, int i) {
  if (s.c[i].is_grid) return !s.L[i].empty && ref::rank_of(s.L[i].lines, s.n) == s.n;
  Vec z(s.n);
  for (size_t k = 0; k < s.c[i].S.size(); ++k) { const Con& c = s.c[i].S[k]; for (size_t j = 0; j < c.a.size(); ++j) if (c.a[j] != 0) return false; if (!ref::sat(c, z)) return false; }
  return true;
}
// coarse class of the denoted set for the distinct-configuration metric
static std::string inter_class(const Shadow& s) {
  std::string r = s.flag ? "R" : "U";
  r += comp_is_empty(s, 0) ? "e" : comp_is_universe(s, 0) ? "u" : "p";
  r += comp_is_empty(s, 1) ? "e" : comp_is_universe(s, 1) ? "u" : "p";
  r += s.exact_empty ? "/E" : s.pts.empty() ? "/0" : s.pts.size() == 1 ? "/1" : "/N";
  return r;
}
static bool nontrivial(const Shadow& s) { return !s.pts.empty() && !(comp_is_universe(s, 0) && comp_is_universe(s, 1)); }

// a ⊆ b for component i
static bool comp_included(const Shadow& a, const Shadow& b, int i, std::string* why) {
  if (a.c[i].is_grid) { bool r = ref::included(a.L[i], b.L[i]); if (!r && why) *why = "grid " + show_comp(a.c[i]) + " not included in " + show_comp(b.c[i]); return r; }
  Vec wit; bool r = ref::esys_in_cons(ref::esys_of(a.c[i].S, a.n), b.c[i].S, &wit, 0);
  if (!r && why) *why = "point " + show(wit) + " of " + show(a.c[i].S) + " is outside " + show(b.c[i].S);
  return r;
}
static bool comp_equal(const Shadow& a, const Shadow& b, int i) { return comp_included(a, b, i, 0) && comp_included(b, a, i, 0); }
static bool same_value(const Shadow& a, const Shadow& b) { return a.n == b.n && comp_equal(a, b, 0) && comp_equal(a, b, 1); }

static std::string lost_class(const Shadow& R, const Vec& x) { bool m0 = R.member_comp(0, x), m1 = R.member_comp(1, x); return m0 ? "d2" : m1 ? "d1" : "both"; }

// exact (LP) test for convex x convex results: T ⊆ set(R.d1) ∩ set(R.d2).  On failure: witness, validated by arithmetic.
static int esys_in_shadow(const ESys& T, const Shadow& R, Vec& wv, std::string& which) {
  int nv = T.n + T.aux;
  for (int ci = 0; ci < 2; ++ci) for (size_t i = 0; i < R.c[ci].S.size(); ++i) {
    std::vector<Con> ng = ref::negate(R.c[ci].S[i]);
    for (size_t k = 0; k < ng.size(); ++k) {
      Sys s = T.s; for (size_t q = 0; q < s.size(); ++q) s[q].a.resize(nv);
      Con c = ng[k]; c.a.resize(nv); s.push_back(c);
      Vec w;
      if (ref::feasible(nv, s, &w)) {
        wv.assign(w.begin(), w.begin() + T.n);
        Sys ts = T.s; for (size_t q = 0; q < ts.size(); ++q) ts[q].a.resize(nv);
        if (!ref::sat(ts, w) || ref::sat(R.c[ci].S[i], wv)) return -1;   // harness bug
        which = ci ? "d2" : "d1"; return 0;
      }
    }
  }
  return 1;
}
static bool point_in_esys(const ESys& T, const Vec& x) {
  int nv = T.n + T.aux; Sys s = T.s; for (size_t q = 0; q < s.size(); ++q) s[q].a.resize(nv);
  for (int d = 0; d < T.n; ++d) { Vec a(nv); a[d] = 1; s.push_back(Con(a, x[d], ref::EQ)); }
  return ref::feasible(nv, s);
}

// ---------------------------------------------------------------- the reduction monitor
// `before`/`after`: raw components around a call that may only reduce.  who = "" (receiver) or "arg-".
static bool check_reduction(const std::string& op, const Shadow& before, const Shadow& after, const std::string& who) {
  checked(); hx::count("reduction_checks");
  if (before.n != after.n) { violation(KP + op + ".reduce_changed_intersection:" + who + "dimension", "space dimension changed"); return false; }
  for (size_t i = 0; i < before.pts.size(); ++i) if (!after.member(before.pts[i])) {
    violation(KP + op + ".reduce_changed_intersection:" + who + "lost-by-" + lost_class(after, before.pts[i]),
              "point " + show(before.pts[i]) + " of d1∩d2 is lost; before " + show_shadow(before) + " after " + show_shadow(after));
    return false;
  }
  for (int c = 0; c < 2; ++c) { std::string why; if (!comp_included(after, before, c, &why)) { violation(KP + op + ".component_grew:" + who + (c ? "d2" : "d1"), why + "; before " + show_shadow(before) + " after " + show_shadow(after)); return false; } }
  if (!g_grid_pair) {
    Vec wv; std::string which; int r = esys_in_shadow(ref::esys_of(before.conj, before.n), after, wv, which);
    if (r < 0) { violation("harness.bug.lp_witness", op); return false; }
    if (r == 0) { violation(KP + op + ".reduce_changed_intersection:" + who + "lost-by-" + which, "LP point " + show(wv) + " of d1∩d2 is lost; before " + show_shadow(before) + " after " + show_shadow(after)); return false; }
  }
  if (!before.flag && after.flag && who.empty()) hx::count(same_value(before, after) ? "reduce.no_change" : "reduce.effective." + F->red);
  return true;
}

// ---------------------------------------------------------------- argument generators
struct LE { Linear_Expression e; Vec a; Q b; };
static LE mk_le(const std::vector<int>& a, int b) {
  LE r; int n = a.size(); r.a.assign(n, Q(0));
  for (int i = 0; i < n; ++i) if (a[i] != 0) { r.e += a[i] * Variable(i); r.a[i] = a[i]; }
  r.e += b; r.b = b; return r;
}
static LE rand_le(int n, int maxc = 2, int pct_zero = 40, int maxb = 3) {
  std::vector<int> a(n, 0); for (int i = 0; i < n; ++i) if (!coin(pct_zero)) a[i] = rnd(-maxc, maxc);
  if (coin(3)) for (int i = 0; i < n; ++i) if (a[i]) a[i] *= 1000;
  return mk_le(a, rnd(-maxb, maxb));
}
static Q ev(const LE& e, const Vec& x) { return ref::dot(e.a, x) + e.b; }
// a direction that component kind k represents exactly (non-zero when n > 0)
static std::vector<int> gen_dir(int n, Kind k) {
  std::vector<int> a(n, 0); if (n == 0) return a;
  int i = rnd(0, n - 1), j = rnd(0, n - 1);
  switch (k) {
  case K_BOX: a[i] = coin() ? 1 : -1; break;
  case K_BDS: a[i] = 1; if (j != i && coin(60)) a[j] = -1; else if (coin()) a[i] = -1; break;
  case K_OCT: a[i] = coin() ? 1 : -1; if (j != i && coin(60)) a[j] = coin() ? 1 : -1; break;
  default: for (int d = 0; d < n; ++d) if (coin(60)) a[d] = rnd(-2, 2); if (a == std::vector<int>(n, 0)) a[i] = 1; break;
  }
  return a;
}
static Kind shape_kind() { return F->k2 == K_GRID ? F->k1 : F->k2; }   // the more restrictive convex component
static bool strict_rel_ok() { return F->k2 == K_GRID && (F->k1 == K_NNC || F->k1 == K_BOX); }

struct RC { Constraint c; Con q; RC() : c(Constraint::zero_dim_positivity()) {} };
// rel: 0 '>=', 1 '==', 2 '>'
static RC mk_con(const LE& e, int rel, int n) { RC r; r.c = rel == 0 ? (e.e >= 0) : rel == 1 ? (e.e == 0) : (e.e > 0); r.q = ref::conv(r.c, n); return r; }
static RC rand_rc(int n, bool strict_ok, bool shaped) {
  LE e = shaped ? mk_le(gen_dir(n, shape_kind()), rnd(-4, 4)) : rand_le(n, 2, 40, 4);
  int k = rnd(0, 9); int rel = k < 5 ? 0 : k < 8 ? 1 : (strict_ok ? 2 : 0);
  return mk_con(e, rel, n);
}
struct RG { Congruence c; Cg q; RG() : c(Congruence::zero_dim_integrality()) {} };
static RG mk_cg(const LE& e, int m, int n) { RG r; r.c = (e.e %= 0) / m; r.q = conv_cg(r.c, n); return r; }
static RG rand_rg(int n, bool equality_only) { LE e = rand_le(n, 2, 40, 3); return mk_cg(e, equality_only ? 0 : rnd(0, 4), n); }
static bool rel_holds(const Q& l, int r, const Q& rhs) { return r == 0 ? l < rhs : r == 1 ? l <= rhs : r == 2 ? l == rhs : r == 3 ? l >= rhs : l > rhs; }
static void samples_rel(const Q& t0, int r, std::vector<Q>& out) {
  static const int num[9] = { 0, 1, -1, 2, -2, 6, -6, 1, -1 }; static const int den[9] = { 1, 2, 2, 1, 1, 1, 1, 3, 3 };
  for (int i = 0; i < 9; ++i) { Q v = t0 + Q(num[i], den[i]); if (rel_holds(v, r, t0)) out.push_back(v); }
}
static void samples_any(const Q& t0, std::vector<Q>& out) { out.push_back(t0); out.push_back(Q(0)); out.push_back(t0 + Q(1, 2)); out.push_back(t0 - 1); out.push_back(Q(5, 3)); }
static int rand_rel(bool strict_ok) { int r = rnd(0, 4); if (!strict_ok) { if (r == 0) r = 1; if (r == 4) r = 3; } return r; }
static Variables_Set rand_vars(int n, std::vector<bool>& in, int pct = 40) { Variables_Set vs; in.assign(n, false); for (int i = 0; i < n; ++i) if (coin(pct)) { vs.insert(Variable(i)); in[i] = true; } return vs; }

// ---------------------------------------------------------------- initial products
static IProd* build_initial(const IFactory* f, int n, std::ostringstream& o) {
  int style = rnd(0, 99);
  Kind sk = f->k2 == K_GRID ? f->k1 : f->k2;
  bool strict = (f->k1 == K_NNC || f->k1 == K_BOX);
  if (style < 5) { bool e = coin(); o << (e ? "EMPTY" : "UNIVERSE"); return f->make(n, e); }
  if (style < 10) {   // constructors from systems (equalities are accepted by every component)
    if (coin()) { Constraint_System cs; int k = rnd(0, 2); for (int i = 0; i < k; ++i) { RC c = mk_con(rand_le(n, 2, 40, 3), 1, n); cs.insert(c.c); } o << "P(cs={" << str(cs) << "})"; try { Hold h(f->make_cs(cs, coin())); if (h->dim() == n) return h.release(); } catch (const std::invalid_argument&) { o << "[rejected]"; } }
    else { Congruence_System cgs; int k = rnd(0, 2); for (int i = 0; i < k; ++i) cgs.insert(rand_rg(n, false).c); o << "P(cgs={" << str(cgs) << "})"; try { Hold h(f->make_cgs(cgs, coin())); if (h->dim() == n) return h.release(); } catch (const std::invalid_argument&) { o << "[rejected]"; } }
    o << " -> universe instead; ";
    return f->make(n, false);
  }
  Hold h(f->make(n, false)); IProd& P = *h;
  Constraint_System cs; Congruence_System cgs;
  if (n == 0) { if (coin(20)) { cs.insert(Linear_Expression(0) >= 1); } }
  else if (style < 45) {   // thin slab between lattice hyperplanes
    std::vector<int> dir = gen_dir(n, sk);
    int m = rnd(1, 3), c = rnd(1, 3), r = rnd(0, 2);
    LE ge = mk_le(dir, 0); cgs.insert((c * ge.e + r %= 0) / m);
    int lo = rnd(-8, 8); const int widths[8] = { 0, m, 2 * m, 3 * m, 4 * m - 1, 4 * m, 4 * m + 1, 6 * m }; int w = widths[rnd(0, 7)];
    bool slo = strict && coin(35), shi = strict && coin(35);
    Linear_Expression pe = (2 * c) * ge.e;
    if (slo) cs.insert(pe > lo); else cs.insert(pe >= lo);
    if (shi) cs.insert(pe < lo + w); else cs.insert(pe <= lo + w);
    for (int i = 0; i < n; ++i) if (coin(75)) { int l = rnd(-3, 2), d = rnd(1, 2); cs.insert(d * Variable(i) >= l); cs.insert(d * Variable(i) <= l + rnd(0, 5)); }
    if (coin(35)) cgs.insert(rand_rg(n, false).c);
  }
  else if (style < 80) {   // small box / polytope + random congruences
    for (int i = 0; i < n; ++i) { int l = rnd(-4, 2), w = rnd(0, 5), d = rnd(1, 3); bool s1 = strict && coin(15), s2 = strict && coin(15);
      if (s1) cs.insert(d * Variable(i) > l); else cs.insert(d * Variable(i) >= l);
      if (s2) cs.insert(d * Variable(i) < l + w); else cs.insert(d * Variable(i) <= l + w); }
    if (n >= 2 && coin()) cs.insert(mk_con(mk_le(gen_dir(n, sk), rnd(-2, 3)), 0, n).c);
    int k = rnd(0, 2); for (int j = 0; j < k; ++j) cgs.insert(rand_rg(n, false).c);
  }
  else if (style < 90) {   // few random constraints, possibly unbounded
    int k = rnd(0, 3); for (int j = 0; j < k; ++j) cs.insert(rand_rc(n, strict, coin(60)).c);
    k = rnd(0, 2); for (int j = 0; j < k; ++j) cgs.insert(rand_rg(n, false).c);
  }
  else {   // inconsistent on purpose: each component non-empty (or not yet known empty), intersection empty
    int i = rnd(0, n - 1), v = rnd(0, 3);
    if (v == 0) { cgs.insert((Variable(i) %= 0) / 2); cs.insert(Variable(i) >= 1); cs.insert(Variable(i) <= 1); }
    else if (v == 1) { cgs.insert((Variable(i) %= 0) / 1); cs.insert(3 * Variable(i) >= 1); cs.insert(3 * Variable(i) <= 2); }
    else if (v == 2) { if (strict) { cs.insert(Variable(i) > 0); cs.insert(Variable(i) < 0); } else { cs.insert(Variable(i) >= 1); cs.insert(Variable(i) <= 0); } }
    else { cgs.insert((2 * Variable(i) %= 1) / 2); cgs.insert((Variable(i) %= 0) / 1); }
    if (coin()) cgs.insert(rand_rg(n, false).c);
  }
  o << "refine cs={" << str(cs) << "} cgs={" << str(cgs) << "}";
  if (coin(25)) { P.refine_with_congruences(cgs); P.refine_with_constraints(cs); } else { P.refine_with_constraints(cs); P.refine_with_congruences(cgs); }
  return h.release();
}

// ---------------------------------------------------------------- transformers
// expected(X, Y, out): points that the result's intersection must contain, computed from the
// enumerated points of the argument intersections by the documented definition of the operator.
// lp(X, Y, out): (convex x convex only) exact sets, each of which the result must contain.
struct Mut {
  std::string name, text, argcls;
  bool binary, may_reject;
  std::string crash_prone;   // non-empty: run the call first in a forked child (class of the arguments known to have crashed)
  std::function<void(IProd&, IProd&)> apply;
  std::function<void(const Shadow&, const Shadow&, std::vector<Vec>&)> expected;
  std::function<void(const Shadow&, const Shadow&, std::vector<ESys>&)> lp;
  Mut() : binary(false), may_reject(false) {}
};
typedef std::function<void(const Vec&, std::vector<Vec>&)> Img;
static std::function<void(const Shadow&, const Shadow&, std::vector<Vec>&)> per_point(const Img& f) {
  return [f](const Shadow& X, const Shadow&, std::vector<Vec>& out) { for (size_t i = 0; i < X.pts.size(); ++i) f(X.pts[i], out); };
}
static std::vector<size_t> pick_idx(size_t n, size_t cap) { std::vector<size_t> r; if (n <= cap) { for (size_t i = 0; i < n; ++i) r.push_back(i); } else for (size_t i = 0; i < cap; ++i) r.push_back(i * n / cap); return r; }

static void make_mut(Mut& m, int n, const Shadow& SA) {
  std::ostringstream t;
  const bool strict_ok = strict_rel_ok();
  int k = rnd(0, 99);
  if (n == 0 && k >= 30 && k < 78) k = rnd(0, 29);
  if (k < 16) {   // constraints
    int which = rnd(0, 4); static const char* nm[5] = { "refine_with_constraint", "refine_with_constraints", "add_constraint", "add_constraints", "add_recycled_constraints" };
    bool add = which >= 2; int cnt = (which == 0 || which == 2) ? 1 : rnd(0, 3);
    std::vector<RC> cv;
    for (int i = 0; i < cnt; ++i) {
      if (add && coin(75)) { LE e = (n > 0 && coin(70)) ? mk_le(gen_dir(n, K_BOX), rnd(-3, 3)) : rand_le(n, 2, 40, 3); cv.push_back(mk_con(e, 1, n)); }   // equalities: accepted by every component
      else cv.push_back(rand_rc(n, true, coin(60)));
    }
    Constraint_System cs; for (size_t i = 0; i < cv.size(); ++i) cs.insert(cv[i].c);
    m.name = nm[which]; m.may_reject = add; t << "." << nm[which] << "("; for (size_t i = 0; i < cv.size(); ++i) t << (i ? ", " : "") << str(cv[i].c); t << ")";
    m.argcls = cv.empty() ? "none" : (cv[0].q.rel == ref::EQ ? "eq" : cv[0].q.rel == ref::LT ? "strict" : "ineq");
    m.apply = [=](IProd& A, IProd&) { switch (which) { case 0: A.refine_with_constraint(cv[0].c); break; case 1: A.refine_with_constraints(cs); break; case 2: A.add_constraint(cv[0].c); break; case 3: A.add_constraints(cs); break; default: { Constraint_System tmp(cs); A.add_recycled_constraints(tmp); } } };
    m.expected = per_point([=](const Vec& x, std::vector<Vec>& out) { for (size_t i = 0; i < cv.size(); ++i) if (!ref::sat(cv[i].q, x)) return; out.push_back(x); });
    m.lp = [=](const Shadow& X, const Shadow&, std::vector<ESys>& out) { Sys s = X.conj; for (size_t i = 0; i < cv.size(); ++i) s.push_back(cv[i].q); out.push_back(ref::esys_of(s, n)); };
  }
  else if (k < 30) {   // congruences
    int which = rnd(0, 4); static const char* nm[5] = { "refine_with_congruence", "refine_with_congruences", "add_congruence", "add_congruences", "add_recycled_congruences" };
    bool add = which >= 2; int cnt = (which == 0 || which == 2) ? 1 : rnd(0, 3);
    std::vector<RG> gv; bool all_eq = true;
    for (int i = 0; i < cnt; ++i) { RG g = (add && coin(70)) ? mk_cg((n > 0 && coin(70)) ? mk_le(gen_dir(n, K_BOX), rnd(-3, 3)) : rand_le(n, 2, 40, 3), 0, n) : rand_rg(n, false); gv.push_back(g); if (g.q.m != 0) all_eq = false; }
    Congruence_System cgs; for (size_t i = 0; i < gv.size(); ++i) cgs.insert(gv[i].c);
    m.name = nm[which]; m.may_reject = add; t << "." << nm[which] << "("; for (size_t i = 0; i < gv.size(); ++i) t << (i ? ", " : "") << str(gv[i].c); t << ")";
    m.argcls = gv.empty() ? "none" : (gv[0].q.m == 0 ? "eq" : "proper");
    m.apply = [=](IProd& A, IProd&) { switch (which) { case 0: A.refine_with_congruence(gv[0].c); break; case 1: A.refine_with_congruences(cgs); break; case 2: A.add_congruence(gv[0].c); break; case 3: A.add_congruences(cgs); break; default: { Congruence_System tmp(cgs); A.add_recycled_congruences(tmp); } } };
    m.expected = per_point([=](const Vec& x, std::vector<Vec>& out) { for (size_t i = 0; i < gv.size(); ++i) if (!ref::sat_cg(gv[i].q, x)) return; out.push_back(x); });
    if (all_eq) m.lp = [=](const Shadow& X, const Shadow&, std::vector<ESys>& out) { Sys s = X.conj; for (size_t i = 0; i < gv.size(); ++i) s.push_back(Con(gv[i].q.a, gv[i].q.b, ref::EQ)); out.push_back(ref::esys_of(s, n)); };
  }
  else if (k < 42) {   // affine_image / affine_preimage
    bool pre = coin(40); int v = rnd(0, n - 1); LE e = rand_le(n, 2, 35, 3); int d = rand_den();
    m.name = pre ? "affine_preimage" : "affine_image"; t << "." << m.name << "(" << str(Variable(v)) << ", " << str(e.e) << ", " << d << ")";
    m.argcls = std::string(e.a[v] == 0 ? "noninv" : "inv") + (d < 0 ? ",den<0" : "");
    m.apply = [=](IProd& A, IProd&) { if (pre) A.affine_preimage(Variable(v), e.e, d); else A.affine_image(Variable(v), e.e, d); };
    if (!pre) m.expected = per_point([=](const Vec& x, std::vector<Vec>& out) { Vec y = x; y[v] = ev(e, x) / d; out.push_back(y); });
    else m.expected = [=](const Shadow& X, const Shadow&, std::vector<Vec>& out) {
      for (size_t i = 0; i < X.pts.size(); ++i) { const Vec& x = X.pts[i]; std::vector<Q> cand;
        if (e.a[v] != 0) { Q s = d * x[v] - e.b; for (int j = 0; j < n; ++j) if (j != v) s -= e.a[j] * x[j]; cand.push_back(s / e.a[v]); } else samples_any(x[v], cand);
        for (size_t c = 0; c < cand.size(); ++c) { Vec u = x; u[v] = cand[c]; Vec f = u; f[v] = ev(e, u) / d; if (f == x) out.push_back(u); } } };   // u is in the preimage iff its forward image is the member x
    m.lp = [=](const Shadow& X, const Shadow&, std::vector<ESys>& out) { out.push_back(ref::def_gen_affine(X.conj, n, v, 2, e.a, e.b, Q(d), pre)); };
  }
  else if (k < 52) {   // generalized affine (var form)
    bool pre = coin(40); int v = rnd(0, n - 1); LE e = rand_le(n, 2, 35, 3); int d = rand_den(); int r = rand_rel(strict_ok);
    m.name = pre ? "generalized_affine_preimage" : "generalized_affine_image"; t << "." << m.name << "(" << str(Variable(v)) << " " << REL5S[r] << " " << str(e.e) << " / " << d << ")";
    m.argcls = std::string(REL5S[r]) + (d < 0 ? ",den<0" : "") + (e.a[v] != 0 ? ",selfref" : "");
    m.apply = [=](IProd& A, IProd&) { if (pre) A.generalized_affine_preimage(Variable(v), REL5[r], e.e, d); else A.generalized_affine_image(Variable(v), REL5[r], e.e, d); };
    if (!pre) m.expected = per_point([=](const Vec& x, std::vector<Vec>& out) { std::vector<Q> s; samples_rel(ev(e, x) / d, r, s); for (size_t i = 0; i < s.size(); ++i) { Vec y = x; y[v] = s[i]; out.push_back(y); } });
    else m.expected = per_point([=](const Vec& x, std::vector<Vec>& out) { std::vector<Q> s; samples_any(x[v], s); s.push_back(x[v] + 2); s.push_back(x[v] - Q(7, 2));
      for (size_t i = 0; i < s.size(); ++i) { Vec u = x; u[v] = s[i]; if (rel_holds(x[v], r, ev(e, u) / d)) out.push_back(u); } });
    m.lp = [=](const Shadow& X, const Shadow&, std::vector<ESys>& out) { out.push_back(ref::def_gen_affine(X.conj, n, v, r, e.a, e.b, Q(d), pre)); };
  }
  else if (k < 58) {   // generalized affine (lhs/rhs form)
    bool pre = coin(40); LE l = rand_le(n, 2, 55, 2), rr = rand_le(n, 2, 40, 3); int r = rand_rel(strict_ok);
    m.name = pre ? "generalized_affine_preimage_lr" : "generalized_affine_image_lr"; t << "." << m.name << "(" << str(l.e) << " " << REL5S[r] << " " << str(rr.e) << ")";
    int nl = 0; for (int i = 0; i < n; ++i) if (l.a[i] != 0) ++nl; m.argcls = std::string(REL5S[r]) + ",lhsvars=" + std::to_string(nl);
    m.apply = [=](IProd& A, IProd&) { if (pre) A.generalized_affine_preimage(l.e, REL5[r], rr.e); else A.generalized_affine_image(l.e, REL5[r], rr.e); };
    m.expected = per_point([=](const Vec& x, std::vector<Vec>& out) {
      // candidates differ from x only on the variables of lhs; kept iff the defining relation holds
      std::vector<Vec> cand; cand.push_back(x);
      for (int j = 0; j < n; ++j) if (l.a[j] != 0) { size_t base = cand.size(); for (size_t c = 0; c < base && cand.size() < 40; ++c) { std::vector<Q> s; s.push_back(Q(0)); s.push_back(cand[c][j] + 1); s.push_back(cand[c][j] - Q(1, 2));
          // also the value making lhs == rhs exactly (w.r.t. the other current coordinates)
          { Vec u = cand[c]; u[j] = 0; Q target = pre ? Q(0) : ev(rr, x); if (!pre) s.push_back((target - ev(l, u)) / l.a[j]); }
          for (size_t q = 0; q < s.size(); ++q) { Vec u = cand[c]; u[j] = s[q]; cand.push_back(u); } } }
      for (size_t c = 0; c < cand.size(); ++c) { const Vec& u = cand[c]; bool ok = pre ? rel_holds(ev(l, x), r, ev(rr, u)) : rel_holds(ev(l, u), r, ev(rr, x)); if (ok) out.push_back(u); } });
    m.lp = [=](const Shadow& X, const Shadow&, std::vector<ESys>& out) { out.push_back(ref::def_gen_affine_lr(X.conj, n, l.a, l.b, r, rr.a, rr.b, pre)); };
  }
  else if (k < 66) {   // bounded affine
    bool pre = coin(40); int v = rnd(0, n - 1); LE lb = rand_le(n, 2, 45, 3), ub = rand_le(n, 2, 45, 3); int d = rand_den();
    m.name = pre ? "bounded_affine_preimage" : "bounded_affine_image"; t << "." << m.name << "(" << str(Variable(v)) << ", " << str(lb.e) << ", " << str(ub.e) << ", " << d << ")";
    m.argcls = std::string(d < 0 ? "den<0" : "den>0") + ((lb.a[v] != 0 || ub.a[v] != 0) ? ",selfref" : "");
    if (pre && F->k1 == K_BOX && (lb.a[v] == 0 || ub.a[v] == 0)) m.crash_prone = "bound-expr-without-var";
    m.apply = [=](IProd& A, IProd&) { if (pre) A.bounded_affine_preimage(Variable(v), lb.e, ub.e, d); else A.bounded_affine_image(Variable(v), lb.e, ub.e, d); };
    m.expected = per_point([=](const Vec& x, std::vector<Vec>& out) {
      std::vector<Q> s;
      if (!pre) { Q lo = ev(lb, x) / d, hi = ev(ub, x) / d; s.push_back(lo); s.push_back(hi); s.push_back((lo + hi) / 2); }
      else { samples_any(x[v], s); s.push_back(x[v] + 2); s.push_back(x[v] - 3); }
      for (size_t i = 0; i < s.size(); ++i) { Vec u = x; u[v] = s[i]; const Vec& arg = pre ? u : x; Q val = pre ? x[v] : u[v]; Q lo = ev(lb, arg) / d, hi = ev(ub, arg) / d; if (lo <= val && val <= hi) out.push_back(u); } });
    m.lp = [=](const Shadow& X, const Shadow&, std::vector<ESys>& out) { out.push_back(ref::def_bounded_affine(X.conj, n, v, lb.a, lb.b, ub.a, ub.b, Q(d), pre)); };
  }
  else if (k < 72) {   // unconstrain
    std::vector<bool> in; Variables_Set vs; int v = rnd(0, n - 1); bool set = coin();
    if (set) vs = rand_vars(n, in); else { in.assign(n, false); in[v] = true; }
    m.name = set ? "unconstrain_set" : "unconstrain"; t << "." << m.name << "("; for (int i = 0; i < n; ++i) if (in[i]) t << str(Variable(i)) << " "; t << ")";
    m.apply = [=](IProd& A, IProd&) { if (set) A.unconstrain(vs); else A.unconstrain(Variable(v)); };
    m.expected = per_point([=](const Vec& x, std::vector<Vec>& out) { out.push_back(x); for (int i = 0; i < n; ++i) if (in[i]) { Vec u = x; u[i] = x[i] + Q(7, 3); out.push_back(u); u[i] = Q(-11, 2); out.push_back(u); } });
    m.lp = [=](const Shadow& X, const Shadow&, std::vector<ESys>& out) { out.push_back(ref::def_unconstrain(X.conj, n, in)); };
  }
  else if (k < 75) {
    m.name = "topological_closure_assign"; t << "." << m.name << "()";
    m.apply = [](IProd& A, IProd&) { A.topological_closure_assign(); };
    m.expected = per_point([](const Vec& x, std::vector<Vec>& out) { out.push_back(x); });
    m.lp = [=](const Shadow& X, const Shadow&, std::vector<ESys>& out) { out.push_back(ref::esys_of(X.conj, n)); };
  }
  else if (k < 78) {
    std::vector<bool> in; bool set = coin(); Variables_Set vs; if (set) vs = rand_vars(n, in, 60); else in.assign(n, true); bool poly = coin(70);
    m.name = set ? "drop_some_non_integer_points_set" : "drop_some_non_integer_points"; t << "." << m.name << "("; if (set) for (int i = 0; i < n; ++i) if (in[i]) t << str(Variable(i)) << " "; t << (poly ? "POLYNOMIAL" : "ANY") << ")";
    m.apply = [=](IProd& A, IProd&) { Complexity_Class c = poly ? POLYNOMIAL_COMPLEXITY : ANY_COMPLEXITY; if (set) A.drop_some_non_integer_points(vs, c); else A.drop_some_non_integer_points(c); };
    m.expected = per_point([=](const Vec& x, std::vector<Vec>& out) { for (int i = 0; i < n; ++i) if (in[i] && !ref::is_int(x[i])) return; out.push_back(x); });
  }
  else {   // binary
    m.binary = true; int b = rnd(0, 21);
    if (b < 5) { m.name = "intersection_assign"; m.apply = [](IProd& A, IProd& B) { A.intersection_assign(B); };
      m.expected = [](const Shadow& X, const Shadow& Y, std::vector<Vec>& out) { for (size_t i = 0; i < X.pts.size(); ++i) if (Y.member(X.pts[i])) out.push_back(X.pts[i]); };
      m.lp = [=](const Shadow& X, const Shadow& Y, std::vector<ESys>& out) { Sys s = X.conj; s.insert(s.end(), Y.conj.begin(), Y.conj.end()); out.push_back(ref::esys_of(s, n)); }; }
    else if (b < 10) { bool ex = b >= 8; m.name = ex ? "upper_bound_assign_if_exact" : "upper_bound_assign";
      std::shared_ptr<bool> took(new bool(true));
      m.apply = [=](IProd& A, IProd& B) { if (ex) *took = A.upper_bound_assign_if_exact(B); else A.upper_bound_assign(B); };
      m.expected = [=](const Shadow& X, const Shadow& Y, std::vector<Vec>& out) { out = X.pts; if (*took) out.insert(out.end(), Y.pts.begin(), Y.pts.end()); else hx::count("ub_if_exact.false"); };
      m.lp = [=](const Shadow& X, const Shadow& Y, std::vector<ESys>& out) { out.push_back(ref::esys_of(X.conj, n)); if (*took) out.push_back(ref::esys_of(Y.conj, n)); }; }
    else if (b < 13) { m.name = "difference_assign"; m.apply = [](IProd& A, IProd& B) { A.difference_assign(B); };
      m.expected = [](const Shadow& X, const Shadow& Y, std::vector<Vec>& out) { for (size_t i = 0; i < X.pts.size(); ++i) if (!Y.member(X.pts[i])) out.push_back(X.pts[i]); };
      m.lp = [=](const Shadow& X, const Shadow& Y, std::vector<ESys>& out) { for (size_t i = 0; i < Y.conj.size(); ++i) { std::vector<Con> ng = ref::negate(Y.conj[i]); for (size_t q = 0; q < ng.size(); ++q) { Sys s = X.conj; Con c = ng[q]; c.a.resize(n); s.push_back(c); out.push_back(ref::esys_of(s, n)); } } }; }
    else if (b < 17) { m.name = "time_elapse_assign"; m.apply = [](IProd& A, IProd& B) { A.time_elapse_assign(B); };
      // p + mu q with mu a non-negative integer is in the documented result of every component domain (grids: mu in Z, others: mu >= 0 real)
      m.expected = [=](const Shadow& X, const Shadow& Y, std::vector<Vec>& out) { std::vector<size_t> ix = pick_idx(X.pts.size(), 25), iy = pick_idx(Y.pts.size(), 12);
        for (size_t i = 0; i < ix.size(); ++i) for (size_t j = 0; j < iy.size(); ++j) for (int mu = 0; mu <= 2; ++mu) { Vec u = X.pts[ix[i]]; for (int d = 0; d < n; ++d) u[d] += mu * Y.pts[iy[j]][d]; out.push_back(u);
          if (!g_grid_pair && mu == 1) { Vec h = X.pts[ix[i]]; for (int d = 0; d < n; ++d) h[d] += Y.pts[iy[j]][d] / 2; out.push_back(h); } } };
      m.lp = [=](const Shadow& X, const Shadow& Y, std::vector<ESys>& out) {
        if (!ref::feasible(n, Y.conj)) return;
        out.push_back(ref::esys_of(X.conj, n));
        // w = p + q', p in X, A_Y q' <= t b_Y, t > 0 :  visible w [0,n), aux p [n,2n), q' [2n,3n), t at 3n
        ESys T; T.n = n; T.aux = 2 * n + 1; int nv = 3 * n + 1;
        for (size_t i = 0; i < X.conj.size(); ++i) T.s.push_back(ref::shift(X.conj[i], nv, n));
        for (size_t i = 0; i < Y.conj.size(); ++i) { Con c = ref::shift(Y.conj[i], nv, 2 * n); c.a[3 * n] = -Y.conj[i].b; c.b = 0; T.s.push_back(c); }
        { Vec a(nv); a[3 * n] = -1; T.s.push_back(Con(a, Q(0), ref::LT)); }
        for (int d = 0; d < n; ++d) { Vec a(nv); a[d] = 1; a[n + d] = -1; a[2 * n + d] = -1; T.s.push_back(Con(a, Q(0), ref::EQ)); }
        out.push_back(T); }; }
    else { m.name = "widening_assign"; bool tok = coin(30); std::shared_ptr<unsigned> tokens(new unsigned(rnd(0, 2)));
      // precondition "y is contained in *this" is established componentwise by first joining y into the receiver
      m.apply = [=](IProd& A, IProd& B) { A.upper_bound_assign(B); A.widening_assign(B, tok ? tokens.get() : 0); };
      m.expected = [](const Shadow& X, const Shadow& Y, std::vector<Vec>& out) { out = X.pts; out.insert(out.end(), Y.pts.begin(), Y.pts.end()); };
      m.lp = [=](const Shadow& X, const Shadow& Y, std::vector<ESys>& out) { out.push_back(ref::esys_of(X.conj, n)); out.push_back(ref::esys_of(Y.conj, n)); };
      m.argcls = tok ? "tokens" : "notokens"; }
    t << "." << m.name << "(B)";
  }
  m.text = t.str();
}

// result R must contain every expected point (arithmetic) and, convex x convex, every exact set (LP)
static bool check_contains(const std::string& op, const Shadow& R, const std::vector<Vec>& exp, const std::vector<ESys>& Ts, const std::function<std::string(const Vec&)>& cls, const std::string& ctx) {
  checked(); hx::count("image_checks"); hx::count("image_points", exp.size());
  for (size_t i = 0; i < exp.size(); ++i) if (!R.member(exp[i])) {
    std::string c = cls ? cls(exp[i]) : lost_class(R, exp[i]);
    violation(KP + op + ".lost_point:" + c, "point " + show(exp[i]) + " of the exact image is not in the result; " + ctx + " result " + show_shadow(R));
    return false;
  }
  if (!g_grid_pair && !Ts.empty()) {
    // hygiene: the two formulations of the definition (points, ESys) must agree
    std::vector<size_t> ix = pick_idx(exp.size(), 3);
    for (size_t i = 0; i < ix.size(); ++i) { bool in = false; for (size_t q = 0; q < Ts.size() && !in; ++q) in = point_in_esys(Ts[q], exp[ix[i]]); if (!in) { violation("harness.bug.defs_mismatch." + op, "expected point " + show(exp[ix[i]]) + " is in no exact set"); return false; } }
    for (size_t q = 0; q < Ts.size(); ++q) {
      Vec wv; std::string which; checked(); hx::count("lp_image_checks");
      int r = esys_in_shadow(Ts[q], R, wv, which);
      if (r < 0) { violation("harness.bug.lp_witness", op); return false; }
      if (r == 0) { std::string c = cls ? cls(wv) : which; violation(KP + op + ".lost_point:" + c, "LP point " + show(wv) + " of the exact image is not in the result; " + ctx + " result " + show_shadow(R)); return false; }
    }
  }
  return true;
}
// component invariants first: observing a component whose OK() is false may crash
static bool check_comps_OK(const std::string& op, const IProd& A) {
  bool o1 = true, o2 = true; A.comps_OK(o1, o2); checked(); hx::count("comp_OK_checks");
  if (o1 && o2) return true;
  violation(KP + op + ".OK_false:" + (!o1 ? "d1" : "d2"), "OK() of component " + std::string(!o1 ? "d1" : "d2") + " is false after the operation:\n" + A.dump().substr(0, 1500));
  return false;
}
static bool check_OK(const std::string& op, const IProd& A) {
  checked(); hx::count("OK_checks");
  if (A.OK()) return true;
  bool o1 = true, o2 = true; A.comps_OK(o1, o2);
  Shadow s = observe(A); bool e1 = comp_is_empty(s, 0), e2 = comp_is_empty(s, 1);
  violation(KP + op + ".OK_false:" + (!o1 ? "d1" : !o2 ? "d2" : (e1 != e2) ? "reduced-flag-stale,one-component-empty" : "reduced-flag-stale"), "OK() is false after the operation; " + show_shadow(s));
  return false;
}

// Runs f in a forked child; returns 0 if the child survived, else the signal that killed it.
static int probe_crash(const std::function<void()>& f) {
  fflush(0);
  pid_t pid = fork();
  if (pid < 0) return 0;
  if (pid == 0) {
    signal(SIGFPE, SIG_DFL); signal(SIGSEGV, SIG_DFL); signal(SIGABRT, SIG_DFL); signal(SIGBUS, SIG_DFL);
    try { f(); } catch (...) {}
    _exit(0);
  }
  int st = 0; if (waitpid(pid, &st, 0) < 0) return 0;
  if (WIFSIGNALED(st)) return WTERMSIG(st);
  return (WIFEXITED(st) && WEXITSTATUS(st) != 0) ? 1000 + WEXITSTATUS(st) : 0;
}
static bool g_probe_all = false;

// returns false when the case must stop
static bool run_mutator(IProd& A, IProd& B, bool alias, const Shadow& SA, const Shadow& SB, const std::string& pre, const std::string& bname) {
  int n = SA.n; Mut m; make_mut(m, n, SA);
  std::string text = m.text; size_t pb = text.find("(B)"); if (pb != std::string::npos) text.replace(pb, 3, "(" + bname + ")");
  tr(pre + text); hx::count("op." + m.name);
  if (nontrivial(SA)) hx::distinct(F->inst + "|" + m.name + "|" + inter_class(SA) + "|" + m.argcls + (m.binary ? "|" + inter_class(SB) + (alias ? "|alias" : "") : ""));
  bool rejected = false;
  if (!m.crash_prone.empty() || g_probe_all) {
    hx::count("fork_probes");
    int sig = probe_crash([&]() { Hold ca(A.clone()), cb(B.clone()); m.apply(*ca, *cb); });
    if (sig) { violation(KP + m.name + ".crash:" + (sig == SIGFPE ? "SIGFPE" : sig == SIGSEGV ? "SIGSEGV" : sig == SIGABRT ? "SIGABRT" : "other") + (m.crash_prone.empty() ? "" : "," + m.crash_prone), "the call kills the process (observed in a forked child, signal/status " + std::to_string(sig) + "); receiver " + show_shadow(SA)); return false; }
  }
  try { m.apply(A, B); }
  catch (const std::invalid_argument& e) { if (!m.may_reject) { violation(KP + m.name + ".unexpected_exception:invalid_argument", e.what()); return false; } rejected = true; hx::count("rejected." + m.name); }
  if (!check_comps_OK(m.name, A)) return false;
  Shadow RA = observe(A);
  std::vector<Vec> exp; m.expected(SA, SB, exp);
  std::vector<ESys> Ts; if (!g_grid_pair && m.lp) m.lp(SA, SB, Ts);
  std::function<std::string(const Vec&)> cls;
  if (m.name == "difference_assign") cls = [&](const Vec& x) { bool y0 = SB.member_comp(0, x), y1 = SB.member_comp(1, x); return std::string((y0 != y1) ? "point-in-one-component-of-subtrahend" : "point-outside-both-components-of-subtrahend") + "," + lost_class(RA, x); };
  else if (!m.argcls.empty() && (m.name.find("affine") != std::string::npos)) cls = [&](const Vec& x) { return lost_class(RA, x) + "," + m.argcls; };
  if (!check_contains(m.name, RA, exp, Ts, cls, "receiver " + show_shadow(SA) + (m.binary ? " argument " + show_shadow(SB) : ""))) return false;
  if (!rejected && coin(50) && !check_OK(m.name, A)) return false;
  if (m.binary && !alias) { Shadow RB = observe(B); if (!check_reduction(m.name, SB, RB, "arg-")) return false; }
  return true;
}

// ---------------------------------------------------------------- queries: reductions + definite answers
// an unbounded direction of d1∩d2 (optionally with obj.r > 0): x0 + k r is a member for every k >= 0
static bool unbounded_witness(const Shadow& s, const Vec* obj, Vec& x0, Vec& r) {
  if (s.pts.empty() || s.EL.empty) return false;
  std::vector<Vec> V = s.EL.params; int np = V.size(); V.insert(V.end(), s.EL.lines.begin(), s.EL.lines.end()); int K = V.size(); int n = s.n;
  Sys T; for (size_t i = 0; i < s.conj.size(); ++i) { Vec a(K); for (int k = 0; k < K; ++k) a[k] = ref::dot(s.conj[i].a, V[k]); T.push_back(Con(a, Q(0), s.conj[i].rel == ref::EQ ? ref::EQ : ref::LE)); }
  std::vector<Vec> goals;
  if (obj) { Vec g(K); for (int k = 0; k < K; ++k) g[k] = ref::dot(*obj, V[k]); goals.push_back(g); }
  else for (int k = 0; k < K; ++k) for (int sg = -1; sg <= 1; sg += 2) { Vec g(K); g[k] = sg; goals.push_back(g); }
  for (size_t gi = 0; gi < goals.size(); ++gi) {
    Sys s2 = T; Vec ng(K); for (int k = 0; k < K; ++k) ng[k] = -goals[gi][k]; s2.push_back(Con(ng, Q(-1), ref::LE));
    Vec t; if (!ref::feasible(K, s2, &t)) continue;
    mpz_class l = 1; for (int k = 0; k < np; ++k) { mpz_class d = t[k].get_den(); mpz_lcm(l.get_mpz_t(), l.get_mpz_t(), d.get_mpz_t()); }
    r.assign(n, Q(0)); for (int k = 0; k < K; ++k) for (int d = 0; d < n; ++d) r[d] += t[k] * Q(l) * V[k][d];
    x0 = s.pts[0]; Vec x1 = x0, x7 = x0; for (int d = 0; d < n; ++d) { x1[d] += r[d]; x7[d] += 7 * r[d]; }
    bool nz = false; for (int d = 0; d < n; ++d) if (r[d] != 0) nz = true;
    if (nz && s.member(x1) && s.member(x7) && (!obj || ref::dot(*obj, r) > 0)) return true;   // second evaluation by plain arithmetic
  }
  return false;
}
static int affine_rank(const std::vector<Vec>& pts, int n) {
  if (pts.size() < 2) return 0; std::vector<Vec> M; std::vector<size_t> ix = pick_idx(pts.size(), 60);
  for (size_t i = 1; i < ix.size(); ++i) { Vec d(n); for (int k = 0; k < n; ++k) d[k] = pts[ix[i]][k] - pts[0][k]; M.push_back(d); }
  return ref::rank_of(M, n);
}
static void wrong(const std::string& op, const std::string& cls, const std::string& detail, const Shadow& S) { violation(KP + op + ".wrong_definite_answer:" + cls, detail + "; " + show_shadow(S)); }
static std::string rel_src(bool b1, bool b2) { return b1 && b2 ? "from-both" : b1 ? "from-d1" : b2 ? "from-d2" : "from-neither"; }

static bool run_query(IProd& A, IProd& B, bool alias, const Shadow& SA, const Shadow& SB, const std::string& pre, const std::string& bname) {
  int n = SA.n; int q = rnd(0, 27); if (n == 0 && (q == 13 || q == 14)) q = 1;
  static const char* nm[28] = { "reduce", "is_empty", "is_empty", "is_universe", "is_bounded", "contains", "strictly_contains", "is_disjoint_from", "relation_with_constraint", "relation_with_constraint",
    "relation_with_congruence", "relation_with_generator", "bounds_from_above", "constrains", "bounds_from_below", "maximize", "minimize", "affine_dimension", "constraints", "minimized_constraints",
    "congruences", "minimized_congruences", "domains", "equals", "is_discrete", "is_topologically_closed", "memory_hash", "reduce" };
  std::string op = nm[q]; hx::count("op." + op);
  bool binary = (q == 5 || q == 6 || q == 7 || q == 23);
  if (nontrivial(SA)) hx::distinct(F->inst + "|" + op + "|" + inter_class(SA) + (binary ? "|" + inter_class(SB) : ""));
  // arguments
  RC rc; RG rg; LE le; bool with_gen = coin(); Vec gp; int var = n ? rnd(0, n - 1) : 0; std::ostringstream t; t << "." << op << "(";
  if (q == 8 || q == 9) { rc = rand_rc(n, true, coin()); t << str(rc.c); }
  if (q == 10) { rg = rand_rg(n, false); t << str(rg.c); }
  if (q == 11) { if (!SA.pts.empty() && coin(60)) gp = SA.pts[rnd(0, (int) SA.pts.size() - 1)]; else { gp.assign(n, Q(0)); for (int i = 0; i < n; ++i) gp[i] = Q(rnd(-6, 6), rnd(1, 3)); } for (int i = 0; i < n; ++i) gp[i].canonicalize(); t << "point" << show(gp); }
  if (q == 12 || q == 14 || q == 15 || q == 16) { le = rand_le(n, 2, 40, 3); t << str(le.e) << ((q >= 15 && with_gen) ? ", g" : ""); }
  if (q == 13) t << str(Variable(var));
  if (binary) t << bname;
  t << ")"; tr(pre + t.str());
  // call
  bool ans = false; Poly_Con_Relation pcr = Poly_Con_Relation::nothing(); Poly_Gen_Relation pgr = Poly_Gen_Relation::nothing(); MaxRes mr; long ad = 0; Constraint_System rcs; Congruence_System rcgs; long h1 = 0, h2 = 0;
  switch (q) {
  case 0: case 27: (void) A.reduce(); break;
  case 1: case 2: ans = A.is_empty(); break;
  case 3: ans = A.is_universe(); break;
  case 4: ans = A.is_bounded(); break;
  case 5: ans = A.contains(B); break;
  case 6: ans = A.strictly_contains(B); break;
  case 7: ans = A.is_disjoint_from(B); break;
  case 8: case 9: pcr = A.relation_with(rc.c); break;
  case 10: pcr = A.relation_with(rg.c); break;
  case 11: { mpz_class l = 1; for (int i = 0; i < n; ++i) { mpz_class d = gp[i].get_den(); mpz_lcm(l.get_mpz_t(), l.get_mpz_t(), d.get_mpz_t()); } Linear_Expression e; for (int i = 0; i < n; ++i) { Q v = gp[i] * Q(l); e += Coefficient(v.get_num()) * Variable(i); } if (n > 0) e += 0 * Variable(n - 1); pgr = A.relation_with(point(e, Coefficient(l))); break; }
  case 12: ans = A.bounds_from_above(le.e); break;
  case 13: ans = A.constrains(Variable(var)); break;
  case 14: ans = A.bounds_from_below(le.e); break;
  case 15: mr = A.maximize(le.e, with_gen); break;
  case 16: mr = A.minimize(le.e, with_gen); break;
  case 17: ad = A.affine_dimension(); break;
  case 18: rcs = A.constraints(false); break;
  case 19: rcs = A.constraints(true); break;
  case 20: rcgs = A.congruences(false); break;
  case 21: rcgs = A.congruences(true); break;
  case 22: A.touch_domains(); break;
  case 23: ans = A.equals(B); h1 = A.hash_code(); h2 = B.hash_code(); break;
  case 24: ans = A.is_discrete(); break;
  case 25: ans = A.is_topologically_closed(); break;
  default: A.memory(); (void) A.hash_code(); break;
  }
  // every const member may at most reduce
  if (!check_comps_OK(op, A)) return false;
  Shadow RA = observe(A);
  if (!check_reduction(op, SA, RA, "")) return false;
  if (binary && !alias) { Shadow RB = observe(B); if (!check_reduction(op, SB, RB, "arg-")) return false; }
  if (coin(30) && !check_OK(op, A)) return false;
  // definite answers
  checked(); hx::count("answer_checks");
  const bool lp = !g_grid_pair;
  switch (q) {
  case 1: case 2:
    hx::count(ans ? "is_empty.true" : "is_empty.false");
    if (ans && !SA.pts.empty()) { wrong(op, "true-but-point", "is_empty() is true but " + show(SA.pts[0]) + " is in d1∩d2", SA); return false; }
    if (ans && lp) { Vec w; if (ref::feasible(n, SA.conj, &w)) { if (!ref::sat(SA.conj, w)) { violation("harness.bug.lp_witness", op); return false; } wrong(op, "true-but-point", "is_empty() is true but LP point " + show(w) + " is in d1∩d2", SA); return false; } }
    if (!ans && ((SA.complete && SA.pts.empty()) || (lp && !ref::feasible(n, SA.conj)))) hx::count("is_empty.false_on_empty_intersection." + F->red);
    break;
  case 3: {
    bool u = comp_is_universe(SA, 0) && comp_is_universe(SA, 1);
    if (ans) { Vec x(n); for (int i = 0; i < n; ++i) x[i] = Q(rnd(-50, 50), rnd(1, 7)); for (int i = 0; i < n; ++i) x[i].canonicalize(); if (!SA.member(x)) { wrong(op, "true-but-point-outside", "is_universe() is true but " + show(x) + " is not in d1∩d2", SA); return false; } }
    else if (u) { wrong(op, "false-but-universe", "is_universe() is false but both components are the universe", SA); return false; }
    break; }
  case 4:
    if (ans) { Vec x0, r; if (unbounded_witness(SA, 0, x0, r)) { wrong(op, "true-but-unbounded", "is_bounded() is true but " + show(x0) + " + k*" + show(r) + " is in d1∩d2 for all k>=0", SA); return false; } }
    break;
  case 5: case 6:
    hx::count(ans ? op + ".true" : op + ".false");
    if (ans) {
      for (size_t i = 0; i < SB.pts.size(); ++i) if (!SA.member(SB.pts[i])) { wrong(op, "true-but-point-outside", op + " is true but " + show(SB.pts[i]) + " of the argument is not in the receiver; argument " + show_shadow(SB), SA); return false; }
      if (lp) { Vec wv; std::string which; int r = esys_in_shadow(ref::esys_of(SB.conj, n), SA, wv, which); if (r < 0) { violation("harness.bug.lp_witness", op); return false; } if (r == 0) { wrong(op, "true-but-point-outside", op + " is true but LP point " + show(wv) + " of the argument is not in the receiver; argument " + show_shadow(SB), SA); return false; } }
      if (q == 6) { bool eq = true; for (size_t i = 0; i < SA.pts.size() && eq; ++i) if (!SB.member(SA.pts[i])) eq = false; if (eq && !SA.pts.empty()) hx::count("strictly_contains.true_but_no_extra_point_seen"); }
    }
    break;
  case 7:
    if (ans) {
      for (size_t i = 0; i < SA.pts.size(); ++i) if (SB.member(SA.pts[i])) { wrong(op, "true-but-common-point", "is_disjoint_from is true but " + show(SA.pts[i]) + " is in both; argument " + show_shadow(SB), SA); return false; }
      for (size_t i = 0; i < SB.pts.size(); ++i) if (SA.member(SB.pts[i])) { wrong(op, "true-but-common-point", "is_disjoint_from is true but " + show(SB.pts[i]) + " is in both; argument " + show_shadow(SB), SA); return false; }
      if (lp) { Sys s = SA.conj; s.insert(s.end(), SB.conj.begin(), SB.conj.end()); Vec w; if (ref::feasible(n, s, &w)) { wrong(op, "true-but-common-point", "is_disjoint_from is true but LP point " + show(w) + " is in both; argument " + show_shadow(SB), SA); return false; } }
    }
    break;
  case 8: case 9: case 10: {
    bool inc = pcr.implies(Poly_Con_Relation::is_included()), dis = pcr.implies(Poly_Con_Relation::is_disjoint()), sat = pcr.implies(Poly_Con_Relation::saturates());
    if (pcr.implies(Poly_Con_Relation::strictly_intersects())) hx::count("relation.strictly_intersects");
    Poly_Con_Relation r1 = Poly_Con_Relation::nothing(), r2 = r1; if (q == 10) A.comp_relation(rg.c, r1, r2); else A.comp_relation(rc.c, r1, r2);
    auto holds = [&](const Vec& x) { return q == 10 ? ref::sat_cg(rg.q, x) : ref::sat(rc.q, x); };
    auto on_plane = [&](const Vec& x) { if (q == 10) return ref::dot(rg.q.a, x) == rg.q.b; return ref::dot(rc.q.a, x) == rc.q.b; };
    for (size_t i = 0; i < SA.pts.size(); ++i) {
      const Vec& x = SA.pts[i];
      if (inc && !holds(x)) { wrong(op, "included-but-point-violates," + rel_src(r1.implies(Poly_Con_Relation::is_included()), r2.implies(Poly_Con_Relation::is_included())), "is_included reported but " + show(x) + " of d1∩d2 violates it", SA); return false; }
      if (dis && holds(x)) { wrong(op, "disjoint-but-point-satisfies," + rel_src(r1.implies(Poly_Con_Relation::is_disjoint()), r2.implies(Poly_Con_Relation::is_disjoint())), "is_disjoint reported but " + show(x) + " of d1∩d2 satisfies it", SA); return false; }
      if (sat && q != 10 && !on_plane(x)) { wrong(op, "saturates-but-point-off-hyperplane," + rel_src(r1.implies(Poly_Con_Relation::saturates()), r2.implies(Poly_Con_Relation::saturates())), "saturates reported but " + show(x) + " of d1∩d2 is not on the hyperplane", SA); return false; }
    }
    if (lp && q != 10) {
      if (inc) { Vec wv; if (!ref::esys_in_cons(ref::esys_of(SA.conj, n), Sys(1, rc.q), &wv, 0)) { wrong(op, "included-but-point-violates," + rel_src(r1.implies(Poly_Con_Relation::is_included()), r2.implies(Poly_Con_Relation::is_included())), "is_included reported but LP point " + show(wv) + " violates it", SA); return false; } }
      if (dis) { Sys s = SA.conj; s.push_back(rc.q); Vec w; if (ref::feasible(n, s, &w)) { wrong(op, "disjoint-but-point-satisfies," + rel_src(r1.implies(Poly_Con_Relation::is_disjoint()), r2.implies(Poly_Con_Relation::is_disjoint())), "is_disjoint reported but LP point " + show(w) + " satisfies it", SA); return false; } }
    }
    break; }
  case 11:
    if (pgr == Poly_Gen_Relation::subsumes() && !SA.member(gp)) { wrong(op, "subsumes-but-not-member,missing-in-" + lost_class(SA, gp), "subsumes reported but the point is not in d1∩d2", SA); return false; }
    break;
  case 12: case 14:
    if (ans) { Vec o = le.a; if (q == 14) for (int i = 0; i < n; ++i) o[i] = -o[i]; Vec x0, r; if (unbounded_witness(SA, &o, x0, r)) { wrong(op, "true-but-unbounded", op + " is true but " + show(x0) + " + k*" + show(r) + " is in d1∩d2 for all k>=0", SA); return false; } }
    break;
  case 15: case 16:
    if (mr.ok) {
      int sg = q == 15 ? 1 : -1;
      for (size_t i = 0; i < SA.pts.size(); ++i) { Q v = ev(le, SA.pts[i]); bool bad = sg > 0 ? (mr.attained ? v > mr.val : v >= mr.val) : (mr.attained ? v < mr.val : v <= mr.val);
        if (bad) { std::ostringstream d; d << op << " returned " << mr.val << (mr.attained ? " (attained)" : " (not attained)") << " but " << show(SA.pts[i]) << " of d1∩d2 has value " << v; wrong(op, mr.attained ? "bound-exceeded" : "open-bound-reached", d.str(), SA); return false; } }
      if (lp) { Vec o = le.a; if (sg < 0) for (int i = 0; i < n; ++i) o[i] = -o[i]; ref::SupResult s = ref::supremum(n, SA.conj, o); Q exact = s.bounded ? Q(sg * s.sup + le.b) : Q(0);
        if (s.nonempty && (!s.bounded || (sg > 0 ? exact > mr.val : exact < mr.val))) { std::ostringstream d; d << op << " returned " << mr.val << " but the exact bound over d1∩d2 is " << exact << (s.bounded ? "" : " (unbounded)"); wrong(op, "bound-exceeded", d.str(), SA); return false; } }
    }
    break;
  case 17:
    if (!SA.pts.empty() && affine_rank(SA.pts, n) > ad) { wrong(op, "smaller-than-points", "affine_dimension() = " + std::to_string(ad) + " but enumerated points of d1∩d2 span dimension " + std::to_string(affine_rank(SA.pts, n)), SA); return false; }
    break;
  case 18: case 19: {
    Sys rs = ref::conv(rcs, n);
    for (size_t i = 0; i < SA.pts.size(); ++i) for (size_t c = 0; c < rs.size(); ++c) if (!ref::sat(rs[c], SA.pts[i])) { wrong(op, "point-violates-reported-constraint", show(SA.pts[i]) + " of d1∩d2 violates " + show(rs[c]), SA); return false; }
    if (lp) { Vec wv; if (!ref::esys_in_cons(ref::esys_of(SA.conj, n), rs, &wv, 0)) { wrong(op, "point-violates-reported-constraint", "LP point " + show(wv) + " of d1∩d2 violates " + show(rs), SA); return false; } }
    break; }
  case 20: case 21: {
    std::vector<Cg> gs = conv_cgs(rcgs, n);
    for (size_t i = 0; i < SA.pts.size(); ++i) for (size_t c = 0; c < gs.size(); ++c) if (!ref::sat_cg(gs[c], SA.pts[i])) { wrong(op, "point-violates-reported-congruence", show(SA.pts[i]) + " of d1∩d2 violates " + str(rcgs), SA); return false; }
    break; }
  case 23:
    if (ans) {
      for (size_t i = 0; i < SA.pts.size(); ++i) if (!SB.member(SA.pts[i])) { wrong(op, "equal-but-point-differs", show(SA.pts[i]) + " is in the receiver only; argument " + show_shadow(SB), SA); return false; }
      for (size_t i = 0; i < SB.pts.size(); ++i) if (!SA.member(SB.pts[i])) { wrong(op, "equal-but-point-differs", show(SB.pts[i]) + " is in the argument only; argument " + show_shadow(SB), SA); return false; }
      if (h1 != h2) { wrong(op, "equal-but-hash-differs", "x == y but hash codes differ", SA); return false; }
    }
    break;
  default: break;
  }
  return true;
}

// ---------------------------------------------------------------- dimension-changing operations (on a copy)
static Vec drop_coords(const Vec& x, const std::vector<bool>& rm) { Vec y; for (size_t i = 0; i < x.size(); ++i) if (!rm[i]) y.push_back(x[i]); return y; }
static bool run_dims(const IProd& A, IProd& B, const Shadow& SA, const Shadow& SB, const std::string& pre, const std::string& bname) {
  int n = SA.n; Hold hc(A.clone()); IProd& C = *hc;
  std::vector<Vec> exp; std::vector<ESys> Ts; std::string op; std::ostringstream t;
  int k = rnd(0, 7); if (n == 0 && k >= 2 && k <= 6) k = rnd(0, 1);
  const bool lp = !g_grid_pair;
  if (k <= 1) { int m = rnd(0, 2); bool proj = (k == 1); op = proj ? "add_space_dimensions_and_project" : "add_space_dimensions_and_embed"; t << "." << op << "(" << m << ")"; tr(pre + t.str());
    if (proj) C.add_space_dimensions_and_project(m); else C.add_space_dimensions_and_embed(m);
    for (size_t i = 0; i < SA.pts.size(); ++i) { Vec y = SA.pts[i]; y.resize(n + m, Q(0)); exp.push_back(y); if (!proj && m > 0) { y[n] = Q(7, 3); y[n + m - 1] = Q(-5, 2); exp.push_back(y); } }
    if (lp) Ts.push_back(ref::def_add_dims(SA.conj, n, m, proj)); }
  else if (k == 2 || k == 3) { std::vector<bool> rm(n, false); Variables_Set vs; int nd = rnd(0, n);
    if (k == 2) { vs = rand_vars(n, rm); op = "remove_space_dimensions"; t << "." << op << "("; for (int i = 0; i < n; ++i) if (rm[i]) t << str(Variable(i)) << " "; t << ")"; }
    else { for (int i = nd; i < n; ++i) rm[i] = true; op = "remove_higher_space_dimensions"; t << "." << op << "(" << nd << ")"; }
    tr(pre + t.str());
    if (k == 2) C.remove_space_dimensions(vs); else C.remove_higher_space_dimensions(nd);
    for (size_t i = 0; i < SA.pts.size(); ++i) exp.push_back(drop_coords(SA.pts[i], rm));
    if (lp) { std::vector<int> keep; for (int i = 0; i < n; ++i) if (!rm[i]) keep.push_back(i); Ts.push_back(ref::def_project_onto(SA.conj, n, keep)); } }
  else if (k == 4) { std::vector<int> img(n, -1), kept; for (int i = 0; i < n; ++i) if (coin(75)) kept.push_back(i);
    std::vector<int> perm(kept.size()); for (size_t i = 0; i < perm.size(); ++i) perm[i] = i; std::shuffle(perm.begin(), perm.end(), hx::rng());
    Partial_Function pf; op = "map_space_dimensions"; t << "." << op << "("; for (size_t i = 0; i < kept.size(); ++i) { img[kept[i]] = perm[i]; pf.insert(kept[i], perm[i]); t << kept[i] << "->" << perm[i] << " "; } t << ")"; tr(pre + t.str());
    C.map_space_dimensions(pf); int m = kept.size();
    for (size_t i = 0; i < SA.pts.size(); ++i) { Vec y(m); for (int j = 0; j < n; ++j) if (img[j] >= 0) y[img[j]] = SA.pts[i][j]; exp.push_back(y); }
    if (lp) Ts.push_back(ref::def_map_dims(SA.conj, n, img, m)); }
  else if (k == 5) { int v = rnd(0, n - 1), m = rnd(0, 2); op = "expand_space_dimension"; t << "." << op << "(" << str(Variable(v)) << ", " << m << ")"; tr(pre + t.str());
    C.expand_space_dimension(Variable(v), m);
    std::vector<size_t> ix = pick_idx(SA.pts.size(), 60);
    for (size_t i = 0; i < SA.pts.size(); ++i) { Vec y = SA.pts[i]; y.resize(n + m, SA.pts[i][v]); exp.push_back(y); }
    if (m > 0) for (size_t a = 0; a < ix.size(); ++a) for (size_t b = 0; b < ix.size(); ++b) { const Vec& x = SA.pts[ix[a]]; const Vec& z = SA.pts[ix[b]]; bool same = true; for (int d = 0; d < n; ++d) if (d != v && x[d] != z[d]) same = false; if (same && a != b) { Vec y = x; y.resize(n + m, x[v]); y[n] = z[v]; exp.push_back(y); } }
    if (lp) Ts.push_back(ref::def_expand(SA.conj, n, v, m)); }
  else if (k == 6) { int dest = rnd(0, n - 1); std::vector<bool> rm(n, false); Variables_Set vs; for (int i = 0; i < n; ++i) if (i != dest && coin(45)) { rm[i] = true; vs.insert(Variable(i)); }
    op = "fold_space_dimensions"; t << "." << op << "({"; for (int i = 0; i < n; ++i) if (rm[i]) t << str(Variable(i)) << " "; t << "}, " << str(Variable(dest)) << ")"; tr(pre + t.str());
    C.fold_space_dimensions(vs, Variable(dest));
    std::vector<int> keep; for (int i = 0; i < n; ++i) if (!rm[i]) keep.push_back(i);
    for (int src = 0; src < n; ++src) if (rm[src] || src == dest) {
      for (size_t i = 0; i < SA.pts.size(); ++i) { Vec y = SA.pts[i]; y[dest] = SA.pts[i][src]; exp.push_back(drop_coords(y, rm)); }
      if (lp) { int kk = keep.size(); ESys T; T.n = kk; T.aux = n; int nv = kk + n; for (size_t c = 0; c < SA.conj.size(); ++c) T.s.push_back(ref::shift(SA.conj[c], nv, kk));
        for (int j = 0; j < kk; ++j) { Vec a(nv); a[j] = 1; a[kk + (keep[j] == dest ? src : keep[j])] -= 1; T.s.push_back(Con(a, Q(0), ref::EQ)); } Ts.push_back(T); } } }
  else { op = "concatenate_assign"; t << "." << op << "(" << bname << ")"; tr(pre + t.str());
    C.concatenate_assign(B); int m = SB.n;
    std::vector<size_t> ix = pick_idx(SA.pts.size(), 30), iy = pick_idx(SB.pts.size(), 30);
    for (size_t i = 0; i < ix.size(); ++i) for (size_t j = 0; j < iy.size(); ++j) { Vec y = SA.pts[ix[i]]; y.insert(y.end(), SB.pts[iy[j]].begin(), SB.pts[iy[j]].end()); exp.push_back(y); }
    if (lp) Ts.push_back(ref::def_concat(SA.conj, n, SB.conj, m)); }
  hx::count("op." + op);
  if (nontrivial(SA)) hx::distinct(F->inst + "|" + op + "|" + inter_class(SA));
  if (!check_comps_OK(op, C)) return false;
  Shadow RC = observe(C);
  if (!check_contains(op, RC, exp, Ts, std::function<std::string(const Vec&)>(), "receiver " + show_shadow(SA))) return false;
  if (!check_OK(op, C)) return false;
  // an implicit reduction in the new space
  if (!enumerate(RC)) return false;
  tr(" ; (result).is_empty()"); bool e = C.is_empty(); Shadow RC2 = observe(C);
  if (!check_reduction(op + "+is_empty", RC, RC2, "")) return false;
  if (e && !RC.pts.empty()) { wrong(op + "+is_empty", "true-but-point", "is_empty() is true but " + show(RC.pts[0]) + " is in d1∩d2", RC); return false; }
  return true;
}

// ---------------------------------------------------------------- copies, ascii, constructors
static bool run_copy(std::vector<IProd*>& pool, int ai, int bi, const Shadow& SA, const Shadow& SB, const std::string& pre, int& receiver) {
  IProd& A = *pool[ai]; IProd& B = *pool[bi]; const std::string K13 = "C13.prod." + F->inst + ".";
  int how = rnd(0, 4); std::string bn = "#" + std::to_string(bi);
  checked(); hx::count("copy_checks");
  if (how == 0) { tr(pre + " = copy(" + bn + ")"); hx::count("op.copy_construct"); Hold c(B.clone()); Shadow R = observe(*c); if (!same_value(R, SB) || R.flag != SB.flag) { violation(K13 + "copy_construct.differs", "copy " + show_shadow(R) + " source " + show_shadow(SB)); return false; }
    if (!check_OK("copy_construct", *c)) return false; if (ai != bi) { delete pool[ai]; pool[ai] = c.release(); } }
  else if (how == 1) { tr(pre + " = " + bn); hx::count("op.assign"); A.assign(B); Shadow R = observe(A); if (!same_value(R, SB) || R.flag != SB.flag) { violation(K13 + (ai == bi ? "self_assign.differs" : "assign.differs"), "result " + show_shadow(R) + " source " + show_shadow(SB)); return false; } }
  else if (how == 2 || how == 3) { tr(pre + (how == 2 ? ".m_swap(" : ".swap(") + bn + ")"); hx::count(how == 2 ? "op.m_swap" : "op.swap"); if (how == 2) A.m_swap(B); else A.std_swap(B);
    Shadow RA = observe(A), RB = observe(B); if (!same_value(RA, SB) || !same_value(RB, SA) || RA.flag != SB.flag || RB.flag != SA.flag) { violation(K13 + (ai == bi ? "self_swap.differs" : "swap.differs"), "after: " + show_shadow(RA) + " / " + show_shadow(RB) + " before: " + show_shadow(SA) + " / " + show_shadow(SB)); return false; } receiver = -2; }
  else { tr(pre + ".copy_then_mutate_copy"); hx::count("op.copy_then_mutate"); Hold c(A.clone()); int n = SA.n; c->refine_with_constraint(rand_rc(n, true, false).c); c->refine_with_congruence(rand_rg(n, false).c); if (n > 0) c->affine_image(Variable(0), rand_le(n).e, 1); (void) c->is_empty(); receiver = -1; }
  return true;
}
static bool run_ascii(std::vector<IProd*>& pool, int ai, const Shadow& SA, const std::string& pre) {
  IProd& A = *pool[ai]; const std::string K15 = "C15.prod." + F->inst + ".roundtrip.";
  tr(pre + ".ascii_dump/ascii_load"); hx::count("op.ascii_roundtrip"); checked(); hx::count("ascii_checks");
  if (nontrivial(SA)) hx::distinct(F->inst + "|ascii|" + inter_class(SA));
  bool into_empty = coin(10); const std::string tcls = into_empty ? ":loaded-into-empty" : ":loaded-into-universe";
  std::string d1 = A.dump(); Hold L(F->make(rnd(0, 2), into_empty));
  if (!L->load(d1)) { violation(K15 + "load_failed" + tcls, "ascii_load rejected the output of ascii_dump:\n" + d1); return false; }
  std::string d2 = L->dump();
  if (d1 != d2) { violation(K15 + "dump_differs" + tcls, "dump/load/dump is not the identity:\n" + d1 + "\n---\n" + d2); return false; }
  Shadow R = observe(*L);
  if (!same_value(R, SA) || R.flag != SA.flag) { violation(K15 + "value_differs" + tcls, "loaded " + show_shadow(R) + " original " + show_shadow(SA)); return false; }
  if (!L->OK() && A.OK()) { violation(K15 + "OK_false" + tcls, "loaded object is not OK although the dumped one is"); return false; }
  Shadow RA = observe(A); if (!same_value(RA, SA)) { violation(K15 + "dump_changed_value", "ascii_dump changed the dumped object"); return false; }
  if (coin()) { delete pool[ai]; pool[ai] = L.release(); hx::count("ascii_twin_adopted"); }   // continue the history on the loaded twin
  return true;
}
static bool run_ctor(std::vector<IProd*>& pool, int ai, const Shadow& SA, const std::string& pre) {
  int n = SA.n; int how = rnd(0, 4); std::vector<Vec> exp; bool ee; Hold R; std::string op; std::vector<ESys> Ts;
  try {
    if (how == 0) { op = "construct_from_constraints"; Constraint_System cs; Sys q; int k = rnd(0, 3); bool eq_only = coin(60);
      for (int i = 0; i < k; ++i) { RC c = eq_only ? mk_con(rand_le(n, 2, 40, 3), 1, n) : rand_rc(n, true, coin()); cs.insert(c.c); q.push_back(c.q); }
      bool rec = coin(); tr(pre + " = P(" + (rec ? "recycle " : "") + "cs{" + str(cs) + "})"); hx::count("op." + op);
      R.reset(F->make_cs(cs, rec)); int nr = R->dim(); Sys qq; for (size_t i = 0; i < q.size(); ++i) { Con c = q[i]; c.a.resize(nr); qq.push_back(c); }
      enumerate_points(nr, qq, half_lattice(nr), g_W, exp, ee); if (!g_grid_pair) Ts.push_back(ref::esys_of(qq, nr)); }
    else if (how == 1) { op = "construct_from_congruences"; Congruence_System cgs; std::vector<Cg> q; int k = rnd(0, 3); for (int i = 0; i < k; ++i) { RG g = rand_rg(n, false); cgs.insert(g.c); q.push_back(g.q); }
      bool rec = coin(); tr(pre + " = P(" + (rec ? "recycle " : "") + "cgs{" + str(cgs) + "})"); hx::count("op." + op);
      R.reset(F->make_cgs(cgs, rec)); int nr = R->dim(); for (size_t i = 0; i < q.size(); ++i) q[i].a.resize(nr);
      enumerate_points(nr, Sys(), ref::from_congruences(nr, q), g_W, exp, ee); }
    else if (how == 2 || how == 3) { int which = how - 2; op = which ? "construct_from_d2" : "construct_from_d1"; tr(pre + " = P(copy of raw " + (which ? "d2" : "d1") + " of #" + std::to_string(ai) + ")"); hx::count("op." + op);
      R.reset(F->from_component(*pool[ai], which));
      if (SA.c[which].is_grid) enumerate_points(n, Sys(), SA.L[which], g_W, exp, ee); else { enumerate_points(n, SA.c[which].S, half_lattice(n), g_W, exp, ee); if (!g_grid_pair) Ts.push_back(ref::esys_of(SA.c[which].S, n)); }
      exp.insert(exp.end(), SA.pts.begin(), SA.pts.end()); }
    else { op = "construct_from_product"; int sr = coin() ? 0 : 4; std::unique_ptr<IFactory> fs;
      IFactory* (*mk)(int) = F->pair == "cpoly_grid" ? factory_cpoly_grid : F->pair == "nnc_grid" ? factory_nnc_grid : F->pair == "box_grid" ? factory_box_grid : F->pair == "bds_grid" ? factory_bds_grid : F->pair == "oct_grid" ? factory_oct_grid : factory_cpoly_bds;
      fs.reset(mk(sr)); std::ostringstream o; Hold src(build_initial(fs.get(), n, o)); tr(pre + " = P(" + fs->inst + " product: " + o.str() + ")"); hx::count("op." + op);
      bool ok; Shadow SS = observe_enum(*src, ok); if (!ok) return false;
      R.reset(F->convert(*src, sr)); exp = SS.pts; if (!g_grid_pair) Ts.push_back(ref::esys_of(SS.conj, n));
      Shadow S2 = observe(*src); if (!check_reduction(op, SS, S2, "arg-")) return false; }
  } catch (const std::invalid_argument&) { hx::count("rejected." + op); return true; }   // documented for systems a component cannot take
  if (nontrivial(SA)) hx::distinct(F->inst + "|" + op + "|" + inter_class(SA));
  if (!check_comps_OK(op, *R)) return false;
  Shadow RR = observe(*R);
  if (!check_contains(op, RR, exp, Ts, std::function<std::string(const Vec&)>(), "")) return false;
  if (!check_OK(op, *R)) return false;
  if (R->dim() == n && coin()) { delete pool[ai]; pool[ai] = R.release(); }
  return true;
}

// ---------------------------------------------------------------- case driver
static const char* const PAIRS[6] = { "cpoly_grid", "nnc_grid", "box_grid", "bds_grid", "oct_grid", "cpoly_bds" };
static IFactory* factory_of(int pair, int red) {
  switch (pair) { case 0: return factory_cpoly_grid(red); case 1: return factory_nnc_grid(red); case 2: return factory_box_grid(red); case 3: return factory_bds_grid(red); case 4: return factory_oct_grid(red); default: return factory_cpoly_bds(red); }
}
static std::vector<IFactory*> g_factories;   // 30 instantiations, index pair*5+red
static int inst_index(const std::string& name) { for (size_t i = 0; i < g_factories.size(); ++i) if (g_factories[i]->inst == name) return i; return -1; }

static std::string last_op() { std::string t = hx::trace(); size_t p = t.rfind(" | #"); std::string last = p == std::string::npos ? t : t.substr(p + 3); size_t a = last.find('.'), b = last.find('(', a == std::string::npos ? 0 : a); return (a != std::string::npos && b != std::string::npos && b > a) ? last.substr(a + 1, b - a - 1) : "unknown"; }

static void run_case(uint64_t) {
  const std::string profile = hx::opt().profile;
  std::string want = hx::opt().gets("inst", "all");
  int fi = (want == "all") ? (int) (hx::st().cur_case % (long) g_factories.size()) : inst_index(want);
  if (fi < 0) { fprintf(stderr, "unknown inst %s\n", want.c_str()); exit(2); }
  F = g_factories[fi]; KP = "C10." + F->inst + "."; g_grid_pair = (F->k2 == K_GRID);
  g_W = 6; g_W3 = hx::opt().thorough ? 6 : 4;
  g_probe_all = hx::opt().geti("forkprobe", 0) != 0;
  hx::count("inst." + F->inst);
  int dk = rnd(0, 99); int n = dk < 5 ? 0 : dk < 40 ? 1 : dk < 85 ? 2 : 3;
  const int NP = 3;
  std::vector<IProd*> pool(NP, (IProd*) 0);
  struct Cleanup { std::vector<IProd*>& a; ~Cleanup() { for (size_t i = 0; i < a.size(); ++i) delete a[i]; } } cleanup = { pool };
  try {
    std::ostringstream o; o << F->inst << " n=" << n << " init:";
    for (int i = 0; i < NP; ++i) { o << " #" << i << "={"; pool[i] = build_initial(F, n, o); o << "}"; }
    tr(o.str());
  } catch (const std::exception& e) { tr("init failed"); violation(KP + "init.unexpected_exception:" + typeid(e).name(), e.what()); return; }
  int steps = rnd(4, 10);
  for (int stp = 0; stp < steps && !hx::st().case_tainted; ++stp) {
    hx::count("steps");
    int ai = rnd(0, NP - 1), bi = rnd(0, NP - 1); if (coin(12)) bi = ai;
    int receiver = ai;
    std::vector<Shadow> S(NP);
    try {
      Weight_Guard wg(200000000ULL);
      struct Note { Weight_Guard& g; ~Note() { note_weight("step", g.used()); } } note = { wg };
      for (int i = 0; i < NP; ++i) { S[i] = observe(*pool[i]); if (i == ai || i == bi) if (!enumerate(S[i])) return; }
      const Shadow& SA = S[ai]; const Shadow& SB = S[bi];
      hx::count("state." + inter_class(SA));
      if (SA.complete && SA.pts.empty() && !comp_is_empty(SA, 0) && !comp_is_empty(SA, 1)) hx::count(SA.flag ? "inconsistent_pairs.flag_reduced" : "inconsistent_pairs.unreduced");
      if (SA.complete) hx::count("complete_enumerations");
      std::ostringstream pre; pre << " | #" << ai; std::string bname = "#" + std::to_string(bi);
      int kind = rnd(0, 99);
      int w_mut = 40, w_query = 32, w_copy = 6, w_ascii = 5, w_ctor = 6, w_dims = 11;
      if (profile == "reduce") { w_mut = 25; w_query = 55; w_copy = 4; w_ascii = 3; w_ctor = 4; w_dims = 9; }
      else if (profile == "ops") { w_mut = 60; w_query = 15; w_copy = 5; w_ascii = 3; w_ctor = 5; w_dims = 12; }
      else if (profile == "value") { w_mut = 30; w_query = 15; w_copy = 25; w_ascii = 20; w_ctor = 5; w_dims = 5; }
      bool cont = true;
      if (kind < w_mut) cont = run_mutator(*pool[ai], *pool[bi], ai == bi, SA, SB, pre.str(), bname);
      else if ((kind -= w_mut) < w_query) { receiver = -1; cont = run_query(*pool[ai], *pool[bi], ai == bi, SA, SB, pre.str(), bname); }
      else if ((kind -= w_query) < w_copy) cont = run_copy(pool, ai, bi, SA, SB, pre.str(), receiver);
      else if ((kind -= w_copy) < w_ascii) cont = run_ascii(pool, ai, SA, pre.str());
      else if ((kind -= w_ascii) < w_ctor) cont = run_ctor(pool, ai, SA, pre.str());
      else { receiver = -1; cont = run_dims(*pool[ai], *pool[bi], SA, SB, pre.str(), bname); }
      if (!cont) return;
      // bystanders keep their raw value (C13); the receiver and (possibly reduced) arguments were checked above
      if (receiver != -2) for (int i = 0; i < NP; ++i) if (i != ai && i != bi) {
        Shadow now = observe(*pool[i]); checked(); hx::count("bystander_checks");
        if (!same_value(now, S[i]) || now.flag != S[i].flag) { violation("C13.prod." + F->inst + ".bystander_changed", "object #" + std::to_string(i) + " changed from " + show_shadow(S[i]) + " to " + show_shadow(now)); return; }
      }
    } catch (const Logical_Timeout&) {
      violation(KP + last_op() + ".hang", "logical-time budget (weight 2e8) exceeded; receiver " + show_shadow(S[ai])); return;
    } catch (const std::exception& e) {
      violation(KP + last_op() + ".unexpected_exception:" + typeid(e).name(), e.what()); return;
    }
  }
}

int main(int argc, char** argv) {
  for (int p = 0; p < 6; ++p) for (int r = 0; r < 5; ++r) g_factories.push_back(factory_of(p, r));
  (void) PAIRS;
  return hx::main_loop(argc, argv, run_case,
    []() { hx::count("lp_solves", ref::lp_counters().solves); hx::count("lp_pivots", ref::lp_counters().pivots); for (size_t i = 0; i < g_factories.size(); ++i) delete g_factories[i]; g_factories.clear(); });
}

