// shapeseq: instantiation of the shape adapter for Octagonal_Shape<float> (see shapeseq.hh).
#include "shapeseq.hh"
SHAPESEQ_REGISTER(oct_float, Parma_Polyhedra_Library::Octagonal_Shape<float>)
