// prodseq.hh — type-erased view of Partially_Reduced_Product<D1,D2,R> shared by
// the per-pair translation units of the prodseq engine (property C10).
//
// The engine logic (engines/prodseq.cc) is written once against IProd /
// IFactory; each engines/prodseq__<pair>.cc instantiates Impl<D1,D2,R> for the
// five reduction policies of one component pair.
#ifndef PRODSEQ_HH
#define PRODSEQ_HH
#include "pplx.hh"
#include "refgrid.hh"

namespace prodseq {
using namespace pplx;
using ref::Cg; using ref::Lattice;

// What the reference model knows about one component: the constraints (convex
// domains) or congruences (grids) that a *copy* of the component reported.
struct Comp {
  bool is_grid; Sys S; std::vector<Cg> cgs;
  Comp() : is_grid(false) {}
};

// PPL congruence  a.x + b == 0 (mod m)   ->   a.x == -b (mod m)
inline Cg conv_cg(const Congruence& c, int n) {
  Cg r; r.a.assign(n, Q(0));
  for (int i = 0; i < n && i < (int) c.space_dimension(); ++i) r.a[i] = ref::toQ(c.coefficient(Variable(i)));
  r.b = -ref::toQ(c.inhomogeneous_term()); r.m = ref::toQ(c.modulus());
  return r;
}
inline std::vector<Cg> conv_cgs(const Congruence_System& cs, int n) {
  std::vector<Cg> v;
  for (Congruence_System::const_iterator i = cs.begin(), e = cs.end(); i != e; ++i) v.push_back(conv_cg(*i, n));
  return v;
}

enum Kind { K_CPOLY, K_NNC, K_BOX, K_BDS, K_OCT, K_GRID };
template <class D> struct KindOf;
template <> struct KindOf<C_Polyhedron> { static Kind k() { return K_CPOLY; } };
template <> struct KindOf<NNC_Polyhedron> { static Kind k() { return K_NNC; } };
template <> struct KindOf<Rational_Box> { static Kind k() { return K_BOX; } };
template <> struct KindOf<BD_Shape<mpq_class> > { static Kind k() { return K_BDS; } };
template <> struct KindOf<Octagonal_Shape<mpq_class> > { static Kind k() { return K_OCT; } };
template <> struct KindOf<Grid> { static Kind k() { return K_GRID; } };

// Observation through a copy: the component itself is never queried.
template <class D> inline void observe_comp(const D& d, int n, Comp& c) { D k(d); c.is_grid = false; c.cgs.clear(); c.S = ref::conv(k.constraints(), n); }
inline void observe_comp(const Grid& g, int n, Comp& c) { Grid k(g); c.is_grid = true; c.S.clear(); c.cgs = conv_cgs(k.congruences(), n); }

struct MaxRes { bool ok; Q val; bool attained; bool has_gen; Vec gen; bool gen_is_point; MaxRes() : ok(false), attained(false), has_gen(false), gen_is_point(false) {} };

struct IProd {
  virtual ~IProd() {}
  virtual IProd* clone() const = 0;
  virtual void assign(const IProd& y) = 0;
  virtual void m_swap(IProd& y) = 0;
  virtual void std_swap(IProd& y) = 0;
  virtual int dim() const = 0;
  virtual void observe(Comp& c1, Comp& c2, bool& flag) const = 0;      // raw components, no reduction triggered
  virtual std::string dump() const = 0;
  virtual bool load(const std::string& s) = 0;
  virtual bool OK() const = 0;
  virtual void comps_OK(bool& ok1, bool& ok2) const = 0;
  virtual void comp_relation(const Constraint& c, Poly_Con_Relation& r1, Poly_Con_Relation& r2) const = 0;
  virtual void comp_relation(const Congruence& c, Poly_Con_Relation& r1, Poly_Con_Relation& r2) const = 0;
  // ---- const members (may reduce) ----
  virtual bool reduce() const = 0;
  virtual void touch_domains() const = 0;
  virtual bool is_empty() const = 0;
  virtual bool is_universe() const = 0;
  virtual bool is_bounded() const = 0;
  virtual bool is_discrete() const = 0;
  virtual bool is_topologically_closed() const = 0;
  virtual bool contains(const IProd& y) const = 0;
  virtual bool strictly_contains(const IProd& y) const = 0;
  virtual bool is_disjoint_from(const IProd& y) const = 0;
  virtual bool equals(const IProd& y) const = 0;
  virtual Poly_Con_Relation relation_with(const Constraint& c) const = 0;
  virtual Poly_Con_Relation relation_with(const Congruence& c) const = 0;
  virtual Poly_Gen_Relation relation_with(const Generator& g) const = 0;
  virtual bool bounds_from_above(const Linear_Expression& e) const = 0;
  virtual bool bounds_from_below(const Linear_Expression& e) const = 0;
  virtual MaxRes maximize(const Linear_Expression& e, bool with_gen) const = 0;
  virtual MaxRes minimize(const Linear_Expression& e, bool with_gen) const = 0;
  virtual bool constrains(Variable v) const = 0;
  virtual long affine_dimension() const = 0;
  virtual Constraint_System constraints(bool minimized) const = 0;
  virtual Congruence_System congruences(bool minimized) const = 0;
  virtual long hash_code() const = 0;
  virtual void memory() const = 0;
  // ---- mutators ----
  virtual void add_constraint(const Constraint& c) = 0;
  virtual void refine_with_constraint(const Constraint& c) = 0;
  virtual void add_constraints(const Constraint_System& cs) = 0;
  virtual void refine_with_constraints(const Constraint_System& cs) = 0;
  virtual void add_recycled_constraints(Constraint_System& cs) = 0;
  virtual void add_congruence(const Congruence& c) = 0;
  virtual void refine_with_congruence(const Congruence& c) = 0;
  virtual void add_congruences(const Congruence_System& cs) = 0;
  virtual void refine_with_congruences(const Congruence_System& cs) = 0;
  virtual void add_recycled_congruences(Congruence_System& cs) = 0;
  virtual void unconstrain(Variable v) = 0;
  virtual void unconstrain(const Variables_Set& vs) = 0;
  virtual void intersection_assign(const IProd& y) = 0;
  virtual void upper_bound_assign(const IProd& y) = 0;
  virtual bool upper_bound_assign_if_exact(const IProd& y) = 0;
  virtual void difference_assign(const IProd& y) = 0;
  virtual void time_elapse_assign(const IProd& y) = 0;
  virtual void widening_assign(const IProd& y, unsigned* tp) = 0;
  virtual void affine_image(Variable v, const Linear_Expression& e, const Coefficient& d) = 0;
  virtual void affine_preimage(Variable v, const Linear_Expression& e, const Coefficient& d) = 0;
  virtual void generalized_affine_image(Variable v, Relation_Symbol r, const Linear_Expression& e, const Coefficient& d) = 0;
  virtual void generalized_affine_preimage(Variable v, Relation_Symbol r, const Linear_Expression& e, const Coefficient& d) = 0;
  virtual void generalized_affine_image(const Linear_Expression& l, Relation_Symbol r, const Linear_Expression& e) = 0;
  virtual void generalized_affine_preimage(const Linear_Expression& l, Relation_Symbol r, const Linear_Expression& e) = 0;
  virtual void bounded_affine_image(Variable v, const Linear_Expression& lb, const Linear_Expression& ub, const Coefficient& d) = 0;
  virtual void bounded_affine_preimage(Variable v, const Linear_Expression& lb, const Linear_Expression& ub, const Coefficient& d) = 0;
  virtual void topological_closure_assign() = 0;
  virtual void drop_some_non_integer_points(Complexity_Class c) = 0;
  virtual void drop_some_non_integer_points(const Variables_Set& vs, Complexity_Class c) = 0;
  // ---- dimension changing ----
  virtual void add_space_dimensions_and_embed(int m) = 0;
  virtual void add_space_dimensions_and_project(int m) = 0;
  virtual void concatenate_assign(const IProd& y) = 0;
  virtual void remove_space_dimensions(const Variables_Set& vs) = 0;
  virtual void remove_higher_space_dimensions(int nd) = 0;
  virtual void map_space_dimensions(const Partial_Function& pf) = 0;
  virtual void expand_space_dimension(Variable v, int m) = 0;
  virtual void fold_space_dimensions(const Variables_Set& vs, Variable dest) = 0;
};

struct IFactory {
  Kind k1, k2; std::string pair, red, inst; int red_index;
  virtual ~IFactory() {}
  virtual IProd* make(int n, bool empty) const = 0;
  virtual IProd* make_cs(const Constraint_System& cs, bool recycle) const = 0;
  virtual IProd* make_cgs(const Congruence_System& cgs, bool recycle) const = 0;
  virtual IProd* from_component(const IProd& src, int which) const = 0;     // P(raw d1 of src) / P(raw d2 of src)
  virtual IProd* convert(const IProd& src, int src_red) const = 0;          // converting constructor from the same pair, reduction src_red (0 or 4)
};

static const char* const RED_NAMES[5] = { "direct", "smash", "constraints", "congruences", "shapepres" };

template <class D1, class D2, class R>
struct Impl : IProd {
  typedef Partially_Reduced_Product<D1, D2, R> P;
  struct Peek : P {
    explicit Peek(const P& q) : P(q) {}
    const D1& r1() const { return this->d1; }
    const D2& r2() const { return this->d2; }
    bool flag() const { return this->reduced; }
  };
  P p;
  Impl() : p() {}
  explicit Impl(const P& q) : p(q) {}
  static const P& of(const IProd& y) { return static_cast<const Impl&>(y).p; }
  static P& of(IProd& y) { return static_cast<Impl&>(y).p; }

  IProd* clone() const { return new Impl(p); }
  void assign(const IProd& y) { p = of(y); }
  void m_swap(IProd& y) { p.m_swap(of(y)); }
  void std_swap(IProd& y) { using std::swap; swap(p, of(y)); }
  int dim() const { return (int) p.space_dimension(); }
  void observe(Comp& c1, Comp& c2, bool& flag) const { Peek k(p); int n = dim(); observe_comp(k.r1(), n, c1); observe_comp(k.r2(), n, c2); flag = k.flag(); }
  std::string dump() const { std::ostringstream o; p.ascii_dump(o); return o.str(); }
  bool load(const std::string& s) { std::istringstream i(s); return p.ascii_load(i); }
  bool OK() const { return p.OK(); }
  void comps_OK(bool& ok1, bool& ok2) const { Peek k(p); ok1 = k.r1().OK(); ok2 = k.r2().OK(); }
  void comp_relation(const Constraint& c, Poly_Con_Relation& r1, Poly_Con_Relation& r2) const { Peek k(p); D1 a(k.r1()); D2 b(k.r2()); r1 = a.relation_with(c); r2 = b.relation_with(c); }
  void comp_relation(const Congruence& c, Poly_Con_Relation& r1, Poly_Con_Relation& r2) const { Peek k(p); D1 a(k.r1()); D2 b(k.r2()); r1 = a.relation_with(c); r2 = b.relation_with(c); }

  bool reduce() const { return p.reduce(); }
  void touch_domains() const { (void) p.domain1().space_dimension(); (void) p.domain2().space_dimension(); }
  bool is_empty() const { return p.is_empty(); }
  bool is_universe() const { return p.is_universe(); }
  bool is_bounded() const { return p.is_bounded(); }
  bool is_discrete() const { return p.is_discrete(); }
  bool is_topologically_closed() const { return p.is_topologically_closed(); }
  bool contains(const IProd& y) const { return p.contains(of(y)); }
  bool strictly_contains(const IProd& y) const { return p.strictly_contains(of(y)); }
  bool is_disjoint_from(const IProd& y) const { return p.is_disjoint_from(of(y)); }
  bool equals(const IProd& y) const { return p == of(y); }
  Poly_Con_Relation relation_with(const Constraint& c) const { return p.relation_with(c); }
  Poly_Con_Relation relation_with(const Congruence& c) const { return p.relation_with(c); }
  Poly_Gen_Relation relation_with(const Generator& g) const { return p.relation_with(g); }
  bool bounds_from_above(const Linear_Expression& e) const { return p.bounds_from_above(e); }
  bool bounds_from_below(const Linear_Expression& e) const { return p.bounds_from_below(e); }
  static void fill(MaxRes& r, const Coefficient& num, const Coefficient& den, bool att, bool with_gen, const Generator& g, int n) {
    r.val = Q(mpz_class(num), mpz_class(den)); r.val.canonicalize(); r.attained = att; r.has_gen = with_gen;
    if (with_gen) { r.gen_is_point = g.is_point(); r.gen.assign(n, Q(0)); if (g.is_point() || g.is_closure_point()) for (int i = 0; i < n && i < (int) g.space_dimension(); ++i) { r.gen[i] = Q(mpz_class(g.coefficient(Variable(i))), mpz_class(g.divisor())); r.gen[i].canonicalize(); } }
  }
  MaxRes maximize(const Linear_Expression& e, bool with_gen) const {
    MaxRes r; Coefficient num, den; bool att = false; Generator g(point());
    r.ok = with_gen ? p.maximize(e, num, den, att, g) : p.maximize(e, num, den, att);
    if (r.ok) fill(r, num, den, att, with_gen, g, dim());
    return r;
  }
  MaxRes minimize(const Linear_Expression& e, bool with_gen) const {
    MaxRes r; Coefficient num, den; bool att = false; Generator g(point());
    r.ok = with_gen ? p.minimize(e, num, den, att, g) : p.minimize(e, num, den, att);
    if (r.ok) fill(r, num, den, att, with_gen, g, dim());
    return r;
  }
  bool constrains(Variable v) const { return p.constrains(v); }
  long affine_dimension() const { return (long) p.affine_dimension(); }
  Constraint_System constraints(bool minimized) const { return minimized ? p.minimized_constraints() : p.constraints(); }
  Congruence_System congruences(bool minimized) const { return minimized ? p.minimized_congruences() : p.congruences(); }
  long hash_code() const { return (long) p.hash_code(); }
  void memory() const { (void) p.total_memory_in_bytes(); (void) p.external_memory_in_bytes(); }

  void add_constraint(const Constraint& c) { p.add_constraint(c); }
  void refine_with_constraint(const Constraint& c) { p.refine_with_constraint(c); }
  void add_constraints(const Constraint_System& cs) { p.add_constraints(cs); }
  void refine_with_constraints(const Constraint_System& cs) { p.refine_with_constraints(cs); }
  void add_recycled_constraints(Constraint_System& cs) { p.add_recycled_constraints(cs); }
  void add_congruence(const Congruence& c) { p.add_congruence(c); }
  void refine_with_congruence(const Congruence& c) { p.refine_with_congruence(c); }
  void add_congruences(const Congruence_System& cs) { p.add_congruences(cs); }
  void refine_with_congruences(const Congruence_System& cs) { p.refine_with_congruences(cs); }
  void add_recycled_congruences(Congruence_System& cs) { p.add_recycled_congruences(cs); }
  void unconstrain(Variable v) { p.unconstrain(v); }
  void unconstrain(const Variables_Set& vs) { p.unconstrain(vs); }
  void intersection_assign(const IProd& y) { p.intersection_assign(of(y)); }
  void upper_bound_assign(const IProd& y) { p.upper_bound_assign(of(y)); }
  bool upper_bound_assign_if_exact(const IProd& y) { return p.upper_bound_assign_if_exact(of(y)); }
  void difference_assign(const IProd& y) { p.difference_assign(of(y)); }
  void time_elapse_assign(const IProd& y) { p.time_elapse_assign(of(y)); }
  void widening_assign(const IProd& y, unsigned* tp) { p.widening_assign(of(y), tp); }
  void affine_image(Variable v, const Linear_Expression& e, const Coefficient& d) { p.affine_image(v, e, d); }
  void affine_preimage(Variable v, const Linear_Expression& e, const Coefficient& d) { p.affine_preimage(v, e, d); }
  void generalized_affine_image(Variable v, Relation_Symbol r, const Linear_Expression& e, const Coefficient& d) { p.generalized_affine_image(v, r, e, d); }
  void generalized_affine_preimage(Variable v, Relation_Symbol r, const Linear_Expression& e, const Coefficient& d) { p.generalized_affine_preimage(v, r, e, d); }
  void generalized_affine_image(const Linear_Expression& l, Relation_Symbol r, const Linear_Expression& e) { p.generalized_affine_image(l, r, e); }
  void generalized_affine_preimage(const Linear_Expression& l, Relation_Symbol r, const Linear_Expression& e) { p.generalized_affine_preimage(l, r, e); }
  void bounded_affine_image(Variable v, const Linear_Expression& lb, const Linear_Expression& ub, const Coefficient& d) { p.bounded_affine_image(v, lb, ub, d); }
  void bounded_affine_preimage(Variable v, const Linear_Expression& lb, const Linear_Expression& ub, const Coefficient& d) { p.bounded_affine_preimage(v, lb, ub, d); }
  void topological_closure_assign() { p.topological_closure_assign(); }
  void drop_some_non_integer_points(Complexity_Class c) { p.drop_some_non_integer_points(c); }
  void drop_some_non_integer_points(const Variables_Set& vs, Complexity_Class c) { p.drop_some_non_integer_points(vs, c); }

  void add_space_dimensions_and_embed(int m) { p.add_space_dimensions_and_embed(m); }
  void add_space_dimensions_and_project(int m) { p.add_space_dimensions_and_project(m); }
  void concatenate_assign(const IProd& y) { p.concatenate_assign(of(y)); }
  void remove_space_dimensions(const Variables_Set& vs) { p.remove_space_dimensions(vs); }
  void remove_higher_space_dimensions(int nd) { p.remove_higher_space_dimensions(nd); }
  void map_space_dimensions(const Partial_Function& pf) { p.map_space_dimensions(pf); }
  void expand_space_dimension(Variable v, int m) { p.expand_space_dimension(v, m); }
  void fold_space_dimensions(const Variables_Set& vs, Variable dest) { p.fold_space_dimensions(vs, dest); }
};

template <class D1, class D2, class R>
struct Factory : IFactory {
  typedef Impl<D1, D2, R> I; typedef typename I::P P;
  typedef Impl<D1, D2, No_Reduction<D1, D2> > I_direct;
  typedef Impl<D1, D2, Shape_Preserving_Reduction<D1, D2> > I_shape;
  IProd* make(int n, bool empty) const { return new I(P(n, empty ? EMPTY : UNIVERSE)); }
  IProd* make_cs(const Constraint_System& cs, bool recycle) const { if (recycle) { Constraint_System tmp(cs); P q(tmp); return new I(q); } P q(cs); return new I(q); }
  IProd* make_cgs(const Congruence_System& cgs, bool recycle) const { if (recycle) { Congruence_System tmp(cgs); P q(tmp); return new I(q); } P q(cgs); return new I(q); }
  IProd* from_component(const IProd& src, int which) const {
    typename I::Peek k(I::of(src));
    if (which == 0) { D1 c(k.r1()); P q(c); return new I(q); }
    D2 c(k.r2()); P q(c); return new I(q);
  }
  IProd* convert(const IProd& src, int src_red) const {
    if (src_red == 0) { P q(I_direct::of(src)); return new I(q); }
    P q(I_shape::of(src)); return new I(q);
  }
};

template <class D1, class D2>
inline IFactory* pair_factory(const char* pair, int red) {
  IFactory* f = 0;
  switch (red) {
  case 0: f = new Factory<D1, D2, No_Reduction<D1, D2> >(); break;
  case 1: f = new Factory<D1, D2, Smash_Reduction<D1, D2> >(); break;
  case 2: f = new Factory<D1, D2, Constraints_Reduction<D1, D2> >(); break;
  case 3: f = new Factory<D1, D2, Congruences_Reduction<D1, D2> >(); break;
  default: f = new Factory<D1, D2, Shape_Preserving_Reduction<D1, D2> >(); red = 4; break;
  }
  f->k1 = KindOf<D1>::k(); f->k2 = KindOf<D2>::k(); f->pair = pair; f->red = RED_NAMES[red]; f->red_index = red;
  f->inst = std::string(pair) + "_" + RED_NAMES[red];
  return f;
}

// one per translation unit prodseq__<pair>.cc
IFactory* factory_cpoly_grid(int red);
IFactory* factory_nnc_grid(int red);
IFactory* factory_box_grid(int red);
IFactory* factory_bds_grid(int red);
IFactory* factory_oct_grid(int red);
IFactory* factory_cpoly_bds(int red);

} // namespace prodseq
#endif
