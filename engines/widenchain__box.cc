// widenchain — boxes: CC76 widening (default and user stop points), widening_assign alias,
// limited_CC76_extrapolation_assign, on Rational_Box and on a double box.
#include "wc_shape.hh"

using namespace wc;

namespace {

struct WC_FP_Box_Policy {
  const_bool_nodef(store_special, false);
  const_bool_nodef(store_open, true);
  const_bool_nodef(cache_empty, true);
  const_bool_nodef(cache_singleton, true);
  const_bool_nodef(cache_normalized, false);
  const_int_nodef(next_bit, 0);
  const_bool_nodef(may_be_empty, true);
  const_bool_nodef(may_contain_infinity, false);
  const_bool_nodef(check_empty_result, false);
  const_bool_nodef(check_inexact, false);
};
typedef Interval_Info_Bitset<unsigned int, WC_FP_Box_Policy> WC_FP_Box_Info;
typedef Box<Interval<double, WC_FP_Box_Info> > DBox;

template <typename T> T boundary_from_int(int k);
template <> mpq_class boundary_from_int<mpq_class>(int k) { return mpq_class(k); }
template <> double boundary_from_int<double>(int k) { volatile double d = k; return d; }

template <class BOX, bool FLOATING> struct BoxTR {
  typedef BOX D;
  typedef typename BOX::interval_type::boundary_type Bd;
  static bool nnc() { return false; }
  static const char* name() { return FLOATING ? "Box<double>" : "Rational_Box"; }
  static bool strict_ok() { return true; }
  static bool dyadic() { return FLOATING; }
  static int maxdim() { return 4; }
  static D make(int n, bool empty) { return D(n, empty ? EMPTY : UNIVERSE); }
  static std::vector<int> direction(int n) { std::vector<int> a = shape_direction(n, 0); if (FLOATING) for (size_t i = 0; i < a.size(); ++i) if (a[i] == 3 || a[i] == -3) a[i] = a[i] > 0 ? 2 : -2; return a; }
  static bool representable(const Constraint& c) {
    ConShape s = con_shape(c);
    if (s.nvars > 1) return false;
    if (!FLOATING || s.nvars == 0) return true;
    mpq_class q(mpz_class(c.inhomogeneous_term()), s.ci); q.canonicalize();
    mpz_class d = q.get_den(); if (mpz_popcount(d.get_mpz_t()) != 1 || d > 1048576) return false;
    return abs(q.get_num()) < mpz_class("4503599627370496");
  }
  static bool fragile_limiting(const std::vector<Constraint>&) { return false; }
  static D from_cons(int n, const std::vector<Constraint>& cv) { return shape_from_cons<D>(n, cv); }
  static D from_gens(int n, const std::vector<Generator>& gv) { return shape_from_gens<D>(n, gv); }
  static Gens min_gens(const D&) { return Gens(); }
  static int ntwins() { return 7; }
  static D twin(const D& p, int how, std::string& desc) { return shape_twin<D>(p, how, desc); }
  static int ppl_cert_compare(int, const D&, const D&) { return 99; }
  static int ppl_cert_compare_certs(int, const D&, const D&) { return 99; }
  static std::vector<WOp<D> > ops(int) {
    std::vector<WOp<D> > v;
    std::vector<Q> dflt; for (int k = -2; k <= 2; ++k) dflt.push_back(Q(k));
    { WOp<D> o; o.name = "CC76_widening_assign"; o.cert = CERT_BOXT; o.thresholds = dflt; o.call = [](D& x, const D& y, unsigned* tp) { x.CC76_widening_assign(y, tp); };
      o.lim_name = "limited_CC76_extrapolation_assign"; o.lim = [](D& x, const D& y, const Constraint_System& cs, unsigned* tp) { x.limited_CC76_extrapolation_assign(y, cs, tp); };
      v.push_back(o); v.push_back(o); v.push_back(o); }
    { WOp<D> o; o.name = "widening_assign"; o.cert = CERT_BOXT; o.thresholds = dflt; o.call = [](D& x, const D& y, unsigned* tp) { x.widening_assign(y, tp); }; v.push_back(o); }
    { WOp<D> o; o.name = "CC76_widening_assign@stop-points"; o.cert = CERT_BOXT; o.has_tp = false;
      std::shared_ptr<std::vector<Bd> > sp(new std::vector<Bd>());
      int k = rnd(0, 5); std::vector<int> pts; for (int i = 0; i < k; ++i) pts.push_back(rnd(-8, 12)); std::sort(pts.begin(), pts.end()); pts.erase(std::unique(pts.begin(), pts.end()), pts.end());
      for (size_t i = 0; i < pts.size(); ++i) { sp->push_back(boundary_from_int<Bd>(pts[i])); o.thresholds.push_back(Q(pts[i])); }
      o.call = [sp](D& x, const D& y, unsigned*) { x.CC76_widening_assign(y, sp->begin(), sp->end()); };
      v.push_back(o); v.push_back(o); }
    return v;
  }
};
} // namespace

void wc::run_box_case(bool floating) {
  if (floating) { ConvexChain<BoxTR<DBox, true> > c; c.run(); }
  else { ConvexChain<BoxTR<Rational_Box, false> > c; c.run(); }
}
