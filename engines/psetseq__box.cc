// psetseq, instantiation for box (see psetseq.hh)
#include "psetseq.hh"
void psq::run_box() { psq::Engine<psq::DomBox>::run_case(); }
