// shapeseq: instantiation of the shape adapter for BD_Shape<mpq_class> (see shapeseq.hh).
#include "shapeseq.hh"
SHAPESEQ_REGISTER(bd_mpq, Parma_Polyhedra_Library::BD_Shape<mpq_class>)
