// numkernel part: long double (profile float).  Operands are composed from bit fields at run time and read through volatile.
#include "numkernel_units.hh"
namespace nk {
void float_case_l() {
  typedef long double T;
  switch (hx::rnd(0, 7)) {
  case 0: case 1: full_case<T>(); break;
  case 2: case 3: full_case<Checked_Number<T, PW> >(); break;
  case 4: case 5: full_case<Checked_Number<T, PX> >(); break;
  default: full_case<Checked_Number<T, PE> >(); break;
  }
}
}
