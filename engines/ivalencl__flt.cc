// ivalencl, policy flt_oc: Interval<float, Floating_Point_Box_Interval_Info>
#include "ivalencl_impl.hh"
#include "interfaces/interfaced_boxes.hh"
namespace ivx { void case_flt() { run_policy<Interval<float, Floating_Point_Box_Interval_Info> >("flt_oc", K_FLOAT); } }
