// shapeseq — shared header of the BD-shape / octagon engine (properties C03, C04).
//
// The interpreter (engines/shapeseq.cc) is written once against the abstract
// interface `Shape`; `ShapeImpl<D>` is the template adapter that forwards every
// member of the common domain interface to the real PPL class D.  Each
// translation unit engines/shapeseq__<dom>_<T>.cc instantiates ShapeImpl for ONE
// (domain, T) pair and registers it in the table (SHAPESEQ_REGISTER), so the
// 18 big PPL template instantiations compile in parallel.
#ifndef SHAPESEQ_HH
#define SHAPESEQ_HH
#include "pplx.hh"
#include <memory>
#include <limits>
#include <type_traits>

namespace shapeseq {
using namespace pplx;

enum Kind { K_BD, K_OCT };

struct TypeInfo {
  const char* tname;   // C++ spelling of T
  bool exact;          // unbounded rationals: C04 monitors are armed
  bool integer;        // integral T (integer_upper_bound_assign_if_exact available)
  int bits;            // native bounded integer width, 0 otherwise
  int fdigits;         // mantissa digits of a floating point T, 0 otherwise
  int maxexp10;        // largest decimal exponent of a floating point T
};
template <typename T> struct TInfo;
#define SHAPESEQ_TINFO(T, EX, IN, BITS, FD, ME) \
  template <> struct TInfo<T> { static TypeInfo get() { TypeInfo t = { #T, EX, IN, BITS, FD, ME }; return t; } };
SHAPESEQ_TINFO(mpq_class, true, false, 0, 0, 0)
SHAPESEQ_TINFO(mpz_class, false, true, 0, 0, 0)
SHAPESEQ_TINFO(int8_t, false, true, 8, 0, 0)
SHAPESEQ_TINFO(int16_t, false, true, 16, 0, 0)
SHAPESEQ_TINFO(int32_t, false, true, 32, 0, 0)
SHAPESEQ_TINFO(int64_t, false, true, 64, 0, 0)
SHAPESEQ_TINFO(float, false, false, 0, 24, 38)
SHAPESEQ_TINFO(double, false, false, 0, 53, 308)
typedef long double long_double;
template <> struct TInfo<long double> { static TypeInfo get() { TypeInfo t = { "long double", false, false, 0, 64, 4932 }; return t; } };

template <typename D> struct DomInfo;
template <typename T> struct DomInfo<BD_Shape<T> > {
  typedef T coeff; typedef Octagonal_Shape<T> other;
  template <typename U> struct rebind { typedef BD_Shape<U> type; };
  static Kind kind() { return K_BD; } static const char* dname() { return "BD_Shape"; }
};
template <typename T> struct DomInfo<Octagonal_Shape<T> > {
  typedef T coeff; typedef BD_Shape<T> other;
  template <typename U> struct rebind { typedef Octagonal_Shape<U> type; };
  static Kind kind() { return K_OCT; } static const char* dname() { return "Octagonal_Shape"; }
};

// ---------- the abstract common domain interface ----------
struct Shape {
  virtual ~Shape() {}
  virtual Shape* clone() const = 0;
  virtual int dim() const = 0;
  virtual void ascii_dump(std::ostream& s) const = 0;
  virtual bool OK() const = 0;
  // descriptions
  virtual Constraint_System constraints() const = 0;
  virtual Constraint_System matrix_constraints() const = 0;   // constraints() of the exact mpq_class image of the matrix
  virtual Constraint_System minimized_constraints() const = 0;
  virtual Congruence_System congruences() const = 0;
  virtual Congruence_System minimized_congruences() const = 0;
  // predicates and queries
  virtual bool is_empty() const = 0;
  virtual bool is_universe() const = 0;
  virtual bool is_bounded() const = 0;
  virtual bool is_discrete() const = 0;
  virtual bool is_topologically_closed() const = 0;
  virtual bool contains(const Shape& y) const = 0;
  virtual bool strictly_contains(const Shape& y) const = 0;
  virtual bool is_disjoint_from(const Shape& y) const = 0;
  virtual bool equals(const Shape& y) const = 0;
  virtual bool constrains(Variable v) const = 0;
  virtual int affine_dimension() const = 0;
  virtual bool bounds_from_above(const Linear_Expression& e) const = 0;
  virtual bool bounds_from_below(const Linear_Expression& e) const = 0;
  virtual bool maximize(const Linear_Expression& e, Coefficient& n, Coefficient& d, bool& mx) const = 0;
  virtual bool maximize(const Linear_Expression& e, Coefficient& n, Coefficient& d, bool& mx, Generator& g) const = 0;
  virtual bool minimize(const Linear_Expression& e, Coefficient& n, Coefficient& d, bool& mn) const = 0;
  virtual bool minimize(const Linear_Expression& e, Coefficient& n, Coefficient& d, bool& mn, Generator& g) const = 0;
  virtual bool frequency(const Linear_Expression& e, Coefficient& fn, Coefficient& fd, Coefficient& vn, Coefficient& vd) const = 0;
  virtual Poly_Con_Relation relation_with(const Constraint& c) const = 0;
  virtual Poly_Con_Relation relation_with(const Congruence& c) const = 0;
  virtual Poly_Gen_Relation relation_with(const Generator& g) const = 0;
  virtual void misc_observers() const = 0;
  // mutators
  virtual void add_constraint(const Constraint& c) = 0;
  virtual void add_constraints(const Constraint_System& cs) = 0;
  virtual void add_recycled_constraints(Constraint_System& cs) = 0;
  virtual void refine_with_constraint(const Constraint& c) = 0;
  virtual void refine_with_constraints(const Constraint_System& cs) = 0;
  virtual void add_congruence(const Congruence& c) = 0;
  virtual void add_congruences(const Congruence_System& cs) = 0;
  virtual void add_recycled_congruences(Congruence_System& cs) = 0;
  virtual void refine_with_congruence(const Congruence& c) = 0;
  virtual void refine_with_congruences(const Congruence_System& cs) = 0;
  virtual void unconstrain(Variable v) = 0;
  virtual void unconstrain(const Variables_Set& vs) = 0;
  virtual void intersection_assign(const Shape& y) = 0;
  virtual void upper_bound_assign(const Shape& y) = 0;
  virtual bool upper_bound_assign_if_exact(const Shape& y) = 0;
  virtual int integer_upper_bound_assign_if_exact(const Shape& y) = 0;   // -1: not available for T
  virtual void difference_assign(const Shape& y) = 0;
  virtual bool simplify_using_context_assign(const Shape& y) = 0;
  virtual void affine_image(Variable v, const Linear_Expression& e, const Coefficient& d) = 0;
  virtual void affine_preimage(Variable v, const Linear_Expression& e, const Coefficient& d) = 0;
  virtual void generalized_affine_image(Variable v, Relation_Symbol r, const Linear_Expression& e, const Coefficient& d) = 0;
  virtual void generalized_affine_preimage(Variable v, Relation_Symbol r, const Linear_Expression& e, const Coefficient& d) = 0;
  virtual void generalized_affine_image(const Linear_Expression& l, Relation_Symbol r, const Linear_Expression& e) = 0;
  virtual void generalized_affine_preimage(const Linear_Expression& l, Relation_Symbol r, const Linear_Expression& e) = 0;
  virtual void bounded_affine_image(Variable v, const Linear_Expression& lb, const Linear_Expression& ub, const Coefficient& d) = 0;
  virtual void bounded_affine_preimage(Variable v, const Linear_Expression& lb, const Linear_Expression& ub, const Coefficient& d) = 0;
  virtual void time_elapse_assign(const Shape& y) = 0;
  virtual void topological_closure_assign() = 0;
  virtual void drop_some_non_integer_points(Complexity_Class c) = 0;
  virtual void drop_some_non_integer_points(const Variables_Set& vs, Complexity_Class c) = 0;
  virtual void add_space_dimensions_and_embed(int m) = 0;
  virtual void add_space_dimensions_and_project(int m) = 0;
  virtual void concatenate_assign(const Shape& y) = 0;
  virtual void remove_space_dimensions(const Variables_Set& vs) = 0;
  virtual void remove_higher_space_dimensions(int k) = 0;
  virtual void map_space_dimensions(const Partial_Function& pf) = 0;
  virtual void expand_space_dimension(Variable v, int m) = 0;
  virtual void fold_space_dimensions(const Variables_Set& vs, Variable dest) = 0;
  virtual void assign(const Shape& y) = 0;
  virtual void m_swap(Shape& y) = 0;
  // constructors (all return a new object of the same instantiation)
  virtual Shape* make(int n, bool empty) const = 0;
  virtual Shape* from_constraints(const Constraint_System& cs) const = 0;
  virtual Shape* from_congruences(const Congruence_System& cgs) const = 0;
  virtual Shape* from_generators(const Generator_System& gs) const = 0;
  virtual Shape* from_polyhedron(const Polyhedron& ph, Complexity_Class c) const = 0;
  virtual Shape* from_grid(const Grid& gr, Complexity_Class c) const = 0;
  virtual Shape* from_box(const Rational_Box& b, Complexity_Class c) const = 0;
  // Source = the other shape domain over the same T, built from `cs` in an n-space
  // (`cs` representable in that domain); `seen` receives the source's own constraints().
  virtual Shape* from_other_domain(int n, const Constraint_System& cs, Complexity_Class c, Constraint_System& seen) const = 0;
  // Source = the same domain over another coefficient type U (mpq_class; double when T is mpq_class).
  virtual Shape* from_other_coefficient(int n, const Constraint_System& cs, Complexity_Class c, Constraint_System& seen) const = 0;
};

template <typename D>
struct ShapeImpl : public Shape {
  typedef typename DomInfo<D>::coeff T;
  typedef typename DomInfo<D>::other Other;
  typedef typename std::conditional<std::is_same<T, mpq_class>::value, double, mpq_class>::type U;
  typedef typename DomInfo<D>::template rebind<U>::type DU;
  typedef typename DomInfo<D>::template rebind<mpq_class>::type DQ;
  D d;
  ShapeImpl(int n, bool empty) : d(n, empty ? EMPTY : UNIVERSE) {}
  explicit ShapeImpl(const D& x) : d(x) {}
  static const D& cast(const Shape& s) { return static_cast<const ShapeImpl&>(s).d; }
  static D& cast(Shape& s) { return static_cast<ShapeImpl&>(s).d; }

  Shape* clone() const { return new ShapeImpl(d); }
  int dim() const { return (int) d.space_dimension(); }
  void ascii_dump(std::ostream& s) const { d.ascii_dump(s); }
  bool OK() const { return d.OK(); }
  Constraint_System constraints() const { return d.constraints(); }
  // Faithful reading of the matrix: inexact T -> exact entry-wise conversion to the same domain over
  // mpq_class (a fresh object: no reduction data); T = mpq_class -> a copy whose reduction data is
  // discarded by a dimension round trip.  Either way constraints() then lists every finite entry.
  Constraint_System matrix_constraints() const {
    if constexpr (std::is_same<T, mpq_class>::value) {
      D q(d); const dimension_type n = q.space_dimension();
      q.add_space_dimensions_and_embed(1); q.remove_higher_space_dimensions(n);
      return q.constraints();
    }
    else { DQ q(d); return q.constraints(); }
  }
  Constraint_System minimized_constraints() const { return d.minimized_constraints(); }
  Congruence_System congruences() const { return d.congruences(); }
  Congruence_System minimized_congruences() const { return d.minimized_congruences(); }
  bool is_empty() const { return d.is_empty(); }
  bool is_universe() const { return d.is_universe(); }
  bool is_bounded() const { return d.is_bounded(); }
  bool is_discrete() const { return d.is_discrete(); }
  bool is_topologically_closed() const { return d.is_topologically_closed(); }
  bool contains(const Shape& y) const { return d.contains(cast(y)); }
  bool strictly_contains(const Shape& y) const { return d.strictly_contains(cast(y)); }
  bool is_disjoint_from(const Shape& y) const { return d.is_disjoint_from(cast(y)); }
  bool equals(const Shape& y) const { return d == cast(y); }
  bool constrains(Variable v) const { return d.constrains(v); }
  int affine_dimension() const { return (int) d.affine_dimension(); }
  bool bounds_from_above(const Linear_Expression& e) const { return d.bounds_from_above(e); }
  bool bounds_from_below(const Linear_Expression& e) const { return d.bounds_from_below(e); }
  bool maximize(const Linear_Expression& e, Coefficient& n, Coefficient& dd, bool& mx) const { return d.maximize(e, n, dd, mx); }
  bool maximize(const Linear_Expression& e, Coefficient& n, Coefficient& dd, bool& mx, Generator& g) const { return d.maximize(e, n, dd, mx, g); }
  bool minimize(const Linear_Expression& e, Coefficient& n, Coefficient& dd, bool& mn) const { return d.minimize(e, n, dd, mn); }
  bool minimize(const Linear_Expression& e, Coefficient& n, Coefficient& dd, bool& mn, Generator& g) const { return d.minimize(e, n, dd, mn, g); }
  bool frequency(const Linear_Expression& e, Coefficient& fn, Coefficient& fd, Coefficient& vn, Coefficient& vd) const { return d.frequency(e, fn, fd, vn, vd); }
  Poly_Con_Relation relation_with(const Constraint& c) const { return d.relation_with(c); }
  Poly_Con_Relation relation_with(const Congruence& c) const { return d.relation_with(c); }
  Poly_Gen_Relation relation_with(const Generator& g) const { return d.relation_with(g); }
  void misc_observers() const { (void) d.hash_code(); (void) d.total_memory_in_bytes(); (void) d.external_memory_in_bytes(); }

  void add_constraint(const Constraint& c) { d.add_constraint(c); }
  void add_constraints(const Constraint_System& cs) { d.add_constraints(cs); }
  void add_recycled_constraints(Constraint_System& cs) { d.add_recycled_constraints(cs); }
  void refine_with_constraint(const Constraint& c) { d.refine_with_constraint(c); }
  void refine_with_constraints(const Constraint_System& cs) { d.refine_with_constraints(cs); }
  void add_congruence(const Congruence& c) { d.add_congruence(c); }
  void add_congruences(const Congruence_System& cs) { d.add_congruences(cs); }
  void add_recycled_congruences(Congruence_System& cs) { d.add_recycled_congruences(cs); }
  void refine_with_congruence(const Congruence& c) { d.refine_with_congruence(c); }
  void refine_with_congruences(const Congruence_System& cs) { d.refine_with_congruences(cs); }
  void unconstrain(Variable v) { d.unconstrain(v); }
  void unconstrain(const Variables_Set& vs) { d.unconstrain(vs); }
  void intersection_assign(const Shape& y) { d.intersection_assign(cast(y)); }
  void upper_bound_assign(const Shape& y) { d.upper_bound_assign(cast(y)); }
  bool upper_bound_assign_if_exact(const Shape& y) { return d.upper_bound_assign_if_exact(cast(y)); }
  int integer_upper_bound_assign_if_exact(const Shape& y) {
    if constexpr (std::numeric_limits<T>::is_integer) return d.integer_upper_bound_assign_if_exact(cast(y)) ? 1 : 0;
    else { (void) y; return -1; }
  }
  void difference_assign(const Shape& y) { d.difference_assign(cast(y)); }
  bool simplify_using_context_assign(const Shape& y) { return d.simplify_using_context_assign(cast(y)); }
  void affine_image(Variable v, const Linear_Expression& e, const Coefficient& dd) { d.affine_image(v, e, dd); }
  void affine_preimage(Variable v, const Linear_Expression& e, const Coefficient& dd) { d.affine_preimage(v, e, dd); }
  void generalized_affine_image(Variable v, Relation_Symbol r, const Linear_Expression& e, const Coefficient& dd) { d.generalized_affine_image(v, r, e, dd); }
  void generalized_affine_preimage(Variable v, Relation_Symbol r, const Linear_Expression& e, const Coefficient& dd) { d.generalized_affine_preimage(v, r, e, dd); }
  void generalized_affine_image(const Linear_Expression& l, Relation_Symbol r, const Linear_Expression& e) { d.generalized_affine_image(l, r, e); }
  void generalized_affine_preimage(const Linear_Expression& l, Relation_Symbol r, const Linear_Expression& e) { d.generalized_affine_preimage(l, r, e); }
  void bounded_affine_image(Variable v, const Linear_Expression& lb, const Linear_Expression& ub, const Coefficient& dd) { d.bounded_affine_image(v, lb, ub, dd); }
  void bounded_affine_preimage(Variable v, const Linear_Expression& lb, const Linear_Expression& ub, const Coefficient& dd) { d.bounded_affine_preimage(v, lb, ub, dd); }
  void time_elapse_assign(const Shape& y) { d.time_elapse_assign(cast(y)); }
  void topological_closure_assign() { d.topological_closure_assign(); }
  void drop_some_non_integer_points(Complexity_Class c) { d.drop_some_non_integer_points(c); }
  void drop_some_non_integer_points(const Variables_Set& vs, Complexity_Class c) { d.drop_some_non_integer_points(vs, c); }
  void add_space_dimensions_and_embed(int m) { d.add_space_dimensions_and_embed(m); }
  void add_space_dimensions_and_project(int m) { d.add_space_dimensions_and_project(m); }
  void concatenate_assign(const Shape& y) { d.concatenate_assign(cast(y)); }
  void remove_space_dimensions(const Variables_Set& vs) { d.remove_space_dimensions(vs); }
  void remove_higher_space_dimensions(int k) { d.remove_higher_space_dimensions(k); }
  void map_space_dimensions(const Partial_Function& pf) { d.map_space_dimensions(pf); }
  void expand_space_dimension(Variable v, int m) { d.expand_space_dimension(v, m); }
  void fold_space_dimensions(const Variables_Set& vs, Variable dest) { d.fold_space_dimensions(vs, dest); }
  void assign(const Shape& y) { d = cast(y); }
  void m_swap(Shape& y) { d.m_swap(cast(y)); }

  Shape* make(int n, bool empty) const { return new ShapeImpl(n, empty); }
  Shape* from_constraints(const Constraint_System& cs) const { return new ShapeImpl(D(cs)); }
  Shape* from_congruences(const Congruence_System& cgs) const { return new ShapeImpl(D(cgs)); }
  Shape* from_generators(const Generator_System& gs) const { return new ShapeImpl(D(gs)); }
  Shape* from_polyhedron(const Polyhedron& ph, Complexity_Class c) const { return new ShapeImpl(D(ph, c)); }
  Shape* from_grid(const Grid& gr, Complexity_Class c) const { return new ShapeImpl(D(gr, c)); }
  Shape* from_box(const Rational_Box& b, Complexity_Class c) const { return new ShapeImpl(D(b, c)); }
  Shape* from_other_domain(int n, const Constraint_System& cs, Complexity_Class c, Constraint_System& seen) const {
    Other o(n); o.add_constraints(cs);
    { Other oc(o); seen = oc.constraints(); }
    return new ShapeImpl(D(o, c));
  }
  Shape* from_other_coefficient(int n, const Constraint_System& cs, Complexity_Class c, Constraint_System& seen) const {
    DU o(n); o.add_constraints(cs);
    { DU oc(o); seen = oc.constraints(); }
    return new ShapeImpl(D(o, c));
  }
};

// ---------- registration ----------
struct Entry {
  std::string short_name;   // bd_int8   (also the name of the TU)
  std::string inst;         // BD_Shape<int8_t>  (used in violation keys)
  Kind kind; TypeInfo ti;
  Shape* (*make)(int n, bool empty);
};
std::vector<Entry>& table();   // defined in shapeseq.cc
template <typename D> Shape* make_shape(int n, bool empty) { return new ShapeImpl<D>(n, empty); }
template <typename D> struct Registrar {
  Registrar(const char* short_name) {
    Entry e; e.short_name = short_name; typedef typename DomInfo<D>::coeff T;
    e.ti = TInfo<T>::get(); e.kind = DomInfo<D>::kind();
    e.inst = std::string(DomInfo<D>::dname()) + "<" + e.ti.tname + ">";
    e.make = &make_shape<D>;
    table().push_back(e);
  }
};
#define SHAPESEQ_REGISTER(SHORT, ...) static shapeseq::Registrar<__VA_ARGS__ > shapeseq_registrar_##SHORT(#SHORT);

} // namespace shapeseq
#endif
