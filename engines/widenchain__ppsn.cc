// widenchain — Pointset_Powerset<NNC_Polyhedron>
#include "wc_pps.hh"
namespace wc { void run_pps_case_c(); void run_pps_case_n() { PpsChain<NNC_Polyhedron> c; c.run(); } }
void wc::run_pps_case(bool nnc) { if (nnc) run_pps_case_n(); else run_pps_case_c(); }
