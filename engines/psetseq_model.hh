// psetseq_model.hh — reference models of a powerset: a finite union of shadows.
//   ConvexModel : shadow = constraint system (ref::Sys, NNC semantics), unions compared by RefUnion
//   GridModel   : shadow = congruence list (+ lazily its generator form by RefGrid's own HNF),
//                 unions of lattices compared exactly by coset enumeration modulo a common
//                 refinement (B.H. Neumann's lemma: cosets of infinite index never help a cover).
#ifndef PSETSEQ_MODEL_HH
#define PSETSEQ_MODEL_HH
#include "pplx.hh"
#include "refgrid.hh"
#include <memory>

namespace psq {
using namespace pplx;
using hx::violation; using hx::tr; using hx::checked;

enum Kind { K_CPOLY, K_NNC, K_GRID, K_BDS, K_OCT, K_BOX };

struct DiffVerdict { std::string what, detail; };   // what: "" ok | "inconclusive" | lost_points | extra_points | not_exact

// ===================================================================== convex
struct ConvexModel {
  typedef ref::Sys Sh;
  template <class D> static Sh shadow(const D& d, int n) { D q(d); return ref::conv(q.constraints(), n); }
  static bool empty(int n, const Sh& s) { return !ref::feasible(n, s); }
  static bool same_syntax(const Sh& a, const Sh& b) {
    if (a.size() != b.size()) return false;
    for (size_t i = 0; i < a.size(); ++i) if (a[i].rel != b[i].rel || a[i].b != b[i].b || a[i].a != b[i].a) return false;
    return true;
  }
  static std::string show(const Sh& s) { return pplx::show(s); }
  static bool member(const Sh& s, const Vec& x) { return ref::sat(s, x); }
  static Sh meet(const Sh& a, const Sh& b) { Sh m = a; m.insert(m.end(), b.begin(), b.end()); return m; }
  // U subseteq V ?  1 yes, 0 no (witness re-validated by plain arithmetic), -1 inconclusive
  static int included(int n, const std::vector<Sh>& U, const std::vector<Sh>& V, Vec* wit) {
    Vec w; int r = ref::union_included(n, U, V, &w, 20000);
    if (r == 0) {
      bool inU = false, inV = false;
      for (size_t i = 0; i < U.size(); ++i) if (ref::sat(U[i], w)) inU = true;
      for (size_t i = 0; i < V.size(); ++i) if (ref::sat(V[i], w)) inV = true;
      if (!inU || inV) { violation("harness.bug.union_witness", "witness " + pplx::show(w) + " fails re-validation"); return -1; }
      if (wit) *wit = w;
    }
    return r;
  }
  // Reference set difference as a list of non-empty NNC pieces (disjoint linear partition).  false: too many pieces.
  static bool diff_pieces(int n, const std::vector<Sh>& UA, const std::vector<Sh>& UB, std::vector<Sh>& pieces, size_t cap = 300) {
    pieces.clear();
    for (size_t i = 0; i < UA.size(); ++i) if (ref::feasible(n, UA[i])) pieces.push_back(UA[i]);
    for (size_t j = 0; j < UB.size(); ++j) {
      if (!ref::feasible(n, UB[j])) continue;
      std::vector<Sh> next;
      for (size_t p = 0; p < pieces.size(); ++p) {
        if (!ref::feasible(n, meet(pieces[p], UB[j]))) { next.push_back(pieces[p]); continue; }
        Sh acc = pieces[p];
        for (size_t c = 0; c < UB[j].size(); ++c) {
          std::vector<Con> ng = ref::negate(UB[j][c]);
          for (size_t t = 0; t < ng.size(); ++t) { Sh q = acc; Con k = ng[t]; k.a.resize(n); q.push_back(k); if (ref::feasible(n, q)) next.push_back(q); }
          Con k = UB[j][c]; k.a.resize(n); acc.push_back(k);
        }
        if (next.size() > cap) return false;
      }
      pieces.swap(next);
    }
    return true;
  }
  static DiffVerdict check_difference(int n, const std::vector<Sh>& UA, const std::vector<Sh>& UB, const std::vector<Sh>& R, Kind kind) {
    DiffVerdict v; std::vector<Sh> E;
    if (!diff_pieces(n, UA, UB, E)) { v.what = "inconclusive"; return v; }
    if (kind == K_CPOLY) for (size_t i = 0; i < E.size(); ++i) E[i] = ref::closure_of(E[i]);   // pieces are non-empty
    Vec w; int r = included(n, E, R, &w);
    if (r < 0) { v.what = "inconclusive"; return v; }
    if (r == 0) { v.what = "lost_points"; v.detail = "point " + pplx::show(w) + " of the set difference is missing from the result"; return v; }
    if (kind == K_CPOLY || kind == K_NNC) {
      r = included(n, R, E, &w);
      if (r < 0) { v.what = "inconclusive"; return v; }
      if (r == 0) { v.what = "not_exact"; v.detail = "result point " + pplx::show(w) + " is not in the " + (kind == K_CPOLY ? "closure of the " : "") + "set difference"; return v; }
    }
    return v;
  }
};

// ===================================================================== grids
struct GSh {
  std::vector<ref::Cg> cgs; bool triv_empty; int n;
  mutable std::shared_ptr<ref::Lattice> L;
  GSh() : triv_empty(false), n(0) {}
};
inline ref::Cg conv_cg(const Congruence& c, int n) {
  ref::Cg r; r.a.assign(n, Q(0));
  for (int i = 0; i < n && i < (int) c.space_dimension(); ++i) r.a[i] = ref::toQ(c.coefficient(Variable(i)));
  r.b = -ref::toQ(c.inhomogeneous_term()); r.m = ref::toQ(c.modulus());
  return r;
}
inline bool sat_all(const GSh& g, const Vec& x) {
  if (g.triv_empty) return false;
  for (size_t i = 0; i < g.cgs.size(); ++i) if (!ref::sat_cg(g.cgs[i], x)) return false;
  return true;
}
inline const ref::Lattice& lat(const GSh& g) {
  if (!g.L) {
    ref::Lattice l;
    if (g.triv_empty) { l.n = g.n; l.empty = true; } else l = ref::from_congruences(g.n, g.cgs);
    l.n = g.n; ref::canonicalize(l);
    g.L.reset(new ref::Lattice(l));
  }
  return *g.L;
}
inline void push_cg(GSh& g, const ref::Cg& c) {
  bool z = true; for (size_t i = 0; i < c.a.size(); ++i) if (c.a[i] != 0) z = false;
  if (z) { bool ok = (c.m == 0) ? (c.b == 0) : ref::is_int(Q(c.b / c.m)); if (!ok) g.triv_empty = true; return; }
  g.cgs.push_back(c);
}

struct GridModel {
  typedef GSh Sh;
  static Sh shadow(const Grid& d, int n) {
    Grid q(d); GSh g; g.n = n;
    const Congruence_System& cs = q.congruences();
    for (Congruence_System::const_iterator i = cs.begin(), e = cs.end(); i != e; ++i) push_cg(g, conv_cg(*i, n));
    return g;
  }
  static bool empty(int, const Sh& s) { return lat(s).empty; }
  static bool same_syntax(const Sh& a, const Sh& b) {
    if (a.triv_empty != b.triv_empty || a.cgs.size() != b.cgs.size()) return false;
    for (size_t i = 0; i < a.cgs.size(); ++i) if (a.cgs[i].m != b.cgs[i].m || a.cgs[i].b != b.cgs[i].b || a.cgs[i].a != b.cgs[i].a) return false;
    return true;
  }
  static std::string show(const Sh& s) {
    std::ostringstream o; o << "{"; if (s.triv_empty) o << "false";
    for (size_t i = 0; i < s.cgs.size(); ++i) { o << (i ? "; " : ""); for (size_t j = 0; j < s.cgs[i].a.size(); ++j) o << (j ? " " : "") << s.cgs[i].a[j]; o << " == " << s.cgs[i].b << " (mod " << s.cgs[i].m << ")"; }
    o << "}"; return o.str();
  }
  static bool member(const Sh& s, const Vec& x) { return sat_all(s, x); }
  static Sh meet(const Sh& a, const Sh& b) { GSh m; m.n = a.n; m.triv_empty = a.triv_empty || b.triv_empty; m.cgs = a.cgs; m.cgs.insert(m.cgs.end(), b.cgs.begin(), b.cgs.end()); return m; }

  // Does Q (congruence form) cut P (canonical generator form) in a subset of finite index (or possibly not at all)?
  // false: the intersection is empty or has infinite index in P.
  static bool finite_index_candidate(const ref::Lattice& L, const GSh& Qj) {
    if (Qj.triv_empty) return false;
    for (size_t c = 0; c < Qj.cgs.size(); ++c) {
      const ref::Cg& cg = Qj.cgs[c];
      for (size_t l = 0; l < L.lines.size(); ++l) if (ref::dot(cg.a, L.lines[l]) != 0) return false;
      if (cg.m == 0) {
        for (size_t q = 0; q < L.params.size(); ++q) if (ref::dot(cg.a, L.params[q]) != 0) return false;
        if (ref::dot(cg.a, L.p) != cg.b) return false;
      }
    }
    return true;
  }
  // P subseteq union V ?   1 / 0 (verified witness) / -1
  static int lat_in_union(const GSh& P, const std::vector<GSh>& V, Vec* wit) {
    const ref::Lattice& L = lat(P);
    if (L.empty) return 1;
    size_t r = L.params.size(), nl = L.lines.size(); int n = L.n;
    std::vector<size_t> fin;
    for (size_t j = 0; j < V.size(); ++j) if (finite_index_candidate(L, V[j])) fin.push_back(j);
    std::vector<mpz_class> Dv(r, mpz_class(1));
    for (size_t f = 0; f < fin.size(); ++f) { const GSh& Qj = V[fin[f]];
      for (size_t c = 0; c < Qj.cgs.size(); ++c) { const ref::Cg& cg = Qj.cgs[c]; if (cg.m == 0) continue;
        for (size_t i = 0; i < r; ++i) { Q al = ref::dot(cg.a, L.params[i]) / cg.m; al.canonicalize(); mpz_class d = al.get_den(); mpz_lcm(Dv[i].get_mpz_t(), Dv[i].get_mpz_t(), d.get_mpz_t()); } } }
    mpz_class N = 1; for (size_t i = 0; i < r; ++i) N *= Dv[i];
    if (N > 20000) { hx::count("grid_coset_cap"); return -1; }
    hx::count("grid_cosets", N.get_ui());
    std::vector<mpz_class> k(r, mpz_class(0));
    for (;;) {
      Vec x = L.p; for (size_t i = 0; i < r; ++i) if (k[i] != 0) for (int d = 0; d < n; ++d) x[d] += Q(k[i]) * L.params[i][d];
      bool cov = false; for (size_t f = 0; f < fin.size() && !cov; ++f) if (sat_all(V[fin[f]], x)) cov = true;
      if (!cov) {
        // the whole coset x + M is uncovered by the finite-index members; find a point of it outside the others too
        static const int SV[6] = { 0, 1, -1, 2, -2, 3 };
        static const char* TV[7] = { "0", "1", "-1", "1/2", "2", "1/3", "-3/2" };
        std::vector<int> od(r + nl, 0);
        for (int tries = 0; tries < 3000; ++tries) {
          Vec y = x;
          for (size_t i = 0; i < r; ++i) if (od[i]) for (int d = 0; d < n; ++d) y[d] += Q(SV[od[i]]) * Q(Dv[i]) * L.params[i][d];
          for (size_t l = 0; l < nl; ++l) if (od[r + l]) { Q t(TV[od[r + l]]); for (int d = 0; d < n; ++d) y[d] += t * L.lines[l][d]; }
          bool in = false; for (size_t j = 0; j < V.size() && !in; ++j) if (sat_all(V[j], y)) in = true;
          if (!in) {
            if (!sat_all(P, y)) { violation("harness.bug.grid_witness", "witness " + pplx::show(y) + " is not in the lattice it was drawn from: " + show(P)); return -1; }
            if (wit) *wit = y; return 0;
          }
          size_t i = 0; while (i < r + nl) { int lim = i < r ? 6 : 7; if (++od[i] < lim) break; od[i] = 0; ++i; }
          if (i == r + nl) break;
        }
        hx::count("grid_witness_search_failed"); return -1;
      }
      size_t i = 0; while (i < r) { if (++k[i] < Dv[i]) break; k[i] = 0; ++i; }
      if (i == r) break;
    }
    return 1;
  }
  static int included(int, const std::vector<Sh>& U, const std::vector<Sh>& V, Vec* wit) {
    for (size_t i = 0; i < U.size(); ++i) { int r = lat_in_union(U[i], V, wit); if (r != 1) return r; }
    return 1;
  }
  static DiffVerdict check_difference(int n, const std::vector<Sh>& UA, const std::vector<Sh>& UB, const std::vector<Sh>& R, Kind) {
    DiffVerdict v; Vec w;
    std::vector<Sh> RB = R; RB.insert(RB.end(), UB.begin(), UB.end());
    int r = included(n, UA, RB, &w);
    if (r < 0) { v.what = "inconclusive"; return v; }
    if (r == 0) { v.what = "lost_points"; v.detail = "point " + pplx::show(w) + " of the minuend is neither in the result nor in the subtrahend"; return v; }
    r = included(n, R, UA, &w);
    if (r < 0) { v.what = "inconclusive"; return v; }
    if (r == 0) { v.what = "extra_points"; v.detail = "result point " + pplx::show(w) + " is not in the minuend"; return v; }
    for (size_t i = 0; i < R.size(); ++i) for (size_t j = 0; j < UB.size(); ++j) {
      GSh m = meet(R[i], UB[j]); const ref::Lattice& L = lat(m);
      if (L.empty) continue;
      if (!sat_all(R[i], L.p) || !sat_all(UB[j], L.p)) { violation("harness.bug.grid_meet_witness", pplx::show(L.p)); v.what = "inconclusive"; return v; }
      // exactness can only be demanded when the set difference is a finite union of grids
      bool repr = true;
      for (size_t a = 0; a < UA.size() && repr; ++a) { const ref::Lattice& LA = lat(UA[a]); if (LA.empty) continue;
        for (size_t b = 0; b < UB.size() && repr; ++b) if (!finite_index_candidate(LA, UB[b]) && !lat(meet(UA[a], UB[b])).empty) repr = false; }
      if (!repr) { hx::count("grid_diff_unrepresentable"); return v; }
      v.what = "not_exact"; v.detail = "result point " + pplx::show(L.p) + " belongs to the subtrahend although the set difference is a finite union of grids";
      return v;
    }
    return v;
  }
};

template <class M> inline std::string show_union(const std::vector<typename M::Sh>& U) {
  std::ostringstream o; o << "[";
  for (size_t i = 0; i < U.size(); ++i) o << (i ? " u " : "") << M::show(U[i]);
  o << "]"; return o.str();
}
template <class M> inline bool same_syntax_union(const std::vector<typename M::Sh>& A, const std::vector<typename M::Sh>& B) {
  if (A.size() != B.size()) return false;
  for (size_t i = 0; i < A.size(); ++i) if (!M::same_syntax(A[i], B[i])) return false;
  return true;
}

} // namespace psq
#endif
