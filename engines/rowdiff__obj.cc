// rowdiff, part 2: Constraint / Generator / Congruence / Grid_Generator twins and the
// four systems, DENSE vs SPARSE in lock-step; Polyhedron and Grid objects built from
// twin systems (these adopt the representation of the system they are given, so the
// whole conversion / simplification machinery — sub-range linear_combine,
// exact_div_assign, normalisations, comparisons, sorting — is driven through its
// public clients on both representations).
//
// Oracle: the DENSE twin (whose rows never pass through CO_Tree) is the reference for
// the SPARSE twin; everything observable through the public API is folded into a
// signature string and the two signatures must be equal after every step.
#include "rowdiff_common.hh"

using namespace rd;

namespace {

// ---------- signatures ----------
template <typename A> std::string adapter_sig(const A& a) {
  std::ostringstream o;
  dimension_type n = a.space_dimension();
  o << "{d" << n << " inh " << a.inhomogeneous_term() << " c";
  for (dimension_type i = 0; i < n; ++i) o << " " << a.coefficient(Variable(i));
  o << " it";
  for (typename A::const_iterator i = a.begin(), e = a.end(); i != e; ++i) o << " " << i.variable().id() << ":" << *i;
  if (n > 0) { typename A::const_iterator i = a.lower_bound(Variable(n / 2)); o << " lb" << (i == a.end() ? std::string("end") : std::to_string(i.variable().id())); }
  o << " z" << a.is_zero() << a.all_homogeneous_terms_are_zero();
  o << " ln" << a.last_nonzero() << " fn" << a.first_nonzero(1, n + 1) << " ln2_" << a.last_nonzero(1, n + 1) << " g" << a.gcd(1, n + 1) << " nz" << a.num_zeroes(1, n + 1) << " az" << a.all_zeroes(1, n / 2 + 1);
  Variables_Set vs; for (dimension_type i = 0; i < n; i += 2) vs.insert(i);
  o << " azv" << a.all_zeroes(vs) << " aze" << a.all_zeroes_except(vs, 1, n + 1);
  o << "}";
  return o.str();
}

std::string sig(const Constraint& c) {
  std::ostringstream o; o << "C t" << (int) c.type() << " d" << c.space_dimension() << " inh " << c.inhomogeneous_term();
  for (dimension_type i = 0; i < c.space_dimension(); ++i) o << " " << c.coefficient(Variable(i));
  o << " f" << c.is_equality() << c.is_inequality() << c.is_nonstrict_inequality() << c.is_strict_inequality() << c.is_tautological() << c.is_inconsistent() << c.OK();
  o << " p[" << str(c) << "] e" << adapter_sig(c.expression()) << " a[" << ndump(c) << "]";
  return o.str();
}
std::string sig(const Generator& g) {
  std::ostringstream o; o << "G t" << (int) g.type() << " d" << g.space_dimension();
  for (dimension_type i = 0; i < g.space_dimension(); ++i) o << " " << g.coefficient(Variable(i));
  if (g.is_point() || g.is_closure_point()) o << " div " << g.divisor();
  o << " f" << g.is_line() << g.is_ray() << g.is_line_or_ray() << g.is_point() << g.is_closure_point() << g.OK();
  o << " p[" << str(g) << "] e" << adapter_sig(g.expression()) << " a[" << ndump(g) << "]";
  return o.str();
}
std::string sig(const Congruence& c) {
  std::ostringstream o; o << "K d" << c.space_dimension() << " inh " << c.inhomogeneous_term() << " m " << c.modulus();
  for (dimension_type i = 0; i < c.space_dimension(); ++i) o << " " << c.coefficient(Variable(i));
  o << " f" << c.is_equality() << c.is_proper_congruence() << c.is_tautological() << c.is_inconsistent() << c.OK();
  o << " p[" << str(c) << "] e" << adapter_sig(c.expression()) << " a[" << ndump(c) << "]";
  return o.str();
}
std::string sig(const Grid_Generator& g) {
  std::ostringstream o; o << "GG t" << (int) g.type() << " d" << g.space_dimension();
  for (dimension_type i = 0; i < g.space_dimension(); ++i) o << " " << g.coefficient(Variable(i));
  if (!g.is_line()) o << " div " << g.divisor();
  o << " f" << g.is_line() << g.is_parameter() << g.is_line_or_parameter() << g.is_point() << g.is_parameter_or_point() << g.all_homogeneous_terms_are_zero() << g.OK();
  o << " p[" << str(g) << "] e" << adapter_sig(g.expression()) << " a[" << ndump(g) << "]";
  return o.str();
}

// ---------- per-step random draw, shared by both twins ----------
struct Draw {
  Z k, k2, mul; int v, v2, n; Variables_Set vs; std::vector<Variable> cyc; std::string cyc_s, vs_s;
  Linear_Expression ex;     // an expression of dimension <= the receiver's
  Draw(dimension_type dim, int maxv) : ex(rand_rep()) {
    k = rand_z(true); k2 = rand_z(true); mul = k < 0 ? Z(-k) : k;
    v = dim ? rnd(0, (int) dim - 1) : 0; v2 = dim ? rnd(0, (int) dim - 1) : 0; n = rnd(0, maxv);
    int pct = coin() ? 25 : 60; for (dimension_type i = 0; i < dim; ++i) if (coin(pct)) { vs.insert(i); vs_s += std::to_string(i) + " "; }
    std::vector<int> ids; for (dimension_type i = 0; i < dim; ++i) ids.push_back(i); std::shuffle(ids.begin(), ids.end(), hx::rng());
    size_t len = ids.empty() ? 0 : (size_t) rnd(0, std::min<int>(ids.size(), 5)); for (size_t i = 0; i < len; ++i) { cyc.push_back(Variable(ids[i])); cyc_s += std::to_string(ids[i]) + " "; }
    for (dimension_type i = 0; i < dim; ++i) if (coin(50)) ex += rand_z(true) * Variable(i);
    if (coin()) ex += rand_z();
  }
};

Linear_Expression rand_le(int maxv, Representation r, int pct) {
  Linear_Expression e(r); int n = rnd(0, maxv);
  for (int v = 0; v < n; ++v) if (coin(pct)) e += rand_z(true) * Variable(v);
  if (n > 0 && coin(40)) e.set_space_dimension(std::max<dimension_type>(e.space_dimension(), n));
  if (coin(60)) e += rand_z();
  return e;
}

// ---------- traits ----------
struct TC {   // Constraint
  typedef Constraint Obj; typedef Constraint_System Sys;
  static const char* name() { return "Constraint"; }
  // builds the twin pair (d DENSE-built, s SPARSE-built) of one random object
  static void make(int maxv, bool wide, Obj& d, Obj& s, std::string& how) {
    Linear_Expression e = rand_le(maxv, rand_rep(), wide ? 25 : 55); int t = rnd(0, 9);
    Constraint c = t < 4 ? (e >= 0) : t < 6 ? (e == 0) : t < 8 ? (e > 0) : t == 8 ? (e <= rand_z()) : (e < rand_z());
    how = "from " + str(c);
    d = Constraint(c, DENSE); s = Constraint(c, SPARSE);
    if (coin(20)) { s = c; s.set_representation(SPARSE); }
  }
  static int n_special() { return 2; }
  static std::string special(int i, Obj& x, const Draw& D, bool go) {
    if (i == 0) { if (go) x = Constraint(x, (dimension_type) D.n); return "copy_dim(" + std::to_string(D.n) + ")"; }
    if (go) x = Constraint(x, (dimension_type) D.n, rand_rep_fixed); return "copy_dim_repr(" + std::to_string(D.n) + ")";
  }
  static Representation rand_rep_fixed;
  static bool equal_to(const Obj& a, const Obj& b) { return a.is_equal_to(b); }
  static bool equivalent_to(const Obj& a, const Obj& b) { return a.is_equivalent_to(b); }
  static bool eqop(const Obj& a, const Obj& b) { return a == b; }
  static int cmp(const Obj& a, const Obj& b) { return compare(a, b); }
};
Representation TC::rand_rep_fixed = DENSE;

struct TG {   // Generator
  typedef Generator Obj; typedef Generator_System Sys;
  static const char* name() { return "Generator"; }
  static void make(int maxv, bool wide, Obj& d, Obj& s, std::string& how) {
    Linear_Expression e = rand_le(maxv, rand_rep(), wide ? 25 : 55); int t = rnd(0, 9); Z den = rand_z(true); if (coin(70)) den = rnd(1, 4);
    if (t >= 4 && t < 8 && e.all_homogeneous_terms_are_zero()) e += Variable(rnd(0, std::max(0, maxv - 1)));
    Linear_Expression ed(e, DENSE), es(e, SPARSE);    // the expression argument itself in either representation
    const Linear_Expression& ad = coin() ? ed : es; const Linear_Expression& as = coin() ? ed : es;
    if (t < 4) { d = Generator::point(ad, den, DENSE); s = Generator::point(as, den, SPARSE); how = "point"; }
    else if (t < 6) { d = Generator::ray(ad, DENSE); s = Generator::ray(as, SPARSE); how = "ray"; }
    else if (t < 8) { d = Generator::line(ad, DENSE); s = Generator::line(as, SPARSE); how = "line"; }
    else { d = Generator::closure_point(ad, den, DENSE); s = Generator::closure_point(as, den, SPARSE); how = "closure_point"; }
    how += "(" + str(e) + "," + zs(den) + ")";
  }
  static int n_special() { return 2; }
  static Representation rand_rep_fixed;
  static std::string special(int i, Obj& x, const Draw& D, bool go) {
    if (i == 0) { if (go) x = Generator(x, (dimension_type) D.n); return "copy_dim(" + std::to_string(D.n) + ")"; }
    if (go) x = Generator(x, (dimension_type) D.n, rand_rep_fixed); return "copy_dim_repr(" + std::to_string(D.n) + ")";
  }
  static bool equal_to(const Obj& a, const Obj& b) { return a.is_equal_to(b); }
  static bool equivalent_to(const Obj& a, const Obj& b) { return a.is_equivalent_to(b); }
  static bool eqop(const Obj& a, const Obj& b) { return a == b; }
  static int cmp(const Obj& a, const Obj& b) { return compare(a, b); }
};
Representation TG::rand_rep_fixed = DENSE;

struct TGG {   // Grid_Generator
  typedef Grid_Generator Obj; typedef Grid_Generator_System Sys;
  static const char* name() { return "Grid_Generator"; }
  static void make(int maxv, bool wide, Obj& d, Obj& s, std::string& how) {
    Linear_Expression e = rand_le(maxv, rand_rep(), wide ? 25 : 55); int t = rnd(0, 9); Z den = rand_z(true); if (coin(70)) den = rnd(1, 4);
    if (t >= 4 && t < 6 && e.all_homogeneous_terms_are_zero()) e += Variable(rnd(0, std::max(0, maxv - 1)));
    Linear_Expression ed(e, DENSE), es(e, SPARSE);
    const Linear_Expression& ad = coin() ? ed : es; const Linear_Expression& as = coin() ? ed : es;
    if (t < 4) { d = Grid_Generator::grid_point(ad, den, DENSE); s = Grid_Generator::grid_point(as, den, SPARSE); how = "grid_point"; }
    else if (t < 6) { d = Grid_Generator::grid_line(ad, DENSE); s = Grid_Generator::grid_line(as, SPARSE); how = "grid_line"; }
    else { d = Grid_Generator::parameter(ad, den, DENSE); s = Grid_Generator::parameter(as, den, SPARSE); how = "parameter"; }
    how += "(" + str(e) + "," + zs(den) + ")";
  }
  static int n_special() { return 4; }
  static Representation rand_rep_fixed;
  static std::string special(int i, Obj& x, const Draw& D, bool go) {
    if (i == 0) { if (go) x = Grid_Generator(x, (dimension_type) D.n); return "copy_dim(" + std::to_string(D.n) + ")"; }
    if (i == 1) { if (go) x = Grid_Generator(x, (dimension_type) D.n, rand_rep_fixed); return "copy_dim_repr(" + std::to_string(D.n) + ")"; }
    if (i == 2) { if (x.is_line()) return ""; Z m = D.mul; if (go) { Z t = x.divisor() * m; x.scale_to_divisor(t); } return "scale_to_divisor(divisor*" + zs(m) + ")"; }
    if (x.is_line()) return ""; Z m = D.mul; if (go) x.set_divisor(m); return "set_divisor(" + zs(m) + ")";
  }
  static bool equal_to(const Obj& a, const Obj& b) { return a.is_equal_to(b); }
  static bool equivalent_to(const Obj& a, const Obj& b) { return a.is_equivalent_to(b); }
  static bool eqop(const Obj& a, const Obj& b) { return a == b; }
  static int cmp(const Obj& a, const Obj& b) { return compare(a, b); }
};
Representation TGG::rand_rep_fixed = DENSE;

struct TK {   // Congruence
  typedef Congruence Obj; typedef Congruence_System Sys;
  static const char* name() { return "Congruence"; }
  static void make(int maxv, bool wide, Obj& d, Obj& s, std::string& how) {
    Linear_Expression e = rand_le(maxv, rand_rep(), wide ? 25 : 55); Linear_Expression e2 = rand_le(maxv, rand_rep(), 30); int t = rnd(0, 9); Z m = coin(25) ? Z(0) : Z(rnd(1, 6)); if (coin(10)) m = abs(rand_z(true));
    Linear_Expression ed(e, DENSE), es(e, SPARSE);
    const Linear_Expression& ad = coin() ? ed : es; const Linear_Expression& as = coin() ? ed : es;
    if (t < 3) { d = Congruence::create(ad, e2, DENSE); s = Congruence::create(as, e2, SPARSE); d /= m; s /= m; how = "create(e1,e2)/" + zs(m); }
    else if (t < 5) { Z n = rand_z(); d = Congruence::create(ad, n, DENSE); s = Congruence::create(as, n, SPARSE); d.set_modulus(m); s.set_modulus(m); how = "create(e,n) modulus " + zs(m); }
    else if (t < 6) { Z n = rand_z(); d = Congruence::create(n, ad, DENSE); s = Congruence::create(n, as, SPARSE); how = "create(n,e)"; }
    else if (t < 8) { Congruence c = (e %= e2) / m; d = Congruence(c, DENSE); s = Congruence(c, SPARSE); how = "(e%=e2)/" + zs(m); }
    else { Constraint c = (e == e2); Constraint cd(c, DENSE); d = Congruence(coin() ? c : cd, DENSE); s = Congruence(coin() ? c : cd, SPARSE); how = "from equality"; }
    how += " e=" + str(e) + " e2=" + str(e2);
  }
  static int n_special() { return 9; }
  static Representation rand_rep_fixed;
  static std::string special(int i, Obj& x, const Draw& D, bool go) {
    switch (i) {
    case 0: if (go) x = Congruence(x, (dimension_type) D.n); return "copy_dim(" + std::to_string(D.n) + ")";
    case 1: if (go) x = Congruence(x, (dimension_type) D.n, rand_rep_fixed); return "copy_dim_repr(" + std::to_string(D.n) + ")";
    case 2: { Z m = D.mul; if (coin_fixed) m = 0; if (go) x.set_modulus(m); return "set_modulus(" + zs(m) + ")"; }
    case 3: if (go) x.scale(D.mul); return "scale(" + zs(D.mul) + ")";   // a negative factor would make the modulus negative (caller's business)
    case 4: { if (x.space_dimension() == 0) return ""; Z den = D.k2 < 0 ? Z(-D.k2) : D.k2; if (go) x.affine_preimage(Variable(D.v), D.ex, den); return "affine_preimage(" + std::to_string(D.v) + "," + str(D.ex) + "," + zs(den) + ")"; }
    case 5: { Z m = D.mul; if (go) x /= m; return "div_assign(" + zs(m) + ")"; }
    case 6: if (go) x.sign_normalize(); return "sign_normalize()";
    case 7: if (go) x.normalize(); return "normalize()";
    default: if (go) x.strong_normalize(); return "strong_normalize()";
    }
  }
  static bool coin_fixed;
  static bool equal_to(const Obj& a, const Obj& b) { return a == b; }
  static bool equivalent_to(const Obj& a, const Obj& b) { return a == b; }
  static bool eqop(const Obj& a, const Obj& b) { return !(a != b); }
  static int cmp(const Obj&, const Obj&) { return 0; }
};
Representation TK::rand_rep_fixed = DENSE; bool TK::coin_fixed = false;

// generic dimension operations (same member names in all four classes)
template <typename Obj> std::string dim_op(int i, Obj& x, const Draw& D, dimension_type dim, bool go) {
  switch (i) {
  case 0: if (go) x.set_space_dimension(D.n); return "set_space_dimension(" + std::to_string(D.n) + ")";
  case 1: if (dim == 0) return ""; if (go) x.swap_space_dimensions(Variable(D.v), Variable(D.v2)); return "swap_space_dimensions(" + std::to_string(D.v) + "," + std::to_string(D.v2) + ")";
  case 2: if (go) x.permute_space_dimensions(D.cyc); return "permute_space_dimensions(" + D.cyc_s + ")";
  default: { int at = dim ? D.v : 0; if (D.v2 == 0) at = (int) dim; int n = D.n % 4; if (go) x.shift_space_dimensions(Variable(at), n); return "shift_space_dimensions(" + std::to_string(at) + "," + std::to_string(n) + ")"; }
  }
}
template <typename Obj> std::string remove_op(Obj& x, const Draw& D, bool& ret, bool go) { if (go) ret = x.remove_space_dimensions(D.vs); return "remove_space_dimensions({" + D.vs_s + "})"; }
template <> std::string remove_op<Congruence>(Congruence&, const Draw&, bool&, bool) { return ""; }   // not in Congruence's interface
// Constraint::remove_space_dimensions does not re-normalise (3*A - E >= 6 minus E stays 3*A >= 6; debug builds then abort in
// the next member that asserts OK()): representation-independent, exercised only outside assert-safe mode
template <> std::string remove_op<Constraint>(Constraint& x, const Draw& D, bool& ret, bool go) { if (assert_safe()) return ""; if (go) ret = x.remove_space_dimensions(D.vs); return "remove_space_dimensions({" + D.vs_s + "})"; }

// public values that a copy with another space dimension must preserve (for variables that survive)
struct Snap { std::string kind; std::vector<Z> c; Z extra; };
Snap snap(const Constraint& x) { Snap s; s.kind = std::to_string((int) x.type()); for (dimension_type i = 0; i < x.space_dimension(); ++i) s.c.push_back(x.coefficient(Variable(i))); s.extra = x.inhomogeneous_term(); return s; }
Snap snap(const Generator& x) { Snap s; s.kind = std::to_string((int) x.type()); for (dimension_type i = 0; i < x.space_dimension(); ++i) s.c.push_back(x.coefficient(Variable(i))); s.extra = (x.is_point() || x.is_closure_point()) ? x.divisor() : Z(0); return s; }
Snap snap(const Grid_Generator& x) { Snap s; s.kind = std::to_string((int) x.type()); for (dimension_type i = 0; i < x.space_dimension(); ++i) s.c.push_back(x.coefficient(Variable(i))); s.extra = x.is_line() ? Z(0) : x.divisor(); return s; }
Snap snap(const Congruence& x) { Snap s; s.kind = x.is_equality() ? "eq" : "cg"; for (dimension_type i = 0; i < x.space_dimension(); ++i) s.c.push_back(x.coefficient(Variable(i))); s.extra = x.modulus() * 1000003 + x.inhomogeneous_term(); return s; }
bool snap_preserved(const Snap& a, const Snap& b) { if (a.kind != b.kind || a.extra != b.extra) return false; for (size_t i = 0; i < a.c.size() && i < b.c.size(); ++i) if (a.c[i] != b.c[i]) return false; for (size_t i = a.c.size(); i < b.c.size(); ++i) if (b.c[i] != 0) return false; return true; }
// objects that keep a special value in the last column of the underlying row
const char* special_column(const Constraint& x) { return x.is_strict_inequality() ? "strict-inequality" : 0; }
const char* special_column(const Generator& x) { return x.is_closure_point() ? "closure-point" : 0; }
const char* special_column(const Grid_Generator& x) { return x.is_parameter() ? "parameter" : "grid-generator-last-column"; }
const char* special_column(const Congruence&) { return 0; }

// the smallest dimension a copy / set_space_dimension may shrink to without turning a line or ray into the
// (invalid) zero direction: members that shrink do not re-validate, that is the caller's business
dimension_type min_keep(const Constraint&) { return 0; }
dimension_type min_keep(const Congruence&) { return 0; }
dimension_type min_keep(const Generator& x) { if (!x.is_line_or_ray()) return 0; for (dimension_type i = 0; i < x.space_dimension(); ++i) if (x.coefficient(Variable(i)) != 0) return i + 1; return 0; }
dimension_type min_keep(const Grid_Generator& x) { if (!x.is_line()) return 0; for (dimension_type i = 0; i < x.space_dimension(); ++i) if (x.coefficient(Variable(i)) != 0) return i + 1; return 0; }

// rows of different topologies never meet inside a system: comparing them is outside the contract
template <typename Obj> bool nnc_marker(const Obj& x) { return dump(x).find("(NNC)") != std::string::npos; }
template <typename Obj> bool comparable(const Obj& a, const Obj& b) { return nnc_marker(a) == nnc_marker(b); }

template <typename T> struct Pair { typename T::Obj d, s; Pair() : d(DENSE), s(SPARSE) {} };

template <typename T> bool twins_agree(const Pair<T>& p, const std::string& op) {
  checked();
  std::string a = sig(p.d), b = sig(p.s);
  if (a != b) {
    // locate the first differing component for the triage class
    size_t i = 0; while (i < a.size() && i < b.size() && a[i] == b[i]) ++i;
    size_t st = a.rfind(' ', i); std::string comp = st == std::string::npos ? "head" : a.substr(st + 1, 3);
    std::string cls; for (char ch : comp) if (isalpha((unsigned char) ch)) cls += ch; if (cls.empty()) cls = "value";
    viol(std::string("C16.diff.") + T::name() + "." + op + ":" + cls, std::string("reps ") + rs(p.d.representation()) + rs(p.s.representation()) + "\n D: " + clip(a, 700) + "\n S: " + clip(b, 700));
    return false;
  }
  return true;
}

template <typename T> void obj_history() {
  typedef typename T::Obj Obj;
  const int NP = 3; Pair<T> P[NP];
  const bool wide = coin(25); const int maxv = wide ? rnd(10, 40) : rnd(1, 6);
  std::string cn = T::name();
  poison().clear();
  hx::count("obj.cases." + cn);
  for (int i = 0; i < NP; ++i) { std::string how; try { T::make(maxv, wide, P[i].d, P[i].s, how); } catch (const std::invalid_argument&) { --i; continue; } tr(" #" + std::to_string(i) + "=" + how); if (!twins_agree(P[i], "construct")) return; }
  for (int st = 0, steps = rnd(5, 14); st < steps && !hx::st().case_tainted; ++st) {
    int a = rnd(0, NP - 1), b = rnd(0, NP - 2); if (b >= a) ++b;
    Pair<T>& A = P[a]; Pair<T>& B = P[b];
    std::string pre = " | #" + std::to_string(a) + "[" + rs(A.d.representation()) + rs(A.s.representation()) + "].";
    std::string op; int kind = rnd(0, 19);
    dimension_type dim = A.d.space_dimension();
    Draw D(dim, maxv);
    if ((dimension_type) D.n < min_keep(A.d)) D.n = (int) min_keep(A.d);
    // shrinking copies / set_space_dimension do not re-normalise (debug builds assert OK()): grow only in assert-safe mode
    if (assert_safe() && (dimension_type) D.n < dim) D.n = (int) dim + D.n % 3;
    RD_GUARD_BEGIN
    try {
      if (kind < 5) { int w = rnd(0, 3); op = dim_op(w, A.d, D, dim, false); if (!op.empty()) { tr(pre + op); dim_op(w, A.d, D, dim, true); dim_op(w, A.s, D, dim, true); } }
      else if (kind < 7) { bool r1 = true, r2 = true; op = remove_op(A.d, D, r1, false); if (!op.empty()) { tr(pre + op); remove_op(A.d, D, r1, true); remove_op(A.s, D, r2, true); if (r1 != r2) { viol("C16.diff." + cn + ".remove_space_dimensions:return", "return values differ"); return; } } }
      else if (kind < 11) { int w = rnd(0, T::n_special() - 1); Representation r1 = rand_rep(), r2 = rand_rep(); TK::coin_fixed = coin(20); op = T::special(w, A.d, D, false);
        // Copying a strict inequality / closure point / parameter to another dimension leaves the epsilon coefficient / divisor in
        // its old column (defect, both representations alike; it poisons what follows: division by a zero divisor): visited rarely.
        const char* sc = special_column(A.d); bool fragile = w <= 1 && sc && (dimension_type) D.n != dim;
        if (fragile && !risky("copydim", 15)) { hx::count("obj.skip.copy_dim_special_column"); op.clear(); }
        // truncating DENSE -> SPARSE copy keeps the cut-off elements in the sparse row (defect): visited rarely, and named
        if (w == 1 && (dimension_type) D.n < dim) { bool td = (A.d.representation() == DENSE && r1 == SPARSE) || (A.s.representation() == DENSE && r2 == SPARSE);
          if (td && !risky("truncds", 10)) { if (A.d.representation() == DENSE) r1 = DENSE; if (A.s.representation() == DENSE) r2 = DENSE; td = false; }
          if (td && !op.empty()) hx::count("truncating_dense_to_sparse_conversions") /* the defect this used to poison the case for is repaired in /repo */; }
        if (!op.empty() && fragile && poison().empty()) poison() = std::string(sc) + "-special-column-misplaced";
        if (!op.empty()) { tr(pre + op + "[" + rs(r1) + rs(r2) + "]"); Snap before = snap(A.d); T::rand_rep_fixed = r1; T::special(w, A.d, D, true); T::rand_rep_fixed = r2; T::special(w, A.s, D, true);
          if (w <= 1) { checked(); Snap ad = snap(A.d), as = snap(A.s);
            if (!snap_preserved(before, ad) || !snap_preserved(before, as)) { viol("C16.diff." + cn + "." + op.substr(0, op.find('(')) + ":value-not-preserved", "copy to dimension " + std::to_string(D.n) + " does not preserve the public value: " + clip(sig(A.d), 300) + " / " + clip(sig(A.s), 300)); return; } } } }
      else if (kind < 12) { op = "set_representation"; Representation r1 = rand_rep(), r2 = rand_rep(); tr(pre + op + "(" + rs(r1) + rs(r2) + ")"); A.d.set_representation(r1); A.s.set_representation(r2); hx::count("obj.repr_flips"); }
      else if (kind < 13) { int how = rnd(0, 3); op = how == 0 ? "assign" : how == 1 ? "copy_repr" : how == 2 ? "m_swap" : "swap"; tr(pre + op + "(#" + std::to_string(b) + ")");
        if (how == 0) { A.d = coin() ? B.d : B.s; A.s = coin() ? B.d : B.s; }
        else if (how == 1) { A.d = Obj(coin() ? B.d : B.s, rand_rep()); A.s = Obj(coin() ? B.d : B.s, rand_rep()); }
        else if (how == 2) { A.d.m_swap(B.d); A.s.m_swap(B.s); }
        else { using std::swap; swap(A.d, B.d); swap(A.s, B.s); } }
      else if (kind < 14) { op = "remake"; std::string how; tr(pre + op); try { T::make(maxv, wide, A.d, A.s, how); } catch (const std::invalid_argument&) { } tr("=" + how); }
      else if (kind < 16) { // ascii round trip
        op = "ascii_load"; bool intoD = coin(); Representation r = rand_rep(); tr(pre + op + "(" + (intoD ? "d" : "s") + "," + rs(r) + ")");
        const Obj& src = intoD ? A.d : A.s; std::string t1 = dump(src); Obj L(r); std::istringstream in(t1); checked(); hx::count("ascii_roundtrips");
        if (!L.ascii_load(in)) { viol("C15.row." + cn + ".ascii_load_failed", clip(t1)); return; }
        std::string t2 = dump(L); if (t1 != t2) { viol("C15.row." + cn + ".redump_differs", clip(t1) + " vs " + clip(t2)); return; }
        if (sig(L) != sig(src)) { viol("C15.row." + cn + ".value_differs", clip(sig(L)) + " vs " + clip(sig(src))); return; }
        if (intoD) A.d.m_swap(L); else A.s.m_swap(L); }
      else { // binary predicates, four representation combinations must agree
        op = "binary_queries"; tr(pre + op + "(#" + std::to_string(b) + ")");
        if (!comparable(A.d, B.d)) { hx::count("obj.skip.mixed_topology_compare"); op.clear(); }
        const Obj* xs[2] = { &A.d, &A.s }; const Obj* ys[2] = { &B.d, &B.s };
        int e0 = 0, q0 = 0, o0 = 0, c0 = 0;
        for (int p = 0; p < 2 && !op.empty(); ++p) for (int q = 0; q < 2; ++q) {
          checked(); hx::count("obj.binary_query_combos");
          // objects of different topologies (strict vs non-strict, closure point vs point) are outside the contract of
          // some of these: an exception is recorded as an answer and must then be the answer of all four combinations
          int e = 9, qv = 9, o = 9, c = 99;
          try { e = T::equal_to(*xs[p], *ys[q]); } catch (const std::exception&) { }
          try { qv = T::equivalent_to(*xs[p], *ys[q]); } catch (const std::exception&) { }
          try { o = T::eqop(*xs[p], *ys[q]); } catch (const std::exception&) { }
          try { c = T::cmp(*xs[p], *ys[q]); } catch (const std::exception&) { }
          if (p == 0 && q == 0) { e0 = e; q0 = qv; o0 = o; c0 = c; continue; }
          std::string rc = std::string(rs(xs[p]->representation())) + rs(ys[q]->representation());
          if (e != e0) { viol("C16.diff." + cn + ".is_equal_to:" + rc, clip(sig(*xs[p])) + " vs " + clip(sig(*ys[q]))); return; }
          if (qv != q0) { viol("C16.diff." + cn + ".is_equivalent_to:" + rc, clip(sig(*xs[p])) + " vs " + clip(sig(*ys[q]))); return; }
          if (o != o0) { viol("C16.diff." + cn + ".operator_eq:" + rc, clip(sig(*xs[p])) + " vs " + clip(sig(*ys[q]))); return; }
          if (c != c0) { viol("C16.diff." + cn + ".compare:" + rc, std::to_string(c) + " vs " + std::to_string(c0) + " " + clip(sig(*xs[p])) + " vs " + clip(sig(*ys[q]))); return; }
        }
        // a twin compared with its own twin
        checked(); if (!T::equal_to(A.d, A.s) || !T::equal_to(A.s, A.d) || T::cmp(A.d, A.s) != 0 || !T::eqop(A.d, A.s)) { viol("C16.diff." + cn + ".twin_self_compare", clip(sig(A.d))); return; }
      }
    } catch (const Logical_Timeout&) { throw; }
    catch (const std::exception& e) { viol("C16.diff." + cn + "." + (op.empty() ? "unknown" : op.substr(0, op.find('('))) + ":unexpected-exception", std::string(typeid(e).name()) + ": " + e.what()); return; }
    RD_GUARD_END(cn + "." + op.substr(0, op.find('(')))
    if (op.empty()) continue;
    std::string opn = op.substr(0, op.find('('));
    hx::count("op.obj." + cn + "." + opn);
    if (!A.d.expression().all_homogeneous_terms_are_zero()) hx::distinct("obj|" + cn + "|" + opn + "|" + rs(A.d.representation()) + rs(A.s.representation()) + "|d" + std::to_string(dim < 3 ? dim : dim < 8 ? 3 : 8));
    for (int i = 0; i < NP; ++i) if (!twins_agree(P[i], opn)) return;
  }
}

// ======================= systems =======================
template <typename S> std::string rows_sig(const S& s) {
  std::ostringstream o; dimension_type n = 0;
  for (typename S::const_iterator i = s.begin(), e = s.end(); i != e; ++i, ++n) o << "\n  " << sig(*i);
  o << "\n  rows " << n; return o.str();
}
std::string sig(const Constraint_System& s) { std::ostringstream o; o << "CS d" << s.space_dimension() << " f" << s.empty() << s.has_equalities() << s.has_strict_inequalities() << s.OK() << " p[" << str(s) << "] a[" << ndump(s) << "]" << rows_sig(s); return o.str(); }
std::string sig(const Generator_System& s) { std::ostringstream o; o << "GS d" << s.space_dimension() << " f" << s.empty() << s.OK() << " p[" << str(s) << "] a[" << ndump(s) << "]" << rows_sig(s); return o.str(); }
std::string sig(const Congruence_System& s) { std::ostringstream o; o << "KS d" << s.space_dimension() << " f" << s.empty() << s.has_linear_equalities() << s.OK() << " ne" << s.num_equalities() << " np" << s.num_proper_congruences() << " p[" << str(s) << "] a[" << ndump(s) << "]" << rows_sig(s); return o.str(); }
std::string sig(const Grid_Generator_System& s) { std::ostringstream o; o << "GGS d" << s.space_dimension() << " f" << s.empty() << s.has_points() << s.OK() << " nr" << s.num_rows() << " np" << s.num_parameters() << " nl" << s.num_lines() << " p[" << str(s) << "] a[" << ndump(s) << "]" << rows_sig(s); return o.str(); }

template <typename T> struct SPair { typename T::Sys d, s; SPair() : d(DENSE), s(SPARSE) {} };

template <typename T> bool sys_agree(const SPair<T>& p, const std::string& op) {
  checked(); std::string a = sig(p.d), b = sig(p.s);
  if (a != b) { size_t i = 0; while (i < a.size() && i < b.size() && a[i] == b[i]) ++i; size_t from = i > 120 ? i - 120 : 0;
    viol(std::string("C16.diff.") + T::name() + "_System." + op, std::string("reps ") + rs(p.d.representation()) + rs(p.s.representation()) + " first difference at " + std::to_string(i) + "\n D: ..." + clip(a.substr(from), 500) + "\n S: ..." + clip(b.substr(from), 500)); return false; }
  return true;
}

// class-specific system operations; returns "" when not applicable
template <typename T> std::string sys_special(int, typename T::Sys&, const Draw&, const typename T::Sys&, bool) { return ""; }
template <> std::string sys_special<TC>(int i, Constraint_System& x, const Draw& D, const Constraint_System&, bool go) {
  if (i % 2 == 0) { if (go) x.set_space_dimension(std::max<dimension_type>(x.space_dimension(), D.n)); return "set_space_dimension(grow " + std::to_string(D.n) + ")"; }
  // NOTE: shrinking leaves the `sorted' flag set on rows that are no longer sorted (Linear_System::set_space_dimension;
  // debug builds abort in OK()): representation-independent, so only exercised outside assert-safe mode
  if (assert_safe()) { if (go) x.set_space_dimension(std::max<dimension_type>(x.space_dimension(), D.n)); return "set_space_dimension(grow " + std::to_string(D.n) + ")"; }
  if (go) x.set_space_dimension(D.n); return "set_space_dimension(" + std::to_string(D.n) + ")";
}
template <> std::string sys_special<TG>(int i, Generator_System& x, const Draw& D, const Generator_System&, bool go) {
  if (i % 2 == 0) { if (go) x.set_space_dimension(std::max<dimension_type>(x.space_dimension(), D.n)); return "set_space_dimension(grow " + std::to_string(D.n) + ")"; }
  // shrinking could turn a ray or line into the zero direction (rows are not re-validated): grow only
  if (go) x.set_space_dimension(std::max<dimension_type>(x.space_dimension(), D.n)); return "set_space_dimension(grow " + std::to_string(D.n) + ")";
}
template <> std::string sys_special<TK>(int i, Congruence_System& x, const Draw& D, const Congruence_System& other, bool go) {
  switch (i % 6) {
  case 0: if (go) x.set_space_dimension(D.n); return "set_space_dimension(" + std::to_string(D.n) + ")";
  case 1: if (x.space_dimension() == 0) return ""; if (go) x.swap_space_dimensions(Variable(D.v % x.space_dimension()), Variable(D.v2 % x.space_dimension())); return "swap_space_dimensions(" + std::to_string(D.v % x.space_dimension()) + "," + std::to_string(D.v2 % x.space_dimension()) + ")";
  case 2: { std::vector<Variable> c; for (size_t j = 0; j < D.cyc.size(); ++j) if (D.cyc[j].id() < x.space_dimension()) c.push_back(D.cyc[j]); if (go) x.permute_space_dimensions(c); return "permute_space_dimensions(" + D.cyc_s + ")"; }
  case 3: if (go) x.add_unit_rows_and_space_dimensions(D.n % 4); return "add_unit_rows_and_space_dimensions(" + std::to_string(D.n % 4) + ")";
  case 4: if (go) x.insert(other); return "insert_system()";
  default: { if (go) { Congruence_System c(other); x.insert(c, Recycle_Input()); } return "insert_system_recycle()"; }
  }
}
template <> std::string sys_special<TGG>(int, Grid_Generator_System& x, const Draw&, const Grid_Generator_System& other, bool go) {
  if (go) { Grid_Generator_System c(other); x.insert(c, Recycle_Input()); } return "insert_system_recycle()";
}

void insert_one(Constraint_System& s, const Constraint& c, bool);
void insert_one(Generator_System& s, const Generator& g, bool rec);
void insert_one(Congruence_System& s, const Congruence& c, bool rec);
void insert_one(Grid_Generator_System& s, const Grid_Generator& g, bool rec);
template <typename T> bool client_check(SPair<T>&, const std::string&);
template <> bool client_check<TC>(SPair<TC>& A, const std::string&);
template <> bool client_check<TG>(SPair<TG>& A, const std::string&);
template <> bool client_check<TK>(SPair<TK>& A, const std::string&);
template <> bool client_check<TGG>(SPair<TGG>& A, const std::string&);

template <typename T> void sys_history() {
  typedef typename T::Obj Obj; typedef typename T::Sys Sys;
  const int NP = 2; SPair<T> P[NP];
  const bool wide = coin(20); const int maxv = wide ? rnd(10, 30) : rnd(1, 5);
  std::string cn = std::string(T::name()) + "_System";
  poison().clear();
  hx::count("sys.cases." + cn);
  for (int st = 0, steps = rnd(6, 16); st < steps && !hx::st().case_tainted; ++st) {
    int a = rnd(0, NP - 1), b = 1 - a; SPair<T>& A = P[a]; SPair<T>& B = P[b];
    std::string pre = " | S" + std::to_string(a) + "[" + rs(A.d.representation()) + rs(A.s.representation()) + "].";
    std::string op; int kind = rnd(0, 19); Draw D(A.d.space_dimension(), maxv);
    RD_GUARD_BEGIN
    try {
      if (kind < 9) { // insert a twin object; either twin goes into either system (mixed rows)
        Pair<T> o; std::string how; try { T::make(maxv, wide, o.d, o.s, how); } catch (const std::invalid_argument&) { continue; }
        bool recycle = coin(25); op = recycle ? "insert_recycle" : "insert"; tr(pre + op + "(" + how + ")");
        const Obj& od = coin() ? o.d : o.s; const Obj& os = coin() ? o.d : o.s;
        bool td = false, ts = false; std::string wd, ws;
        try { insert_one(A.d, od, recycle); } catch (const std::invalid_argument& e) { td = true; wd = e.what(); }
        try { insert_one(A.s, os, recycle); } catch (const std::invalid_argument& e) { ts = true; ws = e.what(); }
        if (td != ts) { viol("C16.diff." + cn + ".insert:exception", "only one twin threw: " + wd + ws); return; } }
      else if (kind < 10) { op = "set_representation"; Representation r1 = rand_rep(), r2 = rand_rep(); tr(pre + op + "(" + rs(r1) + rs(r2) + ")"); A.d.set_representation(r1); A.s.set_representation(r2); hx::count("sys.repr_flips"); }
      else if (kind < 12) { int how = rnd(0, 4); op = how == 0 ? "assign" : how == 1 ? "copy_repr" : how == 2 ? "m_swap" : how == 3 ? "swap" : "clear"; tr(pre + op);
        if (how == 0) { A.d = coin() ? B.d : B.s; A.s = coin() ? B.d : B.s; }
        else if (how == 1) { A.d = Sys(coin() ? B.d : B.s, rand_rep()); A.s = Sys(coin() ? B.d : B.s, rand_rep()); }
        else if (how == 2) { A.d.m_swap(B.d); A.s.m_swap(B.s); }
        else if (how == 3) { using std::swap; swap(A.d, B.d); swap(A.s, B.s); }
        else { A.d.clear(); A.s.clear(); } }
      else if (kind < 15) { int w = rnd(0, 11); op = sys_special<T>(w, A.d, D, B.d, false); if (!op.empty()) { tr(pre + op); sys_special<T>(w, A.d, D, coin() ? B.d : B.s, true); sys_special<T>(w, A.s, D, coin() ? B.d : B.s, true); } }
      else if (kind < 17) { op = "ascii_load"; bool intoD = coin(); tr(pre + op + (intoD ? "(d)" : "(s)")); const Sys& src = intoD ? A.d : A.s; std::string t1 = dump(src); Sys L(rand_rep()); std::istringstream in(t1); checked(); hx::count("ascii_roundtrips");
        if (!L.ascii_load(in)) { viol("C15.row." + cn + ".ascii_load_failed", clip(t1)); return; }
        std::string t2 = dump(L); if (t1 != t2) { viol("C15.row." + cn + ".redump_differs", clip(t1) + " vs " + clip(t2)); return; }
        if (sig(L) != sig(src)) { viol("C15.row." + cn + ".value_differs", clip(sig(L))); return; }
        if (L.representation() != src.representation()) { viol("C15.row." + cn + ".representation_differs", "loaded system has another representation"); return; }
        if (intoD) A.d.m_swap(L); else A.s.m_swap(L); }
      else { op = "client"; tr(pre + op); if (!client_check(A, pre)) return; }
    } catch (const Logical_Timeout&) { throw; }
    catch (const std::exception& e) { viol("C16.diff." + cn + "." + (op.empty() ? "unknown" : op.substr(0, op.find('('))) + ":unexpected-exception", std::string(typeid(e).name()) + ": " + e.what()); return; }
    RD_GUARD_END(cn + "." + op.substr(0, op.find('(')))
    if (op.empty()) continue;
    std::string opn = op.substr(0, op.find('('));
    hx::count("op.sys." + cn + "." + opn);
    if (!A.d.empty()) hx::distinct("sys|" + cn + "|" + opn + "|" + rs(A.d.representation()) + rs(A.s.representation()) + "|d" + std::to_string(A.d.space_dimension() < 3 ? A.d.space_dimension() : 3));
    for (int i = 0; i < NP; ++i) if (!sys_agree(P[i], opn)) return;
  }
}

// insertion helpers
void insert_one(Constraint_System& s, const Constraint& c, bool) { s.insert(c); }
void insert_one(Generator_System& s, const Generator& g, bool rec) { if (rec) { Generator t(g); s.insert(t, Recycle_Input()); } else s.insert(g); }
void insert_one(Congruence_System& s, const Congruence& c, bool rec) { if (rec) { Congruence t(c); s.insert(t, Recycle_Input()); } else s.insert(c); }
void insert_one(Grid_Generator_System& s, const Grid_Generator& g, bool rec) { if (rec) { Grid_Generator t(g); s.insert(t, Recycle_Input()); } else s.insert(g); }

// ---------- clients: domain objects built from twin systems ----------
// Each client step is mirrored on both objects; after it the internal states (ascii_dump
// with the representation tokens neutralised) must coincide.
template <typename PH> bool dom_agree(const PH& d, const PH& s, const std::string& dom, const std::string& op) {
  checked(); hx::count("client_checks");
  std::string rawd = dump(d), raws = dump(s);
  if (raws.find("SPARSE") != std::string::npos) hx::count("client.sparse_system_in_domain_object");
  if (rawd.find("DENSE") != std::string::npos) hx::count("client.dense_system_in_domain_object");
  std::string a = neutral(rawd), b = neutral(raws);
  if (a == b) return true;
  bool val = (d == s);
  size_t i = 0; while (i < a.size() && i < b.size() && a[i] == b[i]) ++i; size_t from = i > 150 ? i - 150 : 0;
  viol("C16.diff." + dom + "." + op + (val ? ":text-only" : ":value"), "internal states differ from offset " + std::to_string(i) + "\n D: ..." + clip(a.substr(from), 500) + "\n S: ..." + clip(b.substr(from), 500));
  return false;
}

template <typename PH, typename SYS> bool build_pair(const SYS& d, const SYS& s, PH*& pd, PH*& ps, const std::string& dom) {
  bool td = false, ts = false; std::string w; pd = ps = 0;
  try { pd = new PH(d); } catch (const std::invalid_argument& e) { td = true; w = e.what(); }
  try { ps = new PH(s); } catch (const std::invalid_argument& e) { ts = true; w = e.what(); }
  if (td != ts) { viol("C16.diff." + dom + ".construct:exception", "only one twin threw: " + w); delete pd; delete ps; pd = ps = 0; return false; }
  return true;
}

inline bool is_nnc(const C_Polyhedron&) { return false; }
inline bool is_nnc(const NNC_Polyhedron&) { return true; }
template <typename PH> bool poly_ops(PH& d, PH& s, const std::string& dom, int maxv) {
  if (!dom_agree(d, s, dom, "construct")) return false;
  for (int st = 0, n = rnd(2, 5); st < n; ++st) {
    int k = rnd(0, 9); std::string op; dimension_type dim = d.space_dimension();
    if (assert_safe()) { (void) d.is_empty(); (void) s.is_empty(); }
    switch (k) {
    case 0: op = "minimized_constraints"; (void) d.minimized_constraints(); (void) s.minimized_constraints(); break;
    case 1: op = "minimized_generators"; (void) d.minimized_generators(); (void) s.minimized_generators(); break;
    case 2: { op = "add_constraint"; Pair<TC> c; std::string how; TC::make(std::min<int>(dim, maxv), false, c.d, c.s, how); if (c.d.space_dimension() > dim || (c.d.is_strict_inequality() && !is_nnc(d))) continue; tr(" add_constraint(" + how + ")"); d.add_constraint(coin() ? c.d : c.s); s.add_constraint(coin() ? c.d : c.s); break; }
    case 3: { op = "add_generator"; if (d.is_empty() != s.is_empty()) { viol("C16.diff." + dom + ".is_empty", "twins disagree"); return false; } if (d.is_empty()) continue; Pair<TG> g; std::string how; try { TG::make(std::min<int>(dim, maxv), false, g.d, g.s, how); } catch (const std::invalid_argument&) { continue; } if (g.d.space_dimension() > dim || (g.d.is_closure_point() && !is_nnc(d))) continue; tr(" add_generator(" + how + ")"); d.add_generator(coin() ? g.d : g.s); s.add_generator(coin() ? g.d : g.s); break; }
    case 4: { if (dim == 0) continue; op = "affine_image"; Draw D(dim, maxv); tr(" affine_image(" + std::to_string(D.v) + "," + str(D.ex) + "," + zs(D.k) + ")"); d.affine_image(Variable(D.v), D.ex, D.k); s.affine_image(Variable(D.v), D.ex, D.k); break; }
    case 5: { if (dim == 0) continue; op = "affine_preimage"; Draw D(dim, maxv); tr(" affine_preimage(" + std::to_string(D.v) + "," + str(D.ex) + "," + zs(D.k) + ")"); d.affine_preimage(Variable(D.v), D.ex, D.k); s.affine_preimage(Variable(D.v), D.ex, D.k); break; }
    case 6: { op = "remove_space_dimensions"; Draw D(dim, maxv); tr(" remove_space_dimensions({" + D.vs_s + "})"); d.remove_space_dimensions(D.vs); s.remove_space_dimensions(D.vs); break; }
    case 7: { op = "add_space_dimensions"; int n2 = rnd(1, 2); bool emb = coin(); tr(emb ? " add_space_dimensions_and_embed" : " add_space_dimensions_and_project"); if (emb) { d.add_space_dimensions_and_embed(n2); s.add_space_dimensions_and_embed(n2); } else { d.add_space_dimensions_and_project(n2); s.add_space_dimensions_and_project(n2); } break; }
    case 8: { op = "self_hull_of_copies"; tr(" poly_hull/intersection with cross copies"); PH cd(d), cs(s); if (coin()) { d.upper_bound_assign(cs); s.upper_bound_assign(cd); } else { d.intersection_assign(cs); s.intersection_assign(cd); } break; }
    default: { op = "queries"; tr(" queries"); checked(); if (d.is_empty() != s.is_empty() || d.is_universe() != s.is_universe() || d.is_bounded() != s.is_bounded() || d.affine_dimension() != s.affine_dimension() || !(d == s) || !d.contains(s) || !s.contains(d)) { viol("C16.diff." + dom + ".queries", "twins answer differently"); return false; } break; }
    }
    hx::count("op.client." + dom + "." + op);
    if (!dom_agree(d, s, dom, op)) return false;
  }
  return true;
}

bool grid_ops(Grid& d, Grid& s, int maxv) {
  const std::string dom = "Grid";
  if (!dom_agree(d, s, dom, "construct")) return false;
  for (int st = 0, n = rnd(2, 5); st < n; ++st) {
    int k = rnd(0, 9); std::string op; dimension_type dim = d.space_dimension();
    switch (k) {
    case 0: op = "minimized_congruences"; (void) d.minimized_congruences(); (void) s.minimized_congruences(); break;
    case 1: op = "minimized_grid_generators"; (void) d.minimized_grid_generators(); (void) s.minimized_grid_generators(); break;
    case 2: { op = "add_congruence"; Pair<TK> c; std::string how; TK::make(std::min<int>(dim, maxv), false, c.d, c.s, how); if (c.d.space_dimension() > dim) continue; tr(" add_congruence(" + how + ")"); d.add_congruence(coin() ? c.d : c.s); s.add_congruence(coin() ? c.d : c.s); break; }
    case 3: { op = "add_grid_generator"; if (d.is_empty() != s.is_empty()) { viol("C16.diff.Grid.is_empty", "twins disagree"); return false; } if (d.is_empty()) continue; Pair<TGG> g; std::string how; try { TGG::make(std::min<int>(dim, maxv), false, g.d, g.s, how); } catch (const std::invalid_argument&) { continue; } if (g.d.space_dimension() > dim) continue; tr(" add_grid_generator(" + how + ")"); d.add_grid_generator(coin() ? g.d : g.s); s.add_grid_generator(coin() ? g.d : g.s); break; }
    case 4: { if (dim == 0) continue; op = "affine_image"; Draw D(dim, maxv); tr(" affine_image(" + std::to_string(D.v) + "," + str(D.ex) + "," + zs(D.k) + ")"); d.affine_image(Variable(D.v), D.ex, D.k); s.affine_image(Variable(D.v), D.ex, D.k); break; }
    case 5: { if (dim == 0) continue; op = "affine_preimage"; Draw D(dim, maxv); tr(" affine_preimage(" + std::to_string(D.v) + "," + str(D.ex) + "," + zs(D.k) + ")"); d.affine_preimage(Variable(D.v), D.ex, D.k); s.affine_preimage(Variable(D.v), D.ex, D.k); break; }
    case 6: { op = "remove_space_dimensions"; Draw D(dim, maxv); tr(" remove_space_dimensions({" + D.vs_s + "})"); d.remove_space_dimensions(D.vs); s.remove_space_dimensions(D.vs); break; }
    case 7: { op = "add_space_dimensions"; int n2 = rnd(1, 2); bool emb = coin(); tr(emb ? " add_space_dimensions_and_embed" : " add_space_dimensions_and_project"); if (emb) { d.add_space_dimensions_and_embed(n2); s.add_space_dimensions_and_embed(n2); } else { d.add_space_dimensions_and_project(n2); s.add_space_dimensions_and_project(n2); } break; }
    case 8: { op = "cross_copies"; tr(" join/meet with cross copies"); Grid cd(d), cs(s); if (coin()) { d.upper_bound_assign(cs); s.upper_bound_assign(cd); } else { d.intersection_assign(cs); s.intersection_assign(cd); } break; }
    default: { op = "queries"; tr(" queries"); checked(); if (d.is_empty() != s.is_empty() || d.is_universe() != s.is_universe() || d.is_bounded() != s.is_bounded() || d.is_discrete() != s.is_discrete() || d.affine_dimension() != s.affine_dimension() || !(d == s) || !d.contains(s) || !s.contains(d)) { viol("C16.diff.Grid.queries", "twins answer differently"); return false; } break; }
    }
    hx::count("op.client.Grid." + op);
    if (!dom_agree(d, s, dom, op)) return false;
  }
  return true;
}

template <> bool client_check<TC>(SPair<TC>& A, const std::string&) {
  int maxv = 4; bool nnc = A.d.has_strict_inequalities() || coin(30);
  if (nnc) { NNC_Polyhedron* pd; NNC_Polyhedron* ps; if (!build_pair(A.d, A.s, pd, ps, "NNC_Polyhedron")) return false; if (!pd) return true; hx::count("client.NNC_Polyhedron.from_constraints"); bool ok = poly_ops(*pd, *ps, "NNC_Polyhedron", maxv); delete pd; delete ps; return ok; }
  C_Polyhedron* pd; C_Polyhedron* ps; if (!build_pair(A.d, A.s, pd, ps, "C_Polyhedron")) return false; if (!pd) return true; hx::count("client.C_Polyhedron.from_constraints"); bool ok = poly_ops(*pd, *ps, "C_Polyhedron", maxv); delete pd; delete ps; return ok;
}
template <> bool client_check<TG>(SPair<TG>& A, const std::string&) {
  int maxv = 4; bool has_cp = false; for (Generator_System::const_iterator i = A.d.begin(); i != A.d.end(); ++i) if (i->is_closure_point()) has_cp = true;
  if (has_cp || coin(30)) { NNC_Polyhedron* pd; NNC_Polyhedron* ps; if (!build_pair(A.d, A.s, pd, ps, "NNC_Polyhedron")) return false; if (!pd) return true; hx::count("client.NNC_Polyhedron.from_generators"); bool ok = poly_ops(*pd, *ps, "NNC_Polyhedron", maxv); delete pd; delete ps; return ok; }
  C_Polyhedron* pd; C_Polyhedron* ps; if (!build_pair(A.d, A.s, pd, ps, "C_Polyhedron")) return false; if (!pd) return true; hx::count("client.C_Polyhedron.from_generators"); bool ok = poly_ops(*pd, *ps, "C_Polyhedron", maxv); delete pd; delete ps; return ok;
}
template <> bool client_check<TK>(SPair<TK>& A, const std::string&) {
  if (assert_safe()) return true;     // Grid::simplify reaches the false assertion at Sparse_Row.cc:585/630/674 on SPARSE rows
  Grid* pd; Grid* ps; if (!build_pair(A.d, A.s, pd, ps, "Grid")) return false; if (!pd) return true; hx::count("client.Grid.from_congruences"); bool ok = grid_ops(*pd, *ps, 4); delete pd; delete ps;
  if (ok && coin(30)) { // conversions between system kinds
    checked(); Constraint_System cd(A.d, DENSE), cs(A.s, SPARSE); if (sig(cd) != sig(cs)) { viol("C16.diff.Constraint_System.from_congruence_system", clip(sig(cd)) + " vs " + clip(sig(cs))); return false; }
    Congruence_System kd(cd, DENSE), ks(cs, SPARSE); if (sig(kd) != sig(ks)) { viol("C16.diff.Congruence_System.from_constraint_system", clip(sig(kd)) + " vs " + clip(sig(ks))); return false; }
    if (A.d.is_equal_to(A.s) != true || A.s.is_equal_to(A.d) != true) { viol("C16.diff.Congruence_System.is_equal_to", "twin systems are not is_equal_to"); return false; }
  }
  return ok;
}
template <> bool client_check<TGG>(SPair<TGG>& A, const std::string&) {
  if (assert_safe()) return true;
  Grid* pd; Grid* ps; if (!build_pair(A.d, A.s, pd, ps, "Grid")) return false; if (!pd) return true; hx::count("client.Grid.from_generators"); bool ok = grid_ops(*pd, *ps, 4); delete pd; delete ps;
  if (ok) { checked(); if (!A.d.is_equal_to(A.s) || !A.s.is_equal_to(A.d)) { viol("C16.diff.Grid_Generator_System.is_equal_to", "twin systems are not is_equal_to"); return false; } }
  return ok;
}

} // namespace

void rd::case_obj() {
  switch (rnd(0, 3)) {
  case 0: obj_history<TC>(); break;
  case 1: obj_history<TG>(); break;
  case 2: obj_history<TK>(); break;
  default: obj_history<TGG>(); break;
  }
}
void rd::case_sys() {
  switch (rnd(0, 3)) {
  case 0: sys_history<TC>(); break;
  case 1: sys_history<TG>(); break;
  case 2: sys_history<TK>(); break;
  default: sys_history<TGG>(); break;
  }
}
