// cfgdiff — shared declarations (C11, second half): the same seeded operation
// scripts are executed in the unbounded (mpz) build and in the checked-intN
// coefficient builds; per step a canonical textual result is produced.
//
// Everything here is independent of the coefficient configuration: random
// operands are drawn as `long` from a distribution that only depends on the
// *emulated* width `cfg::G().bits` (so the mpz build replays exactly the
// script the bounded build ran), and results are rendered through mpz_class.
#ifndef CFGDIFF_HH
#define CFGDIFF_HH
#include "pplx.hh"
#include <memory>
#include <stdexcept>

namespace cfg {
using namespace Parma_Polyhedra_Library;
using hx::rnd; using hx::coin;
typedef mpz_class ZZ;

// ---------- Coefficient -> mpz, whatever Coefficient is ----------
inline ZZ toZ(const mpz_class& c) { return c; }
template <typename T, typename P> inline ZZ toZ(const Checked_Number<T, P>& c) { return ZZ((long) raw_value(c)); }
inline std::string zs(const ZZ& z) { return z.get_str(); }

// ---------- configuration ----------
struct Config {
  int bits;        // emulated coefficient width (8/16/32/64)
  long lim;        // 2^(bits-1) - 1
  long small, mid; // magnitude of ordinary / occasional coefficients
  int edge_pct;    // percentage of type-limit-biased coefficients
  int maxdim;
  bool pip_maxcol;
  int scale_pct;   // per-domain multiplier of small/mid (set by the case loop)
  Config() : bits(16), lim(32767), small(4), mid(40), edge_pct(3), maxdim(3), pip_maxcol(false), scale_pct(100) {}
};
inline Config& G() { static Config g; return g; }
inline long isqrt_l(long v) { mpz_class z(v), r; mpz_sqrt(r.get_mpz_t(), z.get_mpz_t()); return r.get_si(); }
void configure(int bits);   // defined in cfgdiff.cc (per-width magnitudes)
// ordinary random coefficient: mostly small, sometimes mid, rarely at the type limits
inline long rl(long lo, long hi) { return lo + (long) (hx::rng()() % (unsigned long) (hi - lo + 1)); }
inline long rc_edge() {
  const Config& g = G(); long r = isqrt_l(g.lim);
  switch (rnd(0, 9)) {
  case 0: return g.lim; case 1: return -g.lim - 1; case 2: return g.lim - 1; case 3: return -g.lim;
  case 4: return r; case 5: return -r; case 6: return r + 1; case 7: return -(r + 1);
  case 8: return g.lim / 2 + 1; default: return -(g.lim / 2) - 1;
  }
}
inline long rc() {
  const Config& g = G(); int k = rnd(0, 99);
  if (k < g.edge_pct) return rc_edge();
  long sm = std::max(1L, g.small * g.scale_pct / 100), md = std::max(sm, g.mid * g.scale_pct / 100);
  if (k < g.edge_pct + 14) return rl(-md, md);
  return rl(-sm, sm);
}
inline long abs_lim(long v) { return v >= 0 ? v : (v == -G().lim - 1 ? G().lim : -v); }
inline long rc_nz() { for (;;) { long v = rc(); if (v != 0) return v; } }
inline long rc_small_nz() { const Config& g = G(); long v = rl(1, g.small); return coin() ? v : -v; }
// large constant terms (up to half the type's range): sums of two of them leave the range
inline long rc_big() { const Config& g = G(); return rl(-(g.lim / 2), g.lim / 2); }
// wide distribution: uniformly random bit length up to the full width (for the scalar kernel script)
inline long rc_wide() {
  const Config& g = G();
  if (coin(12)) return rc_edge();
  int bl = rnd(0, g.bits - 1);
  unsigned long m = bl == 0 ? 0UL : (hx::rng()() & ((bl >= 63 ? ~0UL >> 1 : (1UL << bl) - 1)));
  long v = (long) m; if (v > g.lim) v = g.lim;
  return coin() ? v : -v;
}

// ---------- raw (configuration independent) script data ----------
struct RawCon { std::vector<long> a; long b; int rel; };   // a.x + b REL 0, rel: 0 '==', 1 '>=', 2 '>'
inline std::string show(const std::vector<long>& a, long b) {
  std::ostringstream o; bool f = true;
  for (size_t i = 0; i < a.size(); ++i) if (a[i]) { o << (f ? "" : "+") << a[i] << "*" << (char) ('A' + i); f = false; }
  if (b || f) o << (f ? "" : "+") << b;
  return o.str();
}
inline std::string show(const RawCon& c) { return show(c.a, c.b) + (c.rel == 0 ? "==0" : c.rel == 1 ? ">=0" : ">0"); }
inline std::vector<long> raw_vec(int n, int pct_zero = 35) { std::vector<long> a(n, 0); for (int i = 0; i < n; ++i) if (!coin(pct_zero)) a[i] = rc(); return a; }
inline RawCon raw_con(int n, bool strict_ok) {
  RawCon c; c.a = raw_vec(n); c.b = rc();
  int k = rnd(0, strict_ok ? 9 : 6); c.rel = k < 5 ? 1 : k < 7 ? 0 : 2;
  return c;
}
// PPL objects from raw data (these conversions are themselves part of the monitored surface: they may overflow)
inline Linear_Expression le(const std::vector<long>& a, long b, int n) {
  Linear_Expression e; e.set_space_dimension(n);
  for (size_t i = 0; i < a.size(); ++i) if (a[i]) add_mul_assign(e, Coefficient(a[i]), Variable(i));
  if (b) e += Coefficient(b);
  return e;
}
inline Constraint con(const RawCon& c, int n) {
  Linear_Expression e = le(c.a, c.b, n);
  return c.rel == 0 ? Constraint(e == 0) : c.rel == 1 ? Constraint(e >= 0) : Constraint(e > 0);
}
inline Constraint_System cons(const std::vector<RawCon>& v, int n) { Constraint_System cs; for (size_t i = 0; i < v.size(); ++i) cs.insert(con(v[i], n)); return cs; }
static const Relation_Symbol RELS[5] = { LESS_THAN, LESS_OR_EQUAL, EQUAL, GREATER_OR_EQUAL, GREATER_THAN };
static const char* const RELSS[5] = { "<", "<=", "==", ">=", ">" };

// ---------- result items ----------
// kind 'V' value (compared textually), 'P' convex set given by constraints [+ generators],
// 'L' lattice given by congruences + grid generators, 'X' witness (validated by the script when texts differ).
struct Item { char kind; int n; std::string a, b; Item() : kind('V'), n(0) {} };
typedef std::vector<Item> Items;
inline Item val(const std::string& s) { Item i; i.kind = 'V'; i.a = s; return i; }
inline Item val(const char* name, const std::string& s) { return val(std::string(name) + "=" + s); }
inline Item val(const char* name, bool b) { return val(name, std::string(b ? "true" : "false")); }
inline Item val(const char* name, const ZZ& z) { return val(name, zs(z)); }
inline std::string frac(const ZZ& n, const ZZ& d) { if (d == 0) return zs(n) + "/0"; mpq_class q(n, d); q.canonicalize(); return q.get_str(); }

typedef std::vector<ZZ> ZRow;
inline ZZ row_gcd(const ZRow& r) { ZZ g = 0; for (size_t i = 0; i < r.size(); ++i) mpz_gcd(g.get_mpz_t(), g.get_mpz_t(), r[i].get_mpz_t()); return g; }
inline void row_div(ZRow& r, const ZZ& g) { if (g > 1) for (size_t i = 0; i < r.size(); ++i) mpz_divexact(r[i].get_mpz_t(), r[i].get_mpz_t(), g.get_mpz_t()); }
inline void row_sign(ZRow& r, size_t upto) { for (size_t i = 0; i < upto; ++i) if (r[i] != 0) { if (r[i] < 0) for (size_t j = 0; j < r.size(); ++j) r[j] = -r[j]; return; } }
inline std::string row_str(const char* tag, const ZRow& r, size_t nsep, const char* sep) {
  std::string s = tag;
  for (size_t i = 0; i < r.size(); ++i) { s += (i == nsep ? sep : " "); s += zs(r[i]); }
  return s;
}
inline std::string join_sorted(std::vector<std::string>& rows) { std::sort(rows.begin(), rows.end()); std::string s; for (size_t i = 0; i < rows.size(); ++i) { if (i) s += ";"; s += rows[i]; } return s; }

// constraint row:  "<rel> a0 .. an-1 : b"   meaning  a.x + b rel 0
inline std::string canon(const Constraint& c, int n) {
  ZRow r(n + 1); for (int i = 0; i < n; ++i) r[i] = (i < (int) c.space_dimension()) ? toZ(c.coefficient(Variable(i))) : ZZ(0);
  r[n] = toZ(c.inhomogeneous_term());
  row_div(r, row_gcd(r)); if (c.is_equality()) row_sign(r, n + 1);
  return row_str(c.is_equality() ? "=" : c.is_strict_inequality() ? ">" : ">=", r, n, " : ");
}
inline std::string canon(const Constraint_System& cs, int n) {
  std::vector<std::string> rows;
  for (Constraint_System::const_iterator i = cs.begin(), e = cs.end(); i != e; ++i) rows.push_back(canon(*i, n));
  return join_sorted(rows);
}
// generator row: "p a0 .. / d", "c a0 .. / d", "r a0 ..", "l a0 .."
inline std::string canon(const Generator& g, int n) {
  bool pt = g.is_point() || g.is_closure_point();
  ZRow r(n + (pt ? 1 : 0)); for (int i = 0; i < n; ++i) r[i] = (i < (int) g.space_dimension()) ? toZ(g.coefficient(Variable(i))) : ZZ(0);
  if (pt) { r[n] = toZ(g.divisor()); row_div(r, row_gcd(r)); if (r[n] < 0) for (size_t j = 0; j < r.size(); ++j) r[j] = -r[j]; }
  else { row_div(r, row_gcd(r)); if (g.is_line()) row_sign(r, n); }
  return row_str(g.is_point() ? "p" : g.is_closure_point() ? "c" : g.is_ray() ? "r" : "l", r, pt ? n : (size_t) -1, " / ");
}
inline std::string canon(const Generator_System& gs, int n) {
  std::vector<std::string> rows;
  for (Generator_System::const_iterator i = gs.begin(), e = gs.end(); i != e; ++i) rows.push_back(canon(*i, n));
  return join_sorted(rows);
}
// congruence row: "a0 .. an-1 : b % m"  meaning a.x + b == 0 (mod m), m == 0: equality
inline std::string canon(const Congruence& c, int n) {
  ZRow r(n + 2); for (int i = 0; i < n; ++i) r[i] = (i < (int) c.space_dimension()) ? toZ(c.coefficient(Variable(i))) : ZZ(0);
  r[n] = toZ(c.inhomogeneous_term()); r[n + 1] = toZ(c.modulus());
  row_div(r, row_gcd(r));
  bool hom0 = true; for (int i = 0; i < n; ++i) if (r[i] != 0) hom0 = false;
  ZZ m = r[n + 1]; r.pop_back();
  if (hom0) { if (m != 0) { mpz_fdiv_r(r[n].get_mpz_t(), r[n].get_mpz_t(), m.get_mpz_t()); } }
  else { row_sign(r, n); if (m != 0) mpz_fdiv_r(r[n].get_mpz_t(), r[n].get_mpz_t(), m.get_mpz_t()); }
  return row_str("", r, n, " : ") + " % " + zs(m);
}
inline std::string canon(const Congruence_System& cs, int n) {
  std::vector<std::string> rows;
  for (Congruence_System::const_iterator i = cs.begin(), e = cs.end(); i != e; ++i) rows.push_back(canon(*i, n));
  return join_sorted(rows);
}
inline std::string canon(const Grid_Generator& g, int n) {
  bool ln = g.is_line();
  ZRow r(n + (ln ? 0 : 1)); for (int i = 0; i < n; ++i) r[i] = (i < (int) g.space_dimension()) ? toZ(g.coefficient(Variable(i))) : ZZ(0);
  if (!ln) { r[n] = toZ(g.divisor()); row_div(r, row_gcd(r)); if (r[n] < 0) for (size_t j = 0; j < r.size(); ++j) r[j] = -r[j]; if (g.is_parameter()) { ZZ d = r[n]; r.pop_back(); row_sign(r, n); r.push_back(d); } }
  else { row_div(r, row_gcd(r)); row_sign(r, n); }
  return row_str(g.is_point() ? "p" : g.is_parameter() ? "q" : "l", r, ln ? (size_t) -1 : n, " / ");
}
inline std::string canon(const Grid_Generator_System& gs, int n) {
  std::vector<std::string> rows;
  for (Grid_Generator_System::const_iterator i = gs.begin(), e = gs.end(); i != e; ++i) rows.push_back(canon(*i, n));
  return join_sorted(rows);
}
inline std::string canon(const Linear_Expression& e, int n) {
  std::string s;
  for (int i = 0; i < n; ++i) { s += (i < (int) e.space_dimension()) ? zs(toZ(e.coefficient(Variable(i)))) : std::string("0"); s += " "; }
  return s + ": " + zs(toZ(e.inhomogeneous_term()));
}

// Any domain with minimized_constraints(): the set is observed through a copy.
template <typename D> inline Item obs_cons_only(const D& d) {
  Item it; it.kind = 'P'; it.n = d.space_dimension();
  { D c(d); it.a = canon(c.minimized_constraints(), it.n); }
  it.b = "-";
  return it;
}
template <typename PH> inline Item obs_poly(const PH& p) {
  Item it; it.kind = 'P'; it.n = p.space_dimension();
  { PH c(p); it.a = canon(c.minimized_constraints(), it.n); }
  { PH c(p); it.b = canon(c.minimized_generators(), it.n); }
  return it;
}

// ---------- a script = one domain's operation generator ----------
struct Step_Context {
  std::string op;      // set by begin()
  bool begun;
  std::function<void(const std::string& op, const std::string& text)> on_begin;
  Step_Context() : begun(false) {}
  // announce the operation (name + replayable text) BEFORE executing it
  void begin(const std::string& opname, const std::string& text) { op = opname; begun = true; if (on_begin) on_begin(opname, text); }
};
struct Script {
  virtual ~Script() {}
  virtual const char* domain() const = 0;
  // destroy every object and re-create trivial ones (must not be able to overflow)
  virtual void reset() = 0;
  // one step: draw arguments from hx::rng(), ctx.begin(..), execute, push result items
  virtual void step(Step_Context& ctx, Items& out) = 0;
  // validate a witness item produced by the other configuration (compare mode only)
  virtual bool validate(size_t /*item_index*/, const std::string& /*other_text*/, std::string& why) { why = "no validator"; return false; }
};

class Partial_Map {
public:
  std::vector<dimension_type> m;
  bool has_empty_codomain() const { for (size_t i = 0; i < m.size(); ++i) if (m[i] != not_a_dimension()) return false; return true; }
  dimension_type max_in_codomain() const { dimension_type r = 0; for (size_t i = 0; i < m.size(); ++i) if (m[i] != not_a_dimension() && m[i] > r) r = m[i]; return r; }
  bool maps(dimension_type i, dimension_type& j) const { if (i >= m.size() || m[i] == not_a_dimension()) return false; j = m[i]; return true; }
};
// random injective partial map on n dimensions
inline Partial_Map rand_map(int n, std::string& text) {
  Partial_Map pm; pm.m.assign(n, not_a_dimension());
  std::vector<int> keep; for (int i = 0; i < n; ++i) if (!coin(25)) keep.push_back(i);
  if (keep.empty()) keep.push_back(rnd(0, n - 1));
  std::vector<int> img(keep.size()); for (size_t i = 0; i < img.size(); ++i) img[i] = i;
  std::shuffle(img.begin(), img.end(), hx::rng());
  std::ostringstream o;
  for (size_t i = 0; i < keep.size(); ++i) { pm.m[keep[i]] = img[i]; o << (char) ('A' + keep[i]) << "->" << (char) ('A' + img[i]) << " "; }
  text = o.str(); return pm;
}

Script* make_poly_script(bool nnc);
Script* make_grid_script();
Script* make_mip_script();
Script* make_pip_script();
Script* make_lin_script();
Script* make_bd_script();
Script* make_oct_script();

} // namespace cfg
#endif
