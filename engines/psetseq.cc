// psetseq — C09: powersets denote the union of their disjuncts and every operation respects it.
// Driver TU: picks the instantiation (--kv inst=cpoly|nncpoly|grid|bds|oct|box|all) and runs one case.
// The per-domain engines live in psetseq__<inst>.cc (one big template instantiation each).
#include "psetseq_dom.hh"

namespace {
struct Inst { const char* name; void (*run)(); };
const Inst INSTS[6] = {
  { "cpoly", psq::run_cpoly }, { "nncpoly", psq::run_nncpoly }, { "grid", psq::run_grid },
  { "bds", psq::run_bds }, { "oct", psq::run_oct }, { "box", psq::run_box } };
}

static void run_case(uint64_t) {
  std::string want = hx::opt().gets("inst", "all");
  int k = -1;
  if (want == "all") k = (int) (hx::st().cur_case % 6);
  else for (int i = 0; i < 6; ++i) if (want == INSTS[i].name) k = i;
  if (k < 0) { fprintf(stderr, "psetseq: unknown inst '%s'\n", want.c_str()); exit(2); }
  hx::count(std::string("cases.") + INSTS[k].name);
  INSTS[k].run();
}

int main(int argc, char** argv) {
  return hx::main_loop(argc, argv, run_case,
    []() { hx::count("lp_solves", ref::lp_counters().solves); hx::count("lp_pivots", ref::lp_counters().pivots); });
}
