// wrapseq: instantiation of the domain adapter for wrapseq::Prod_CG (see wrapseq.hh).
#include "wrapseq.hh"
WRAPSEQ_REGISTER(prod, wrapseq::Prod_CG)
