// boxseq: instantiation of the box adapter for Parma_Polyhedra_Library::Z_Box (see boxseq.hh).
#include "boxseq.hh"
BOXSEQ_REGISTER(mpz, 2, Parma_Polyhedra_Library::Z_Box)
