// prodseq, pair (Octagonal_Shape<mpq_class>, Grid): the five reduction policies of this pair.
#include "prodseq.hh"
namespace prodseq {
IFactory* factory_oct_grid(int red) { return pair_factory<Octagonal_Shape<mpq_class>, Grid >("oct_grid", red); }
}
