// shapeseq: instantiation of the shape adapter for BD_Shape<mpz_class> (see shapeseq.hh).
#include "shapeseq.hh"
SHAPESEQ_REGISTER(bd_mpz, Parma_Polyhedra_Library::BD_Shape<mpz_class>)
