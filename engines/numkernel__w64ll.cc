// numkernel part: long long / unsigned long long (distinct C++ types with their own PPL specialisations), profile wide
#include "numkernel_units.hh"
namespace nk {
void w64ll_case() {
  switch (hx::rnd(0, 5)) {
  case 0: full_case<Checked_Number<long long, PX> >(); break;
  case 1: full_case<long long>(); break;
  case 2: full_case<Checked_Number<unsigned long long, PX> >(); break;
  case 3: full_case<unsigned long long>(); break;
  case 4: full_case<Checked_Number<long long, PB> >(); break;
  default: full_case<Checked_Number<unsigned long long, PW> >(); break;
  }
}
}
