// numkernel — property C11: checked arithmetic reports true rounding relations.
// Runtime monitor of PPL's checked-number kernel through its public interface (assign_r, neg/abs/floor/ceil/trunc/
// sqrt_assign_r, add/sub/mul/div/idiv/rem/gcd/lcm_assign_r, add_mul/sub_mul_assign_r, *_2exp_assign_r, construct,
// comparisons, the throwing operators of bounded coefficients), on raw native types and Checked_Number<T, Policy>.
// Oracle: exact GMP arithmetic on extended rationals (numkernel.hh).
//
// Profiles (a case = one unit):
//   i8     exhaustive enumeration of the 8-bit operand space (int8_t, uint8_t; 4 policies); case index -> unit
//   wide   16/32/64-bit native integers, boundary-biased operands, cross-type conversions and comparisons
//   float  float / double / long double (volatile run-time operands; denormals, zeros, infinities, NaN, ...)
//   gmp    mpz_class / mpq_class, random and boundary operands
#include "numkernel_units.hh"

namespace nk {
static Units& i8_units(bool thorough) {
  static Units q, t; static bool init = false;
  if (!init) { init = true; 
#define NK_CALL(P) i8_register_##P(q, t);
    NK_I8_PARTS(NK_CALL)
#undef NK_CALL
   }
  static Units all; static bool init2 = false;
  if (!init2) { init2 = true; all = q; all.insert(all.end(), t.begin(), t.end()); }
  return thorough ? all : q;
}
}

static void run_case(uint64_t) {
  const std::string& profile = hx::opt().profile;
  long c = hx::st().cur_case;
  try {
    if (profile == "i8") {
      nk::Units& U = nk::i8_units(hx::opt().thorough);
      long lim = hx::opt().geti("units", (long) U.size());
      size_t k = (size_t) (c % lim);
      if (c == 0) { hx::count("i8.units_in_tier", (unsigned long) lim); }
      hx::tr("unit " + std::to_string(k) + "/" + std::to_string(lim) + ": " + U[k].name);
      U[k].run();
      hx::count("i8.units_run");
    }
    else if (profile == "wide") { int w = hx::rnd(0, 2); if (w == 0) nk::w16_case(); else if (w == 1) nk::w32_case(); else nk::w64_case(); }
    else if (profile == "float") { int w = hx::rnd(0, 2); if (w == 0) nk::float_case_f(); else if (w == 1) nk::float_case_d(); else nk::float_case_l(); }
    else if (profile == "gmp") nk::gmp_case();
    else { fprintf(stderr, "numkernel: unknown profile '%s' (i8, wide, float, gmp)\n", profile.c_str()); exit(2); }
  }
  catch (const std::exception& e) {
    hx::violation(std::string("C11.unexpected_exception.") + typeid(e).name(), e.what());
  }
}

int main(int argc, char** argv) {
  if (argc == 2 && std::string(argv[1]) == "--list-units") {
    nk::Units& q = nk::i8_units(false); nk::Units& a = nk::i8_units(true);
    printf("i8 quick units: %zu\ni8 thorough units: %zu\n", q.size(), a.size());
    for (size_t i = 0; i < a.size(); ++i) printf("%zu\t%s\n", i, a[i].name.c_str());
    return 0;
  }
  return hx::main_loop(argc, argv, run_case);
}
