// numkernel — property C11: checked arithmetic reports true rounding relations.
// Runtime monitor of PPL's checked-number kernel through its public interface (assign_r, neg/abs/floor/ceil/trunc/
// sqrt_assign_r, add/sub/mul/div/idiv/rem/gcd/lcm_assign_r, add_mul/sub_mul_assign_r, *_2exp_assign_r, construct,
// comparisons, the throwing operators of bounded coefficients), on raw native types and Checked_Number<T, Policy>.
// Oracle: exact GMP arithmetic on extended rationals (numkernel.hh).
//
// Profiles (a case = one unit):
//   i8     exhaustive enumeration of the 8-bit operand space (int8_t, uint8_t; 4 policies); case index -> unit
//   wide   16/32/64-bit native integers, boundary-biased operands, cross-type conversions and comparisons
//   float  float / double / long double (volatile run-time operands; denormals, zeros, infinities, NaN, ...)
//   gmp    mpz_class / mpq_class, random and boundary operands
//
// This file holds main() and the non-template cores (oracle, enumerators); the part TUs numkernel__*.cc only
// instantiate small thunks that perform one PPL call on a given number kind.
#include "numkernel_units.hh"

namespace nk {

const char* intern(const std::string& s) { static std::set<std::string> pool; return pool.insert(s).first->c_str(); }

std::string result_name(Result r) {
  std::string s; unsigned u = (unsigned) r; Result_Class c = result_class(r); Result_Relation rel = result_relation(r);
  static const char* const RB[8] = { "V_EMPTY", "V_EQ", "V_LT", "V_LE", "V_GT", "V_GE", "V_NE", "V_LGE" };   // bit order: EQ=1, LT=2, GT=4
  if (c == VC_NAN) {
    switch (r - V_UNREPRESENTABLE) { case V_NAN: s = "V_NAN"; break; case V_CVT_STR_UNK: s = "V_CVT_STR_UNK"; break; case V_DIV_ZERO: s = "V_DIV_ZERO"; break; case V_INF_ADD_INF: s = "V_INF_ADD_INF"; break;
      case V_INF_DIV_INF: s = "V_INF_DIV_INF"; break; case V_INF_MOD: s = "V_INF_MOD"; break; case V_INF_MUL_ZERO: s = "V_INF_MUL_ZERO"; break; case V_INF_SUB_INF: s = "V_INF_SUB_INF"; break;
      case V_MOD_ZERO: s = "V_MOD_ZERO"; break; case V_SQRT_NEG: s = "V_SQRT_NEG"; break; case V_UNKNOWN_NEG_OVERFLOW: s = "V_UNKNOWN_NEG_OVERFLOW"; break; case V_UNKNOWN_POS_OVERFLOW: s = "V_UNKNOWN_POS_OVERFLOW"; break;
      default: { char b[32]; snprintf(b, sizeof b, "NAN?0x%x", u); s = b; } }
  }
  else {
    s = RB[(unsigned) rel & 7];
    if (c == VC_MINUS_INFINITY) s += "_MINUS_INFINITY"; else if (c == VC_PLUS_INFINITY) s += "_PLUS_INFINITY";
    if (u & (unsigned) V_OVERFLOW) s += "|OVERFLOW";
  }
  if (u & (unsigned) V_UNREPRESENTABLE) s += "|UNREPRESENTABLE";
  return s;
}

// non-trivial configuration = (operation, type, policy, direction, triage class of the operands / exact result, result code);
// registered once per engine process, hashed by hx.
static void reg_distinct(const Site& s, const char* dirn, const char* cls, Result r) {
  static std::unordered_set<uint64_t> seen;
  uint64_t h = hx::splitmix((uint64_t) (uintptr_t) s.op); h = hx::splitmix(h ^ (uint64_t) (uintptr_t) s.type); h = hx::splitmix(h ^ (uint64_t) (uintptr_t) s.pol); h = hx::splitmix(h ^ (uint64_t) (uintptr_t) dirn); h = hx::splitmix(h ^ (uint64_t) (uintptr_t) cls); h = hx::splitmix(h ^ (uint64_t) r);
  if (seen.insert(h).second) hx::distinct(std::string(s.op) + "|" + s.type + "|" + s.pol + "|" + dirn + "|" + cls + "|" + result_name(r));
}

bool survives(const std::function<void()>& f, std::string& why) {
  int pfd[2]; if (pipe(pfd) != 0) return true;
  fflush(0);
  pid_t pid = fork();
  if (pid < 0) { close(pfd[0]); close(pfd[1]); return true; }
  if (pid == 0) { close(pfd[0]); dup2(pfd[1], 2); close(pfd[1]); f(); _exit(0); }
  close(pfd[1]); std::string err; char buf[512]; ssize_t n;
  while ((n = read(pfd[0], buf, sizeof buf)) > 0) if (err.size() < 8192) err.append(buf, (size_t) n);
  close(pfd[0]); int st = 0; waitpid(pid, &st, 0);
  hx::count("fork_probes");
  if (WIFEXITED(st) && WEXITSTATUS(st) == 0) return true;
  size_t p = err.find("runtime error:"); if (p == std::string::npos) p = err.find("ERROR: AddressSanitizer"); if (p == std::string::npos) p = 0;
  size_t b = err.rfind('\n', p); b = (b == std::string::npos) ? 0 : b + 1; size_t e = err.find('\n', p); why = err.substr(b, (e == std::string::npos ? err.size() : e) - b);
  if (why.size() > 300) why.resize(300);
  if (WIFSIGNALED(st)) why += " [signal " + std::to_string(WTERMSIG(st)) + "]";
  return false;
}

const char* res_class(const KindInfo& K, const Ex& ex, bool special_operand) {
  if (ex.u != U_NONE) return UNDEF_NAME[ex.u];
  const Lim& L = K.lim;
  if (ex.v.inf()) return "inf-result";
  if (L.bounded && xcmp(ex.v, L.lo) < 0) return "neg-overflow";
  if (L.bounded && xcmp(ex.v, L.hi) > 0) return "pos-overflow";
  if (ex.has_prod && L.bounded && ex.prod.fin() && xcmp(ex.prod, L.lo) < 0) return "product-neg-overflow";
  if (ex.has_prod && L.bounded && ex.prod.fin() && xcmp(ex.prod, L.hi) > 0) return "product-pos-overflow";
  if (special_operand) return "inf-operand";
  return K.representable(ex.v) ? "exact" : "inexact";
}

// ---------------------------------------------------------------- the oracle
bool verify_core(const KindInfo& K, const Site& s, Rounding_Dir dir, const char* cls, Result r, const XQ& st, const Ex& ex, const Desc& desc) {
  hx::checked();
  const Lim& L = K.lim;
  Result_Class rc = result_class(r); Result_Relation rel = result_relation(r);
  bool unrep = !result_representable(r);
  const char* dn = dir_name(dir);
  static unsigned long& c_nan = hx::st().counters["ok.nan"]; static unsigned long& c_unk = hx::st().counters["ok.unknown_overflow"]; static unsigned long& c_unrep = hx::st().counters["ok.unrepresentable"];
  static unsigned long& c_ovf = hx::st().counters["ok.overflow"]; static unsigned long& c_exact = hx::st().counters["ok.exact"]; static unsigned long& c_inexact = hx::st().counters["ok.inexact"];
#define NK_FAIL(MON, WHAT) do { hx::violation(std::string("C11.") + MON + "." + s.op + "." + s.type + ":" + cls, \
    std::string(WHAT) + ": " + s.op + "<" + s.type + "/" + s.pol + ">(" + desc() + ", ROUND_" + dn + ") returned " + result_name(r) + " stored=" + (unrep ? "(unrepresentable)" : show(st)) + " exact=" + (ex.u ? UNDEF_NAME[ex.u] : show(ex.v)) \
    + (ex.has_prod ? " product=" + show(ex.prod) : "") + (L.bounded ? " range=[" + L.lo.get_str() + "," + L.hi.get_str() + "]" : "")); return false; } while (0)
  reg_distinct(s, dn, cls, r);
  // --- undefined input
  if (ex.u != U_NONE) {
    if (rc != VC_NAN) NK_FAIL("nan", "undefined-not-nan");
    if (r == V_UNKNOWN_NEG_OVERFLOW || r == V_UNKNOWN_POS_OVERFLOW) NK_FAIL("nan", "undefined-reported-as-overflow");
    if (!unrep && K.has_nan && !st.nan()) NK_FAIL("nan", "nan-result-but-stored-not-nan");
    ++c_nan;
    return true;
  }
  // --- defined input
  if (rc == VC_NAN) {
    if (r == V_UNKNOWN_NEG_OVERFLOW || r == V_UNKNOWN_POS_OVERFLOW) {
      if (!ex.has_prod || !L.bounded) NK_FAIL("ovf", "unknown-overflow-without-intermediate");
      bool neg = xcmp(ex.prod, L.lo) < 0, pos = xcmp(ex.prod, L.hi) > 0;
      if ((r == V_UNKNOWN_NEG_OVERFLOW && !neg) || (r == V_UNKNOWN_POS_OVERFLOW && !pos)) NK_FAIL("ovf", "unknown-overflow-claim-false");
      ++c_unk;
      return true;
    }
    // floating point fused ops are computed as x*y + to in the type itself: with an infinite accumulator and a product
    // that overflows the type on the other side the hardware yields inf - inf (a "FIXME: missing check_inf_add_inf" in
    // checked_float_inlines.hh); like V_UNKNOWN_*_OVERFLOW this is accepted iff the intermediate overflow is real
    if (K.is_flt && ex.has_prod && ex.acc_inf && ex.prod.fin() && (xcmp(ex.prod, L.lo) < 0 || xcmp(ex.prod, L.hi) > 0)) { static unsigned long& c_fn = hx::st().counters["ok.float_fused_nan_on_intermediate_overflow"]; ++c_fn; return true; }
    NK_FAIL("nan", "nan-on-defined");
  }
  int true_rel;   // relation  exact REL stored  as a Result_Relation bit
  if (unrep) {
    // nothing stored: the class must be an infinity and say on which side the exact result left the range
    if (rc == VC_MINUS_INFINITY) { int c = ex.v.k == XQ::MINF ? 0 : 1; true_rel = c == 0 ? VR_EQ : VR_GT; if (!(rel & true_rel)) NK_FAIL("rel", "relation-false"); if (c != 0 && !(L.bounded && xcmp(ex.v, L.lo) < 0)) NK_FAIL("ovf", "overflow-claimed-in-range"); }
    else if (rc == VC_PLUS_INFINITY) { int c = ex.v.k == XQ::PINF ? 0 : -1; true_rel = c == 0 ? VR_EQ : VR_LT; if (!(rel & true_rel)) NK_FAIL("rel", "relation-false"); if (c != 0 && !(L.bounded && xcmp(ex.v, L.hi) > 0)) NK_FAIL("ovf", "overflow-claimed-in-range"); }
    else NK_FAIL("rel", "unrepresentable-normal-result");
    ++c_unrep;
    return true;
  }
  if (st.nan()) NK_FAIL("nan", "stored-nan-on-defined");
  if (rc == VC_MINUS_INFINITY && st.k != XQ::MINF) NK_FAIL("rel", "class-minus-infinity-but-stored-differs");
  if (rc == VC_PLUS_INFINITY && st.k != XQ::PINF) NK_FAIL("rel", "class-plus-infinity-but-stored-differs");
  int c = xcmp(ex.v, st);
  true_rel = c < 0 ? VR_LT : c > 0 ? VR_GT : VR_EQ;
  if (round_up(dir) && c > 0) NK_FAIL("dir", "round-up-below-exact");       // the more specific diagnosis first
  if (round_down(dir) && c < 0) NK_FAIL("dir", "round-down-above-exact");
  if (!(rel & true_rel)) NK_FAIL("rel", "relation-false");
  // overflow codes and infinities produced from finite exact results
  bool ovf_code = ((unsigned) r & (unsigned) V_OVERFLOW) != 0;
  if (ovf_code || (st.inf() && ex.v.fin())) {
    if (!L.bounded) NK_FAIL("ovf", "overflow-in-unbounded-type");
    bool below = xcmp(ex.v, L.lo) < 0, above = xcmp(ex.v, L.hi) > 0;
    // floating point multiply-add/sub is computed unfused (x*y rounded, then the sum rounded): a product or a result within
    // one ulp of the largest finite value may legitimately saturate in two directed roundings (the relation was checked above)
    if (K.is_flt && ex.has_prod && ex.prod.fin()) {
      Q near = L.hi - L.hi / q_2exp((unsigned) (K.bits == 32 ? 22 : K.bits == 64 ? 51 : 62));
      if (abs(ex.prod.q) > near || (ex.v.fin() && !ex.v.root && abs(ex.v.q) > near)) below = above = true;
    }
    bool claims_neg = (rel == VR_LT && ovf_code) || st.k == XQ::MINF;   // V_LT_INF: exact < min ; stored -inf
    bool claims_pos = (rel == VR_GT && ovf_code) || st.k == XQ::PINF;
    if (ovf_code && rel == VR_LT && !(st.fin() && st.q == L.lo)) NK_FAIL("ovf", "lt-inf-but-stored-not-min");
    if (ovf_code && rel == VR_GT && !(st.fin() && st.q == L.hi)) NK_FAIL("ovf", "gt-sup-but-stored-not-max");
    if (claims_neg && !below) NK_FAIL("ovf", above ? "overflow-wrong-side" : "overflow-claimed-in-range");
    if (claims_pos && !above) NK_FAIL("ovf", below ? "overflow-wrong-side" : "overflow-claimed-in-range");
    ++c_ovf;
  }
  // strict relation requested: the library must commit to one of = < >
  if (round_strict_relation(dir) && (round_up(dir) || round_down(dir)) && (!K.is_flt || K.c_fpu_inexact))
    if (rel != VR_EQ && rel != VR_LT && rel != VR_GT) NK_FAIL("rel", "strict-not-exact");
  // a stored finite value must lie inside the finite range of the destination
  if (L.bounded && st.fin() && (st.q < L.lo || st.q > L.hi)) NK_FAIL("ovf", "stored-outside-finite-range");
  ++(c == 0 ? c_exact : c_inexact);
  return true;
#undef NK_FAIL
}

// ---------------------------------------------------------------- inputs that were seen to trigger undefined behaviour inside PPL
// They are first executed in a forked child so that the engine survives, keys the sanitizer report precisely
// (C11.ub.<op>.<type>:<class>) and goes on with the enumeration.  Predicates are on the decoded operands.
static bool risky_bin(const KindInfo& K, const char* op, const XQ& a, const XQ& b) {
  // lcm_gcd_exact takes |x|, |y| under the *source* policies; for raw native operands that is the transparent policy,
  // so abs(min) is computed as `-from` without an overflow test (checked_inlines.hh:430,434 -> checked_int_inlines.hh:1007)
  if (K.is_int && K.is_signed && K.bits >= 32 && strcmp(K.pol, "raw") == 0 && strcmp(op, "lcm") == 0 && a.fin() && b.fin() && ::sgn(a.q) != 0 && ::sgn(b.q) != 0 && (a.q == K.lim.lo || b.q == K.lim.lo)) return true;
  return false;
}
static bool risky_un(const KindInfo& K, const char* op, const XQ& a) {
  // isqrt_rem on a signed 32/64-bit type: `q = s + t` overflows for radicands >= 2^(bits-2) (checked_int_inlines.hh:1543)
  if (K.is_int && K.is_signed && K.bits >= 32 && strcmp(op, "sqrt") == 0 && a.fin() && a.q * 4 > K.lim.hi) return true;
  // sqrt_mpq of a perfect square in (0,1) with ROUND_NOT_NEEDED: inverse(ROUND_NOT_NEEDED) is PPL_UNREACHABLE -> abort() (Rounding_Dir_inlines.hh:134)
  if (K.is_mpq && strcmp(op, "sqrt") == 0 && a.fin() && ::sgn(a.q) > 0 && a.q <= 1 && ex_sqrt(a).v.root == false) return true;
  return false;
}
static bool risky_e2(const KindInfo& K, const char* op, const XQ& a, unsigned e) {
  // smod_2exp_{signed,unsigned}_int: `Type(1) << (exp - 1)` with exp == 0 (checked_int_inlines.hh:1480,1498)
  if (K.is_int && e == 0 && strcmp(op, "smod_2exp") == 0) return true;
  // smod_2exp_mpq with exp == 0 halves a denominator of 1 to 0 -> GMP division by zero (SIGFPE) (checked_mpq_inlines.hh:425)
  if (K.is_mpq && e == 0 && strcmp(op, "smod_2exp") == 0 && a.fin() && a.q.get_den() == 1) return true;
  // umod_2exp_signed_int: `(Type(1) << exp) - 1` with exp == bits-1 overflows a signed 32/64-bit Type (checked_int_inlines.hh:1528)
  if (K.is_int && K.is_signed && K.bits >= 32 && (int) e == K.bits - 1 && strcmp(op, "umod_2exp") == 0) return true;
  return false;
}

// Once an input of class `cls` crashed at this site, the remaining inputs of that class are not executed any more
// (each would cost one forked child and would add nothing): they are counted in skipped.known_ub_class.
static std::set<std::string>& crashed_classes() { static std::set<std::string> s; return s; }
static bool known_crash(const Site& s, const char* cls) {
  if (crashed_classes().count(std::string(s.op) + "|" + s.type + "|" + s.pol + "|" + cls)) { hx::count("skipped.known_ub_class"); return true; }
  return false;
}
// A class whose first inputs all survived the child is not probed any further (a fork of a sanitized process is
// expensive); should a later input of the class crash after all, the driver's crash path reports it.
static std::map<std::string, int>& survived_classes() { static std::map<std::string, int> m; return m; }
static bool probe(const Site& s, const char* cls, const std::function<void()>& f, std::string& why, int cap = 40) {
  int& n = survived_classes()[std::string(s.op) + "|" + s.type + "|" + s.pol + "|" + cls];
  if (n >= cap) return true;
  bool ok = survives(f, why); if (ok) ++n; return ok;
}
static bool probe_report(const Site& s, const char* cls, const std::string& operands, const std::string& why) {
  crashed_classes().insert(std::string(s.op) + "|" + s.type + "|" + s.pol + "|" + cls);
  hx::checked();
  hx::violation(std::string("C11.ub.") + s.op + "." + s.type + ":" + cls, std::string("sanitizer report / crash inside ") + s.op + "<" + s.type + "/" + s.pol + ">(" + operands + "): " + why);
  return false;
}
static void count_skipped(unsigned long n) { if (n) hx::count("skipped.outside_policy_contract", n); }

// ---------------------------------------------------------------- enumerators
void run_binary_core(const KindInfo& K, const char* op, BinRun run, Ex (*exact)(const XQ&, const XQ&), const void* xs, const void* ys, bool try_not_needed) {
  Site s = { op, K.tname, K.pol };
  const bool is_divlike = strcmp(op, "div") == 0 || strcmp(op, "idiv") == 0 || strcmp(op, "rem") == 0;
  size_t nx = K.size(xs), ny = K.size(ys);
  std::vector<XQ> dy; dy.reserve(ny); for (size_t j = 0; j < ny; ++j) dy.push_back(K.dec_at(ys, j));
  unsigned long skipped = 0, done = 0;
  for (size_t i = 0; i < nx; ++i) {
    const XQ ax = K.dec_at(xs, i);
    for (size_t j = 0; j < ny; ++j) {
      const XQ& ay = dy[j];
      Ex ex = exact(ax, ay);
      if (!K.in_contract(ex.u)) { ++skipped; continue; }
      const char* cls = res_class(K, ex, ax.inf() || ay.inf());
      if (is_divlike && ex.u == U_NONE && ay.fin() && ax.fin() && (strcmp(cls, "exact") == 0 || strcmp(cls, "inexact") == 0)) {
        bool ex_div = ::sgn(ex_rem(ax, ay).v.q) == 0;
        cls = ::sgn(ay.q) < 0 ? (ex_div ? "negative-divisor-exact" : "negative-divisor-inexact") : (ex_div ? "positive-divisor-exact" : "positive-divisor-inexact");
      }
      Desc desc = desc2(ax, ay);
      int nd = NDIRS + ((try_not_needed && ex.u == U_NONE && K.representable(ex.v)) ? 1 : 0);
      if (risky_bin(K, op, ax, ay)) {
        if (known_crash(s, cls)) continue;
        std::string why;
        if (!probe(s, cls, [&]() { XQ st; for (int d = 0; d < nd; ++d) run(xs, i, ys, j, DIRS[d].d, st); }, why)) { probe_report(s, cls, desc(), why); continue; }
      }
      for (int d = 0; d < nd; ++d) {
        if (g_verbose()) fprintf(stderr, "op: %s<%s/%s>(%s, ROUND_%s)\n", s.op, s.type, s.pol, desc().c_str(), DIRS[d].name);
        XQ st; Result r = run(xs, i, ys, j, DIRS[d].d, st);
        verify_core(K, s, DIRS[d].d, cls, r, st, ex, desc);
        ++done;
      }
    }
  }
  count_skipped(skipped); hx::count(std::string("op.") + op, done);
}

void run_unary_core(const KindInfo& K, const char* op, UnRun run, Ex (*exact)(const XQ&), const void* xs, bool try_not_needed) {
  Site s = { op, K.tname, K.pol };
  const bool is_sqrt = strcmp(op, "sqrt") == 0;
  size_t nx = K.size(xs); unsigned long skipped = 0, done = 0;
  for (size_t i = 0; i < nx; ++i) {
    const XQ ax = K.dec_at(xs, i);
    Ex ex = exact(ax);
    if (!K.in_contract(ex.u)) { ++skipped; continue; }
    std::string cl = res_class(K, ex, ax.inf());
    if (is_sqrt && ex.u == U_NONE && ax.fin()) {
      if (K.is_int && ax.q * 4 > K.lim.hi + 1) cl = "radicand-top-quarter-" + cl;
      else if (K.is_mpq && ax.q <= 1 && ::sgn(ax.q) > 0) cl = "radicand-at-most-one-" + cl;
    }
    const char* cls = intern(cl);
    Desc desc = desc1(ax);
    int nd = NDIRS + ((try_not_needed && ex.u == U_NONE && K.representable(ex.v)) ? 1 : 0);
    if (risky_un(K, op, ax)) {
      if (known_crash(s, cls)) continue;
      std::string why;
      if (!probe(s, cls, [&]() { XQ st; for (int d = 0; d < nd; ++d) run(xs, i, DIRS[d].d, st); }, why)) { probe_report(s, cls, desc(), why); continue; }
    }
    for (int d = 0; d < nd; ++d) {
      if (g_verbose()) fprintf(stderr, "op: %s<%s/%s>(%s, ROUND_%s)\n", s.op, s.type, s.pol, desc().c_str(), DIRS[d].name);
      XQ st; Result r = run(xs, i, DIRS[d].d, st);
      verify_core(K, s, DIRS[d].d, cls, r, st, ex, desc);
      ++done;
    }
  }
  count_skipped(skipped); hx::count(std::string("op.") + op, done);
}

static std::string exp_class(const KindInfo& K, unsigned e) {
  int b = K.is_int ? K.bits : 64;
  if (e == 0) return "exp0"; if ((int) e < b - 1 && e < 0x7fffffffU) return "exp-small";
  if (K.is_int) { if ((int) e == b - 1) return "exp=bits-1"; if ((int) e == b) return "exp=bits"; return "exp>bits"; }
  return "exp-large";
}
void run_2exp_core(const KindInfo& K, const char* op, E2Run run, Ex (*exact)(const XQ&, unsigned), const void* xs, const std::vector<unsigned>& exps) {
  Site s = { op, K.tname, K.pol };
  size_t nx = K.size(xs); unsigned long skipped = 0, done = 0;
  for (size_t i = 0; i < nx; ++i) {
    const XQ ax = K.dec_at(xs, i);
    for (size_t j = 0; j < exps.size(); ++j) {
      unsigned e = exps[j];
      if (!K.is_int && e > 100000) continue;    // GMP kinds: 2^e must fit in memory
      if (K.is_flt && e >= 64) continue;         // floats: exp < 64 is an entry PPL_ASSERT of the *_2exp functions (precondition)
      // native integers (<= 64 bits): every comparison of the exact result with a value of the type is the same for
      // 2^e and 2^200 once e >= 200, so the oracle works with min(e, 200) (2^(2^32-1) does not fit in memory)
      Ex ex = exact(ax, (K.is_int && e > 200) ? 200 : e);
      if (!K.in_contract(ex.u)) { ++skipped; continue; }
      const char* cls = intern(exp_class(K, e) + "_" + (ax.fin() ? (::sgn(ax.q) < 0 ? "neg" : ::sgn(ax.q) > 0 ? "pos" : "zero") : "special") + "_" + std::string(res_class(K, ex, ax.inf())));
      Desc desc = desce(ax, e);
      if (risky_e2(K, op, ax, e)) {
        if (known_crash(s, cls)) continue;
        std::string why;
        if (!probe(s, cls, [&]() { XQ st; for (int d = 0; d < NDIRS; ++d) run(xs, i, e, DIRS[d].d, st); }, why)) { probe_report(s, cls, desc(), why); continue; }
      }
      for (int d = 0; d < NDIRS; ++d) {
        if (g_verbose()) fprintf(stderr, "op: %s<%s/%s>(%s, ROUND_%s)\n", s.op, s.type, s.pol, desc().c_str(), DIRS[d].name);
        XQ st; Result r = run(xs, i, e, DIRS[d].d, st);
        verify_core(K, s, DIRS[d].d, cls, r, st, ex, desc);
        ++done;
      }
    }
  }
  count_skipped(skipped); hx::count(std::string("op.") + op, done);
}

void run_fused_core(const KindInfo& K, const char* op, bool sub, FuRun run, const void* accs, const void* xs, const void* ys) {
  Site s = { op, K.tname, K.pol };
  size_t nx = K.size(xs), ny = K.size(ys), na = K.size(accs);
  std::vector<XQ> dy; for (size_t j = 0; j < ny; ++j) dy.push_back(K.dec_at(ys, j));
  std::vector<XQ> da; for (size_t j = 0; j < na; ++j) da.push_back(K.dec_at(accs, j));
  unsigned long skipped = 0, done = 0;
  for (size_t i = 0; i < nx; ++i) {
    const XQ ax = K.dec_at(xs, i);
    for (size_t j = 0; j < ny; ++j) for (size_t k = 0; k < na; ++k) {
      const XQ& ay = dy[j]; const XQ& at = da[k];
      Ex ex = ex_fused(at, ax, ay, sub);
      if (!K.in_contract(ex.u)) { ++skipped; continue; }
      bool prod_ovf = ex.u == U_NONE && K.lim.bounded && ex.prod.fin() && (xcmp(ex.prod, K.lim.lo) < 0 || xcmp(ex.prod, K.lim.hi) > 0);
      if (K.is_flt && !K.c_fpu_nan && at.inf() && prod_ovf) { ++skipped; continue; }   // yields a NaN the policy declares it does not look for
      const char* cls = res_class(K, ex, ax.inf() || ay.inf());
      if (ex.u == U_NONE && at.inf()) cls = prod_ovf ? "inf-accumulator-product-overflow" : "inf-accumulator";
      Desc desc = desc3(at, ax, ay);
      for (int d = 0; d < NDIRS; ++d) {
        if (g_verbose()) fprintf(stderr, "op: %s<%s/%s>(%s, ROUND_%s)\n", s.op, s.type, s.pol, desc().c_str(), DIRS[d].name);
        XQ st; Result r = run(accs, k, xs, i, ys, j, DIRS[d].d, st);
        verify_core(K, s, DIRS[d].d, cls, r, st, ex, desc);
        ++done;
      }
    }
  }
  count_skipped(skipped); hx::count(std::string("op.") + op, done);
}

void run_convert_core(const KindInfo& To, const KindInfo& From, BinRun assign, BinRun construct, const void* xs) {
  const char* ty = intern(std::string(To.tname) + "<-" + From.tname);
  const char* polc = intern(std::string(To.pol) + "<-" + From.pol);
  Site s = { "assign", ty, polc }; Site sc = { "construct", ty, polc };
  size_t nx = From.size(xs); unsigned long done = 0;
  for (size_t i = 0; i < nx; ++i) {
    const XQ ax = From.dec_at(xs, i);
    if (ax.nan() && To.is_flt && From.is_flt && !To.c_fpu_nan) { hx::count("skipped.outside_policy_contract"); continue; }   // float -> float copy of a NaN under a policy that does not look for NaN results
    Ex ex = ex_id(ax);
    const char* cls = res_class(To, ex, false);
    if (ex.u == U_NONE && ax.fin() && strcmp(cls, "inexact") == 0 && To.is_int) cls = ::sgn(ax.q) < 0 ? "negative-fractional" : "positive-fractional";
    if (ex.u == U_NONE && ax.fin() && strcmp(cls, "inexact") == 0 && To.is_flt && abs(ax.q) < Q(1) / q_2exp(To.bits == 32 ? 126 : To.bits == 64 ? 1022 : 16382)) cls = "inexact-denormal-range";
    Desc desc = desc1(ax);
    int nd = NDIRS + ((ex.u == U_NONE && To.representable(ex.v)) ? 1 : 0);
    for (int d = 0; d < nd; ++d) {
      { if (g_verbose()) fprintf(stderr, "op: assign<%s/%s>(%s, ROUND_%s)\n", ty, polc, desc().c_str(), DIRS[d].name);
        XQ st; Result r = assign(xs, i, 0, 0, DIRS[d].d, st);
        verify_core(To, s, DIRS[d].d, cls, r, st, ex, desc); ++done; }
      if (construct && !(ax.nan() && strcmp(To.tname, From.tname) == 0 && strcmp(To.pol, From.pol) == 0)) {   // same-kind construct is a plain copy; the documentation is silent about the code for a copied NaN
        if (g_verbose()) fprintf(stderr, "op: construct<%s/%s>(%s, ROUND_%s)\n", ty, polc, desc().c_str(), DIRS[d].name);
        XQ st; Result r = construct(xs, i, 0, 0, DIRS[d].d, st);
        verify_core(To, sc, DIRS[d].d, cls, r, st, ex, desc); ++done; }
    }
  }
  hx::count("op.assign", done);
}

void run_specials_core(const KindInfo& K, SpRun run) {
  Site s = { "assign_special", K.tname, K.pol };
  for (int d = 0; d < NDIRS; ++d) for (int w = 0; w < 3; ++w) {
    Ex ex = w == 0 ? Ex(xinf(1)) : w == 1 ? Ex(xinf(-1)) : Ex(U_NAN_OPERAND);
    const char* cls = w == 0 ? "plus-infinity" : w == 1 ? "minus-infinity" : "not-a-number";
    XQ st; Result r = run(w, DIRS[d].d, st);
    Desc desc = desct(cls);
    if (verify_core(K, s, DIRS[d].d, cls, r, st, ex, desc) && w == 2 && K.has_nan && !result_representable(r)) {
      hx::checked();
      hx::violation(std::string("C11.nan.assign_special.") + K.tname + ":stored-nan-flagged-unrepresentable", std::string("assign_r(") + K.kname() + ", NOT_A_NUMBER) stored a NaN (policy has_nan) but returned " + result_name(r));
    }
  }
  hx::count("op.assign_special", 3 * NDIRS);
}

void run_compare_core(const KindInfo& A, const KindInfo& B, CmpRun run, SgnRun sg, const void* xs, const void* ys) {
  static const char* const NM[6] = { "equal", "not_equal", "less_than", "less_or_equal", "greater_than", "greater_or_equal" };
  // key by family pair (the precise types and policies are in the detail): the same comparison template serves a whole family
  auto fam = [](const KindInfo& K) { return K.is_int ? "int" : K.is_flt ? "float" : "gmp"; };
  std::string ty = std::string(fam(A)) + "_vs_" + fam(B), pol = std::string(A.kname()) + "," + B.kname();
  const std::string mixed = (strcmp(A.pol, B.pol) == 0 && A.has_nan == B.has_nan && A.has_inf == B.has_inf) ? "same-policy-" : "mixed-policy-";   // raw kinds: the transparent policy of each type
  size_t nx = A.size(xs), ny = B.size(ys);
  std::vector<XQ> dy; for (size_t j = 0; j < ny; ++j) dy.push_back(B.dec_at(ys, j));
  unsigned long done = 0; int probe_budget = 12;
  for (size_t i = 0; i < nx; ++i) {
    const XQ ax = A.dec_at(xs, i);
    for (size_t j = 0; j < ny; ++j) {
      const XQ& ay = dy[j]; int c = xcmp(ax, ay);
      if (g_verbose()) fprintf(stderr, "op: compare<%s/%s>(%s, %s)\n", ty.c_str(), pol.c_str(), show(ax).c_str(), show(ay).c_str());
      // GMP operand holding a special value compared across policies: the swapped policies of gt_ext/ge_ext let the
      // special encoding (zero denominator, fake size field) reach GMP itself -> SEGV; run in a child first
      // likewise a GMP number compared with a floating point NaN / infinity (GMP "invalid operation", SIGFPE)
      if ((A.is_mpz || A.is_mpq || B.is_mpz || B.is_mpq) && (!ax.fin() || !ay.fin()) && (strcmp(A.pol, B.pol) != 0 || A.is_flt || B.is_flt)) {
        const char* pcls = intern(mixed + (c == 2 ? "nan-operand" : "inf-operand")); Site ps = { "compare", intern(ty), intern(pol) };
        if (known_crash(ps, pcls)) continue;
        if (probe_budget-- <= 0) { hx::count("skipped.risky_comparison_not_probed"); continue; }   // a fork of a sanitized process is expensive: at most 12 per case
        std::string why;
        if (!probe(ps, pcls, [&]() { run(xs, i, ys, j, c != 2); }, why, 1 << 30)) { probe_report(ps, pcls, show(ax) + ", " + show(ay), why); continue; }   // whether GMP crashes depends on the operand values: always probe
      }
      CmpOut o = run(xs, i, ys, j, c != 2);
      bool want[6] = { c == 0, c != 0, c == -1, c == -1 || c == 0, c == 1, c == 1 || c == 0 };
      const char* cls = intern(mixed + (c == 2 ? "nan-operand" : (ax.inf() || ay.inf()) ? "inf-operand" : "finite"));
      hx::checked(6); done += 6;
      for (int k = 0; k < 6; ++k)
        if (o.p[k] != want[k]) hx::violation(std::string("C11.rel.") + NM[k] + "." + ty + ":" + cls, std::string(NM[k]) + "<" + ty + "/" + pol + ">(" + show(ax) + ", " + show(ay) + ") returned " + (o.p[k] ? "true" : "false"));
      if (c != 2 && o.has_cmp) { hx::checked(); ++done;
        if ((o.c > 0) - (o.c < 0) != c) hx::violation(std::string("C11.rel.cmp.") + ty + ":" + cls, "cmp<" + ty + "/" + pol + ">(" + show(ax) + ", " + show(ay) + ") returned " + std::to_string(o.c)); }
    }
    if (!ax.nan()) { hx::checked(); ++done; int g = sg(xs, i); int w = ax.sgn(); if (g != w) hx::violation(std::string("C11.rel.sgn.") + A.tname + ":" + (ax.inf() ? "inf-operand" : "finite"), "sgn<" + A.kname() + ">(" + show(ax) + ") returned " + std::to_string(g)); }
  }
  hx::count("op.compare", done);
  static std::unordered_set<uint64_t> seen; uint64_t h = hx::fnv(ty + pol); if (seen.insert(h).second) hx::distinct("compare|" + ty + "|" + pol);
}

static Units& i8_units(bool thorough) {
  static Units q, t, all; static bool init = false;
  if (!init) { init = true;
#define NK_CALL(P) i8_register_##P(q, t);
    NK_I8_PARTS(NK_CALL)
#undef NK_CALL
    all = q; all.insert(all.end(), t.begin(), t.end()); }
  return thorough ? all : q;
}
} // namespace nk

static void run_case(uint64_t) {
  const std::string& profile = hx::opt().profile;
  long c = hx::st().cur_case;
  try {
    if (profile == "i8") {
      nk::Units& U = nk::i8_units(hx::opt().thorough);
      long lim = hx::opt().geti("units", (long) U.size());
      size_t k = (size_t) (c % lim);
      if (c == 0) hx::count("i8.units_in_tier", (unsigned long) lim);
      hx::tr("unit " + std::to_string(k) + "/" + std::to_string(lim) + ": " + U[k].name);
      U[k].run();
      hx::count("i8.units_run");
    }
    else if (profile == "wide") {
      switch (hx::rnd(0, 12)) { case 0: case 1: nk::w16s_case(); break; case 2: case 3: nk::w16u_case(); break; case 4: case 5: nk::w32s_case(); break; case 6: case 7: nk::w32u_case(); break;
        case 8: case 9: nk::w64s_case(); break; case 10: case 11: nk::w64u_case(); break; default: nk::w64ll_case(); break; }
    }
    else if (profile == "float") { int w = hx::rnd(0, 2); if (w == 0) nk::float_case_f(); else if (w == 1) nk::float_case_d(); else nk::float_case_l(); }
    else if (profile == "gmp") { if (hx::coin()) nk::gmp_case_z(); else nk::gmp_case_q(); }
    else { fprintf(stderr, "numkernel: unknown profile '%s' (i8, wide, float, gmp)\n", profile.c_str()); exit(2); }
  }
  catch (const std::exception& e) {
    hx::violation(std::string("C11.unexpected_exception.") + typeid(e).name(), e.what());
  }
}

int main(int argc, char** argv) {
  if (argc == 2 && std::string(argv[1]) == "--list-units") {
    nk::Units& q = nk::i8_units(false); nk::Units& a = nk::i8_units(true);
    printf("i8 quick units: %zu\ni8 thorough units: %zu\n", q.size(), a.size());
    for (size_t i = 0; i < a.size(); ++i) printf("%zu\t%s\n", i, a[i].name.c_str());
    return 0;
  }
  return hx::main_loop(argc, argv, run_case);
}
