// boxseq — random operation histories on Box<ITV> for every interval policy
// (rational open/closed, mpz, native integers, float/double/long double),
// every step checked against the exact-LP reference model.
//
// Monitors (key prefix = property):
//   C03.sound.<inst>.<op>[:class]   the returned box contains the exact result computed on the
//                                   arguments' denotations (read through get_interval/constraints)
//   C03.definite.<inst>.<query>     a definite answer (emptiness, containment, disjointness,
//                                   relation, bound) is false of the denoted sets
//   C03.unobservable.<inst>.<op>    a boundary that is not a number
//   C04.exact.box.<op>[:class]      Rational_Box: intersection, concatenation, dimension operators,
//                                   interval constraints, expressible affine (pre)images are exact
//   C04.best.box.<op>               Rational_Box: upper bound, difference, fold, constructors at
//                                   ANY complexity give the smallest box (sup/inf + attainment)
//   C04.pred.box.<query>            Rational_Box: predicates and queries are exact; twins agree
//   C17.box.<inst>.<op>.<what>[:class]  wrap_assign / drop_some_non_integer_points keep the
//                                   required integer points; contains_integer_point exact
// Profiles only change the step mix: ops | conv | pred | wrap.   --kv inst=<name>|all
#include "boxseq.hh"
#include <functional>

using namespace boxseq;
using hx::violation; using hx::tr; using hx::checked;

std::vector<Entry>& boxseq::table() { static std::vector<Entry> t; return t; }

static const Entry* E = 0;
static TypeInfo TI;
static std::string INST;
static int g_maxdim = 3;
typedef std::unique_ptr<BoxI> BP;

// ---------- exact shadows ----------
struct Shadow { int n; bool empty; std::vector<Itv> iv; Shadow() : n(0), empty(false) {} };

static std::string qstr(const Q& q) { return q.get_str(); }
static std::string show(const Itv& i) {
  if (i.empty) return "{}";
  std::ostringstream o;
  if (i.lo.inf) o << "(-inf"; else o << (i.lo.open ? "(" : "[") << i.lo.v;
  o << ",";
  if (i.hi.inf) o << "+inf)"; else o << i.hi.v << (i.hi.open ? ")" : "]");
  return o.str();
}
static std::string show(const Shadow& S) {
  std::ostringstream o;
  if (S.empty) { o << "EMPTY/" << S.n; return o.str(); }
  o << "{"; for (int k = 0; k < S.n; ++k) o << (k ? " x " : "") << show(S.iv[k]); o << "}";
  return o.str();
}
static bool itv_empty(const Itv& i) { return i.empty || (!i.lo.inf && !i.hi.inf && (i.lo.v > i.hi.v || (i.lo.v == i.hi.v && (i.lo.open || i.hi.open)))); }
static bool member(const Itv& i, const Q& x) {
  if (itv_empty(i)) return false;
  if (!i.lo.inf && (x < i.lo.v || (x == i.lo.v && i.lo.open))) return false;
  if (!i.hi.inf && (x > i.hi.v || (x == i.hi.v && i.hi.open))) return false;
  return true;
}
static bool member(const Shadow& S, const Vec& x) { if (S.empty) return false; for (int k = 0; k < S.n; ++k) if (!member(S.iv[k], x[k])) return false; return true; }
static bool same_bnd(const Bnd& a, const Bnd& b) { if (a.inf || b.inf) return a.inf == b.inf; return a.v == b.v && a.open == b.open; }
static bool same_shadow(const Shadow& a, const Shadow& b) {
  if (a.n != b.n) return false;
  if (a.empty || b.empty) return a.empty == b.empty;
  for (int k = 0; k < a.n; ++k) if (!same_bnd(a.iv[k].lo, b.iv[k].lo) || !same_bnd(a.iv[k].hi, b.iv[k].hi)) return false;
  return true;
}
static Sys to_sys(const Shadow& S) {
  Sys s; int n = S.n;
  if (S.empty) { Vec z(n); s.push_back(Con(z, Q(-1), ref::LE)); return s; }
  for (int k = 0; k < n; ++k) {
    const Itv& i = S.iv[k];
    if (!i.lo.inf) { Vec a(n); a[k] = -1; s.push_back(Con(a, Q(-i.lo.v), i.lo.open ? ref::LT : ref::LE)); }
    if (!i.hi.inf) { Vec a(n); a[k] = 1; s.push_back(Con(a, i.hi.v, i.hi.open ? ref::LT : ref::LE)); }
  }
  return s;
}
static Shadow universe_shadow(int n) { Shadow S; S.n = n; S.iv.assign(n, Itv()); return S; }
// tighten helpers
static void tighten_hi(Itv& i, const Q& v, bool open) {
  if (i.hi.inf || v < i.hi.v) { i.hi.inf = false; i.hi.v = v; i.hi.open = open; }
  else if (v == i.hi.v && open) i.hi.open = true;
}
static void tighten_lo(Itv& i, const Q& v, bool open) {
  if (i.lo.inf || v > i.lo.v) { i.lo.inf = false; i.lo.v = v; i.lo.open = open; }
  else if (v == i.lo.v && open) i.lo.open = true;
}
// A system of interval constraints read back as a box (plain arithmetic).
static bool shadow_of_sys(int n, const Sys& C, Shadow& S, std::string& err) {
  S = universe_shadow(n);
  for (size_t r = 0; r < C.size(); ++r) {
    const Con& c = C[r]; int cnt = 0, k = -1;
    for (int j = 0; j < n && j < (int) c.a.size(); ++j) if (c.a[j] != 0) { ++cnt; k = j; }
    if (cnt == 0) { bool ok = c.rel == ref::LE ? (0 <= c.b) : c.rel == ref::LT ? (0 < c.b) : (0 == c.b); if (!ok) S.empty = true; continue; }
    if (cnt > 1) { err = "non-interval constraint " + show(c); return false; }
    Q v = c.b / c.a[k];
    Itv& i = S.iv[k];
    if (c.rel == ref::EQ) { tighten_lo(i, v, false); tighten_hi(i, v, false); }
    else if (c.a[k] > 0) tighten_hi(i, v, c.rel == ref::LT);
    else tighten_lo(i, v, c.rel == ref::LT);
  }
  for (int k = 0; k < n; ++k) if (itv_empty(S.iv[k])) S.empty = true;
  return true;
}

static std::string status_word(const BoxI& x) {
  std::ostringstream o; x.ascii_dump(o); std::string s = o.str();
  size_t p = s.find("space_dim"); if (p == std::string::npos) return "?";
  while (p > 0 && (s[p - 1] == ' ' || s[p - 1] == '\n')) --p;
  return s.substr(0, p);
}
static std::string shape_class(const Shadow& S) {
  if (S.empty) return "empty";
  bool univ = true, bounded = true, open = false, sing = false;
  for (int k = 0; k < S.n; ++k) { const Itv& i = S.iv[k]; if (!i.lo.inf || !i.hi.inf) univ = false; if (i.lo.inf || i.hi.inf) bounded = false; if ((!i.lo.inf && i.lo.open) || (!i.hi.inf && i.hi.open)) open = true; if (!i.lo.inf && !i.hi.inf && i.lo.v == i.hi.v) sing = true; }
  if (univ) return "universe";
  return std::string(bounded ? "bounded" : "unbounded") + (open ? "+open" : "") + (sing ? "+eq" : "");
}
static bool nontrivial(const std::string& c) { return c != "empty" && c != "universe"; }

// Observation through clones: the original's lazy state (empty / empty_up_to_date flags) is untouched.
// View 1 = get_interval (exact boundaries + openness), view 2 = constraints(); they must agree.
static bool observe(const BoxI& x, Shadow& S, const std::string& where) {
  BP c(x.clone()); S.n = c->dim(); S.empty = false;
  bool e = c->is_empty();
  std::string odd; c->intervals(S.iv, odd);
  if (!odd.empty()) { violation("C03.unobservable." + INST + "." + where, odd + "; status " + status_word(x)); return false; }
  bool any = false;
  for (int k = 0; k < S.n; ++k) {
    bool flag = S.iv[k].empty; Itv t = S.iv[k]; t.empty = false; bool cross = itv_empty(t);
    if (!flag && cross) { violation("C03.definite." + INST + ".is_empty:interval-nonempty-but-bounds-cross", "after " + where + ": Interval::is_empty() false for " + show(t)); return false; }
    if (flag || cross) any = true;
  }
  S.empty = (S.n == 0) ? e : any;
  if (e != S.empty) {
    // is_empty() disagrees with the intervals it is computed from
    if (e) { violation("C03.definite." + INST + ".is_empty", "after " + where + ": is_empty() true but every interval is non-empty: " + show(S)); return false; }
    if (TI.exact) { violation("C04.pred.box.is_empty", "after " + where + ": is_empty() false but an interval is empty: " + show(S)); return false; }
    hx::count("imprecise.is_empty");
  }
  // second view: constraints()
  BP c2(x.clone());
  Sys C = ref::conv(c2->constraints(), S.n);
  Shadow S2; std::string err;
  if (!shadow_of_sys(S.n, C, S2, err)) { violation("C03.sound." + INST + ".constraints:not-interval-constraints", "after " + where + ": " + err); return false; }
  checked(); hx::count("view_checks");
  if (!same_shadow(S, S2)) { violation("C03.sound." + INST + ".constraints:differs-from-intervals", "after " + where + ": intervals " + show(S) + " constraints() " + show(S2) + " = " + show(C)); return false; }
  return true;
}

// ---------- targets: finite unions of exists-projected systems ----------
struct Target { int n; std::vector<ESys> pieces; Target() : n(0) {} };
static Target tgt(const ESys& T) { Target t; t.n = T.n; t.pieces.push_back(T); return t; }
static Target tgt(int n, const Sys& s) { return tgt(ref::esys_of(s, n)); }
static std::string show_piece_wit(const ESys& P, const Vec& w) {
  Vec vis(w.begin(), w.begin() + P.n); std::string s = "point " + show(vis);
  if (P.aux > 0) { Vec aux(w.begin() + P.n, w.end()); s += " (from " + show(aux) + ")"; }
  return s;
}
// T subseteq R ?   (R a box shadow).  Every LP witness is re-validated by plain arithmetic against
// the target system and against the PPL-reported interval of the result.
static bool check_sound(const std::string& key, const Target& T, const Shadow& R, const std::string& ctx) {
  checked(); hx::count("sound_checks");
  for (size_t p = 0; p < T.pieces.size(); ++p) {
    const ESys& P = T.pieces[p]; int nv = P.n + P.aux;
    if (R.empty) {
      Vec w;
      if (ref::feasible(nv, P.s, &w)) {
        if (!ref::sat(P.s, w)) { violation("harness.bug.sound_witness", key); return false; }
        violation(key, "result is empty but the exact result contains " + show_piece_wit(P, w) + "; " + ctx); return false;
      }
      continue;
    }
    for (int k = 0; k < R.n; ++k) for (int side = 0; side < 2; ++side) {
      const Bnd& b = side ? R.iv[k].hi : R.iv[k].lo;
      if (b.inf) continue;
      Vec a(nv); Con neg;
      if (side == 0) { a[k] = 1; neg = Con(a, b.v, b.open ? ref::LE : ref::LT); }         // x_k < lo  (<= if lo is open)
      else { a[k] = -1; neg = Con(a, Q(-b.v), b.open ? ref::LE : ref::LT); }               // x_k > hi
      Sys s = P.s; s.push_back(neg);
      Vec w;
      if (ref::feasible(nv, s, &w)) {
        if (!ref::sat(P.s, w) || member(R.iv[k], w[k])) { violation("harness.bug.sound_witness", key); return false; }
        std::ostringstream o; o << show_piece_wit(P, w) << " of the exact result is outside the result's interval " << show(R.iv[k]) << " for dimension " << k << "; result " << show(R) << "; " << ctx;
        violation(key, o.str()); return false;
      }
    }
  }
  return true;
}
// R is the smallest box containing T (per axis: sup/inf and attainment equal).  Assumes T subseteq R was checked.
static bool check_best(const std::string& key, const Target& T, const Shadow& R, const std::string& ctx) {
  checked(); hx::count("best_checks");
  std::vector<const ESys*> ne;
  for (size_t p = 0; p < T.pieces.size(); ++p) if (ref::feasible(T.pieces[p].n + T.pieces[p].aux, T.pieces[p].s)) ne.push_back(&T.pieces[p]);
  if (ne.empty()) { if (!R.empty) { violation(key, "exact result is empty but the box is " + show(R) + "; " + ctx); return false; } return true; }
  if (R.empty) return true;   // a soundness matter
  for (int k = 0; k < R.n; ++k) for (int side = 0; side < 2; ++side) {
    bool bounded = true, attained = false, first = true; Q sup;
    for (size_t p = 0; p < ne.size(); ++p) {
      int nv = ne[p]->n + ne[p]->aux; Vec d(nv); d[k] = side ? 1 : -1;
      ref::SupResult r = ref::supremum(nv, ne[p]->s, d);
      if (!r.bounded) { bounded = false; break; }
      if (first || r.sup > sup) { sup = r.sup; attained = r.attained; first = false; }
      else if (r.sup == sup && r.attained) attained = true;
    }
    const Bnd& b = side ? R.iv[k].hi : R.iv[k].lo;
    Q want = side ? sup : Q(-sup);
    bool ok = bounded ? (!b.inf && b.v == want && b.open == !attained) : b.inf;
    if (!ok) {
      std::ostringstream o; o << (side ? "upper" : "lower") << " bound of dimension " << k << ": exact result has " << (side ? "sup " : "inf ");
      if (bounded) o << want << (attained ? " (attained)" : " (not attained)"); else o << "unbounded";
      o << " but the box has " << show(R.iv[k]) << "; result " << show(R) << "; " << ctx;
      violation(key, o.str()); return false;
    }
  }
  return true;
}
static bool sys_included(int n, const Sys& a, const Sys& b) { return ref::esys_in_cons(ref::esys_of(a, n), b, 0, 0); }

// A Boolean answer: `got` from PPL, `truth` from the reference.  The value `definite` is the one that
// is a definite claim (C03, every instantiation); the other direction is demanded of Rational_Box only (C04).
static bool check_bool(const std::string& q, bool got, bool truth, const std::string& detail, bool definite = true) {
  checked(); hx::count("q." + q);
  if (got == truth) return true;
  std::string d = std::string("PPL ") + (got ? "true" : "false") + ", reference " + (truth ? "true" : "false") + "; " + detail;
  if (got == definite) { violation("C03.definite." + INST + "." + q, d); return false; }
  if (TI.exact) { violation("C04.pred.box." + q, d); return false; }
  hx::count("imprecise." + q);
  return true;
}

// ---------- type-limit-biased numbers ----------
static mpz_class pow2(int k) { mpz_class r = 1; r <<= k; return r; }
static mpz_class pow10(int k) { mpz_class r = 1; for (int i = 0; i < k; ++i) r *= 10; return r; }
static mpz_class big_num() {
  const TypeInfo& t = TI; mpz_class v; int off = rnd(0, 6);
  if (t.bits) {
    mpz_class M = t.sgn ? pow2(t.bits - 1) : pow2(t.bits);
    switch (rnd(0, 5)) {
    case 0: v = M - 1 - off; break;
    case 1: v = t.sgn ? mpz_class(-M + off) : mpz_class(off); break;
    case 2: v = M + off; break;
    case 3: v = t.sgn ? mpz_class(-M - 1 - off) : mpz_class(-1 - off); break;
    case 4: v = M / 2 + off; break;
    default: v = -(M / 2) - off; break;
    }
    return v;
  }
  if (t.fdigits) {
    switch (rnd(0, 7)) {
    case 0: v = pow2(t.fdigits) + 1; break;                                 // not representable
    case 1: v = pow2(t.fdigits + rnd(0, 3)) - 1; break;
    case 2: v = pow2(t.fmaxexp - 1); break;
    case 3: v = pow2(t.fmaxexp); break;                                     // overflows
    case 4: v = pow2(t.fmaxexp) - pow2(t.fmaxexp - t.fdigits); break;       // largest finite
    case 5: v = pow10(rnd(3, 25)) + off; break;
    case 6: v = 3 * pow2(rnd(1, 70)) + 1; break;
    default: v = pow2(t.fmaxexp + 3) + 1; break;
    }
    return coin() ? v : mpz_class(-v);
  }
  switch (rnd(0, 3)) {
  case 0: v = pow10(20) + off; break;
  case 1: v = pow2(64) - off; break;
  case 2: v = pow2(63) + off; break;
  default: v = pow10(rnd(3, 9)) - off; break;
  }
  return coin() ? v : mpz_class(-v);
}
static mpz_class big_den() {
  const TypeInfo& t = TI;
  if (t.fdigits) {
    switch (rnd(0, 5)) {
    case 0: return pow2(rnd(1, 60));
    case 1: return pow2(-t.fminexp - rnd(0, 3));            // denormal range
    case 2: return pow2(-t.fminexp + rnd(1, 4));            // below the smallest denormal
    case 3: return mpz_class(3);
    case 4: return mpz_class(10);
    default: return mpz_class(7);
    }
  }
  switch (rnd(0, 3)) { case 0: return mpz_class(2); case 1: return mpz_class(3); case 2: return mpz_class(7); default: return t.bits ? mpz_class(5) : pow10(rnd(1, 12)); }
}
static mpz_class coef() {
  int k = rnd(0, 99);
  if (k < 88) return mpz_class(rnd(-3, 3));
  if (k < 94) return mpz_class(rnd(-40, 40));
  if (k < 97) return big_num();
  return coin() ? big_den() : mpz_class(-big_den());
}
static mpz_class inhom() { int k = rnd(0, 99); if (k < 85) return mpz_class(rnd(-6, 6)); if (k < 93) return mpz_class(rnd(-200, 200)); return big_num(); }
static Linear_Expression rexpr(int n, int pct_zero = 40) {
  Linear_Expression e;
  for (int i = 0; i < n; ++i) if (!coin(pct_zero)) { mpz_class c = coef(); if (c != 0) e += Coefficient(c) * Variable(i); }
  e += Coefficient(inhom());
  return e;
}
static Coefficient rden() { int k = rnd(0, 99); if (k < 62) return Coefficient(rnd(1, 3)); if (k < 92) return Coefficient(-rnd(1, 3)); mpz_class d = big_den(); return coin(70) ? Coefficient(d) : Coefficient(-d); }
// relation index: 0 '<', 1 '<=', 2 '==', 3 '>=', 4 '>'
static int rrel(bool strict_ok) { if (strict_ok && coin(30)) return coin() ? 0 : 4; int k = rnd(0, 9); return k < 4 ? 1 : k < 8 ? 3 : 2; }
static Constraint mk_con(const Linear_Expression& l, int rel, const Linear_Expression& r) {
  switch (rel) { case 0: return l < r; case 1: return l <= r; case 2: return l == r; case 3: return l >= r; default: return l > r; }
}
// an interval constraint  d*x REL b
static Constraint itv_con(int n, bool strict_ok) {
  int v = rnd(0, n - 1); mpz_class d, b; int m = rnd(0, 99);
  if (m < 70) { d = rnd(1, 3); b = rnd(-6, 6); }
  else if (m < 84) { d = 1; b = big_num(); }
  else if (m < 93) { d = big_den(); b = rnd(-6, 6); }
  else { d = big_den(); b = big_num(); }
  if (coin(25)) d = -d;
  return mk_con(Coefficient(d) * Variable(v), rrel(strict_ok), Linear_Expression(Coefficient(b)));
}
static Constraint gen_con(int n, bool strict_ok) { return mk_con(rexpr(n), rrel(strict_ok), Linear_Expression(Coefficient(0))); }
static bool is_interval_con(const Constraint& c, int n) { int cnt = 0; for (int i = 0; i < n && i < (int) c.space_dimension(); ++i) if (c.coefficient(Variable(i)) != 0) ++cnt; return cnt <= 1; }
static int nvars_of(const Linear_Expression& e, int n) { int cnt = 0; for (int i = 0; i < n && i < (int) e.space_dimension(); ++i) if (e.coefficient(Variable(i)) != 0) ++cnt; return cnt; }
static Generator rgen(int n, bool nnc, bool must_point) {
  Linear_Expression e;
  for (int i = 0; i < n; ++i) if (!coin(30)) { mpz_class c = coin(92) ? mpz_class(rnd(-5, 5)) : big_num(); e += Coefficient(c) * Variable(i); }
  int k = must_point ? 0 : rnd(0, nnc ? 9 : 7);
  if (n == 0) k = (k >= 8) ? 8 : 0;
  Coefficient d = coin(85) ? Coefficient(rnd(1, 3)) : Coefficient(big_den());
  if (k < 4) return point(e, d);
  if (k < 6) { if (e.all_homogeneous_terms_are_zero()) e += Variable(rnd(0, n - 1)); return ray(e); }
  if (k < 8) { if (e.all_homogeneous_terms_are_zero()) e += Variable(rnd(0, n - 1)); return line(e); }
  return closure_point(e, d);
}
// exists-form of hull_NNC(G): x = sum l_i g_i, l >= 0 (lines free), sum over (closure) points = 1, sum over points > 0
static ESys esys_of_gens(int n, const Gens& G) {
  ESys T; T.n = n; T.aux = G.size(); int nv = n + T.aux;
  bool has_point = false; for (size_t j = 0; j < G.size(); ++j) if (G[j].kind == Gen::POINT) has_point = true;
  if (!has_point) { Vec z(nv); T.s.push_back(Con(z, Q(-1), ref::LE)); return T; }
  for (int d = 0; d < n; ++d) { Vec a(nv); a[d] = 1; for (size_t j = 0; j < G.size(); ++j) a[n + j] = -G[j].v[d]; T.s.push_back(Con(a, Q(0), ref::EQ)); }
  Vec sum(nv), psum(nv);
  for (size_t j = 0; j < G.size(); ++j) {
    if (G[j].kind == Gen::POINT || G[j].kind == Gen::CLOSURE_POINT) sum[n + j] = 1;
    if (G[j].kind == Gen::POINT) psum[n + j] = -1;
    if (G[j].kind != Gen::LINE) { Vec a(nv); a[n + j] = -1; T.s.push_back(Con(a, Q(0), ref::LE)); }
  }
  T.s.push_back(Con(sum, Q(1), ref::EQ));
  T.s.push_back(Con(psum, Q(0), ref::LT));
  return T;
}
