// boxseq — random operation histories on Box<ITV> for every interval policy
// (rational open/closed, mpz, native integers, float/double/long double),
// every step checked against the exact-LP reference model.
//
// Monitors (key prefix = property):
//   C03.sound.<inst>.<op>[:class]   the returned box contains the exact result computed on the
//                                   arguments' denotations (read through get_interval/constraints)
//   C03.definite.<inst>.<query>     a definite answer (emptiness, containment, disjointness,
//                                   relation, bound) is false of the denoted sets
//   C03.unobservable.<inst>.<op>    a boundary that is not a number
//   C04.exact.box.<op>[:class]      Rational_Box: intersection, concatenation, dimension operators,
//                                   interval constraints, expressible affine (pre)images are exact
//   C04.best.box.<op>               Rational_Box: upper bound, difference, fold, constructors at
//                                   ANY complexity give the smallest box (sup/inf + attainment)
//   C04.pred.box.<query>            Rational_Box: predicates and queries are exact; twins agree
//   C17.box.<inst>.<op>.<what>[:class]  wrap_assign / drop_some_non_integer_points keep the
//                                   required integer points; contains_integer_point exact
// Profiles only change the step mix: ops | conv | pred | wrap.   --kv inst=<name>|all
#include "boxseq.hh"
#include <functional>

using namespace boxseq;
using hx::violation; using hx::tr; using hx::checked;

std::vector<Entry>& boxseq::table() { static std::vector<Entry> t; return t; }

static const Entry* E = 0;
static TypeInfo TI;
static std::string INST;
static int g_maxdim = 3;
typedef std::unique_ptr<BoxI> BP;

// ---------- exact shadows ----------
struct Shadow { int n; bool empty; std::vector<Itv> iv; Shadow() : n(0), empty(false) {} };

static std::string qstr(const Q& q) { return q.get_str(); }
static std::string show(const Itv& i) {
  if (i.empty) return "{}";
  std::ostringstream o;
  if (i.lo.inf) o << "(-inf"; else o << (i.lo.open ? "(" : "[") << i.lo.v;
  o << ",";
  if (i.hi.inf) o << "+inf)"; else o << i.hi.v << (i.hi.open ? ")" : "]");
  return o.str();
}
static std::string show(const Shadow& S) {
  std::ostringstream o;
  if (S.empty) { o << "EMPTY/" << S.n; return o.str(); }
  o << "{"; for (int k = 0; k < S.n; ++k) o << (k ? " x " : "") << show(S.iv[k]); o << "}";
  return o.str();
}
static bool itv_empty(const Itv& i) { return i.empty || (!i.lo.inf && !i.hi.inf && (i.lo.v > i.hi.v || (i.lo.v == i.hi.v && (i.lo.open || i.hi.open)))); }
static bool member(const Itv& i, const Q& x) {
  if (itv_empty(i)) return false;
  if (!i.lo.inf && (x < i.lo.v || (x == i.lo.v && i.lo.open))) return false;
  if (!i.hi.inf && (x > i.hi.v || (x == i.hi.v && i.hi.open))) return false;
  return true;
}
static bool member(const Shadow& S, const Vec& x) { if (S.empty) return false; for (int k = 0; k < S.n; ++k) if (!member(S.iv[k], x[k])) return false; return true; }
static bool same_bnd(const Bnd& a, const Bnd& b) { if (a.inf || b.inf) return a.inf == b.inf; return a.v == b.v && a.open == b.open; }
static bool same_shadow(const Shadow& a, const Shadow& b) {
  if (a.n != b.n) return false;
  if (a.empty || b.empty) return a.empty == b.empty;
  for (int k = 0; k < a.n; ++k) if (!same_bnd(a.iv[k].lo, b.iv[k].lo) || !same_bnd(a.iv[k].hi, b.iv[k].hi)) return false;
  return true;
}
static Sys to_sys(const Shadow& S) {
  Sys s; int n = S.n;
  if (S.empty) { Vec z(n); s.push_back(Con(z, Q(-1), ref::LE)); return s; }
  for (int k = 0; k < n; ++k) {
    const Itv& i = S.iv[k];
    if (!i.lo.inf) { Vec a(n); a[k] = -1; s.push_back(Con(a, Q(-i.lo.v), i.lo.open ? ref::LT : ref::LE)); }
    if (!i.hi.inf) { Vec a(n); a[k] = 1; s.push_back(Con(a, i.hi.v, i.hi.open ? ref::LT : ref::LE)); }
  }
  return s;
}
static Shadow universe_shadow(int n) { Shadow S; S.n = n; S.iv.assign(n, Itv()); return S; }
// tighten helpers
static void tighten_hi(Itv& i, const Q& v, bool open) {
  if (i.hi.inf || v < i.hi.v) { i.hi.inf = false; i.hi.v = v; i.hi.open = open; }
  else if (v == i.hi.v && open) i.hi.open = true;
}
static void tighten_lo(Itv& i, const Q& v, bool open) {
  if (i.lo.inf || v > i.lo.v) { i.lo.inf = false; i.lo.v = v; i.lo.open = open; }
  else if (v == i.lo.v && open) i.lo.open = true;
}
// A system of interval constraints read back as a box (plain arithmetic).
static bool shadow_of_sys(int n, const Sys& C, Shadow& S, std::string& err) {
  S = universe_shadow(n);
  for (size_t r = 0; r < C.size(); ++r) {
    const Con& c = C[r]; int cnt = 0, k = -1;
    for (int j = 0; j < n && j < (int) c.a.size(); ++j) if (c.a[j] != 0) { ++cnt; k = j; }
    if (cnt == 0) { bool ok = c.rel == ref::LE ? (0 <= c.b) : c.rel == ref::LT ? (0 < c.b) : (0 == c.b); if (!ok) S.empty = true; continue; }
    if (cnt > 1) { err = "non-interval constraint " + show(c); return false; }
    Q v = c.b / c.a[k];
    Itv& i = S.iv[k];
    if (c.rel == ref::EQ) { tighten_lo(i, v, false); tighten_hi(i, v, false); }
    else if (c.a[k] > 0) tighten_hi(i, v, c.rel == ref::LT);
    else tighten_lo(i, v, c.rel == ref::LT);
  }
  for (int k = 0; k < n; ++k) if (itv_empty(S.iv[k])) S.empty = true;
  return true;
}

static std::string status_word(const BoxI& x) {
  std::ostringstream o; x.ascii_dump(o); std::string s = o.str();
  size_t p = s.find("space_dim"); if (p == std::string::npos) return "?";
  while (p > 0 && (s[p - 1] == ' ' || s[p - 1] == '\n')) --p;
  return s.substr(0, p);
}
static std::string shape_class(const Shadow& S) {
  if (S.empty) return "empty";
  bool univ = true, bounded = true, open = false, sing = false;
  for (int k = 0; k < S.n; ++k) { const Itv& i = S.iv[k]; if (!i.lo.inf || !i.hi.inf) univ = false; if (i.lo.inf || i.hi.inf) bounded = false; if ((!i.lo.inf && i.lo.open) || (!i.hi.inf && i.hi.open)) open = true; if (!i.lo.inf && !i.hi.inf && i.lo.v == i.hi.v) sing = true; }
  if (univ) return "universe";
  return std::string(bounded ? "bounded" : "unbounded") + (open ? "+open" : "") + (sing ? "+eq" : "");
}
static bool nontrivial(const std::string& c) { return c != "empty" && c != "universe"; }

// Observation through clones: the original's lazy state (empty / empty_up_to_date flags) is untouched.
// View 1 = get_interval (exact boundaries + openness), view 2 = constraints(); they must agree.
static bool observe(const BoxI& x, Shadow& S, const std::string& where) {
  BP c(x.clone()); S.n = c->dim(); S.empty = false;
  bool e = c->is_empty();
  std::string odd; c->intervals(S.iv, odd);
  if (!odd.empty()) { std::ostringstream dmp; x.ascii_dump(dmp); violation("C03.unobservable." + INST + "." + where + ":" + odd.substr(0, odd.find(':')), odd + "; ascii_dump: " + dmp.str()); return false; }
  bool any = false;
  for (int k = 0; k < S.n; ++k) {
    bool flag = S.iv[k].empty; Itv t = S.iv[k]; t.empty = false; bool cross = itv_empty(t);
    if (!flag && cross) { violation("C03.definite." + INST + ".is_empty:interval-nonempty-but-bounds-cross", "after " + where + ": Interval::is_empty() false for " + show(t)); return false; }
    if (flag || cross) any = true;
  }
  S.empty = (S.n == 0) ? e : any;
  if (e != S.empty) {
    // is_empty() disagrees with the intervals it is computed from
    if (e) { violation("C03.definite." + INST + ".is_empty", "after " + where + ": is_empty() true but every interval is non-empty: " + show(S)); return false; }
    if (TI.exact) { violation("C04.pred.box.is_empty", "after " + where + ": is_empty() false but an interval is empty: " + show(S)); return false; }
    hx::count("imprecise.is_empty");
  }
  // second view: constraints()
  BP c2(x.clone());
  Sys C = ref::conv(c2->constraints(), S.n);
  Shadow S2; std::string err;
  if (!shadow_of_sys(S.n, C, S2, err)) { violation("C03.sound." + INST + ".constraints:not-interval-constraints", "after " + where + ": " + err); return false; }
  checked(); hx::count("view_checks");
  if (!same_shadow(S, S2)) { violation("C03.sound." + INST + ".constraints:differs-from-intervals", "after " + where + ": intervals " + show(S) + " constraints() " + show(S2) + " = " + show(C)); return false; }
  return true;
}

static mpz_class pow2(int k);
// ---------- targets: finite unions of exists-projected systems ----------
struct Target { int n; std::vector<ESys> pieces; Target() : n(0) {} };
static Target tgt(const ESys& T) { Target t; t.n = T.n; t.pieces.push_back(T); return t; }
static Target tgt(int n, const Sys& s) { return tgt(ref::esys_of(s, n)); }
static std::string show_piece_wit(const ESys& P, const Vec& w) {
  Vec vis(w.begin(), w.begin() + P.n); std::string s = "point " + show(vis);
  if (P.aux > 0) { Vec aux(w.begin() + P.n, w.end()); s += " (from " + show(aux) + ")"; }
  return s;
}
// T subseteq R ?   (R a box shadow).  Every LP witness is re-validated by plain arithmetic against
// the target system and against the PPL-reported interval of the result.
static bool check_sound(const std::string& key, const Target& T, const Shadow& R, const std::string& ctx) {
  checked(); hx::count("sound_checks");
  for (size_t p = 0; p < T.pieces.size(); ++p) {
    const ESys& P = T.pieces[p]; int nv = P.n + P.aux;
    if (R.empty) {
      Vec w;
      if (ref::feasible(nv, P.s, &w)) {
        if (!ref::sat(P.s, w)) { violation("harness.bug.sound_witness", key); return false; }
        violation(key, "result is empty but the exact result contains " + show_piece_wit(P, w) + "; " + ctx); return false;
      }
      continue;
    }
    for (int k = 0; k < R.n; ++k) for (int side = 0; side < 2; ++side) {
      const Bnd& b = side ? R.iv[k].hi : R.iv[k].lo;
      if (b.inf) continue;
      Vec a(nv); Con neg;
      if (side == 0) { a[k] = 1; neg = Con(a, b.v, b.open ? ref::LE : ref::LT); }         // x_k < lo  (<= if lo is open)
      else { a[k] = -1; neg = Con(a, Q(-b.v), b.open ? ref::LE : ref::LT); }               // x_k > hi
      Sys s = P.s; s.push_back(neg);
      Vec w;
      if (ref::feasible(nv, s, &w)) {
        if (!ref::sat(P.s, w) || member(R.iv[k], w[k])) { violation("harness.bug.sound_witness", key); return false; }
        std::ostringstream o; o << show_piece_wit(P, w) << " of the exact result is outside the result's interval " << show(R.iv[k]) << " for dimension " << k << "; result " << show(R) << "; " << ctx;
        // triage: some violated boundary of the result is exactly the inward rounding of the exact bound
        // (integral boundary types), resp. is within one unit in the last place inside it (floating point)
        std::string k2 = key;
        if (TI.integer || TI.fdigits) {
          bool tagged = false;
          for (int kk = 0; kk < R.n && !tagged; ++kk) for (int sd = 0; sd < 2 && !tagged; ++sd) {
            const Bnd& bb = sd ? R.iv[kk].hi : R.iv[kk].lo; if (bb.inf) continue;
            bool bounded = true, first = true; Q sup;
            for (size_t p2 = 0; p2 < T.pieces.size() && bounded; ++p2) { const ESys& P2 = T.pieces[p2]; int nv2 = P2.n + P2.aux; Vec d(nv2); d[kk] = sd ? 1 : -1; ref::SupResult sr = ref::supremum(nv2, P2.s, d); if (!sr.nonempty) continue; if (!sr.bounded) { bounded = false; break; } if (first || sr.sup > sup) { sup = sr.sup; first = false; } }
            if (!bounded || first) continue;
            Q ex = sd ? sup : Q(-sup);
            bool inside = sd ? (bb.v < ex) : (bb.v > ex); if (!inside) continue;
            if (TI.integer) { if (ex.get_den() != 1) { mpz_class fl; mpz_fdiv_q(fl.get_mpz_t(), ex.get_num_mpz_t(), ex.get_den_mpz_t()); Q inward = sd ? Q(fl) : Q(fl + 1); if (bb.v == inward) tagged = true; } }
            else { Q gap = abs(ex - bb.v), ulp = abs(ex) / Q(pow2(TI.fdigits - 1)); if (gap <= ulp) tagged = true; }
          }
          if (tagged) k2 += (key.find(':') == std::string::npos ? ":" : "+") + std::string(TI.integer ? "bound-rounded-inward" : "bound-rounded-inward-1ulp");
        }
        violation(k2, o.str()); return false;
      }
    }
  }
  return true;
}
// R is the smallest box containing T (per axis: sup/inf and attainment equal).  Assumes T subseteq R was checked.
static bool check_best(const std::string& key, const Target& T, const Shadow& R, const std::string& ctx) {
  checked(); hx::count("best_checks");
  std::vector<const ESys*> ne;
  for (size_t p = 0; p < T.pieces.size(); ++p) if (ref::feasible(T.pieces[p].n + T.pieces[p].aux, T.pieces[p].s)) ne.push_back(&T.pieces[p]);
  if (ne.empty()) { if (!R.empty) { violation(key, "exact result is empty but the box is " + show(R) + "; " + ctx); return false; } return true; }
  if (R.empty) return true;   // a soundness matter
  for (int k = 0; k < R.n; ++k) for (int side = 0; side < 2; ++side) {
    bool bounded = true, attained = false, first = true; Q sup;
    for (size_t p = 0; p < ne.size(); ++p) {
      int nv = ne[p]->n + ne[p]->aux; Vec d(nv); d[k] = side ? 1 : -1;
      ref::SupResult r = ref::supremum(nv, ne[p]->s, d);
      if (!r.bounded) { bounded = false; break; }
      if (first || r.sup > sup) { sup = r.sup; attained = r.attained; first = false; }
      else if (r.sup == sup && r.attained) attained = true;
    }
    const Bnd& b = side ? R.iv[k].hi : R.iv[k].lo;
    Q want = side ? sup : Q(-sup);
    bool ok = bounded ? (!b.inf && b.v == want && b.open == !attained) : b.inf;
    if (!ok) {
      std::ostringstream o; o << (side ? "upper" : "lower") << " bound of dimension " << k << ": exact result has " << (side ? "sup " : "inf ");
      if (bounded) o << want << (attained ? " (attained)" : " (not attained)"); else o << "unbounded";
      o << " but the box has " << show(R.iv[k]) << "; result " << show(R) << "; " << ctx;
      violation(key, o.str()); return false;
    }
  }
  return true;
}
static bool sys_included(int n, const Sys& a, const Sys& b) { return ref::esys_in_cons(ref::esys_of(a, n), b, 0, 0); }

// A Boolean answer: `got` from PPL, `truth` from the reference.  The value `definite` is the one that
// is a definite claim (C03, every instantiation); the other direction is demanded of Rational_Box only (C04).
static bool check_bool(const std::string& q, bool got, bool truth, const std::string& detail, bool definite = true) {
  checked(); hx::count("q." + q);
  if (got == truth) return true;
  std::string d = std::string("PPL ") + (got ? "true" : "false") + ", reference " + (truth ? "true" : "false") + "; " + detail;
  if (got == definite) { violation("C03.definite." + INST + "." + q, d); return false; }
  if (TI.exact) { violation("C04.pred.box." + q, d); return false; }
  hx::count("imprecise." + q);
  return true;
}

// ---------- type-limit-biased numbers ----------
static mpz_class pow2(int k) { mpz_class r = 1; r <<= k; return r; }
static mpz_class pow10(int k) { mpz_class r = 1; for (int i = 0; i < k; ++i) r *= 10; return r; }
static mpz_class big_num() {
  const TypeInfo& t = TI; mpz_class v; int off = rnd(0, 6);
  if (t.bits) {
    mpz_class M = t.sgn ? pow2(t.bits - 1) : pow2(t.bits);
    switch (rnd(0, 5)) {
    case 0: v = M - 1 - off; break;
    case 1: v = t.sgn ? mpz_class(-M + off) : mpz_class(off); break;
    case 2: v = M + off; break;
    case 3: v = t.sgn ? mpz_class(-M - 1 - off) : mpz_class(-1 - off); break;
    case 4: v = M / 2 + off; break;
    default: v = -(M / 2) - off; break;
    }
    return v;
  }
  if (t.fdigits) {
    switch (rnd(0, 7)) {
    case 0: v = pow2(t.fdigits) + 1; break;                                 // not representable
    case 1: v = pow2(t.fdigits + rnd(0, 3)) - 1; break;
    case 2: v = pow2(t.fmaxexp - 1); break;
    case 3: v = pow2(t.fmaxexp); break;                                     // overflows
    case 4: v = pow2(t.fmaxexp) - pow2(t.fmaxexp - t.fdigits); break;       // largest finite
    case 5: v = pow10(rnd(3, 25)) + off; break;
    case 6: v = 3 * pow2(rnd(1, 70)) + 1; break;
    default: v = pow2(t.fmaxexp + 3) + 1; break;
    }
    return coin() ? v : mpz_class(-v);
  }
  switch (rnd(0, 3)) {
  case 0: v = pow10(20) + off; break;
  case 1: v = pow2(64) - off; break;
  case 2: v = pow2(63) + off; break;
  default: v = pow10(rnd(3, 9)) - off; break;
  }
  return coin() ? v : mpz_class(-v);
}
static mpz_class big_den() {
  const TypeInfo& t = TI;
  if (t.fdigits) {
    switch (rnd(0, 5)) {
    case 0: return pow2(rnd(1, 60));
    case 1: return pow2(-t.fminexp - rnd(0, 3));            // denormal range
    case 2: return pow2(-t.fminexp + rnd(1, 4));            // below the smallest denormal
    case 3: return mpz_class(3);
    case 4: return mpz_class(10);
    default: return mpz_class(7);
    }
  }
  switch (rnd(0, 3)) { case 0: return mpz_class(2); case 1: return mpz_class(3); case 2: return mpz_class(7); default: return t.bits ? mpz_class(5) : pow10(rnd(1, 12)); }
}
static mpz_class coef() {
  int k = rnd(0, 99);
  if (k < 88) return mpz_class(rnd(-3, 3));
  if (k < 94) return mpz_class(rnd(-40, 40));
  if (k < 97) return big_num();
  return coin() ? big_den() : mpz_class(-big_den());
}
static mpz_class inhom() { int k = rnd(0, 99); if (k < 85) return mpz_class(rnd(-6, 6)); if (k < 93) return mpz_class(rnd(-200, 200)); return big_num(); }
static Linear_Expression rexpr(int n, int pct_zero = 40) {
  Linear_Expression e;
  for (int i = 0; i < n; ++i) if (!coin(pct_zero)) { mpz_class c = coef(); if (c != 0) e += Coefficient(c) * Variable(i); }
  e += Coefficient(inhom());
  return e;
}
static Coefficient rden() { int k = rnd(0, 99); if (k < 62) return Coefficient(rnd(1, 3)); if (k < 92) return Coefficient(-rnd(1, 3)); mpz_class d = big_den(); return coin(70) ? Coefficient(d) : Coefficient(-d); }
// relation index: 0 '<', 1 '<=', 2 '==', 3 '>=', 4 '>'
static int rrel(bool strict_ok) { if (strict_ok && coin(30)) return coin() ? 0 : 4; int k = rnd(0, 9); return k < 4 ? 1 : k < 8 ? 3 : 2; }
static Constraint mk_con(const Linear_Expression& l, int rel, const Linear_Expression& r) {
  switch (rel) { case 0: return l < r; case 1: return l <= r; case 2: return l == r; case 3: return l >= r; default: return l > r; }
}
// an interval constraint  d*x REL b
static Constraint itv_con(int n, bool strict_ok) {
  int v = rnd(0, n - 1); mpz_class d, b; int m = rnd(0, 99);
  if (m < 70) { d = rnd(1, 3); b = rnd(-6, 6); }
  else if (m < 84) { d = 1; b = big_num(); }
  else if (m < 93) { d = big_den(); b = rnd(-6, 6); }
  else { d = big_den(); b = big_num(); }
  if (coin(25)) d = -d;
  return mk_con(Coefficient(d) * Variable(v), rrel(strict_ok), Linear_Expression(Coefficient(b)));
}
static Constraint gen_con(int n, bool strict_ok) { return mk_con(rexpr(n), rrel(strict_ok), Linear_Expression(Coefficient(0))); }
// dense constraint: (almost) every variable occurs, equalities as likely as inequalities - the sign case analysis of the
// constraint propagation has one branch per (relation, sign of the pivot coefficient, sign of every other coefficient)
static Constraint gen_con_dense(int n, bool strict_ok) { int r = coin(45) ? 2 : rrel(strict_ok); return mk_con(rexpr(n, 8), r, Linear_Expression(Coefficient(0))); }
static Constraint gen_con_mixed(int n, bool strict_ok) { return coin(40) ? gen_con_dense(n, strict_ok) : gen_con(n, strict_ok); }
static bool is_interval_con(const Constraint& c, int n) { int cnt = 0; for (int i = 0; i < n && i < (int) c.space_dimension(); ++i) if (c.coefficient(Variable(i)) != 0) ++cnt; return cnt <= 1; }
static int nvars_of(const Linear_Expression& e, int n) { int cnt = 0; for (int i = 0; i < n && i < (int) e.space_dimension(); ++i) if (e.coefficient(Variable(i)) != 0) ++cnt; return cnt; }
static Generator rgen(int n, bool nnc, bool must_point) {
  Linear_Expression e;
  for (int i = 0; i < n; ++i) if (!coin(30)) { mpz_class c = coin(92) ? mpz_class(rnd(-5, 5)) : big_num(); e += Coefficient(c) * Variable(i); }
  int k = must_point ? 0 : rnd(0, nnc ? 9 : 7);
  if (n == 0) k = (k >= 8) ? 8 : 0;
  Coefficient d = coin(85) ? Coefficient(rnd(1, 3)) : Coefficient(big_den());
  if (k < 4) return point(e, d);
  if (k < 6) { if (e.all_homogeneous_terms_are_zero()) e += Variable(rnd(0, n - 1)); return ray(e); }
  if (k < 8) { if (e.all_homogeneous_terms_are_zero()) e += Variable(rnd(0, n - 1)); return line(e); }
  return closure_point(e, d);
}
// exists-form of hull_NNC(G): x = sum l_i g_i, l >= 0 (lines free), sum over (closure) points = 1, sum over points > 0
static ESys esys_of_gens(int n, const Gens& G) {
  ESys T; T.n = n; T.aux = G.size(); int nv = n + T.aux;
  bool has_point = false; for (size_t j = 0; j < G.size(); ++j) if (G[j].kind == Gen::POINT) has_point = true;
  if (!has_point) { Vec z(nv); T.s.push_back(Con(z, Q(-1), ref::LE)); return T; }
  for (int d = 0; d < n; ++d) { Vec a(nv); a[d] = 1; for (size_t j = 0; j < G.size(); ++j) a[n + j] = -G[j].v[d]; T.s.push_back(Con(a, Q(0), ref::EQ)); }
  Vec sum(nv), psum(nv);
  for (size_t j = 0; j < G.size(); ++j) {
    if (G[j].kind == Gen::POINT || G[j].kind == Gen::CLOSURE_POINT) sum[n + j] = 1;
    if (G[j].kind == Gen::POINT) psum[n + j] = -1;
    if (G[j].kind != Gen::LINE) { Vec a(nv); a[n + j] = -1; T.s.push_back(Con(a, Q(0), ref::LE)); }
  }
  T.s.push_back(Con(sum, Q(1), ref::EQ));
  T.s.push_back(Con(psum, Q(0), ref::LT));
  return T;
}

// ---------- reference helpers on shadows ----------
static Shadow join_shadow(const Shadow& a, const Shadow& b) {
  if (a.empty) return b; if (b.empty) return a;
  Shadow r = a;
  for (int k = 0; k < a.n; ++k) {
    const Itv& x = a.iv[k]; const Itv& y = b.iv[k]; Itv& o = r.iv[k];
    if (x.lo.inf || y.lo.inf) o.lo = Bnd(); else if (y.lo.v < x.lo.v) o.lo = y.lo; else if (y.lo.v == x.lo.v) o.lo.open = x.lo.open && y.lo.open;
    if (x.hi.inf || y.hi.inf) o.hi = Bnd(); else if (y.hi.v > x.hi.v) o.hi = y.hi; else if (y.hi.v == x.hi.v) o.hi.open = x.hi.open && y.hi.open;
  }
  return r;
}
static Shadow meet_shadow(const Shadow& a, const Shadow& b) {
  Shadow r = a; if (a.empty) return r; if (b.empty) return b;
  for (int k = 0; k < a.n; ++k) { const Itv& y = b.iv[k]; if (!y.lo.inf) tighten_lo(r.iv[k], y.lo.v, y.lo.open); if (!y.hi.inf) tighten_hi(r.iv[k], y.hi.v, y.hi.open); if (itv_empty(r.iv[k])) r.empty = true; }
  return r;
}
static Con con_of_cg_equality(const Congruence& cg, int n) {
  Vec a(n); for (int d = 0; d < n && d < (int) cg.space_dimension(); ++d) a[d] = ref::toQ(cg.coefficient(Variable(d)));
  return Con(a, Q(-ref::toQ(cg.inhomogeneous_term())), ref::EQ);
}
static bool sat_cg(const Congruence& cg, const Vec& x) {
  Q v = ref::toQ(cg.inhomogeneous_term()); for (int d = 0; d < (int) cg.space_dimension() && d < (int) x.size(); ++d) v += ref::toQ(cg.coefficient(Variable(d))) * x[d];
  if (cg.is_equality()) return v == 0;
  Q k = v / ref::toQ(cg.modulus()); return k.get_den() == 1;
}
static std::string sgn_pattern(const Linear_Expression& e, int n) { std::string s; for (int i = 0; i < n; ++i) { int g = i < (int) e.space_dimension() ? sgn(e.coefficient(Variable(i))) : 0; s += g > 0 ? '+' : g < 0 ? '-' : '0'; } return s; }
static bool unbounded_somewhere(const Shadow& S) { if (S.empty) return false; for (int k = 0; k < S.n; ++k) if (S.iv[k].lo.inf || S.iv[k].hi.inf) return true; return false; }

struct StepCtx {
  BoxI* A; const BoxI* B; int n, ai, bi; Shadow SA, SB; Sys sA, sB; std::string pre, stl, clsA, clsB;
};
static std::string ctx_of(const StepCtx& c, bool with_b) { return "receiver " + show(c.SA) + (with_b ? " argument " + show(c.SB) : ""); }
static void note_op(const StepCtx& c, const std::string& name, const std::string& argcls, bool with_b) {
  hx::count("op." + name);
  if (nontrivial(c.clsA)) hx::distinct("op|" + INST + "|" + name + "|" + c.stl + "|" + c.clsA + "|" + argcls + (with_b ? "|" + c.clsB + (c.ai == c.bi ? "|alias" : "") : ""));
}
static std::string key_sound(const std::string& op, const std::string& cls) { return "C03.sound." + INST + "." + op + (cls.empty() ? "" : ":" + cls); }
// kind: 0 soundness only, 1 exact (C04.exact), 2 best (C04.best)
static void finish(const StepCtx& c, const std::string& op, const std::string& cls, const Target& T, int kind, bool with_b, const std::string& extra = "") {
  Shadow R; if (!observe(*c.A, R, op)) return;
  std::string ctx = ctx_of(c, with_b) + (extra.empty() ? "" : "; " + extra);
  if (!check_sound(key_sound(op, cls), T, R, ctx)) return;
  if (TI.exact && kind == 1) check_best("C04.exact.box." + op + (cls.empty() ? "" : ":" + cls), T, R, ctx);
  else if (TI.exact && kind == 2) check_best("C04.best.box." + op, T, R, ctx);
}


// Runs f in a forked child with the trace echoed to a pipe; true iff the child died (signal / sanitizer abort).
// Used only for call classes that are known to kill the process, so that the defect gets a key and the worker survives.
// `report` receives the child's stderr (op trace lines + sanitizer report).
#include <sys/wait.h>
#include <fcntl.h>
static bool child_dies(const std::function<void()>& f, std::string& report) {
  fflush(0); report.clear();
  int fds[2]; if (pipe(fds) != 0) return false;
  pid_t pid = fork();
  if (pid < 0) { close(fds[0]); close(fds[1]); return false; }
  if (pid == 0) {
    close(fds[0]); dup2(fds[1], 2); int fd = open("/dev/null", O_WRONLY); if (fd >= 0) dup2(fd, 1);
    hx::st().out = 0; hx::opt().verbose = true; alarm(30);
    try { f(); } catch (...) {}
    _exit(0);
  }
  close(fds[1]);
  char buf[4096]; ssize_t k;
  while ((k = read(fds[0], buf, sizeof buf)) > 0) if (report.size() < 200000) report.append(buf, (size_t) k);
  close(fds[0]);
  int st = 0; if (waitpid(pid, &st, 0) < 0) return false;
  hx::count("forked_probes");
  return WIFSIGNALED(st) || (WIFEXITED(st) && WEXITSTATUS(st) != 0);
}
static bool dies_in_child(const std::function<void()>& f) { std::string r; return child_dies(f, r); }
// a stable word for the way the child died
static std::string death_kind(const std::string& report) {
  if (report.find("shift exponent") != std::string::npos) return "ubsan-shift-exponent";
  if (report.find("runtime error: signed integer overflow") != std::string::npos) return "ubsan-signed-overflow";
  if (report.find("runtime error:") != std::string::npos) return "ubsan";
  if (report.find("AddressSanitizer: FPE") != std::string::npos) return "SIGFPE";
  if (report.find("SEGV on unknown address 0x000000000000 (pc 0x000000000000") != std::string::npos) return "call-through-null(ppl_unreachable)";
  if (report.find("AddressSanitizer: SEGV") != std::string::npos) return "SEGV";
  if (report.find("AddressSanitizer:") != std::string::npos) return "asan";
  return "died";
}
static std::string last_op_of(const std::string& text) {
  size_t p = text.rfind("op: "); if (p == std::string::npos) return "?";
  size_t e = text.find('\n', p); std::string line = text.substr(p + 4, e == std::string::npos ? std::string::npos : e - p - 4);
  size_t q = line.find(" | #"); if (q != std::string::npos) line = line.substr(q + 3);
  size_t a = line.find_first_of(".="), b2 = line.find_first_of("({,", a == std::string::npos ? 0 : a);
  std::string opn = (a != std::string::npos && b2 != std::string::npos && b2 > a) ? line.substr(a + 1, b2 - a - 1) : line.substr(0, 40);
  while (!opn.empty() && opn[0] == ' ') opn.erase(0, 1);
  if (opn.compare(0, 4, "tmp.") == 0) opn = opn.substr(4);
  return opn;
}


// Floating point boxes: does some coefficient (or the inhomogeneous term) of the constraints fall outside the set of values the
// boundary type represents exactly (more significant bits than the mantissa, or beyond the largest finite value)?  The propagation
// code rounds such a coefficient in a fixed direction whatever the sign of the other factor (known finding), so the class is part
// of the violation key.
static bool inexact_in_T(const mpz_class& z) {
  if (z == 0) return false;
  size_t bits = mpz_sizeinbase(z.get_mpz_t(), 2);
  // bounded integer boundary type: the coefficient itself is outside the range of T
  if (TI.bits) return (int) bits > TI.bits - (TI.sgn ? 1 : 0);
  if (!TI.fdigits) return false;
  // floating point: beyond 2^mantissa (products and sums with it are rounded even when the value itself is a power of two)
  return (int) bits > TI.fdigits;
}
static std::string coef_class(const std::vector<Constraint>& cv, int n) {
  if (!TI.fdigits && !TI.bits) return "";
  for (size_t i = 0; i < cv.size(); ++i) {
    if (inexact_in_T(mpz_class(cv[i].inhomogeneous_term()))) return "+coef-beyond-mantissa";
    for (int v = 0; v < n && v < (int) cv[i].space_dimension(); ++v) if (inexact_in_T(mpz_class(cv[i].coefficient(Variable(v))))) return "+coef-beyond-mantissa";
  }
  return "";
}

static std::string coef_class(const std::vector<Congruence>& gv, int n) {
  if (!TI.fdigits && !TI.bits) return "";
  for (size_t i = 0; i < gv.size(); ++i) {
    if (inexact_in_T(mpz_class(gv[i].inhomogeneous_term()))) return "+coef-beyond-mantissa";
    for (int v = 0; v < n && v < (int) gv[i].space_dimension(); ++v) if (inexact_in_T(mpz_class(gv[i].coefficient(Variable(v))))) return "+coef-beyond-mantissa";
  }
  return "";
}
static std::string coef_class(const Sys& src) {
  if (!TI.fdigits && !TI.bits) return "";
  for (size_t i = 0; i < src.size(); ++i) {
    if (src[i].b.get_den() != 1 || inexact_in_T(src[i].b.get_num())) return "+coef-beyond-mantissa";
    for (size_t j = 0; j < src[i].a.size(); ++j) if (src[i].a[j].get_den() != 1 || inexact_in_T(src[i].a[j].get_num())) return "+coef-beyond-mantissa";
  }
  return "";
}

static std::string coef_class(const Linear_Expression& e, int n) {
  if (!TI.fdigits && !TI.bits) return "";
  if (inexact_in_T(mpz_class(e.inhomogeneous_term()))) return "+coef-beyond-mantissa";
  for (int v = 0; v < n && v < (int) e.space_dimension(); ++v) if (inexact_in_T(mpz_class(e.coefficient(Variable(v))))) return "+coef-beyond-mantissa";
  return "";
}
static std::string coef_class(const Coefficient& d) { return inexact_in_T(mpz_class(d)) ? "+coef-beyond-mantissa" : ""; }
static std::string one_of(const std::string& a, const std::string& b, const std::string& c2 = "") { return !a.empty() ? a : !b.empty() ? b : c2; }

// Pre-step for the constraint-propagation operators: with some probability the receiver is first turned into a box whose
// dimensions are mostly bounded on both sides with independently open / closed finite boundaries (half-open intervals).
// The propagation code has one branch per (relation, sign of the pivot coefficient, sign of every other coefficient) and each
// reads a particular boundary (and its openness) of every other variable: only such receivers make a wrong flag observable.
// The step is an ordinary, traced use of the public interface; the receiver's shadow is re-observed afterwards.
static bool g_reboxed = false;
static std::string g_profile;
// the constraint that goes with a reboxed receiver: every variable occurs with a small coefficient, equalities dominate
static Constraint gen_con_prop(int n, bool strict_ok) {
  Linear_Expression e;
  for (int i = 0; i < n; ++i) { int a = rnd(1, 3); if (coin()) a = -a; if (!coin(10)) e += Coefficient(a) * Variable(i); }
  e += Coefficient(rnd(-6, 6));
  int r = coin(60) ? 2 : rrel(strict_ok);
  return mk_con(e, r, Linear_Expression(Coefficient(0)));
}
static bool rebox(StepCtx& c) {
  g_reboxed = false;
  if (c.n < 2 || c.SA.empty || !coin(g_profile == "prop" ? 90 : 40)) return true;
  g_reboxed = true;
  int free_var = coin(70) ? rnd(0, c.n - 1) : -1;   // the variable whose derived bounds will be the binding ones
  BoxI& A = *c.A; const int n = c.n;
  std::ostringstream o; o << c.pre << ".rebox(";
  for (int k = 0; k < n; ++k) A.unconstrain(Variable(k));
  for (int k = 0; k < n; ++k) {
    int m = k == free_var ? 0 : rnd(0, 11);              // 0: unbounded, 1: below only, 2: above only, otherwise both
    int lo = rnd(-6, 4), hi = lo + rnd(0, 6);
    bool lo_open = TI.open && coin(40), hi_open = TI.open && coin(40);
    if (m != 0 && m != 2) { Constraint q = lo_open ? Constraint(Variable(k) > lo) : Constraint(Variable(k) >= lo); o << str(q) << " "; A.add_constraint(q); }
    if (m != 0 && m != 1) { Constraint q = hi_open ? Constraint(Variable(k) < hi) : Constraint(Variable(k) <= hi); o << str(q) << " "; A.add_constraint(q); }
  }
  o << ")"; tr(o.str()); hx::count("op.rebox");
  if (!observe(A, c.SA, "rebox")) return false;
  c.sA = to_sys(c.SA); c.clsA = shape_class(c.SA); c.stl = status_word(A);
  return true;
}

static bool mutate(StepCtx& c) {
  BoxI& A = *c.A; const BoxI& B = *c.B; const int n = c.n;
  const Sys& sA = c.sA; const Sys& sB = c.sB;
  std::ostringstream t; t << c.pre;
  std::string bref = "#" + std::to_string(c.bi);
  int k = rnd(0, 99);
  if (g_profile == "prop") k = coin() ? 10 : 25;   // refine_with_constraint(s) / propagate_constraint(s) only
  if (k < 9) { // add_constraint(s): interval constraints only
    int which = rnd(0, 2); int cnt = which == 0 ? 1 : rnd(0, 3);
    std::vector<Constraint> cv;
    for (int i = 0; i < cnt; ++i) { if (n == 0 || coin(6)) cv.push_back(coin(70) ? Constraint(Linear_Expression(rnd(0, 2)) >= 0) : Constraint(Linear_Expression(-1) >= 0)); else cv.push_back(itv_con(n, TI.open)); }
    Constraint_System cs; for (size_t i = 0; i < cv.size(); ++i) cs.insert(cv[i]);
    const char* nm[3] = { "add_constraint", "add_constraints", "add_recycled_constraints" };
    t << "." << nm[which] << "("; for (size_t i = 0; i < cv.size(); ++i) t << (i ? ", " : "") << str(cv[i]); t << ")"; tr(t.str()); note_op(c, nm[which], "", false);
    if (which == 0) A.add_constraint(cv[0]); else if (which == 1) A.add_constraints(cs); else { Constraint_System tmp(cs); A.add_recycled_constraints(tmp); }
    Sys T = sA; for (size_t i = 0; i < cv.size(); ++i) T.push_back(ref::conv(cv[i], n));
    finish(c, nm[which], "", tgt(n, T), 1, false);
    return true;
  }
  if (k < 18) { // refine_with_constraint(s): any constraint
    if (!rebox(c)) return true;
    bool many = coin(); int cnt = many ? rnd(0, 3) : 1;
    std::vector<Constraint> cv; bool all_itv = true;
    for (int i = 0; i < cnt; ++i) { Constraint cc = (g_reboxed && coin(75)) ? gen_con_prop(n, true) : (n > 0 && coin(30)) ? itv_con(n, true) : gen_con_mixed(n, true); if (!is_interval_con(cc, n)) all_itv = false; cv.push_back(cc); }
    Constraint_System cs; for (size_t i = 0; i < cv.size(); ++i) cs.insert(cv[i]);
    std::string nm = many ? "refine_with_constraints" : "refine_with_constraint";
    t << "." << nm << "("; for (size_t i = 0; i < cv.size(); ++i) t << (i ? ", " : "") << str(cv[i]); t << ")"; tr(t.str()); note_op(c, nm, all_itv ? "interval" : "general", false);
    if (many) A.refine_with_constraints(cs); else A.refine_with_constraint(cv[0]);
    Sys T = sA; for (size_t i = 0; i < cv.size(); ++i) T.push_back(ref::conv(cv[i], n));
    finish(c, nm, (all_itv ? "interval" : "general") + coef_class(cv, n), tgt(n, T), 0, false);
    return true;
  }
  if (k < 23) { // congruences
    int which = rnd(0, 4); bool refine = which >= 3; int cnt = (which == 0 || which == 3) ? 1 : rnd(0, 2);
    std::vector<Congruence> gv; bool proper = false;
    for (int i = 0; i < cnt; ++i) {
      if (refine) { Linear_Expression e = rexpr(n); int m = rnd(0, 3); Congruence cg = (e %= 0) / m; if (cg.is_proper_congruence() && !cg.is_tautological() && !cg.is_inconsistent()) proper = true; gv.push_back(cg); }
      else if (n == 0 || coin(10)) gv.push_back((Linear_Expression(rnd(0, 2)) %= 0) / (coin() ? 0 : 1));
      else { int v = rnd(0, n - 1); mpz_class d = coin(80) ? mpz_class(rnd(1, 3)) : big_den(); mpz_class b = coin(85) ? mpz_class(rnd(-6, 6)) : big_num(); gv.push_back((Coefficient(d) * Variable(v) %= Coefficient(b)) / 0); }
    }
    Congruence_System cgs; for (size_t i = 0; i < gv.size(); ++i) cgs.insert(gv[i]);
    const char* nm[5] = { "add_congruence", "add_congruences", "add_recycled_congruences", "refine_with_congruence", "refine_with_congruences" };
    t << "." << nm[which] << "("; for (size_t i = 0; i < gv.size(); ++i) t << (i ? ", " : "") << str(gv[i]); t << ")"; tr(t.str()); note_op(c, nm[which], proper ? "proper" : "eq", false);
    switch (which) { case 0: A.add_congruence(gv[0]); break; case 1: A.add_congruences(cgs); break; case 2: { Congruence_System tmp(cgs); A.add_recycled_congruences(tmp); break; } case 3: A.refine_with_congruence(gv[0]); break; default: A.refine_with_congruences(cgs); }
    Sys T = sA;
    for (size_t i = 0; i < gv.size(); ++i) { if (gv[i].is_equality()) T.push_back(con_of_cg_equality(gv[i], n)); else if (gv[i].is_inconsistent()) { Vec z(n); T.push_back(Con(z, Q(-1), ref::LE)); } }
    if (!proper) { finish(c, nm[which], refine ? coef_class(gv, n) : std::string(), tgt(n, T), refine ? 0 : 1, false); return true; }
    // with proper congruences the exact result is not polyhedral: a lost point counts only if it satisfies them
    Shadow R; if (!observe(A, R, nm[which])) return true;
    Shadow keep = R; (void) keep;
    // R must contain (A and equalities) intersected with the lattice; check the polyhedral relaxation, confirm witnesses
    {
      Target TT = tgt(n, T); const ESys& P = TT.pieces[0]; checked(); hx::count("sound_checks");
      bool bad = false; Vec w;
      if (R.empty) bad = ref::feasible(n, P.s, &w);
      else for (int kk = 0; kk < n && !bad; ++kk) for (int side = 0; side < 2 && !bad; ++side) { const Bnd& b = side ? R.iv[kk].hi : R.iv[kk].lo; if (b.inf) continue; Vec a(n); Con neg; if (side == 0) { a[kk] = 1; neg = Con(a, b.v, b.open ? ref::LE : ref::LT); } else { a[kk] = -1; neg = Con(a, Q(-b.v), b.open ? ref::LE : ref::LT); } Sys s = P.s; s.push_back(neg); if (ref::feasible(n, s, &w)) bad = true; }
      if (bad) {
        bool all = true; for (size_t i = 0; i < gv.size(); ++i) if (!sat_cg(gv[i], w)) all = false;
        if (all && ref::sat(P.s, w) && !member(R, w)) violation(key_sound(nm[which], "proper-congruence" + coef_class(gv, n)), "point " + show(w) + " satisfies the receiver and the congruences but is outside the result " + show(R) + "; " + ctx_of(c, false));
        else hx::inconclusive("congruence_witness");
      }
    }
    return true;
  }
  if (k < 28) { // propagate_constraint(s)
    if (!rebox(c)) return true;
    bool many = coin(); int cnt = many ? rnd(1, 3) : 1;
    std::vector<Constraint> cv; for (int i = 0; i < cnt; ++i) cv.push_back((g_reboxed && coin(75)) ? gen_con_prop(n, true) : gen_con_mixed(n, true));
    Constraint_System cs; for (size_t i = 0; i < cv.size(); ++i) cs.insert(cv[i]);
    static const int its[5] = { 1, 2, 3, 5, 20 }; int mi = its[rnd(0, 4)];
    std::string nm = many ? "propagate_constraints" : "propagate_constraint";
    t << "." << nm << "("; for (size_t i = 0; i < cv.size(); ++i) t << (i ? ", " : "") << str(cv[i]); if (many) t << "; max_iterations=" << mi; t << ")"; tr(t.str()); note_op(c, nm, "", false);
    if (many) A.propagate_constraints(cs, mi); else A.propagate_constraint(cv[0]);
    Sys T = sA; for (size_t i = 0; i < cv.size(); ++i) T.push_back(ref::conv(cv[i], n));
    std::string pcls; for (size_t i = 0; i < cv.size(); ++i) if (cv[i].is_equality() && nvars_of(Linear_Expression(cv[i].expression()), n) == 0 && cv[i].inhomogeneous_term() == 0) pcls = "trivial-equality-0=0";
    finish(c, nm, pcls + coef_class(cv, n), tgt(n, T), 0, false);
    return true;
  }
  if (k < 33) { tr(c.pre + ".intersection_assign(" + bref + ")"); note_op(c, "intersection_assign", "", true);
    A.intersection_assign(B); Sys T = sA; T.insert(T.end(), sB.begin(), sB.end());
    finish(c, "intersection_assign", "", tgt(n, T), 1, true); return true; }
  if (k < 38) { tr(c.pre + ".upper_bound_assign(" + bref + ")"); note_op(c, "upper_bound_assign", "", true);
    A.upper_bound_assign(B); Target T; T.n = n; T.pieces.push_back(ref::esys_of(sA, n)); T.pieces.push_back(ref::esys_of(sB, n));
    finish(c, "upper_bound_assign", "", T, 2, true); return true; }
  if (k < 43) { tr(c.pre + ".upper_bound_assign_if_exact(" + bref + ")"); note_op(c, "upper_bound_assign_if_exact", "", true);
    bool res = A.upper_bound_assign_if_exact(B);
    hx::trace() += res ? " -> true" : " -> false";
    Shadow R; if (!observe(A, R, "upper_bound_assign_if_exact")) return true;
    std::string ctx = ctx_of(c, true);
    std::vector<Sys> V; V.push_back(sA); V.push_back(sB);
    if (res) {
      Target T; T.n = n; T.pieces.push_back(ref::esys_of(sA, n)); T.pieces.push_back(ref::esys_of(sB, n));
      if (!check_sound(key_sound("upper_bound_assign_if_exact", ""), T, R, ctx)) return true;
      std::vector<Sys> U; U.push_back(to_sys(R)); Vec wit; int r = ref::union_included(n, U, V, &wit); checked();
      if (r == 0) { if (!member(R, wit) || member(c.SA, wit) || member(c.SB, wit)) violation("harness.bug.union_witness", "upper_bound_assign_if_exact"); else violation("C03.definite." + INST + ".upper_bound_assign_if_exact", "returned true but point " + show(wit) + " of the result " + show(R) + " is in neither argument; " + ctx); }
      else if (r < 0) hx::inconclusive("union_cap");
    } else {
      if (TI.exact) { checked(); if (!same_shadow(R, c.SA)) { violation("C04.exact.box.upper_bound_assign_if_exact:false-but-changed", "returned false but the receiver changed to " + show(R) + "; " + ctx); return true; } }
      else if (!check_sound(key_sound("upper_bound_assign_if_exact", "false"), tgt(n, sA), R, ctx)) return true;
      Shadow H = join_shadow(c.SA, c.SB); std::vector<Sys> U; U.push_back(to_sys(H)); int r = ref::union_included(n, U, V, 0); checked();
      if (r == 1) { if (TI.exact) violation("C04.exact.box.upper_bound_assign_if_exact:false-but-union-is-a-box", "returned false although the union is the box " + show(H) + "; " + ctx); else hx::count("imprecise.upper_bound_assign_if_exact"); }
      else if (r < 0) hx::inconclusive("union_cap");
    }
    return true; }
  if (k < 48) { tr(c.pre + ".difference_assign(" + bref + ")"); note_op(c, "difference_assign", "", true);
    A.difference_assign(B);
    Target T; T.n = n;
    if (c.SB.empty) T.pieces.push_back(ref::esys_of(sA, n));
    else { std::vector<Sys> pc = ref::difference_pieces(n, sA, sB); for (size_t i = 0; i < pc.size(); ++i) T.pieces.push_back(ref::esys_of(pc[i], n)); }
    finish(c, "difference_assign", "", T, 2, true); return true; }
  if (n >= 1 && k < 58) { // affine image / preimage
    bool pre = coin(); int v = rnd(0, n - 1); Linear_Expression e = rexpr(n); Coefficient d = rden();
    std::string nm = pre ? "affine_preimage" : "affine_image";
    int nv = nvars_of(e, n); bool self = e.coefficient(Variable(v)) != 0;
    bool expressible = (nv == 0) || (nv == 1 && self);
    std::string cls = expressible ? (nv == 0 ? "constant" : "self-only") : "general";
    t << "." << nm << "(" << str(Variable(v)) << ", " << str(e) << ", " << d << ")"; tr(t.str()); note_op(c, nm, cls + sgn_pattern(e, n) + (d < 0 ? "/-" : "/+"), false);
    if (pre) A.affine_preimage(Variable(v), e, d); else A.affine_image(Variable(v), e, d);
    Vec ea; Q eb; ref::conv(e, n, ea, eb);
    finish(c, nm, cls, tgt(ref::def_gen_affine(sA, n, v, 2, ea, eb, ref::toQ(d), pre)), expressible ? 1 : 0, false);
    return true; }
  if (n >= 1 && k < 67) { // generalized affine image / preimage, variable form
    bool pre = coin(); int v = rnd(0, n - 1); Linear_Expression e = rexpr(n); Coefficient d = rden(); int ri = rnd(0, 4);
    std::string nm = pre ? "generalized_affine_preimage" : "generalized_affine_image";
    bool self = e.coefficient(Variable(v)) != 0;
    std::string cls = std::string(self ? "self" : "noself") + (ri == 2 ? "+eq" : "");
    t << "." << nm << "(" << str(Variable(v)) << ", " << REL5S[ri] << ", " << str(e) << ", " << d << ")"; tr(t.str()); note_op(c, nm, cls + sgn_pattern(e, n) + (d < 0 ? "/-" : "/+") + REL5S[ri], false);
    if (pre) A.generalized_affine_preimage(Variable(v), REL5[ri], e, d); else A.generalized_affine_image(Variable(v), REL5[ri], e, d);
    Vec ea; Q eb; ref::conv(e, n, ea, eb);
    finish(c, nm, cls + one_of(coef_class(e, n), coef_class(d)), tgt(ref::def_gen_affine(sA, n, v, ri, ea, eb, ref::toQ(d), pre)), 0, false);
    return true; }
  if (n >= 1 && k < 75) { // generalized affine image / preimage, lhs/rhs form
    bool pre = coin(); Linear_Expression l = rexpr(n, 55), r = rexpr(n); int ri = rnd(0, 4);
    std::string nm = pre ? "generalized_affine_preimage_lr" : "generalized_affine_image_lr";
    int lv = nvars_of(l, n);
    std::string cls = lv == 0 ? "lhs-constant" : lv == 1 ? "lhs-1var" : lv == 2 ? "lhs-2vars" : "lhs-3+vars";
    if (pre) { bool only_lhs = false; for (int i = 0; i < n; ++i) if (i < (int) l.space_dimension() && l.coefficient(Variable(i)) != 0 && (i >= (int) r.space_dimension() || r.coefficient(Variable(i)) == 0)) only_lhs = true; if (only_lhs) cls += "+lhs-var-not-in-rhs"; }
    t << "." << nm << "(" << str(l) << ", " << REL5S[ri] << ", " << str(r) << ")"; tr(t.str()); note_op(c, nm, cls + sgn_pattern(l, n) + sgn_pattern(r, n) + REL5S[ri], false);
    if (pre) A.generalized_affine_preimage(l, REL5[ri], r); else A.generalized_affine_image(l, REL5[ri], r);
    Vec la, ra; Q lb, rb; ref::conv(l, n, la, lb); ref::conv(r, n, ra, rb);
    finish(c, nm, cls + one_of(coef_class(l, n), coef_class(r, n)), tgt(ref::def_gen_affine_lr(sA, n, la, lb, ri, ra, rb, pre)), 0, false);
    return true; }
  if (n >= 1 && k < 84) { // bounded affine image / preimage
    bool pre = coin(); int v = rnd(0, n - 1); Linear_Expression lb = rexpr(n), ub = rexpr(n); Coefficient d = rden();
    std::string nm = pre ? "bounded_affine_preimage" : "bounded_affine_image";
    bool sl = lb.coefficient(Variable(v)) != 0, su = ub.coefficient(Variable(v)) != 0;
    std::string cls = std::string(d < 0 ? "neg-den" : "pos-den") + (sl && su ? "+var-in-both" : sl ? "+var-in-lb" : su ? "+var-in-ub" : "+var-in-none");
    t << "." << nm << "(" << str(Variable(v)) << ", " << str(lb) << ", " << str(ub) << ", " << d << ")"; tr(t.str()); note_op(c, nm, cls + sgn_pattern(lb, n) + sgn_pattern(ub, n), false);
    bool lo_bounded = c.SA.empty ? c.stl.find("+EM") == std::string::npos : !c.SA.iv[v].lo.inf, hi_bounded = c.SA.empty ? c.stl.find("+EM") == std::string::npos : !c.SA.iv[v].hi.inf;
    if (pre && ((!su && lo_bounded) || (!sl && hi_bounded))) {
      // known process-killing class (division by the zero coefficient of var): probe in a child first
      if (dies_in_child([&]() { BP x(A.clone()); x->bounded_affine_preimage(Variable(v), lb, ub, d); })) {
        checked(); violation("C03.crash." + INST + ".bounded_affine_preimage:" + (!su && lo_bounded ? "var-not-in-ub+var-bounded-below" : "var-not-in-lb+var-bounded-above"), "the call kills the process (SIGFPE / sanitizer abort); " + ctx_of(c, false));
        hx::st().case_tainted = false;   // the call was not made in this process: the state is intact
        return true;
      }
    }
    if (pre) A.bounded_affine_preimage(Variable(v), lb, ub, d); else A.bounded_affine_image(Variable(v), lb, ub, d);
    Vec la, ua; Q lbb, ubb; ref::conv(lb, n, la, lbb); ref::conv(ub, n, ua, ubb);
    finish(c, nm, cls + one_of(coef_class(lb, n), coef_class(ub, n), coef_class(d)), tgt(ref::def_bounded_affine(sA, n, v, la, lbb, ua, ubb, ref::toQ(d), pre)), 0, false);
    return true; }
  if (n >= 1 && k < 87) { // unconstrain
    bool set = coin(); std::vector<bool> vars(n, false); Variables_Set vs;
    if (set) { for (int i = 0; i < n; ++i) if (coin(40)) { vars[i] = true; vs.insert(Variable(i)); } } else { int v = rnd(0, n - 1); vars[v] = true; vs.insert(Variable(v)); }
    std::string nm = set ? "unconstrain_set" : "unconstrain";
    t << "." << nm << "(" << str(vs) << ")"; tr(t.str()); note_op(c, nm, "", false);
    if (set) A.unconstrain(vs); else A.unconstrain(Variable(*vs.begin()));
    finish(c, nm, "", tgt(ref::def_unconstrain(sA, n, vars)), 1, false);
    return true; }
  if (k < 90) { tr(c.pre + ".time_elapse_assign(" + bref + ")"); note_op(c, "time_elapse_assign", "", true);
    A.time_elapse_assign(B);
    Target T; T.n = n;
    if (!c.SA.empty && !c.SB.empty) {
      T.pieces.push_back(ref::esys_of(sA, n));   // lambda = 0
      // x = p + z, p in A, z = lambda q with q in B, lambda > 0:  a.z REL lambda b
      ESys P; P.n = n; P.aux = 2 * n + 1; int nv = P.n + P.aux; int offp = n, offz = 2 * n, lam = 3 * n;
      for (size_t i = 0; i < sA.size(); ++i) P.s.push_back(ref::shift(sA[i], nv, offp));
      for (size_t i = 0; i < sB.size(); ++i) { Con cc = ref::shift(sB[i], nv, offz); cc.a[lam] = -sB[i].b; cc.b = 0; P.s.push_back(cc); }
      { Vec a(nv); a[lam] = -1; P.s.push_back(Con(a, Q(0), ref::LT)); }
      for (int d = 0; d < n; ++d) { Vec a(nv); a[d] = 1; a[offp + d] = -1; a[offz + d] = -1; P.s.push_back(Con(a, Q(0), ref::EQ)); }
      T.pieces.push_back(P);
    }
    finish(c, "time_elapse_assign", "", T, 0, true); return true; }
  if (k < 92) { tr(c.pre + ".topological_closure_assign()"); note_op(c, "topological_closure_assign", "", false);
    A.topological_closure_assign(); Sys T = c.SA.empty ? sA : ref::closure_of(sA);
    finish(c, "topological_closure_assign", "", tgt(n, T), 1, false); return true; }
  if (k < 96) { tr(c.pre + ".simplify_using_context_assign(" + bref + ")"); note_op(c, "simplify_using_context_assign", "", true);
    bool res = A.simplify_using_context_assign(B);
    hx::trace() += res ? " -> true" : " -> false";
    Shadow R; if (!observe(A, R, "simplify_using_context_assign")) return true;
    Sys M = sA; M.insert(M.end(), sB.begin(), sB.end()); bool meet_empty = !ref::feasible(n, M);
    if (!check_bool("simplify_using_context_assign", !res, meet_empty, "false means: the intersection is empty; " + ctx_of(c, true))) return true;
    if (res) check_sound(key_sound("simplify_using_context_assign", ""), tgt(n, M), meet_shadow(R, c.SB), "checked: (result meet context) contains (receiver meet context); result " + show(R) + "; " + ctx_of(c, true));
    return true; }
  { // copy / assignment / swap
    int how = rnd(0, 2);
    if (how == 0) { tr(c.pre + " = " + bref); hx::count("op.assign"); A.assign(B); Shadow R; if (!observe(A, R, "assign")) return true; checked(); if (!same_shadow(R, c.SB)) violation(key_sound("assign", ""), "assigned value " + show(R) + " differs from the source " + show(c.SB)); }
    else if (how == 1) { tr(c.pre + ".clone()"); hx::count("op.copy"); BP cp(A.clone()); Shadow R; if (!observe(*cp, R, "copy")) return true; checked(); if (!same_shadow(R, c.SA)) violation(key_sound("copy", ""), "copy " + show(R) + " differs from the source " + show(c.SA)); }
    else if (c.ai != c.bi) { tr(c.pre + ".m_swap(" + bref + ")"); hx::count("op.m_swap"); BP other(B.clone()); A.m_swap(*other); Shadow R, R2; if (!observe(A, R, "m_swap") || !observe(*other, R2, "m_swap")) return true; checked(); if (!same_shadow(R, c.SB) || !same_shadow(R2, c.SA)) violation(key_sound("m_swap", ""), "swap did not exchange the values"); }
    return true;
  }
}

// ---------- queries ----------
static Q expr_value(const Vec& ea, const Q& eb, const Vec& x) { return ref::dot(ea, x) + eb; }
static bool has_int(const Itv& i) {
  if (itv_empty(i)) return false;
  if (i.lo.inf || i.hi.inf) return true;
  mpz_class L, U;
  mpz_cdiv_q(L.get_mpz_t(), i.lo.v.get_num_mpz_t(), i.lo.v.get_den_mpz_t()); if (i.lo.open && Q(L) == i.lo.v) ++L;
  mpz_fdiv_q(U.get_mpz_t(), i.hi.v.get_num_mpz_t(), i.hi.v.get_den_mpz_t()); if (i.hi.open && Q(U) == i.hi.v) --U;
  return L <= U;
}
static void run_queries(StepCtx& c) {
  BoxI& A = *c.A; const BoxI& B = *c.B; const int n = c.n; const Shadow& SA = c.SA; const Shadow& SB = c.SB; const Sys& sA = c.sA; const Sys& sB = c.sB;
  bool ne = !SA.empty;
  std::string ctx = ctx_of(c, false);
  int which = rnd(0, 12);
  if (nontrivial(c.clsA)) hx::distinct("query|" + INST + "|" + std::to_string(which) + "|" + c.stl + "|" + c.clsA);
  switch (which) {
  case 0: {
    tr(c.pre + ".preds()");
    bool univ = ne, bounded = true, closed = true, discrete = true;
    if (ne) for (int k = 0; k < n; ++k) { const Itv& i = SA.iv[k]; if (!i.lo.inf || !i.hi.inf) univ = false; if (i.lo.inf || i.hi.inf) bounded = false; if ((!i.lo.inf && i.lo.open) || (!i.hi.inf && i.hi.open)) closed = false; if (i.lo.inf || i.hi.inf || i.lo.v != i.hi.v) discrete = false; }
    if (!check_bool("is_universe", A.is_universe(), univ, ctx)) return;
    if (!check_bool("is_bounded", A.is_bounded(), bounded, ctx)) return;
    if (!check_bool("is_topologically_closed", A.is_topologically_closed(), closed, ctx)) return;
    if (!check_bool("is_discrete", A.is_discrete(), discrete, ctx)) return;
    if (!check_bool("is_empty", A.is_empty(), !ne, ctx)) return;
    break; }
  case 1: case 2: {
    tr(c.pre + ".binary_preds(#" + std::to_string(c.bi) + ")");
    std::string cx = ctx_of(c, true);
    bool rc = sys_included(n, sB, sA), rcb = sys_included(n, sA, sB);
    if (!check_bool("contains", A.contains(B), rc, cx)) return;
    if (!check_bool("strictly_contains", A.strictly_contains(B), rc && !rcb, cx)) return;
    Sys T = sA; T.insert(T.end(), sB.begin(), sB.end());
    if (!check_bool("is_disjoint_from", A.is_disjoint_from(B), !ref::feasible(n, T), cx)) return;
    if (!check_bool("equals", A.equals(B), rc && rcb, cx)) return;
    break; }
  case 3: case 4: {
    Constraint cc = (n > 0 && coin(40)) ? itv_con(n, true) : gen_con(n, true);
    tr(c.pre + ".relation_with(" + str(cc) + ")");
    Poly_Con_Relation r = A.relation_with(cc);
    Con rc = ref::conv(cc, n);
    Sys T = sA; T.push_back(rc);
    bool nonempty_meet = ref::feasible(n, T);
    bool included = sys_included(n, sA, Sys(1, rc));
    Con hyp = rc; hyp.rel = ref::EQ;
    bool saturates = sys_included(n, sA, Sys(1, hyp));
    std::string d = str(cc) + " -> " + str(r) + "; " + ctx;
    std::string rcls;
    { int nvz = 0, kv = -1; for (int i = 0; i < n && i < (int) cc.space_dimension(); ++i) if (cc.coefficient(Variable(i)) != 0) { ++nvz; kv = i; }
      if (nvz == 0 && cc.is_equality() && n > 0) rcls = ":trivial-equality";
      else if (nvz == 1 && !cc.is_equality() && ne && cc.coefficient(Variable(kv)) < 0 && SA.iv[kv].hi.inf && !SA.iv[kv].lo.inf) rcls = ":upper-bound-vs-interval-unbounded-above"; }
    if (!check_bool("relation_with_c.is_disjoint" + rcls, r.implies(Poly_Con_Relation::is_disjoint()), !nonempty_meet, d)) return;
    if (!check_bool("relation_with_c.is_included" + rcls, r.implies(Poly_Con_Relation::is_included()), included, d)) return;
    if (!check_bool("relation_with_c.saturates" + rcls, r.implies(Poly_Con_Relation::saturates()), saturates, d)) return;
    if (!check_bool("relation_with_c.strictly_intersects" + rcls, r.implies(Poly_Con_Relation::strictly_intersects()), nonempty_meet && !included, d)) return;
    break; }
  case 5: {
    Linear_Expression e = rexpr(n); int m = rnd(0, 4); Congruence cg = (e %= 0) / m;
    tr(c.pre + ".relation_with(" + str(cg) + ")");
    Poly_Con_Relation r = A.relation_with(cg);
    if (cg.is_equality()) return;   // same as relation_with(Constraint)
    Vec ea(n); for (int d = 0; d < n && d < (int) cg.space_dimension(); ++d) ea[d] = ref::toQ(cg.coefficient(Variable(d)));
    Q eb = ref::toQ(cg.inhomogeneous_term()); Q mq = ref::toQ(cg.modulus());
    bool included, disjoint;
    if (!ne) { included = true; disjoint = true; }
    else {
      Vec nea(n); for (int i = 0; i < n; ++i) nea[i] = -ea[i];
      ref::SupResult hi = ref::supremum(n, sA, ea), lo = ref::supremum(n, sA, nea);
      if (hi.bounded && lo.bounded && hi.sup == -lo.sup) { Q val = hi.sup + eb; Q kq = val / mq; included = (kq.get_den() == 1); disjoint = !included; }
      else {
        included = false; bool found;
        if (!lo.bounded || !hi.bounded) found = true;
        else {
          Q l = -lo.sup + eb, u = hi.sup + eb; Q kl = l / mq; mpz_class kc; mpz_cdiv_q(kc.get_mpz_t(), kl.get_num_mpz_t(), kl.get_den_mpz_t());
          Q cand = Q(kc) * mq;
          if (cand == l && !lo.attained) cand += mq;
          found = (cand < u) || (cand == u && hi.attained);
        }
        disjoint = !found;
      }
    }
    std::string d = str(cg) + " -> " + str(r) + "; " + ctx;
    if (!check_bool("relation_with_cg.is_disjoint", r.implies(Poly_Con_Relation::is_disjoint()), disjoint, d)) return;
    if (!check_bool("relation_with_cg.is_included", r.implies(Poly_Con_Relation::is_included()), included, d)) return;
    if (!check_bool("relation_with_cg.strictly_intersects", r.implies(Poly_Con_Relation::strictly_intersects()), !disjoint && !included, d)) return;
    break; }
  case 6: {
    Generator g = rgen(n, true, false);
    tr(c.pre + ".relation_with(" + str(g) + ")");
    Poly_Gen_Relation r = A.relation_with(g);
    Gen rg = ref::conv(g, n); bool subs;
    if (!ne) subs = false;
    else if (rg.kind == Gen::POINT) subs = member(SA, rg.v);
    else if (rg.kind == Gen::CLOSURE_POINT) subs = ref::sat(ref::closure_of(sA), rg.v);
    else { subs = true; for (int k = 0; k < n && subs; ++k) { if (rg.v[k] > 0 || (rg.kind == Gen::LINE && rg.v[k] != 0)) if (!SA.iv[k].hi.inf) subs = false; if (rg.v[k] < 0 || (rg.kind == Gen::LINE && rg.v[k] != 0)) if (!SA.iv[k].lo.inf) subs = false; } }
    check_bool(std::string("relation_with_g.subsumes") + ((int) g.space_dimension() < n ? ":generator-lower-dimensional" : ""), r.implies(Poly_Gen_Relation::subsumes()), subs, str(g) + "; " + ctx);
    break; }
  case 7: case 8: {
    Linear_Expression e = rexpr(n, 30); bool mx = (which == 7);
    tr(c.pre + (mx ? ".maximize(" : ".minimize(") + str(e) + ")");
    Coefficient num, den; bool att = false; Generator g(point());
    bool ok = mx ? A.maximize(e, num, den, att, g) : A.minimize(e, num, den, att, g);
    Coefficient num2, den2; bool att2 = false; bool ok2 = mx ? A.maximize(e, num2, den2, att2) : A.minimize(e, num2, den2, att2);
    bool bf = mx ? A.bounds_from_above(e) : A.bounds_from_below(e);
    Vec oe; Q ob; ref::conv(e, n, oe, ob); Vec ea = oe; if (!mx) for (size_t i = 0; i < ea.size(); ++i) ea[i] = -ea[i];
    ref::SupResult s = ref::supremum(n, sA, ea);
    std::string d = str(e) + "; " + ctx; std::string qn = mx ? "maximize" : "minimize";
    if (ne && !check_bool(mx ? "bounds_from_above" : "bounds_from_below", bf, s.bounded, d)) return;
    if (!check_bool(qn + ".status", ok, s.nonempty && s.bounded, d)) return;
    checked(); if (ok2 != ok) { violation((TI.exact ? "C04.pred.box." : "C03.definite." + INST + ".") + qn + ".overloads_disagree", d); return; }
    if (!ok) return;
    Q val = ref::toQ(num) / ref::toQ(den); Q rv = mx ? Q(s.sup + ob) : Q(-s.sup + ob);
    checked();
    if (val != rv) {
      std::ostringstream o; o << "PPL " << val << " reference " << rv << "; " << d;
      bool unsafe = mx ? (val < rv) : (val > rv);
      if (unsafe) { violation("C03.definite." + INST + "." + qn + ".value", o.str()); return; }
      if (TI.exact) { violation("C04.pred.box." + qn + ".value", o.str()); return; }
      hx::count("imprecise." + qn); return;
    }
    if (ref::toQ(num2) / ref::toQ(den2) != val || att2 != att) { violation((TI.exact ? "C04.pred.box." : "C03.definite." + INST + ".") + qn + ".overloads_disagree", "value/flag; " + d); return; }
    if (!check_bool(qn + ".attained", att, s.attained, d)) return;
    Gen rg = ref::conv(g, n);
    checked();
    if (expr_value(oe, ob, rg.v) != val) { violation((TI.exact ? "C04.pred.box." : "C03.definite." + INST + ".") + qn + ".witness_value", "witness " + str(g) + " does not evaluate to the optimum; " + d); return; }
    Sys cl = att ? sA : ref::closure_of(sA);
    if (!ref::sat(cl, rg.v)) { violation((TI.exact ? "C04.pred.box." : "C03.definite." + INST + ".") + qn + ".witness_member", "witness " + str(g) + " not in the box (closure when not attained); " + d); return; }
    break; }
  case 9: {
    tr(c.pre + ".affine_dimension()");
    int ad = A.affine_dimension(); int rad = 0;
    if (ne) for (int k = 0; k < n; ++k) { Vec a(n); a[k] = 1; ref::SupResult u = ref::supremum(n, sA, a); a[k] = -1; ref::SupResult l = ref::supremum(n, sA, a); if (!(u.bounded && l.bounded && u.sup == -l.sup)) ++rad; }
    checked(); hx::count("q.affine_dimension");
    if (ad != rad) { std::ostringstream o; o << "PPL " << ad << " reference " << rad << "; " << ctx; if (TI.exact) violation("C04.pred.box.affine_dimension", o.str()); else if (ad < rad) violation("C03.definite." + INST + ".affine_dimension", o.str()); else hx::count("imprecise.affine_dimension"); return; }
    if (n > 0) { int v = rnd(0, n - 1); hx::trace() += ".constrains(" + str(Variable(v)) + ")"; bool cs = A.constrains(Variable(v)); if (ne) { bool rcs = !SA.iv[v].lo.inf || !SA.iv[v].hi.inf; check_bool("constrains", cs, rcs, str(Variable(v)) + "; " + ctx, false); } }
    break; }
  case 10: {
    Linear_Expression e = rexpr(n, 30); tr(c.pre + ".frequency(" + str(e) + ")");
    Coefficient fn, fd, vn, vd; bool f = A.frequency(e, fn, fd, vn, vd);
    Vec ea; Q eb; ref::conv(e, n, ea, eb); Vec nea(n); for (int i = 0; i < n; ++i) nea[i] = -ea[i];
    bool rconst = false; Q val;
    if (ne) { ref::SupResult hi = ref::supremum(n, sA, ea), lo = ref::supremum(n, sA, nea); if (hi.bounded && lo.bounded && hi.sup == -lo.sup) { rconst = true; val = hi.sup + eb; } }
    if (!check_bool("frequency.status", f, rconst, str(e) + "; " + ctx)) return;
    checked(); if (f && (fn != 0 || ref::toQ(vn) / ref::toQ(vd) != val)) violation("C03.definite." + INST + ".frequency.value", "wrong frequency/value for " + str(e) + "; " + ctx);
    break; }
  case 11: {
    tr(c.pre + ".contains_integer_point()");
    bool cip = A.contains_integer_point(); bool truth = ne; if (ne) for (int k = 0; k < n; ++k) if (!has_int(SA.iv[k])) truth = false;
    checked(); hx::count("q.contains_integer_point");
    if (cip != truth) {
      // independent re-validation: exhibit an integer point, or a dimension without one
      std::string cls = !ne ? "empty-receiver" : cip ? "true-but-none" : "false-but-exists";
      violation("C17.box." + INST + ".contains_integer_point.wrong:" + cls, std::string("PPL ") + (cip ? "true" : "false") + "; " + ctx + "; status " + c.stl);
    }
    break; }
  case 12: {
    tr(c.pre + ".descriptions()");
    // has_lower_bound / has_upper_bound, minimized_constraints, congruences
    if (n > 0 && ne) {
      int v = rnd(0, n - 1); Coefficient bn, bd; bool closed = false;
      bool hl = A.has_lower_bound(Variable(v), bn, bd, closed); const Bnd& lo = SA.iv[v].lo;
      checked(); hx::count("q.has_bound");
      if (hl == lo.inf || (hl && (ref::toQ(bn) / ref::toQ(bd) != lo.v || closed == lo.open))) { violation((TI.exact ? "C04.pred.box." : "C03.definite." + INST + ".") + "has_lower_bound", "dimension " + std::to_string(v) + "; " + ctx); return; }
      bool hu = A.has_upper_bound(Variable(v), bn, bd, closed); const Bnd& hi = SA.iv[v].hi;
      if (hu == hi.inf || (hu && (ref::toQ(bn) / ref::toQ(bd) != hi.v || closed == hi.open))) { violation((TI.exact ? "C04.pred.box." : "C03.definite." + INST + ".") + "has_upper_bound", "dimension " + std::to_string(v) + "; " + ctx); return; }
    }
    { BP cp(A.clone()); Sys M = ref::conv(cp->minimized_constraints(), n); Shadow SM; std::string err; checked();
      if (!shadow_of_sys(n, M, SM, err) || !same_shadow(SM, SA)) { violation("C03.sound." + INST + ".minimized_constraints:differs-from-intervals", "minimized_constraints() " + show(M) + "; " + ctx); return; } }
    { BP cp(A.clone()); Congruence_System cg = coin() ? cp->congruences() : cp->minimized_congruences(); checked();
      int fixed = 0; if (ne) for (int k = 0; k < n; ++k) if (!SA.iv[k].lo.inf && !SA.iv[k].hi.inf && SA.iv[k].lo.v == SA.iv[k].hi.v) ++fixed;
      int eqs = 0;
      for (Congruence_System::const_iterator i = cg.begin(); i != cg.end(); ++i) {
        if (i->is_tautological()) continue;
        if (i->is_inconsistent()) { if (ne) { violation("C03.sound." + INST + ".congruences", "inconsistent congruence reported for a non-empty box; " + ctx); return; } continue; }
        if (!i->is_equality()) { violation("C03.sound." + INST + ".congruences", "proper congruence " + str(*i) + " reported for a box; " + ctx); return; }
        ++eqs;
        if (!sys_included(n, sA, Sys(1, con_of_cg_equality(*i, n)))) { violation("C03.sound." + INST + ".congruences", "reported equality " + str(*i) + " is not satisfied by the box; " + ctx); return; }
      }
      if (TI.exact && ne && eqs != fixed) violation("C04.pred.box.congruences", "box has " + std::to_string(fixed) + " fixed dimensions but " + std::to_string(eqs) + " equalities were reported; " + ctx);
    }
    A.misc_observers();
    break; }
  }
}

// ---------- twins (Rational_Box): equal point sets compare equal whatever their history ----------
static void twin_check(StepCtx& c) {
  BoxI& A = *c.A; const int n = c.n; const Shadow& SA = c.SA; const Sys& sA = c.sA;
  int how = rnd(0, 4);
  BP T(A.make(n, false));
  std::string hs;
  if (SA.empty) {
    int e = rnd(0, 3);
    if (e == 0 || n == 0) { T.reset(A.make(n, true)); hs = "marked empty"; }
    else if (e == 1) { int v = rnd(0, n - 1); T->add_constraint(Variable(v) >= 1); T->add_constraint(Variable(v) <= 0); hs = "crossing bounds"; }
    else if (e == 2) { int v = rnd(0, n - 1); T->add_constraint(Variable(v) > 0); T->add_constraint(Variable(v) <= 0); hs = "open/closed clash"; }
    else { T->refine_with_constraint(Linear_Expression(0) > 0); hs = "0 > 0"; }
  } else {
    std::vector<Constraint> cv;
    for (int k = 0; k < n; ++k) {
      const Itv& i = SA.iv[k];
      if (!i.lo.inf) { Coefficient num(i.lo.v.get_num()), den(i.lo.v.get_den()); cv.push_back(i.lo.open ? Constraint(den * Variable(k) > num) : Constraint(den * Variable(k) >= num)); }
      if (!i.hi.inf) { Coefficient num(i.hi.v.get_num()), den(i.hi.v.get_den()); cv.push_back(i.hi.open ? Constraint(den * Variable(k) < num) : Constraint(den * Variable(k) <= num)); }
    }
    std::shuffle(cv.begin(), cv.end(), hx::rng());
    if (how == 0) { for (size_t i = 0; i < cv.size(); ++i) { T->add_constraint(cv[i]); if (coin(30)) { Linear_Expression e(cv[i].expression()); e *= rnd(2, 3); T->refine_with_constraint(cv[i].is_strict_inequality() ? Constraint(e > 0) : Constraint(e >= 0)); } } hs = "shuffled/scaled constraints"; }
    else if (how == 1) { Constraint_System cs; for (size_t i = 0; i < cv.size(); ++i) cs.insert(cv[i]); T->refine_with_constraints(cs); T->add_space_dimensions_and_embed(2); T->remove_higher_space_dimensions(n); hs = "refine + dimension round trip"; }
    else if (how == 2 && n > 0) { for (size_t i = 0; i < cv.size(); ++i) T->add_constraint(cv[i]); int v = rnd(0, n - 1); T->affine_image(Variable(v), Variable(v) + 3, Coefficient(1)); T->affine_image(Variable(v), 2 * Variable(v) - 6, Coefficient(2)); hs = "affine round trip"; }
    else if (how == 3) { for (size_t i = 0; i < cv.size(); ++i) T->add_constraint(cv[i]); BP u(T->clone()); T->upper_bound_assign(*u); T->intersection_assign(*u); BP e(A.make(n, true)); T->upper_bound_assign(*e); T->difference_assign(*e); hs = "idempotent lattice operations"; }
    else { Constraint_System cs; for (size_t i = 0; i < cv.size(); ++i) cs.insert(cv[i]); if ((int) cs.space_dimension() < n) cs.insert(0 * Variable(n - 1) >= -1); T = BP(A.from_constraints(cs, coin())); hs = "Box(cs)"; }
  }
  tr(c.pre + ".twin(" + hs + ")"); hx::count("twins");
  if (nontrivial(c.clsA)) hx::distinct("twin|" + std::to_string(how) + "|" + c.stl + "|" + c.clsA);
  Shadow ST; if (!observe(*T, ST, "twin")) return;
  checked();
  if (!same_shadow(ST, SA)) { violation("C04.exact.box.twin_construction", "twin built by " + hs + " denotes " + show(ST) + " instead of " + show(SA)); return; }
  BP Ac(A.clone());
  BoxI& X = *Ac; BoxI& Y = *T;
  checked(4);
  if (!X.equals(Y) || !Y.equals(X)) { violation("C04.pred.box.equals:twin", "equal sets compare different (" + hs + "); " + show(SA) + "; status " + c.stl + " vs " + status_word(Y)); return; }
  if (!X.contains(Y) || !Y.contains(X)) { violation("C04.pred.box.contains:twin", "equal sets do not contain each other (" + hs + "); " + show(SA)); return; }
  if (X.strictly_contains(Y) || Y.strictly_contains(X)) { violation("C04.pred.box.strictly_contains:twin", "equal sets strictly contain each other (" + hs + "); " + show(SA)); return; }
  if (X.is_disjoint_from(Y) != SA.empty) { violation("C04.pred.box.is_disjoint_from:twin", hs + "; " + show(SA)); return; }
  std::ostringstream a, b;
  a << X.is_empty() << X.is_universe() << X.is_bounded() << X.is_topologically_closed() << X.is_discrete() << X.affine_dimension() << X.contains_integer_point();
  b << Y.is_empty() << Y.is_universe() << Y.is_bounded() << Y.is_topologically_closed() << Y.is_discrete() << Y.affine_dimension() << Y.contains_integer_point();
  for (int i = 0; i < n; ++i) if (!SA.empty) { a << X.constrains(Variable(i)); b << Y.constrains(Variable(i)); }
  for (int r = 0; r < 3; ++r) {
    Linear_Expression e = rexpr(n, 30); Coefficient n1, d1, n2, d2; bool m1 = false, m2 = false;
    bool o1 = X.maximize(e, n1, d1, m1), o2 = Y.maximize(e, n2, d2, m2);
    a << o1; b << o2; if (o1 && o2) { a << ref::toQ(n1) / ref::toQ(d1) << m1; b << ref::toQ(n2) / ref::toQ(d2) << m2; }
    Constraint cc = gen_con(n, true); a << str(X.relation_with(cc)); b << str(Y.relation_with(cc));
    Generator g = rgen(n, true, false); a << str(X.relation_with(g)); b << str(Y.relation_with(g));
  }
  checked();
  if (a.str() != b.str()) violation("C04.pred.box.twin_answers", "original " + a.str() + " twin " + b.str() + " (" + hs + "); " + show(SA));
  (void) sA;
}

// ---------- dimension-changing operators (on a scratch clone) ----------
static void dims_op(StepCtx& c) {
  const BoxI& A = *c.A; const BoxI& B = *c.B; const int n = c.n; const Sys& sA = c.sA; const Sys& sB = c.sB;
  BP Tm(A.clone()); StepCtx d = c; d.A = Tm.get();
  int which = rnd(0, 6); std::ostringstream t; t << c.pre;
  const std::string ecls = (c.SA.empty && c.stl.find("+EM") == std::string::npos) ? "receiver-empty-unmarked" : "";
  if (which == 0) {
    int m = rnd(0, 2); bool proj = coin(); std::string nm = proj ? "add_space_dimensions_and_project" : "add_space_dimensions_and_embed";
    t << ".tmp." << nm << "(" << m << ")"; tr(t.str()); note_op(c, nm, "", false);
    if (proj) Tm->add_space_dimensions_and_project(m); else Tm->add_space_dimensions_and_embed(m);
    if (Tm->dim() != n + m) { violation(key_sound(nm, "dimension"), "wrong space dimension"); return; }
    finish(d, nm, ecls, tgt(ref::def_add_dims(sA, n, m, proj)), 1, false);
  } else if (which == 1) {
    std::vector<int> keep; Variables_Set vs; for (int i = 0; i < n; ++i) { if (coin(40)) vs.insert(Variable(i)); else keep.push_back(i); }
    t << ".tmp.remove_space_dimensions(" << str(vs) << ")"; tr(t.str()); note_op(c, "remove_space_dimensions", "", false);
    Tm->remove_space_dimensions(vs);
    if (Tm->dim() != (int) keep.size()) { violation(key_sound("remove_space_dimensions", "dimension"), "wrong space dimension"); return; }
    finish(d, "remove_space_dimensions", ecls, tgt(ref::def_project_onto(sA, n, keep)), 1, false);
  } else if (which == 2) {
    int k = rnd(0, n); std::vector<int> keep; for (int i = 0; i < k; ++i) keep.push_back(i);
    t << ".tmp.remove_higher_space_dimensions(" << k << ")"; tr(t.str()); note_op(c, "remove_higher_space_dimensions", "", false);
    Tm->remove_higher_space_dimensions(k);
    if (Tm->dim() != k) { violation(key_sound("remove_higher_space_dimensions", "dimension"), "wrong space dimension"); return; }
    finish(d, "remove_higher_space_dimensions", ecls, tgt(ref::def_project_onto(sA, n, keep)), 1, false);
  } else if (which == 3 && n >= 1) {
    int i = rnd(0, n - 1), m = rnd(0, 2);
    t << ".tmp.expand_space_dimension(" << str(Variable(i)) << "," << m << ")"; tr(t.str()); note_op(c, "expand_space_dimension", "", false);
    Tm->expand_space_dimension(Variable(i), m);
    if (Tm->dim() != n + m) { violation(key_sound("expand_space_dimension", "dimension"), "wrong space dimension"); return; }
    finish(d, "expand_space_dimension", ecls, tgt(ref::def_expand(sA, n, i, m)), 1, false);
  } else if (which == 4 && n >= 2) {
    int i = rnd(0, n - 1); std::vector<int> J; Variables_Set vs; for (int j = 0; j < n; ++j) if (j != i && coin(60)) { J.push_back(j); vs.insert(Variable(j)); }
    t << ".tmp.fold_space_dimensions(" << str(vs) << "," << str(Variable(i)) << ")"; tr(t.str()); note_op(c, "fold_space_dimensions", "", false);
    Tm->fold_space_dimensions(vs, Variable(i)); int k = n - (int) J.size();
    if (Tm->dim() != k) { violation(key_sound("fold_space_dimensions", "dimension"), "wrong space dimension"); return; }
    // union over the sources s in J + {i} of the projection that puts coordinate s into the slot of i
    std::vector<int> keepidx; for (int j = 0; j < n; ++j) if (std::find(J.begin(), J.end(), j) == J.end()) keepidx.push_back(j);
    std::vector<int> srcs = J; srcs.push_back(i);
    Target T; T.n = k;
    for (size_t s = 0; s < srcs.size(); ++s) { std::vector<int> keep(k); for (int j = 0; j < k; ++j) keep[j] = (keepidx[j] == i) ? srcs[s] : keepidx[j]; T.pieces.push_back(ref::def_project_onto(sA, n, keep)); }
    finish(d, "fold_space_dimensions", ecls, T, 2, false);
  } else if (which == 5) {
    t << ".tmp.concatenate_assign(#" << c.bi << ")"; tr(t.str()); note_op(c, "concatenate_assign", "", true);
    Tm->concatenate_assign(B);
    if (Tm->dim() != 2 * n) { violation(key_sound("concatenate_assign", "dimension"), "wrong space dimension"); return; }
    finish(d, "concatenate_assign", ecls, tgt(ref::def_concat(sA, n, sB, n)), 1, true);
  } else if (which == 6 && n >= 1) {
    Partial_Function pf; std::vector<int> img(n, -1); std::vector<int> order; for (int j = 0; j < n; ++j) order.push_back(j); std::shuffle(order.begin(), order.end(), hx::rng());
    int k = rnd(0, n); for (int j = 0; j < k; ++j) img[order[j]] = j;
    std::ostringstream ms; for (int j = 0; j < n; ++j) if (img[j] >= 0) { pf.insert(j, img[j]); ms << j << "->" << img[j] << " "; }
    t << ".tmp.map_space_dimensions(" << ms.str() << ")"; tr(t.str()); note_op(c, "map_space_dimensions", "", false);
    Tm->map_space_dimensions(pf);
    if (Tm->dim() != k) { violation(key_sound("map_space_dimensions", "dimension"), "wrong space dimension"); return; }
    finish(d, "map_space_dimensions", ecls, tgt(ref::def_map_dims(sA, n, img, k)), 1, false);
  }
}

// ---------- constructors from other domains ----------
static const char* const CCN[3] = { "POLYNOMIAL", "SIMPLEX", "ANY" };
static Constraint shape_con(int n, bool oct) {   // a constraint representable by a BD shape / octagon
  int i = rnd(0, n - 1), j = rnd(0, n - 1);
  mpz_class b = coin(88) ? mpz_class(rnd(-6, 6)) : big_num();
  int form = (n == 1 || i == j) ? 0 : rnd(0, oct ? 3 : 1);
  Linear_Expression e;
  switch (form) { case 0: e = (coin() ? 1 : -1) * Variable(i); break; case 1: e = Variable(i) - Variable(j); break; case 2: e = Variable(i) + Variable(j); break; default: e = -Variable(i) - Variable(j); break; }
  if (form == 0 && coin(15)) { mpz_class d = big_den(); e *= Coefficient(d); }
  return coin(80) ? Constraint(e <= Coefficient(b)) : Constraint(e == Coefficient(b));
}
template <typename S> static bool build_shape(S& s, int n, bool oct, std::string& txt, Sys& seen) {
  int k = rnd(0, 5); std::ostringstream o;
  for (int i = 0; i < k && n > 0; ++i) { Constraint cc = shape_con(n, oct); o << (i ? ", " : "") << str(cc); s.refine_with_constraint(cc); }
  txt = o.str();
  S cp(s); seen = ref::conv(cp.constraints(), n);   // the source's own denotation
  return true;
}
// Replaces pool[ai] by a box constructed from another domain; returns false when nothing was built.
static bool construct(StepCtx& c, BP& slot) {
  const BoxI& A = *c.A; const int n = c.n;
  int which = rnd(0, 11); std::ostringstream t; t << c.pre << " = ";
  int cc = rnd(0, 2); Complexity_Class CC = cc == 0 ? POLYNOMIAL_COMPLEXITY : cc == 1 ? SIMPLEX_COMPLEXITY : ANY_COMPLEXITY;
  BP R; Target T; T.n = n; std::string name, cls; bool best = false; std::string srctxt;
  if (which <= 2) { // C / NNC polyhedron
    bool nnc = coin(); bool fromgens = coin(35);
    std::unique_ptr<Polyhedron> ph;
    if (nnc) ph.reset(new NNC_Polyhedron(n, fromgens ? EMPTY : UNIVERSE)); else ph.reset(new C_Polyhedron(n, fromgens ? EMPTY : UNIVERSE));
    std::ostringstream o;
    if (fromgens) { int k = rnd(1, 4); for (int i = 0; i < k; ++i) { Generator g = rgen(n, nnc, i == 0); o << (i ? ", " : "") << str(g); ph->add_generator(g); } }
    else { int k = rnd(0, 4); for (int i = 0; i < k; ++i) { Constraint q = (n > 0 && coin(35)) ? itv_con(n, nnc) : gen_con(n, nnc); o << (i ? ", " : "") << str(q); ph->add_constraint(q); } if (coin(25)) (void) ph->minimized_generators(); }
    Sys src; if (nnc) { NNC_Polyhedron cp(static_cast<const NNC_Polyhedron&>(*ph)); src = ref::conv(cp.constraints(), n); } else { C_Polyhedron cp(static_cast<const C_Polyhedron&>(*ph)); src = ref::conv(cp.constraints(), n); }
    name = std::string("Box(") + (nnc ? "NNC_Polyhedron" : "C_Polyhedron") + ")"; cls = CCN[cc]; if (cc == 0) cls += coef_class(src);
    t << name << "{" << o.str() << "}, " << CCN[cc]; tr(t.str());
    R.reset(A.from_polyhedron(*ph, CC)); T = tgt(n, src); best = (CC == ANY_COMPLEXITY); srctxt = show(src);
  } else if (which == 3) { // generator system
    Generator_System gs; std::ostringstream o; Gens G; int k = rnd(0, 4); bool nnc = coin();
    for (int i = 0; i < k; ++i) { Generator g = rgen(n, nnc, i == 0); o << (i ? ", " : "") << str(g); gs.insert(g); G.push_back(ref::conv(g, n)); }
    bool rec = coin(30); name = "Box(Generator_System)";
    t << name << "{" << o.str() << "}" << (rec ? " recycled" : ""); tr(t.str());
    if (k == 0 && n > 0) return false;   // an empty system has space dimension 0
    R.reset(A.from_generators(gs, rec));
    if ((int) R->dim() < n) R->add_space_dimensions_and_project(n - R->dim());
    T = tgt(esys_of_gens(n, G)); best = true; srctxt = o.str();
  } else if (which == 4) { // constraint system (interval constraints)
    Constraint_System cs; Sys src; std::ostringstream o; int k = rnd(0, 4);
    for (int i = 0; i < k; ++i) { Constraint q = (n == 0 || coin(8)) ? Constraint(Linear_Expression(rnd(-1, 2)) >= 0) : itv_con(n, TI.open); o << (i ? ", " : "") << str(q); cs.insert(q); src.push_back(ref::conv(q, n)); }
    bool rec = coin(30); name = "Box(Constraint_System)";
    t << name << "{" << o.str() << "}" << (rec ? " recycled" : ""); tr(t.str());
    R.reset(A.from_constraints(cs, rec));
    if ((int) R->dim() < n) R->add_space_dimensions_and_embed(n - R->dim());
    T = tgt(n, src); best = true; srctxt = show(src);
  } else if (which == 5) { // congruence system (interval equalities)
    Congruence_System cgs; Sys src; std::ostringstream o; int k = rnd(0, 3);
    for (int i = 0; i < k; ++i) { Congruence g = (n == 0 || coin(10)) ? Congruence((Linear_Expression(rnd(0, 1)) %= 0) / (coin() ? 0 : 2)) : Congruence((Coefficient(rnd(1, 3)) * Variable(rnd(0, n - 1)) %= Coefficient(inhom())) / 0); o << (i ? ", " : "") << str(g); cgs.insert(g); if (g.is_equality()) src.push_back(con_of_cg_equality(g, n)); else if (g.is_inconsistent()) { Vec z(n); src.push_back(Con(z, Q(-1), ref::LE)); } }
    bool rec = coin(30); name = "Box(Congruence_System)";
    t << name << "{" << o.str() << "}" << (rec ? " recycled" : ""); tr(t.str());
    R.reset(A.from_congruences(cgs, rec));
    if ((int) R->dim() < n) R->add_space_dimensions_and_embed(n - R->dim());
    T = tgt(n, src); best = true; srctxt = show(src);
  } else if (which == 6) { // grid, built from generators of our own choice, denotation read from the grid itself
    Grid gr(n, EMPTY); std::ostringstream o; int k = rnd(0, 3);
    if (coin(90)) {
      Linear_Expression pe; for (int i = 0; i < n; ++i) if (coin(70)) pe += Coefficient(coin(90) ? mpz_class(rnd(-5, 5)) : big_num()) * Variable(i);
      Coefficient pd = coin(80) ? Coefficient(rnd(1, 3)) : Coefficient(big_den());
      gr.add_grid_generator(grid_point(pe, pd)); o << str(grid_point(pe, pd));
      for (int i = 0; i < k && n > 0; ++i) { Linear_Expression e; for (int j = 0; j < n; ++j) if (coin(45)) e += rnd(-3, 3) * Variable(j); if (e.all_homogeneous_terms_are_zero()) e += Variable(rnd(0, n - 1)); Grid_Generator g = coin(65) ? parameter(e, Coefficient(rnd(1, 3))) : grid_line(e); o << ", " << str(g); gr.add_grid_generator(g); }
    }
    if (coin(20)) (void) gr.minimized_congruences();
    name = "Box(Grid)"; t << name << "{" << o.str() << "}"; tr(t.str());
    Grid gc(gr); bool gempty = gc.is_empty();
    std::vector<Vec> pts, dirs;   // points and free directions
    if (!gempty) { const Grid_Generator_System& ggs = gc.grid_generators();
      for (Grid_Generator_System::const_iterator i = ggs.begin(); i != ggs.end(); ++i) { Vec v(n); Q dv = i->is_line() ? Q(1) : ref::toQ(i->divisor()); for (int j = 0; j < n && j < (int) i->space_dimension(); ++j) v[j] = ref::toQ(i->coefficient(Variable(j))) / dv; if (i->is_point()) pts.push_back(v); else dirs.push_back(v); } }
    R.reset(A.from_grid(gr, CC));
    Shadow RS; if (!observe(*R, RS, name)) return false;
    hx::count("op." + name); checked();
    // per axis: fixed value if no parameter/line moves along it, otherwise unbounded both ways
    if (gempty || pts.empty()) { if (TI.exact && !RS.empty) violation("C04.best.box." + name, "empty grid but box " + show(RS)); }
    else if (RS.empty) violation(key_sound(name, ""), "grid {" + o.str() + "} is not empty but the box is");
    else for (int k2 = 0; k2 < n; ++k2) {
      bool moves = false; for (size_t j = 0; j < dirs.size(); ++j) if (dirs[j][k2] != 0) moves = true;
      const Itv& iv = RS.iv[k2];
      if (moves) { if (!iv.lo.inf || !iv.hi.inf) { violation(key_sound(name, ""), "grid {" + o.str() + "} is unbounded along dimension " + std::to_string(k2) + " but the box has " + show(iv)); break; } }
      else { Q v = pts[0][k2]; if (!member(iv, v)) { violation(key_sound(name, ""), "grid point coordinate " + v.get_str() + " of dimension " + std::to_string(k2) + " outside " + show(iv) + "; grid {" + o.str() + "}"); break; }
        if (TI.exact && !(same_bnd(iv.lo, iv.hi) && !iv.lo.inf && iv.lo.v == v && !iv.lo.open)) { violation("C04.best.box." + name, "dimension " + std::to_string(k2) + " is the constant " + v.get_str() + " on the grid but the box has " + show(iv)); break; } }
    }
    slot = std::move(R); return true;
  } else if (which <= 9) { // BD shapes and octagons over mpq / double / int8
    bool oct = coin(); int ty = rnd(0, 2); Sys src; std::string txt;
    static const char* const TN[3] = { "mpq_class", "double", "int8_t" };
    name = std::string("Box(") + (oct ? "Octagonal_Shape<" : "BD_Shape<") + TN[ty] + ">)"; cls = CCN[cc];
    try {
      if (!oct) { if (ty == 0) { BD_Shape<mpq_class> s(n); build_shape(s, n, false, txt, src); t << name << "{" << txt << "}"; tr(t.str()); R.reset(A.from_bds(s, CC)); }
        else if (ty == 1) { BD_Shape<double> s(n); build_shape(s, n, false, txt, src); t << name << "{" << txt << "}"; tr(t.str()); R.reset(A.from_bds(s, CC)); }
        else { BD_Shape<int8_t> s(n); build_shape(s, n, false, txt, src); t << name << "{" << txt << "}"; tr(t.str()); R.reset(A.from_bds(s, CC)); } }
      else { if (ty == 0) { Octagonal_Shape<mpq_class> s(n); build_shape(s, n, true, txt, src); t << name << "{" << txt << "}"; tr(t.str()); R.reset(A.from_oct(s, CC)); }
        else if (ty == 1) { Octagonal_Shape<double> s(n); build_shape(s, n, true, txt, src); t << name << "{" << txt << "}"; tr(t.str()); R.reset(A.from_oct(s, CC)); }
        else { Octagonal_Shape<int8_t> s(n); build_shape(s, n, true, txt, src); t << name << "{" << txt << "}"; tr(t.str()); R.reset(A.from_oct(s, CC)); } }
    } catch (const std::domain_error&) { hx::inconclusive("source_unobservable"); return false; }
    T = tgt(n, src); best = (ty == 0); srctxt = show(src);   // closure of a shape over an inexact T is itself rounded: best only for mpq sources
  } else { // boxes over another interval type
    bool dbl = (which == 10); Sys src; std::ostringstream o; int k = rnd(0, 4);
    name = dbl ? "Box(Double_Box)" : "Box(Rational_Box)";
    if (dbl) { Double_Box s(n); for (int i = 0; i < k && n > 0; ++i) { Constraint q = itv_con(n, true); o << (i ? ", " : "") << str(q); s.refine_with_constraint(q); } if (coin(10)) s = Double_Box(n, EMPTY); Double_Box cp(s); src = ref::conv(cp.constraints(), n); t << name << "{" << o.str() << "}"; tr(t.str()); R.reset(A.from_box(s, CC)); }
    else { Rational_Box s(n); for (int i = 0; i < k && n > 0; ++i) { Constraint q = itv_con(n, true); o << (i ? ", " : "") << str(q); s.refine_with_constraint(q); } if (coin(10)) s = Rational_Box(n, EMPTY); Rational_Box cp(s); src = ref::conv(cp.constraints(), n); t << name << "{" << o.str() << "}"; tr(t.str()); R.reset(A.from_box(s, CC)); }
    T = tgt(n, src); best = true; srctxt = show(src);
  }
  hx::count("op." + name);
  hx::distinct("ctor|" + INST + "|" + name + "|" + cls + "|" + std::to_string(n));
  if (R->dim() != n) { violation(key_sound(name, "dimension"), "constructed box has dimension " + std::to_string(R->dim()) + " instead of " + std::to_string(n)); return false; }
  Shadow RS; if (!observe(*R, RS, name)) return false;
  std::string ctx = "source " + srctxt;
  if (TI.bits && T.pieces.size() == 1 && T.pieces[0].aux == 0) {
    mpz_class tmax = TI.sgn ? mpz_class(pow2(TI.bits - 1) - 1) : mpz_class(pow2(TI.bits) - 1), tmin = TI.sgn ? mpz_class(-pow2(TI.bits - 1)) : mpz_class(0);
    const Sys& ss = T.pieces[0].s; bool ex = false;
    for (size_t i = 0; i < ss.size(); ++i) { int cnt = 0, kk = -1; for (int j = 0; j < n && j < (int) ss[i].a.size(); ++j) if (ss[i].a[j] != 0) { ++cnt; kk = j; } if (cnt == 1) { Q v = ss[i].b / ss[i].a[kk]; if (v > Q(tmax) || v < Q(tmin)) ex = true; } }
    if (ex) cls += (cls.empty() ? "" : "+") + std::string("source-bound-exceeds-T");
  }
  if (check_sound(key_sound(name, cls), T, RS, ctx) && TI.exact && best) check_best("C04.best.box." + name, T, RS, ctx);
  slot = std::move(R);
  return true;
}

// ---------- C17: wrap_assign / drop_some_non_integer_points on boxes ----------
static mpz_class zfloor(const Q& q) { mpz_class r; mpz_fdiv_q(r.get_mpz_t(), q.get_num_mpz_t(), q.get_den_mpz_t()); return r; }
static mpz_class zceil(const Q& q) { mpz_class r; mpz_cdiv_q(r.get_mpz_t(), q.get_num_mpz_t(), q.get_den_mpz_t()); return r; }
// integer candidates of one interval: all of them when few, otherwise both ends and random ones in between
static void int_candidates(const Itv& i, std::vector<mpz_class>& out, bool& complete, const mpz_class& center) {
  out.clear(); complete = true;
  if (itv_empty(i)) return;
  mpz_class L, U; bool hasL = !i.lo.inf, hasU = !i.hi.inf;
  if (hasL) { L = zceil(i.lo.v); if (i.lo.open && Q(L) == i.lo.v) ++L; }
  if (hasU) { U = zfloor(i.hi.v); if (i.hi.open && Q(U) == i.hi.v) --U; }
  if (!hasL || !hasU) {
    complete = false;
    if (hasL) { for (int d = 0; d < 5; ++d) out.push_back(L + d); out.push_back(L + 1000); }
    else if (hasU) { for (int d = 0; d < 5; ++d) out.push_back(U - d); out.push_back(U - 1000); }
    else for (int d = -3; d <= 3; ++d) out.push_back(center + d);
    return;
  }
  if (L > U) return;
  mpz_class ext = U - L;
  if (ext <= 300) { for (mpz_class z = L; z <= U; ++z) out.push_back(z); return; }
  complete = false;
  for (int d = 0; d < 6; ++d) { out.push_back(L + d); out.push_back(U - d); }
  for (int r = 0; r < 30; ++r) { mpz_class off = ext * rnd(1, 9999) / 10000; out.push_back(L + off); }
}
// member values of an interval for a dimension that is not required to be integral
static void any_candidates(const Itv& i, std::vector<Q>& out) {
  out.clear(); if (itv_empty(i)) return;
  std::vector<Q> cand;
  if (!i.lo.inf && !i.hi.inf) { cand.push_back(i.lo.v); cand.push_back(i.hi.v); cand.push_back((i.lo.v + i.hi.v) / 2); cand.push_back(Q(zfloor((i.lo.v + i.hi.v) / 2))); }
  else if (!i.lo.inf) { cand.push_back(i.lo.v); cand.push_back(i.lo.v + Q(1, 2)); cand.push_back(Q(zceil(i.lo.v) + 1)); }
  else if (!i.hi.inf) { cand.push_back(i.hi.v); cand.push_back(i.hi.v - Q(1, 2)); cand.push_back(Q(zfloor(i.hi.v) - 1)); }
  else { cand.push_back(Q(0)); cand.push_back(Q(1, 2)); }
  for (size_t j = 0; j < cand.size(); ++j) if (member(i, cand[j]) && std::find(out.begin(), out.end(), cand[j]) == out.end()) out.push_back(cand[j]);
}
// Enumerates points of S that are integral on the dimensions in `intdims`; calls f until it returns false.
static unsigned long enumerate_points(const Shadow& S, const std::vector<bool>& intdims, const mpz_class& center, const std::function<bool(const Vec&)>& f) {
  int n = S.n; if (S.empty) return 0;
  std::vector<std::vector<Q> > cand(n);
  for (int k = 0; k < n; ++k) {
    if (intdims[k]) { std::vector<mpz_class> z; bool complete; int_candidates(S.iv[k], z, complete, center); for (size_t j = 0; j < z.size(); ++j) cand[k].push_back(Q(z[j])); if (!complete) hx::count("int_window_sampled"); }
    else any_candidates(S.iv[k], cand[k]);
    if (cand[k].empty()) return 0;
  }
  double total = 1; for (int k = 0; k < n; ++k) total *= cand[k].size();
  unsigned long done = 0; Vec x(n);
  if (total <= 3000) {
    std::vector<size_t> idx(n, 0);
    for (;;) {
      for (int k = 0; k < n; ++k) x[k] = cand[k][idx[k]];
      if (!member(S, x)) { violation("harness.bug.enumerated_point", show(x) + " not in " + show(S)); return done; }
      ++done; if (!f(x)) return done;
      int k = 0; while (k < n) { if (++idx[k] < cand[k].size()) break; idx[k] = 0; ++k; }
      if (k == n) break;
    }
  } else {
    for (int r = 0; r < 2500; ++r) {
      for (int k = 0; k < n; ++k) x[k] = cand[k][hx::rng()() % cand[k].size()];
      if (!member(S, x)) { violation("harness.bug.enumerated_point", show(x) + " not in " + show(S)); return done; }
      ++done; if (!f(x)) return done;
    }
  }
  return done;
}
static bool is_integer(const Q& q) { return q.get_den() == 1; }

// special argument for wrap_assign: small extents astride 0, +-2^(w-1), 2^w, spanning 1-4 quadrants; some unbounded
static BoxI* wrap_argument(const BoxI& proto, int n, int w, bool sgn, std::string& txt) {
  BoxI* X = proto.make(n, false); std::ostringstream o;
  mpz_class M = pow2(w), H = pow2(w - 1);
  for (int k = 0; k < n; ++k) {
    mpz_class centers[9] = { mpz_class(0), H, mpz_class(-H), M, mpz_class(-M), mpz_class(H + M), (sgn ? mpz_class(-H - M) : mpz_class(2 * M)), mpz_class(3 * M), mpz_class(H / 2) };
    mpz_class c = centers[rnd(0, 8)] + rnd(-4, 4);
    int shape = rnd(0, 99);
    mpz_class ext;
    if (shape < 60) ext = rnd(0, 8);
    else if (shape < 72) ext = M + rnd(-3, 3);            // about one full period
    else if (shape < 78) ext = M * rnd(2, 3) + rnd(-2, 2); // several periods
    else if (shape < 84) ext = H + rnd(-3, 3);
    else ext = -1;                                         // unbounded on one or both sides
    bool half = !TI.integer && coin(12), open = TI.open && coin(15);
    if (ext >= 0 || coin()) { Constraint q = half ? Constraint(2 * Variable(k) >= Coefficient(2 * c + 1)) : open ? Constraint(Variable(k) > Coefficient(c - 1)) : Constraint(Variable(k) >= Coefficient(c)); o << str(q) << " "; X->refine_with_constraint(q); }
    if (ext >= 0 || coin()) { mpz_class u = c + (ext >= 0 ? ext : mpz_class(0)); Constraint q = (open && coin()) ? Constraint(Variable(k) < Coefficient(u + 1)) : Constraint(Variable(k) <= Coefficient(u)); o << str(q) << " "; X->refine_with_constraint(q); }
  }
  txt = o.str(); return X;
}

static void integer_ops(StepCtx& c, BP& slot) {
  const int n = c.n;
  int kind = rnd(0, 99);
  if (n == 0) kind = 99;
  if (kind < 70) { // wrap_assign
    static const int WS[4] = { 8, 16, 32, 64 }; int w = WS[rnd(0, 3)]; if (coin(40)) w = 8;
    bool sgn = coin(); int ov = rnd(0, 2);
    if (coin(65)) { std::string txt; slot.reset(wrap_argument(*c.A, n, w, sgn, txt)); c.A = slot.get(); tr(c.pre + " = wrap_argument{" + txt + "}"); if (!observe(*c.A, c.SA, "wrap_argument")) return; c.sA = to_sys(c.SA); c.clsA = shape_class(c.SA); c.stl = status_word(*c.A); }
    const Shadow& SA = c.SA;
    Variables_Set vars; std::vector<bool> wr(n, false); for (int i = 0; i < n; ++i) if (coin(70)) { vars.insert(Variable(i)); wr[i] = true; }
    mpz_class M = pow2(w), lo = sgn ? mpz_class(-pow2(w - 1)) : mpz_class(0), hi = sgn ? mpz_class(pow2(w - 1) - 1) : mpz_class(M - 1);
    // guard: constraints over the space of the wrapped variables
    Constraint_System guard; std::vector<Constraint> gv; bool use_guard = coin(40); int gdim = (int) vars.space_dimension();
    if (use_guard && gdim > 0) { int cnt = rnd(1, 2); for (int i = 0; i < cnt; ++i) {
        int m = rnd(0, 9); Constraint q = Constraint(Linear_Expression(1) >= 0);
        int v = rnd(0, gdim - 1);
        mpz_class b = (coin() ? mpz_class((lo + hi) / 2) : coin() ? lo : hi) + rnd(-20, 20);
        if (m < 7) q = mk_con(Variable(v), rrel(true), Linear_Expression(Coefficient(b)));
        else if (m < 9 && gdim >= 2) q = mk_con(Variable(0) - Variable(1), rrel(true), Linear_Expression(Coefficient(rnd(-5, 5))));
        else q = coin(70) ? Constraint(Linear_Expression(1) >= 0) : Constraint(Linear_Expression(-1) >= 0);
        gv.push_back(q); guard.insert(q); } }
    else use_guard = false;
    static const unsigned THR[4] = { 0, 1, 4, 16 }; unsigned thr = THR[rnd(0, 3)]; bool indiv = coin();
    std::ostringstream t; t << c.pre << ".wrap_assign(" << str(vars) << ", " << w << (sgn ? " signed " : " unsigned ") << (ov == 0 ? "WRAPS" : ov == 1 ? "UNDEFINED" : "IMPOSSIBLE");
    if (use_guard) { t << ", guard{"; for (size_t i = 0; i < gv.size(); ++i) t << (i ? ", " : "") << str(gv[i]); t << "}"; }
    t << ", thr=" << thr << (indiv ? ", individually" : ", collectively") << ")"; tr(t.str());
    hx::count("op.wrap_assign");
    std::string ovn = ov == 0 ? "wraps" : ov == 1 ? "undefined" : "impossible";
    if (nontrivial(c.clsA)) hx::distinct("wrap|" + INST + "|" + std::to_string(w) + (sgn ? "s" : "u") + ovn + (use_guard ? "g" : "") + "|" + c.stl + "|" + c.clsA);
    BP Rb(c.A->clone());
    auto do_wrap = [&](BoxI& X) { X.wrap_assign(vars, (Bounded_Integer_Type_Width) w, sgn ? SIGNED_2_COMPLEMENT : UNSIGNED, ov == 0 ? OVERFLOW_WRAPS : ov == 1 ? OVERFLOW_UNDEFINED : OVERFLOW_IMPOSSIBLE, use_guard ? &guard : 0, thr, indiv); };
    if (TI.fdigits && w == 64 && ov == 0 && !vars.empty()) {
      // known process-killing class under UBSan (1ULL << 64 in the floating point 2exp helpers): probe in a child first
      if (dies_in_child([&]() { BP x(c.A->clone()); do_wrap(*x); })) { checked(); violation("C17.box." + INST + ".wrap_assign.crash:float-boundary+64-bit+wraps", "the call kills the process (sanitizer abort: shift exponent 64); argument " + show(SA)); hx::st().case_tainted = false; return; }
    }
    Rb->wrap_assign(vars, (Bounded_Integer_Type_Width) w, sgn ? SIGNED_2_COMPLEMENT : UNSIGNED, ov == 0 ? OVERFLOW_WRAPS : ov == 1 ? OVERFLOW_UNDEFINED : OVERFLOW_IMPOSSIBLE, use_guard ? &guard : 0, thr, indiv);
    Shadow R; if (!observe(*Rb, R, "wrap_assign")) return;
    Sys GS; for (size_t i = 0; i < gv.size(); ++i) GS.push_back(ref::conv(gv[i], n));
    checked(); hx::count("wrap_checks");
    auto wrapv = [&](const mpz_class& z) { mpz_class u; mpz_fdiv_r_2exp(u.get_mpz_t(), z.get_mpz_t(), w); if (sgn && u >= pow2(w - 1)) u -= M; return u; };
    unsigned long moved = 0;
    // triage class = first matching root-cause predicate on the failing dimension (deterministic)
    auto classify = [&](const Vec& p, const Vec& q) {
      int kf = -1; for (int k = 0; k < n; ++k) if (R.empty || !member(R.iv[k], q[k])) { kf = k; break; }
      std::string cls = ovn;
      if (kf < 0) return cls;
      const Itv& a = SA.iv[kf];
      bool g = false; for (size_t i = 0; i < gv.size(); ++i) if ((int) gv[i].space_dimension() > kf && gv[i].coefficient(Variable(kf)) != 0) g = true;
      if (!wr[kf]) return cls + "+unwrapped-dim" + (g ? "+guard" : "");
      bool unb = a.lo.inf || a.hi.inf;
      if (ov == 0 && !unb && a.hi.v - a.lo.v == Q(M)) return cls + "+extent=period";
      if (ov == 1 && TI.bits) { mpz_class tmax = TI.sgn ? mpz_class(pow2(TI.bits - 1) - 1) : mpz_class(pow2(TI.bits) - 1), tmin = TI.sgn ? mpz_class(-pow2(TI.bits - 1)) : mpz_class(0); if (hi + 1 > tmax || lo < tmin) return cls + "+quadrant-unrepresentable-in-T"; }
      if (ov == 1 && !TI.open && p[kf] == Q(hi + 1)) return cls + "+closed-ITV+point-at-quadrant-sup";
      if (unb) cls += "+unbounded";
      else { Q e = a.hi.v - a.lo.v; cls += e < Q(M) - 1 ? "+extent<period" : e < Q(M) ? "+extent=period-1" : "+extent>period";
        mpz_class ql = zfloor((a.lo.v - Q(lo)) / Q(M)), qh = zfloor((a.hi.v - Q(lo)) / Q(M)); cls += ql == qh ? "+1quadrant" : qh - ql == 1 ? "+2quadrants" : "+3+quadrants"; }
      if (g) cls += "+guard";
      return cls;
    };
    unsigned long pts = enumerate_points(SA, wr, (lo + hi) / 2, [&](const Vec& p) {
      std::vector<Vec> must;
      bool inr = true; for (int k = 0; k < n; ++k) if (wr[k] && (p[k] < Q(lo) || p[k] > Q(hi))) inr = false;
      if (ov == 0) { Vec q = p; for (int k = 0; k < n; ++k) if (wr[k]) q[k] = Q(wrapv(p[k].get_num())); if (q != p) ++moved; must.push_back(q); }
      else if (ov == 1) {
        if (inr) must.push_back(p);
        else { mpz_class cand[6] = { lo, hi, mpz_class(0), mpz_class(1), mpz_class(lo + (hi - lo) / 3), mpz_class(hi - 5) };
          for (int ci = 0; ci < 6; ++ci) { if (cand[ci] < lo || cand[ci] > hi) continue; Vec q = p; for (int k = 0; k < n; ++k) if (wr[k] && (p[k] < Q(lo) || p[k] > Q(hi))) q[k] = Q(cand[ci]); must.push_back(q); } }
      } else { if (inr) must.push_back(p); }
      for (size_t j = 0; j < must.size(); ++j) {
        const Vec& q = must[j];
        if (use_guard && !ref::sat(GS, q)) continue;
        if (!member(R, q)) {
          std::string cls = classify(p, q);
          violation("C17.box." + INST + ".wrap_assign.lost_point:" + cls, "integer point " + show(p) + " of the argument " + show(SA) + " requires " + show(q) + " in the result, but the result is " + show(R));
          return false;
        }
      }
      return true;
    });
    hx::count("int_points_checked", pts); hx::count("int_points_moved_by_wrap", moved);
    return;
  }
  if (kind < 88) { // drop_some_non_integer_points
    const Shadow& SA = c.SA;
    Variables_Set vs; bool all = coin(); std::vector<bool> des(n, all); if (!all) for (int i = 0; i < n; ++i) if (coin()) { vs.insert(Variable(i)); des[i] = true; }
    Complexity_Class cc = (Complexity_Class) rnd(0, 2);
    tr(c.pre + ".tmp.drop_some_non_integer_points(" + (all ? std::string("all") : str(vs)) + ")"); hx::count("op.drop_some_non_integer_points");
    if (nontrivial(c.clsA)) hx::distinct("drop|" + INST + "|" + (all ? "all" : "set") + "|" + c.stl + "|" + c.clsA);
    BP Rb(c.A->clone());
    if (all) Rb->drop_some_non_integer_points(cc); else Rb->drop_some_non_integer_points(vs, cc);
    Shadow R; if (!observe(*Rb, R, "drop_some_non_integer_points")) return;
    std::string ctx = "argument " + show(SA);
    std::string dcls;
    if (TI.fdigits && !SA.empty) for (int k = 0; k < n; ++k) if (des[k]) { const Itv& a = SA.iv[k]; Q lim(pow2(TI.fdigits)); if ((!a.lo.inf && a.lo.open && abs(a.lo.v) >= lim) || (!a.hi.inf && a.hi.open && abs(a.hi.v) >= lim)) dcls = ":open-bound-beyond-mantissa"; }
    if (!check_sound("C17.box." + INST + ".drop_some_non_integer_points.not_subset" + dcls, tgt(n, to_sys(R)), SA, "result " + show(R) + " must be contained in the " + ctx)) return;
    checked();
    unsigned long pts = enumerate_points(SA, des, mpz_class(0), [&](const Vec& p) {
      if (!member(R, p)) { int kf = 0; for (int k = 0; k < n; ++k) if (R.empty || !member(R.iv[k], p[k])) { kf = k; break; }
        std::string cls = des[kf] ? "designated-dim" : "other-dim";
        violation("C17.box." + INST + ".drop_some_non_integer_points.lost_integer_point:" + cls, "point " + show(p) + " (integral on the designated dimensions) of the " + ctx + " is missing from the result " + show(R)); return false; }
      return true; });
    hx::count("int_points_checked", pts);
    return;
  }
  { // contains_integer_point (also reachable from run_queries)
    const Shadow& SA = c.SA; bool ne = !SA.empty;
    tr(c.pre + ".contains_integer_point()");
    bool cip = c.A->contains_integer_point(); bool truth = ne; if (ne) for (int k = 0; k < n; ++k) if (!has_int(SA.iv[k])) truth = false;
    checked(); hx::count("q.contains_integer_point");
    if (cip != truth) { std::string cls = !ne ? "empty-receiver" : cip ? "true-but-none" : "false-but-exists"; violation("C17.box." + INST + ".contains_integer_point.wrong:" + cls, std::string("PPL ") + (cip ? "true" : "false") + "; receiver " + show(SA) + "; status " + c.stl); }
  }
}

// ---------- a random initial box ----------
static BoxI* random_box(const BoxI& proto, int n, std::string& txt) {
  std::ostringstream o; BoxI* X = 0; int how = rnd(0, 99);
  if (how < 50 || (n == 0 && how < 80)) {
    X = proto.make(n, false); int k = n == 0 ? rnd(0, 1) : rnd(0, 2 * n);
    for (int i = 0; i < k; ++i) { Constraint q = n == 0 ? Constraint(Linear_Expression(rnd(-1, 1)) >= 0) : itv_con(n, TI.open); o << (i ? ", " : "") << str(q); if (coin()) X->add_constraint(q); else X->refine_with_constraint(q); }
  } else if (how < 65) {
    Generator_System gs; int k = rnd(1, 3); bool nnc = TI.open && coin();
    for (int i = 0; i < k; ++i) { Generator g = rgen(n, nnc, i == 0); o << (i ? ", " : "") << str(g); gs.insert(g); }
    X = proto.from_generators(gs, false); if (X->dim() < n) X->add_space_dimensions_and_project(n - X->dim());
    txt = "gens{" + o.str() + "}"; return X;
  } else if (how < 72) { X = proto.make(n, true); o << "EMPTY"; }
  else if (how < 80) { // empty, not marked
    X = proto.make(n, false); int v = rnd(0, n - 1);
    if (TI.open && coin()) { X->add_constraint(Variable(v) > 2); X->add_constraint(Variable(v) <= 2); o << "x>2,x<=2"; }
    else { X->add_constraint(Variable(v) >= 3); X->add_constraint(Variable(v) <= 2); o << "x>=3,x<=2"; }
  } else { // bounded box near the limits of the boundary type
    X = proto.make(n, false);
    for (int k = 0; k < n; ++k) { mpz_class lo = coin(60) ? mpz_class(rnd(-8, 8)) : big_num(); mpz_class ext = rnd(0, 9); mpz_class d = coin(75) ? mpz_class(1) : big_den();
      Constraint q1 = Coefficient(d) * Variable(k) >= Coefficient(lo), q2 = Coefficient(d) * Variable(k) <= Coefficient(lo + ext); o << str(q1) << ", " << str(q2) << "; "; X->refine_with_constraint(q1); X->refine_with_constraint(q2); }
  }
  txt = "{" + o.str() + "}"; return X;
}

static void run_case(uint64_t) {
  const std::string profile = hx::opt().profile; g_profile = profile;
  std::vector<Entry>& tab = table();
  std::string want = hx::opt().gets("inst", "all");
  E = 0;
  if (want == "all") E = &tab[(size_t) (hx::st().cur_case % (long) tab.size())];
  else for (size_t i = 0; i < tab.size(); ++i) if (tab[i].inst == want) E = &tab[i];
  if (!E) { fprintf(stderr, "unknown --kv inst=%s\n", want.c_str()); exit(2); }
  TI = E->ti; INST = E->inst;
  hx::count("inst." + INST);
  int dk = rnd(0, 99); int n = dk < 5 ? 0 : dk < 30 ? 1 : dk < 68 ? 2 : 3;
  if (g_maxdim >= 4 && dk >= 92) n = 4;
  if (profile == "wrap" && n == 0) n = 1;
  if (profile == "prop") n = coin(70) ? 3 : 4;   // the propagation case analysis needs at least three variables
  const int NP = 3;
  std::vector<BP> pool(NP);
  BP proto(E->make(0, false));
  {
    std::ostringstream o; o << INST << " n=" << n << " init:";
    for (int i = 0; i < NP; ++i) { std::string txt; pool[i].reset(random_box(*proto, n, txt)); o << " #" << i << "=" << txt; }
    tr(o.str());
    for (int i = 0; i < NP; ++i) { Shadow S0; if (!observe(*pool[i], S0, hx::trace().find("#" + std::to_string(i) + "=gens") != std::string::npos ? "Box(Generator_System)" : "init")) return; }
  }
  int steps = rnd(4, 12);
  for (int stp = 0; stp < steps && !hx::st().case_tainted; ++stp) {
    hx::count("steps");
    int ai = rnd(0, NP - 1), bi = rnd(0, NP - 1);
    StepCtx c; c.A = pool[ai].get(); c.B = pool[bi].get(); c.n = n; c.ai = ai; c.bi = bi;
    std::ostringstream pre; pre << " | #" << ai; c.pre = pre.str();
    std::string last = "observe";
    try {
      Weight_Guard wg(200000000ULL);
      struct Note { Weight_Guard& g; ~Note() { note_weight("step", g.used()); } } note = { wg };
      c.stl = status_word(*c.A); hx::count("status." + c.stl);
      if (!observe(*c.A, c.SA, "pre") || !observe(*c.B, c.SB, "pre")) return;
      c.sA = to_sys(c.SA); c.sB = to_sys(c.SB); c.clsA = shape_class(c.SA); c.clsB = shape_class(c.SB);
      int w_mut = 58, w_query = 16, w_conv = 10, w_dims = 7, w_int = 5, w_twin = 4;
      if (profile == "conv") { w_mut = 25; w_query = 8; w_conv = 50; w_dims = 10; w_int = 5; w_twin = 2; }
      else if (profile == "pred") { w_mut = 30; w_query = 42; w_conv = 5; w_dims = 5; w_int = 3; w_twin = 15; }
      else if (profile == "wrap") { w_mut = 25; w_query = 8; w_conv = 4; w_dims = 3; w_int = 60; w_twin = 0; }
      else if (profile == "prop") { w_mut = 100; w_query = 0; w_conv = 0; w_dims = 0; w_int = 0; w_twin = 0; }
      if (!TI.exact) { w_query += w_twin; w_twin = 0; }
      int kind = rnd(0, 99);
      auto do_step = [&]() {
        int kd = kind;
        if (kd < w_mut) { last = "mutator"; mutate(c); }
        else if ((kd -= w_mut) < w_query) { last = "query"; run_queries(c); }
        else if ((kd -= w_query) < w_conv) { last = "constructor"; construct(c, pool[ai]); }
        else if ((kd -= w_conv) < w_dims) { last = "dims"; dims_op(c); }
        else if ((kd -= w_dims) < w_int) { last = "integer"; integer_ops(c, pool[ai]); }
        else { last = "twin"; twin_check(c); }
      };
      // 64-bit native boundaries: overflowing temporaries reach PPL_UNREACHABLE (a call through a null pointer in this
      // build) in several operators; every step is first tried in a child so that the worker survives and the defect is keyed.
      if (TI.bits == 64 && !(kind >= w_mut && kind < w_mut + w_query)) {
        std::string rep;
        if (child_dies(do_step, rep)) {
          std::string opn = last_op_of(rep); checked();
          bool c17 = opn.find("wrap_assign") != std::string::npos || opn.find("drop_some") != std::string::npos;
          violation((c17 ? "C17.box." + INST + "." + opn + ".crash:" : "C03.crash." + INST + "." + opn + ":") + death_kind(rep), "the step kills the process; receiver " + show(c.SA) + " argument " + show(c.SB) + "; last lines: " + (rep.size() > 600 ? rep.substr(rep.size() - 600) : rep));
          hx::st().case_tainted = false;   // nothing was executed in this process
          continue;
        }
      }
      do_step();
    } catch (const Logical_Timeout&) {
      std::string t = hx::trace(); size_t p = t.rfind(" | #"); std::string lastop = p == std::string::npos ? t : t.substr(p + 3); size_t a = lastop.find('.'), b = lastop.find('(');
      std::string opn = (a != std::string::npos && b != std::string::npos && b > a) ? lastop.substr(a + 1, b - a - 1) : last;
      violation("C03.hang." + INST + "." + opn, "logical-time budget (weight 2e8) exceeded");
      return;
    } catch (const std::exception& e) {
      std::string t = hx::trace(); size_t p = t.rfind(" | #"); std::string lastop = p == std::string::npos ? t : t.substr(p + 3);
      std::string opn; size_t eqp = lastop.find(" = ");
      if (eqp != std::string::npos && eqp < 6) { size_t b = lastop.find_first_of("{,", eqp); opn = lastop.substr(eqp + 3, b == std::string::npos ? std::string::npos : b - eqp - 3); if (lastop.find("POLYNOMIAL") != std::string::npos) opn += "+POLYNOMIAL"; else if (lastop.find("SIMPLEX") != std::string::npos) opn += "+SIMPLEX"; }
      else { size_t a = lastop.find('.'), b = lastop.find('(', a == std::string::npos ? 0 : a); opn = (a != std::string::npos && b != std::string::npos && b > a) ? lastop.substr(a + 1, b - a - 1) : last; }
      while (!opn.empty() && opn[0] == ' ') opn.erase(0, 1);
      if (opn.compare(0, 4, "tmp.") == 0) opn = opn.substr(4);
      std::string prop = (opn.find("wrap_assign") != std::string::npos || opn.find("drop_some") != std::string::npos || opn.find("contains_integer") != std::string::npos) ? "C17.box." + INST + "." + opn + ".unexpected_exception:" : "C03.unexpected_exception." + INST + "." + opn + ":";
      violation(prop + typeid(e).name(), e.what());
      return;
    }
  }
}

int main(int argc, char** argv) {
  return hx::main_loop(argc, argv, [&](uint64_t s) {
      static bool sorted = false;
      if (!sorted) { std::sort(table().begin(), table().end(), [](const Entry& a, const Entry& b) { return a.order < b.order; }); sorted = true; }
      g_maxdim = hx::opt().thorough ? 4 : 3; run_case(s); },
    []() { hx::count("lp_solves", ref::lp_counters().solves); hx::count("lp_pivots", ref::lp_counters().pivots); });
}
