// boxseq: instantiation of the box adapter for Parma_Polyhedra_Library::Float_Box (see boxseq.hh).
#include "boxseq.hh"
BOXSEQ_REGISTER(float, 8, Parma_Polyhedra_Library::Float_Box)
