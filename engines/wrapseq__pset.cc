// wrapseq: instantiation of the domain adapter for wrapseq::PSet_C (see wrapseq.hh).
#include "wrapseq.hh"
WRAPSEQ_REGISTER(pset, wrapseq::PSet_C)
