// psetseq, instantiation for grid (see psetseq.hh)
#include "psetseq.hh"
void psq::run_grid() { psq::Engine<psq::DomGrid>::run_case(); }
