// prodseq, pair (C_Polyhedron, BD_Shape<mpq_class>): the five reduction policies of this pair.
#include "prodseq.hh"
namespace prodseq {
IFactory* factory_cpoly_bds(int red) { return pair_factory<C_Polyhedron, BD_Shape<mpq_class> >("cpoly_bds", red); }
}
