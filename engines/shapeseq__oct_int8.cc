// shapeseq: instantiation of the shape adapter for Octagonal_Shape<int8_t> (see shapeseq.hh).
#include "shapeseq.hh"
SHAPESEQ_REGISTER(oct_int8, Parma_Polyhedra_Library::Octagonal_Shape<int8_t>)
