// widenchain — Pointset_Powerset<C_Polyhedron>
#include "wc_pps.hh"
namespace wc { void run_pps_case_c() { PpsChain<C_Polyhedron> c; c.run(); } }
