// cfgdiff: operation scripts on C / NNC polyhedra (see cfgdiff.cc).
#include "cfgdiff.hh"

namespace cfg {

template <typename PH>
struct Poly_Script : public Script {
  static const int NP = 3;
  bool nnc; int n;
  std::unique_ptr<PH> pool[NP]; bool fresh[NP];

  explicit Poly_Script(bool nnc_) : nnc(nnc_) { n = rnd(1, G().maxdim); reset(); }
  const char* domain() const { return nnc ? "nnc" : "cpoly"; }
  void reset() { for (int i = 0; i < NP; ++i) { pool[i].reset(); pool[i].reset(new PH(n, UNIVERSE)); fresh[i] = true; } }

  std::vector<RawCon> raw_cs(int lo, int hi, bool strict_ok, std::string& text) {
    std::vector<RawCon> v; int k = rnd(lo, hi);
    for (int i = 0; i < k; ++i) { v.push_back(raw_con(n, strict_ok)); text += (i ? ", " : "") + show(v.back()); }
    return v;
  }
  Generator raw_gen(int kind /*0 point 1 closure 2 ray 3 line*/, std::string& text) {
    std::vector<long> a = raw_vec(n, 30);
    if (kind >= 2) { bool z = true; for (int i = 0; i < n; ++i) if (a[i]) z = false; if (z) a[rnd(0, n - 1)] = rc_small_nz(); }
    long d = coin(65) ? 1 : (long) rnd(1, (int) G().small + 1);
    if (kind == 0 && coin(4)) d = -d;   // point() accepts a negative divisor and normalizes
    static const char* const nm[4] = { "point", "closure_point", "ray", "line" };
    text += std::string(nm[kind]) + "(" + show(a, 0) + (kind < 2 ? "," + std::to_string(d) : "") + ")";
    Linear_Expression e = le(a, 0, n);
    switch (kind) { case 0: return point(e, Coefficient(d)); case 1: return closure_point(e, Coefficient(d)); case 2: return ray(e); default: return line(e); }
  }
  int gen_kind() { int k = rnd(0, 9); return k < 5 ? 0 : k < 7 ? 2 : k < 8 ? 3 : (nnc ? 1 : 0); }
  int rel_index() { if (nnc) return rnd(0, 4); return 1 + rnd(0, 2); }
  Variables_Set rand_vars(std::string& text, int avoid = -1) {
    Variables_Set vs;
    for (int i = 0; i < n; ++i) if (i != avoid && coin(45)) { vs.insert(Variable(i)); text += (char) ('A' + i); }
    if (vs.empty()) { int i = rnd(0, n - 1); if (i == avoid) i = (i + 1) % n; if (i != avoid) { vs.insert(Variable(i)); text += (char) ('A' + i); } }
    return vs;
  }

  enum Op { BUILD_CS, BUILD_GS, ADD_CON, ADD_CONS, REFINE_CON, ADD_GEN, REFINE_CG, MEET, HULL, DIFF, TIME_ELAPSE, POS_TIME_ELAPSE,
            AFF_IMG, AFF_PRE, GEN_IMG, GEN_PRE, GEN_IMG_LR, GEN_PRE_LR, BND_IMG, BND_PRE, WIDEN_H79, WIDEN_BHRZ03, LIM_H79, LIM_BHRZ03, BND_H79,
            SIMPLIFY, TOPCLOSE, UNCONSTRAIN, DIMS, QUERY_REL, QUERY_OPT, QUERY_PRED, QUERY_BIN, MINIMIZE, COPYOPS, DROP_NONINT, WRAP, CONGRUENCES, NOPS };

  int pick() {
    static const int W[NOPS] = { 6, 4, 8, 5, 3, 5, 2, 7, 7, 4, 3, 2,
                                 8, 6, 4, 3, 3, 2, 3, 2, 3, 3, 2, 2, 1,
                                 2, 1, 2, 6, 4, 5, 3, 4, 4, 2, 2, 1, 2 };
    int tot = 0; for (int i = 0; i < NOPS; ++i) tot += W[i];
    int k = rnd(0, tot - 1);
    for (int i = 0; i < NOPS; ++i) { if (k < W[i]) return i; k -= W[i]; }
    return 0;
  }

  void step(Step_Context& ctx, Items& out) {
    int ai = rnd(0, NP - 1), bi = rnd(0, NP - 1); if (bi == ai) bi = (ai + 1) % NP;
    int op = pick(); if (fresh[ai]) op = coin(60) ? BUILD_CS : BUILD_GS;
    PH& A = *pool[ai]; PH& B = *pool[bi];
    std::string ra = "#" + std::to_string(ai), rb = "#" + std::to_string(bi), t;
    switch (op) {
    case BUILD_CS: { std::vector<RawCon> v = raw_cs(1, n + 2, nnc, t); ctx.begin("build_cs", ra + "=PH{" + t + "}"); fresh[ai] = false; pool[ai].reset(new PH(cons(v, n))); out.push_back(obs_poly(*pool[ai])); break; }
    case BUILD_GS: {
      // argument drawing and object construction are interleaved, so the operation is announced first
      ctx.begin("build_gs", ra + "=PH(gs)"); fresh[ai] = false;
      Generator_System gs; int np = rnd(1, 3), nr = rnd(0, 2);
      gs.insert(raw_gen(0, t)); for (int i = 1; i < np; ++i) { t += ","; gs.insert(raw_gen(nnc && coin(30) ? 1 : 0, t)); }
      for (int i = 0; i < nr; ++i) { t += ","; gs.insert(raw_gen(coin(70) ? 2 : 3, t)); }
      hx::tr("{" + t + "}");
      pool[ai].reset(new PH(gs)); out.push_back(obs_poly(*pool[ai])); break; }
    case ADD_CON: { RawCon c = raw_con(n, nnc); ctx.begin("add_constraint", ra + ".add_constraint(" + show(c) + ")"); A.add_constraint(con(c, n)); out.push_back(obs_poly(A)); break; }
    case ADD_CONS: { std::vector<RawCon> v = raw_cs(2, 3, nnc, t); ctx.begin("add_constraints", ra + ".add_constraints{" + t + "}"); A.add_constraints(cons(v, n)); out.push_back(obs_poly(A)); break; }
    case REFINE_CON: { RawCon c = raw_con(n, true); ctx.begin("refine_with_constraint", ra + ".refine_with_constraint(" + show(c) + ")"); A.refine_with_constraint(con(c, n)); out.push_back(obs_poly(A)); break; }
    case ADD_GEN: { ctx.begin("add_generator", ra + ".add_generator"); Generator g = raw_gen(gen_kind(), t); hx::tr("(" + t + ")"); A.add_generator(g); out.push_back(obs_poly(A)); break; }
    case REFINE_CG: { std::vector<long> a = raw_vec(n); long b = rc(); long m = coin(60) ? 0 : (long) rnd(1, (int) G().small + 1);
      ctx.begin("refine_with_congruence", ra + ".refine_with_congruence(" + show(a, b) + " =0 mod " + std::to_string(m) + ")");
      A.refine_with_congruence((le(a, b, n) %= 0) / Coefficient(m)); out.push_back(obs_poly(A)); break; }
    case MEET: ctx.begin("intersection_assign", ra + ".intersection_assign(" + rb + ")"); A.intersection_assign(B); out.push_back(obs_poly(A)); break;
    case HULL: ctx.begin("upper_bound_assign", ra + ".upper_bound_assign(" + rb + ")"); A.upper_bound_assign(B); out.push_back(obs_poly(A)); break;
    case DIFF: ctx.begin("difference_assign", ra + ".difference_assign(" + rb + ")"); A.difference_assign(B); out.push_back(obs_poly(A)); break;
    case TIME_ELAPSE: ctx.begin("time_elapse_assign", ra + ".time_elapse_assign(" + rb + ")"); A.time_elapse_assign(B); out.push_back(obs_poly(A)); break;
    case POS_TIME_ELAPSE: ctx.begin("positive_time_elapse_assign", ra + ".positive_time_elapse_assign(" + rb + ")"); A.positive_time_elapse_assign(B); out.push_back(obs_poly(A)); break;
    case AFF_IMG: case AFF_PRE: {
      int k = rnd(0, n - 1); std::vector<long> a = raw_vec(n, 30); long b = rc(); long d = coin(70) ? rc_small_nz() : rc_nz();
      const char* nm = op == AFF_IMG ? "affine_image" : "affine_preimage";
      ctx.begin(nm, ra + "." + nm + "(" + (char) ('A' + k) + ", " + show(a, b) + ", " + std::to_string(d) + ")");
      if (op == AFF_IMG) A.affine_image(Variable(k), le(a, b, n), Coefficient(d)); else A.affine_preimage(Variable(k), le(a, b, n), Coefficient(d));
      out.push_back(obs_poly(A)); break; }
    case GEN_IMG: case GEN_PRE: {
      int k = rnd(0, n - 1); int r = rel_index(); std::vector<long> a = raw_vec(n, 30); long b = rc(); long d = coin(70) ? rc_small_nz() : rc_nz();
      const char* nm = op == GEN_IMG ? "generalized_affine_image" : "generalized_affine_preimage";
      ctx.begin(nm, ra + "." + nm + "(" + (char) ('A' + k) + " " + RELSS[r] + " (" + show(a, b) + ")/" + std::to_string(d) + ")");
      if (op == GEN_IMG) A.generalized_affine_image(Variable(k), RELS[r], le(a, b, n), Coefficient(d)); else A.generalized_affine_preimage(Variable(k), RELS[r], le(a, b, n), Coefficient(d));
      out.push_back(obs_poly(A)); break; }
    case GEN_IMG_LR: case GEN_PRE_LR: {
      int r = rel_index(); std::vector<long> l = raw_vec(n, 50), a = raw_vec(n, 30); long lb = rc(), b = rc();
      const char* nm = op == GEN_IMG_LR ? "generalized_affine_image_lr" : "generalized_affine_preimage_lr";
      ctx.begin(nm, ra + "." + nm + "(" + show(l, lb) + " " + RELSS[r] + " " + show(a, b) + ")");
      if (op == GEN_IMG_LR) A.generalized_affine_image(le(l, lb, n), RELS[r], le(a, b, n)); else A.generalized_affine_preimage(le(l, lb, n), RELS[r], le(a, b, n));
      out.push_back(obs_poly(A)); break; }
    case BND_IMG: case BND_PRE: {
      int k = rnd(0, n - 1); std::vector<long> l = raw_vec(n, 40), u = raw_vec(n, 40); long lb = rc(), ub = rc(); long d = coin(70) ? rc_small_nz() : rc_nz();
      const char* nm = op == BND_IMG ? "bounded_affine_image" : "bounded_affine_preimage";
      ctx.begin(nm, ra + "." + nm + "(" + (char) ('A' + k) + ", " + show(l, lb) + ", " + show(u, ub) + ", " + std::to_string(d) + ")");
      if (op == BND_IMG) A.bounded_affine_image(Variable(k), le(l, lb, n), le(u, ub, n), Coefficient(d)); else A.bounded_affine_preimage(Variable(k), le(l, lb, n), le(u, ub, n), Coefficient(d));
      out.push_back(obs_poly(A)); break; }
    case WIDEN_H79: case WIDEN_BHRZ03: {
      unsigned tokens = rnd(0, 1); bool use_tp = coin(30);
      const char* nm = op == WIDEN_H79 ? "H79_widening_assign" : "BHRZ03_widening_assign";
      ctx.begin(nm, ra + ".upper_bound_assign(" + rb + ");" + ra + "." + nm + "(" + rb + (use_tp ? ", tp=" + std::to_string(tokens) : "") + ")");
      A.upper_bound_assign(B);
      if (op == WIDEN_H79) A.H79_widening_assign(B, use_tp ? &tokens : 0); else A.BHRZ03_widening_assign(B, use_tp ? &tokens : 0);
      out.push_back(obs_poly(A)); if (use_tp) out.push_back(val("tokens", ZZ(tokens))); break; }
    case LIM_H79: case LIM_BHRZ03: case BND_H79: {
      std::vector<RawCon> v = raw_cs(1, 3, nnc, t);
      const char* nm = op == LIM_H79 ? "limited_H79_extrapolation_assign" : op == LIM_BHRZ03 ? "limited_BHRZ03_extrapolation_assign" : "bounded_H79_extrapolation_assign";
      ctx.begin(nm, ra + ".upper_bound_assign(" + rb + ");" + ra + "." + nm + "(" + rb + ", {" + t + "})");
      A.upper_bound_assign(B); Constraint_System cs = cons(v, n);
      if (op == LIM_H79) A.limited_H79_extrapolation_assign(B, cs); else if (op == LIM_BHRZ03) A.limited_BHRZ03_extrapolation_assign(B, cs); else A.bounded_H79_extrapolation_assign(B, cs);
      out.push_back(obs_poly(A)); break; }
    case SIMPLIFY: { ctx.begin("simplify_using_context_assign", ra + ".simplify_using_context_assign(" + rb + ")"); bool r = A.simplify_using_context_assign(B); out.push_back(val("nonempty_meet", r)); out.push_back(obs_poly(A)); break; }
    case TOPCLOSE: ctx.begin("topological_closure_assign", ra + ".topological_closure_assign()"); A.topological_closure_assign(); out.push_back(obs_poly(A)); break;
    case UNCONSTRAIN: { Variables_Set vs = rand_vars(t); ctx.begin("unconstrain", ra + ".unconstrain{" + t + "}"); if (vs.size() == 1 && coin()) A.unconstrain(Variable(*vs.begin())); else A.unconstrain(vs); out.push_back(obs_poly(A)); break; }
    case DIMS: {
      int k = rnd(0, 7); if (n < 2 && k == 5) k = 0;
      PH T(A);
      switch (k) {
      case 0: { int m = rnd(1, 2); ctx.begin("add_space_dimensions_and_embed", "copy(" + ra + ").add_space_dimensions_and_embed(" + std::to_string(m) + ")"); T.add_space_dimensions_and_embed(m); break; }
      case 1: { int m = rnd(1, 2); ctx.begin("add_space_dimensions_and_project", "copy(" + ra + ").add_space_dimensions_and_project(" + std::to_string(m) + ")"); T.add_space_dimensions_and_project(m); break; }
      case 2: { Variables_Set vs = rand_vars(t); ctx.begin("remove_space_dimensions", "copy(" + ra + ").remove_space_dimensions{" + t + "}"); T.remove_space_dimensions(vs); break; }
      case 3: { int m = rnd(0, n); ctx.begin("remove_higher_space_dimensions", "copy(" + ra + ").remove_higher_space_dimensions(" + std::to_string(m) + ")"); T.remove_higher_space_dimensions(m); break; }
      case 4: { Partial_Map pm = rand_map(n, t); ctx.begin("map_space_dimensions", "copy(" + ra + ").map_space_dimensions{" + t + "}"); T.map_space_dimensions(pm); break; }
      case 5: { int d = rnd(0, n - 1); Variables_Set vs = rand_vars(t, d); ctx.begin("fold_space_dimensions", "copy(" + ra + ").fold_space_dimensions({" + t + "}, " + (char) ('A' + d) + ")"); T.fold_space_dimensions(vs, Variable(d)); break; }
      case 6: { int v = rnd(0, n - 1), m = rnd(1, 2); ctx.begin("expand_space_dimension", "copy(" + ra + ").expand_space_dimension(" + (char) ('A' + v) + ", " + std::to_string(m) + ")"); T.expand_space_dimension(Variable(v), m); break; }
      default: ctx.begin("concatenate_assign", "copy(" + ra + ").concatenate_assign(" + rb + ")"); T.concatenate_assign(B); break;
      }
      out.push_back(obs_poly(T)); break; }
    case QUERY_REL: {
      int k = rnd(0, 2);
      if (k == 0) { RawCon c = raw_con(n, true); ctx.begin("relation_with_constraint", ra + ".relation_with(" + show(c) + ")"); out.push_back(val("rel", pplx::str(A.relation_with(con(c, n))))); }
      else if (k == 1) { ctx.begin("relation_with_generator", ra + ".relation_with"); Generator g = raw_gen(gen_kind(), t); hx::tr("(" + t + ")"); out.push_back(val("rel", pplx::str(A.relation_with(g)))); }
      else { std::vector<long> a = raw_vec(n); long b = rc(); long m = coin(40) ? 0 : (long) rnd(1, (int) G().small + 1);
        ctx.begin("relation_with_congruence", ra + ".relation_with(" + show(a, b) + " =0 mod " + std::to_string(m) + ")"); out.push_back(val("rel", pplx::str(A.relation_with((le(a, b, n) %= 0) / Coefficient(m))))); }
      break; }
    case QUERY_OPT: {
      std::vector<long> a = raw_vec(n, 30); long b = rc(); bool mx = coin();
      ctx.begin(mx ? "maximize" : "minimize", ra + (mx ? ".maximize(" : ".minimize(") + show(a, b) + ")");
      Linear_Expression e = le(a, b, n); Coefficient sn, sd; bool att = false; Generator g = point();
      bool r = coin() ? (mx ? A.maximize(e, sn, sd, att, g) : A.minimize(e, sn, sd, att, g)) : (mx ? A.maximize(e, sn, sd, att) : A.minimize(e, sn, sd, att));
      out.push_back(val("bounded", r)); if (r) { out.push_back(val("opt", frac(toZ(sn), toZ(sd)))); out.push_back(val("attained", att)); }
      out.push_back(val("bounds_from_above", A.bounds_from_above(e))); out.push_back(val("bounds_from_below", A.bounds_from_below(e)));
      Coefficient fn, fd, vn, vd; bool fr = A.frequency(e, fn, fd, vn, vd); out.push_back(val("frequency", fr)); if (fr) out.push_back(val("freq", frac(toZ(fn), toZ(fd)) + " at " + frac(toZ(vn), toZ(vd))));
      break; }
    case QUERY_PRED: {
      ctx.begin("predicates", ra + ".predicates()");
      out.push_back(val("is_empty", A.is_empty())); out.push_back(val("is_universe", A.is_universe())); out.push_back(val("is_bounded", A.is_bounded()));
      out.push_back(val("is_topologically_closed", A.is_topologically_closed())); out.push_back(val("is_discrete", A.is_discrete()));
      out.push_back(val("affine_dimension", ZZ((unsigned long) A.affine_dimension()))); int v = rnd(0, n - 1); out.push_back(val("constrains", A.constrains(Variable(v))));
      if (coin(40)) out.push_back(val("contains_integer_point", A.contains_integer_point()));
      break; }
    case QUERY_BIN: {
      ctx.begin("binary_predicates", ra + ".contains/disjoint/==(" + rb + ")");
      out.push_back(val("contains", A.contains(B))); out.push_back(val("strictly_contains", A.strictly_contains(B)));
      out.push_back(val("is_disjoint_from", A.is_disjoint_from(B))); out.push_back(val("equal", A == B));
      break; }
    case MINIMIZE: {
      int k = rnd(0, 4); static const char* const nm[5] = { "minimized_constraints", "minimized_generators", "constraints", "generators", "OK" };
      ctx.begin(std::string("observe_") + nm[k], ra + "." + nm[k] + "()");
      if (k == 0) (void) A.minimized_constraints(); else if (k == 1) (void) A.minimized_generators(); else if (k == 2) (void) A.constraints(); else if (k == 3) (void) A.generators(); else out.push_back(val("OK", A.OK()));
      out.push_back(obs_poly(A)); break; }
    case COPYOPS: {
      int k = rnd(0, 2);
      if (k == 0) { ctx.begin("assign", ra + "=" + rb); A = B; fresh[ai] = fresh[bi]; out.push_back(obs_poly(A)); }
      else if (k == 1) { ctx.begin("swap", "swap(" + ra + "," + rb + ")"); using std::swap; swap(A, B); std::swap(fresh[ai], fresh[bi]); out.push_back(obs_poly(A)); out.push_back(obs_poly(B)); }
      else { ctx.begin("copy", "PH(" + ra + ")"); PH c(A); out.push_back(obs_poly(c)); }
      break; }
    case DROP_NONINT: {
      Complexity_Class cc = coin() ? POLYNOMIAL_COMPLEXITY : ANY_COMPLEXITY;
      ctx.begin("drop_some_non_integer_points", ra + ".drop_some_non_integer_points(" + (cc == ANY_COMPLEXITY ? "ANY" : "POLY") + ")");
      A.drop_some_non_integer_points(cc); out.push_back(obs_poly(A)); break; }
    case WRAP: {
      Variables_Set vs = rand_vars(t); bool sg = coin(); int ov = rnd(0, 2); bool indiv = coin();
      ctx.begin("wrap_assign", ra + ".wrap_assign({" + t + "}, BITS_8, " + (sg ? "signed" : "unsigned") + ", ov" + std::to_string(ov) + ", thr 4, " + (indiv ? "indiv" : "joint") + ")");
      A.wrap_assign(vs, BITS_8, sg ? SIGNED_2_COMPLEMENT : UNSIGNED, ov == 0 ? OVERFLOW_WRAPS : ov == 1 ? OVERFLOW_UNDEFINED : OVERFLOW_IMPOSSIBLE, 0, 4, indiv);
      out.push_back(obs_poly(A)); break; }
    default: {
      ctx.begin("minimized_congruences", ra + ".minimized_congruences()");
      PH c(A); out.push_back(val("congruences", canon(c.minimized_congruences(), n))); break; }
    }
  }
};

Script* make_poly_script(bool nnc) { if (nnc) return new Poly_Script<NNC_Polyhedron>(true); return new Poly_Script<C_Polyhedron>(false); }

} // namespace cfg
