// shapeseq: instantiation of the shape adapter for BD_Shape<int8_t> (see shapeseq.hh).
#include "shapeseq.hh"
SHAPESEQ_REGISTER(bd_int8, Parma_Polyhedra_Library::BD_Shape<int8_t>)
