// fplin — C12, second half: arithmetic on linear forms with interval coefficients, and linearization of
// floating-point expressions (src/linearize.hh) over the repository's own concrete-expression test type
// (tests/Concrete_Expression/C_Expr_defs.hh).
//
// Oracle
//  * Linear-form operators: at sampled rational stores rho the exact value set of the result form, evaluated in
//    mpq from its interval coefficients, must contain {a op b : a in f1(rho), b in f2(rho)} (independent exact
//    interval arithmetic of ivalencl_impl.hh).  relative_error + compute_absolute_error must bound the rounding
//    error x -> round_F,m(x) - x of every supported format F and every rounding mode m (rounding emulated in mpq;
//    the emulator is itself checked against the machine for float/double/long double).
//  * linearize(): random expression trees; random abstract stores (box + linear-form store); many concrete stores
//    inside the abstract store x fesetround in {nearest, up, down, zero}: the expression is evaluated with real
//    machine arithmetic in the analysed format (volatile operands, rounding mode set around the evaluation and
//    restored to PPL's upward afterwards); the linear form is evaluated exactly in mpq at the store; the concrete
//    value must be a member, or linearize must have returned false.  Every subtree is checked, deepest first, so
//    the violation key names the smallest failing node.
#ifndef FPLIN_IMPL_HH
#define FPLIN_IMPL_HH
#include "ivalencl_impl.hh"
#include "interfaces/interfaced_boxes.hh"
// C_Expr's Floating_Point_Constant constructor hard-wires the type to this macro; the engine overrides the (public)
// expr_type member afterwards, so the value is the same in every translation unit (no ODR trouble).
#define ANALYZED_FP_FORMAT IEEE754_SINGLE
#include "tests/Concrete_Expression/C_Expr_defs.hh"
#include <cfenv>
#include <deque>

namespace fpl {
using namespace Parma_Polyhedra_Library;
using namespace ivx;

// ---------------------------------------------------------------- floating-point formats, emulated rounding
// value = 0.d1...dD (digits in base B = 2^k) * B^E,  B^(E-1) <= |x| < B^E,  Emin <= E <= Emax (E < Emin: denormal quantum)
struct Fmt { const char* name; Floating_Point_Format ppl; int k; int D; long Emin, Emax; int machine; bool has_denorm; };
static const Fmt FMTS[6] = {
  { "single", IEEE754_SINGLE, 1, 24, -125, 128, 1, true },
  { "double", IEEE754_DOUBLE, 1, 53, -1021, 1024, 2, true },
  { "x87ext", INTEL_DOUBLE_EXTENDED, 1, 64, -16381, 16384, 3, true },
  { "half", IEEE754_HALF, 1, 11, -13, 16, 0, true },
  { "quad", IEEE754_QUAD, 1, 113, -16381, 16384, 0, true },
  { "ibm_single", IBM_SINGLE, 4, 6, -64, 63, 0, false },
};
static const int MODES[4] = { FE_TONEAREST, FE_UPWARD, FE_DOWNWARD, FE_TOWARDZERO };
static const char* const MODEN[4] = { "nearest", "up", "down", "zero" };

inline long floor_log2(const Q& a) {   // a > 0
  long e = (long) mpz_sizeinbase(a.get_num_mpz_t(), 2) - (long) mpz_sizeinbase(a.get_den_mpz_t(), 2);
  while (a < q2exp((int) e)) --e;
  while (a >= q2exp((int) e + 1)) ++e;
  return e;
}
inline long floor_div(long a, long b) { long q = a / b, r = a % b; if (r != 0 && ((r < 0) != (b < 0))) --q; return q; }
// round q to format f in mode m (index into MODES); status: 0 ok, 1 overflow (|result| exceeds the largest finite), 2 below the normal range
inline Q round_fmt(const Q& q, const Fmt& f, int m, int& status) {
  status = 0;
  if (q == 0) return Q(0);
  Q a = abs(q); bool neg = q < 0;
  long e2 = floor_log2(a);
  long E = floor_div(e2, f.k) + 1;
  if (E < f.Emin) { E = f.Emin; status = 2; }
  Q quantum = q2exp((int) (f.k * (E - f.D)));
  Q n = a / quantum;
  mpz_class fl = zfloor(n); Q frac = n - Q(fl);
  mpz_class r = fl;
  if (frac != 0) {
    bool up;
    switch (m) {
    case 0: { int c = cmp(frac, Q(1, 2)); up = c > 0 || (c == 0 && mpz_odd_p(fl.get_mpz_t())); break; }
    case 1: up = !neg; break;
    case 2: up = neg; break;
    default: up = false; break;
    }
    if (up) ++r;
  }
  Q res = Q(r) * quantum;
  if (res >= q2exp((int) (f.k * f.Emax))) status = 1;
  return neg ? Q(-res) : res;
}
inline bool representable(const Q& q, const Fmt& f) { int st; return round_fmt(q, f, 3, st) == q && st != 1; }
// exact conversion of a rational that is representable with <= 64 significant bits
inline long double ld_of_Q(const Q& q) {
  if (q == 0) return 0.0L;
  mpz_class num = q.get_num(), den = q.get_den();
  long e = 0;
  unsigned long tz = mpz_scan1(num.get_mpz_t(), 0); num >>= tz; e += (long) tz;
  e -= (long) mpz_sizeinbase(den.get_mpz_t(), 2) - 1;   // den is a power of two
  bool neg = num < 0; if (neg) num = -num;
  unsigned long u = mpz_get_ui(num.get_mpz_t());
  volatile long double m = (long double) u;
  long double r = ldexpl(m, (int) e);
  return neg ? -r : r;
}

// ---------------------------------------------------------------- machine arithmetic in a given format (current rounding mode)
inline bool ld_bad(long double v) { volatile long double t = v; return !(t == t) || t > LDBL_MAX || t < -LDBL_MAX; }
inline bool mach_fits(int machine, long double v) {
  if (ld_bad(v)) return false;
  if (machine == 1) return v <= (long double) FLT_MAX && v >= -(long double) FLT_MAX;
  if (machine == 2) return v <= (long double) DBL_MAX && v >= -(long double) DBL_MAX;
  return true;
}
// op: 0 + 1 - 2 * 3 /
inline bool mach_op(int machine, int op, long double a, long double b, long double& out) {
  switch (machine) {
  case 1: { volatile float x = (float) a, y = (float) b; volatile float z = op == 0 ? x + y : op == 1 ? x - y : op == 2 ? x * y : x / y; out = z; volatile float t = z; return t == t && t <= FLT_MAX && t >= -FLT_MAX; }
  case 2: { volatile double x = (double) a, y = (double) b; volatile double z = op == 0 ? x + y : op == 1 ? x - y : op == 2 ? x * y : x / y; out = z; volatile double t = z; return t == t && t <= DBL_MAX && t >= -DBL_MAX; }
  default: { volatile long double x = a, y = b; volatile long double z = op == 0 ? x + y : op == 1 ? x - y : op == 2 ? x * y : x / y; out = z; return !ld_bad(z); }
  }
}
inline bool mach_cast(int to_machine, long double a, long double& out) {
  volatile long double t = a;
  switch (to_machine) {
  case 1: { volatile float z = (float) t; out = z; volatile float u = z; return u == u && u <= FLT_MAX && u >= -FLT_MAX; }
  case 2: { volatile double z = (double) t; out = z; volatile double u = z; return u == u && u <= DBL_MAX && u >= -DBL_MAX; }
  default: out = t; return !ld_bad(t);
  }
}
inline bool mach_from_int(int to_machine, long i, long double& out) {
  volatile long v = i;
  switch (to_machine) {
  case 1: { volatile float z = (float) v; out = z; return true; }
  case 2: { volatile double z = (double) v; out = z; return true; }
  default: { volatile long double z = (long double) v; out = z; return true; }
  }
}

// one-time self-check of the rounding emulator against the machine (a harness bug must never look like a PPL defect)
inline void emulator_selftest() {
  static bool done = false; if (done) return; done = true;
  std::mt19937_64 g(12345);
  for (int it = 0; it < 300; ++it) {
    long n = (long) (g() % 20001) - 10000, d = (long) (g() % 9999) + 1; int sh = (int) (g() % 60) - 30;
    Q q = Q(n, d); q.canonicalize(); q *= q2exp(sh);
    for (int fi = 0; fi < 3; ++fi) for (int m = 0; m < 4; ++m) {
      long double a = ldexpl((long double) n, sh), b = (long double) d, out;
      fesetround(MODES[m]); bool ok = mach_op(FMTS[fi].machine, 3, a, b, out); fesetround(FE_UPWARD);
      int st; Q e = round_fmt(q, FMTS[fi], m, st);
      if (!ok || st == 1) continue;
      if (toQ(out) != e) { hx::violation("harness.bug.rounding_emulator", std::string(FMTS[fi].name) + " " + MODEN[m] + " q=" + qstr(q) + " machine=" + qstr(toQ(out)) + " emulated=" + qstr(e)); return; }
    }
  }
  hx::count("emulator_selftest_ok");
}

// ---------------------------------------------------------------- reading intervals / forms exactly
template <typename ITV> inline bool rdI(const ITV& x, RI& r) {
  r = RI();
  if (x.is_empty()) { r = ri_empty(); return true; }
  bool li = x.lower_is_boundary_infinity(), ui = x.upper_is_boundary_infinity();
  if ((!li && (fp_nan(x.lower()) || fp_inf(x.lower()))) || (!ui && (fp_nan(x.upper()) || fp_inf(x.upper())))) return false;
  r.lo.inf = li; if (!li) { r.lo.v = toQ(x.lower()); r.lo.open = x.lower_is_open(); }
  r.hi.inf = ui; if (!ui) { r.hi.v = toQ(x.upper()); r.hi.open = x.upper_is_open(); }
  norm(r); return true;
}
// value set of a linear form at a rational store
template <typename LF> inline bool lf_eval(const LF& f, const std::vector<Q>& rho, RI& out) {
  RI acc; if (!rdI(f.inhomogeneous_term(), acc)) return false;
  for (dimension_type i = 0; i < f.space_dimension(); ++i) {
    RI c; if (!rdI(f.coefficient(Variable(i)), c)) return false;
    Q v = i < rho.size() ? rho[i] : Q(0);
    acc = r_add(acc, r_mul(c, ri_point(v)));
  }
  out = acc; return true;
}
template <typename LF> inline std::string lf_show(const LF& f) {
  std::ostringstream o; RI c;
  for (dimension_type i = 0; i < f.space_dimension(); ++i) { if (rdI(f.coefficient(Variable(i)), c)) { if (!(is_point(c) && c.lo.v == 0)) o << show(c) << "*x" << i << " + "; } else o << "<bad>*x" << i << " + "; }
  if (rdI(f.inhomogeneous_term(), c)) o << show(c); else o << "<bad>";
  return o.str();
}

// ---------------------------------------------------------------- the engine, per analyzer boundary type
template <typename AT> struct Lin {
  typedef Interval<AT, Floating_Point_Box_Interval_Info> FPI;      // == tests/ppl_test.hh FP_Interval
  typedef Linear_Form<FPI> LF;
  typedef Box<FPI> FBox;
  typedef std::map<dimension_type, LF> LFStore;
  std::string an;   // analyzer name
  bool dead;
  Lin(const char* n) : an(n), dead(false) {}
  void viol(const std::string& k, const std::string& d) { hx::violation(k, d); dead = true; }

  // ---- small generators
  static AT gen_small() {   // dyadic or inexact small analyzer-format value
    volatile AT r; int k = rnd(0, 99);
    if (k < 12) { r = (AT) 0; return r; }
    if (k < 60) { volatile int v = rnd(-6, 6); r = (AT) v; return r; }
    if (k < 80) { volatile int v = rnd(-13, 13); volatile AT t = (AT) v; r = (AT) ldexpl((long double) t, -rnd(1, 3)); return r; }
    if (k < 92) { volatile int n = rnd(-10, 10); volatile int d = (k & 1) ? 3 : 10; volatile AT a = (AT) n, b = (AT) d; r = a / b; return r; }
    volatile int v = rnd(-1000, 1000); volatile AT t = (AT) v; r = (AT) ldexpl((long double) t, rnd(-20, 20)); return r;
  }
  static FPI gen_coeff(bool allow_unbounded) {
    FPI x; int k = rnd(0, 99);
    AT a = gen_small(), b = gen_small(); if (toQ(a) > toQ(b)) std::swap(a, b);
    if (k < 45) { x.assign(a); return x; }
    if (allow_unbounded && k >= 96) { x.assign(UNIVERSE); if (coin()) x.refine_existential(GREATER_OR_EQUAL, a); else x.refine_existential(LESS_OR_EQUAL, b); return x; }
    bool lo = coin(8), uo = coin(8);
    if (toQ(a) == toQ(b)) lo = uo = false;
    x.assign(UNIVERSE); x.refine_existential(lo ? GREATER_THAN : GREATER_OR_EQUAL, a); x.refine_existential(uo ? LESS_THAN : LESS_OR_EQUAL, b);
    return x;
  }
  static LF gen_form(int n, bool allow_unbounded) {
    LF f(gen_coeff(allow_unbounded));
    for (int i = 0; i < n; ++i) if (coin(70)) { LF t = LF(Variable(i)); t *= gen_coeff(allow_unbounded); f += t; }
    return f;
  }
  static Q gen_q() { int k = rnd(0, 99); if (k < 15) return Q(0); if (k < 70) { Q q(rnd(-8, 8), rnd(1, 4)); q.canonicalize(); return q; } if (k < 90) { Q q(rnd(-1000, 1000), rnd(1, 7)); q.canonicalize(); return q; } return Q(rnd(-5, 5)) * q2exp(rnd(-40, 40)); }

  // =========================================================== linear-form operators
  bool incl(const std::string& op, const std::string& cls, const RI& want, const LF& res, const std::vector<Q>& rho, const std::string& what) {
    RI got; hx::checked(1); hx::count("lf_checks");
    if (!lf_eval(res, rho, got)) { viol("C12.lf." + op + ":nan-or-reverse-infinite-coefficient", what + " result=" + lf_show(res)); return false; }
    if (!r_subset(want, got)) {
      std::ostringstream o; o << what << " result=" << lf_show(res) << " at rho=("; for (size_t i = 0; i < rho.size(); ++i) o << (i ? "," : "") << qstr(rho[i]); o << "): needs " << show(want) << " obtained " << show(got);
      std::string c = cls;
      if (c.empty()) {
        bool lo_open = !got.empty && !want.empty && !got.lo.inf && !want.lo.inf && got.lo.v == want.lo.v && got.lo.open && !want.lo.open;
        bool hi_open = !got.empty && !want.empty && !got.hi.inf && !want.hi.inf && got.hi.v == want.hi.v && got.hi.open && !want.hi.open;
        bool lo_bad = !got.empty && !want.empty && cmpL(got.lo, want.lo) > 0 && !lo_open, hi_bad = !got.empty && !want.empty && cmpU(got.hi, want.hi) < 0 && !hi_open;
        c = (got.empty && !want.empty) ? "empty-result" : (lo_bad || hi_bad) ? "value-outside" : "openness-of-attained-extreme";
      }
      viol("C12.lf." + op + ":" + c, o.str()); return false;
    }
    return true;
  }
  void lf_case() {
    int n = rnd(1, 3);
    int steps = rnd(3, 8);
    for (int st = 0; st < steps && !dead; ++st) {
      bool unb = coin(15);
      LF f1 = gen_form(n, unb), f2 = gen_form(n, unb);
      FPI c = gen_coeff(unb);
      RI rc; rdI(c, rc);
      int op = rnd(0, 13);
      static const char* const N[14] = { "add", "sub", "neg", "add_assign", "sub_assign", "mul_left", "mul_right", "mul_assign", "div_assign", "add_coeff", "sub_coeff", "add_var", "from_linear_expression", "relative_error" };
      std::string opn = N[op];
      std::ostringstream pre; pre << an << " lf." << opn << " f1=" << lf_show(f1) << " f2=" << lf_show(f2) << " c=" << show(rc) << "; ";
      hx::tr(pre.str()); hx::count("op.lf." + opn);
      std::string cls; { RI t; bool u = false; for (int i = 0; i <= n; ++i) { if (i < n ? rdI(f1.coefficient(Variable(i)), t) : rdI(f1.inhomogeneous_term(), t)) u = u || unbounded(t); if (i < n ? rdI(f2.coefficient(Variable(i)), t) : rdI(f2.inhomogeneous_term(), t)) u = u || unbounded(t); } if (u || unbounded(rc)) cls = "unbounded-coefficient"; }
      LF res; int vi = rnd(0, n - 1);
      Linear_Expression le; std::vector<long> lec(n + 1, 0);
      int fmt_i = rnd(0, 5); bool sub_rev = false;
      try {
        switch (op) {
        case 0: res = f1 + f2; break;
        case 1: res = f1 - f2; break;
        case 2: if (coin()) res = -f1; else { res = f1; res.negate(); } break;
        case 3: res = f1; res += f2; break;
        case 4: res = f1; res -= f2; break;
        case 5: res = c * f1; break;
        case 6: res = f1 * c; break;
        case 7: res = f1; res *= c; break;
        case 8: res = f1; res /= c; break;
        case 9: res = coin() ? f1 + c : c + f1; break;
        // operator-(const Linear_Form<C>&, const C&) is not instantiable for interval C ("-n + f": Interval has no unary minus);
        // the engine uses the two spellings that do compile
        case 10: sub_rev = coin(); if (sub_rev) res = c - f1; else { res = f1; res -= c; } break;
        case 11: res = coin() ? f1 + Variable(vi) : Variable(vi) + f1; break;
        case 12: { for (int i = 0; i < n; ++i) { lec[i] = coin(20) ? (long) rnd(-1000000, 1000000) * 1000003007L : rnd(-5, 5); le += Coefficient(lec[i]) * Variable(i); } lec[n] = coin(20) ? (long) rnd(-1000000, 1000000) * 1000003007L : rnd(-5, 5); le += Coefficient(lec[n]); res = LF(le); break; }
        default: {
          // relative_error needs bounded coefficients (asserted); together with compute_absolute_error it must bound the rounding error
          if (cls == "unbounded-coefficient") { hx::count("skipped.relative_error_unbounded"); continue; }
          f1.relative_error(FMTS[fmt_i].ppl, res); break; }
        }
      }
      catch (const std::exception& e) { viol("C12.lf." + opn + ":exception", pre.str() + e.what()); return; }
      hx::distinct(an + "|lf|" + opn + "|" + cls + "|" + std::to_string(n) + (op == 13 ? std::string("|") + FMTS[fmt_i].name : ""));
      for (int s = 0; s < 6 && !dead; ++s) {
        std::vector<Q> rho(n); for (int i = 0; i < n; ++i) rho[i] = gen_q();
        RI v1, v2; if (!lf_eval(f1, rho, v1) || !lf_eval(f2, rho, v2)) { viol("harness.bug.lf_operand", pre.str()); return; }
        RI want;
        switch (op) {
        case 0: case 3: want = r_add(v1, v2); break;
        case 1: case 4: want = r_sub(v1, v2); break;
        case 2: want = r_neg(v1); break;
        case 5: case 6: case 7: want = r_mul(rc, v1); break;
        case 8: want = r_div(v1, rc); break;
        case 9: want = r_add(v1, rc); break;
        case 10: want = sub_rev ? r_sub(rc, v1) : r_sub(v1, rc); break;
        case 11: want = r_add(v1, ri_point(rho[vi])); break;
        case 12: { Q t(lec[n]); for (int i = 0; i < n; ++i) t += Q(lec[i]) * rho[i]; want = ri_point(t); break; }
        default: {
          // error of rounding any x in f1(rho) to the format, any mode: must lie in rel_error(f1)(rho) + abs_error
          const Fmt& F = FMTS[fmt_i];
          if (v1.empty || unbounded(v1)) continue;
          FPI ae = compute_absolute_error<FPI>(F.ppl); RI rae; rdI(ae, rae);
          RI got; if (!lf_eval(res, rho, got)) { viol("C12.lf.relative_error:nan-or-reverse-infinite-coefficient", pre.str()); return; }
          RI bound = r_add(got, rae);
          Q xs[3] = { v1.lo.v, v1.hi.v, (v1.lo.v + v1.hi.v) / 2 };
          for (int xi = 0; xi < 3 && !dead; ++xi) for (int m = 0; m < 4 && !dead; ++m) {
            int stt; Q rx = round_fmt(xs[xi], F, m, stt);
            if (stt == 1 || (stt == 2 && !F.has_denorm)) continue;
            Q err = rx - xs[xi]; hx::checked(1); hx::count("lf_checks"); hx::count("roundings_checked");
            if (!mem(bound, err)) {
              viol(std::string("C12.lf.relative_error:") + F.name, pre.str() + " x=" + qstr(xs[xi]) + " in f1(rho) rounds (" + MODEN[m] + ", " + F.name + ") to " + qstr(rx) + ": error " + qstr(err) + " not in relative_error(f1)(rho)+absolute_error = " + show(bound));
            }
          }
          continue; }
        }
        incl(opn, cls, want, res, rho, pre.str());
      }
    }
  }

  // =========================================================== linearize
  enum NK { N_CONST, N_VAR, N_MVAR, N_ADD, N_SUB, N_MUL, N_DIV, N_NEG, N_POS, N_CASTF, N_CASTI_CONST, N_CASTI_REF };
  struct Node { NK k; const Fmt* fmt; int l, r; Q cq; std::vector<int> dims; mpz_class ilo, ihi; const Concrete_Expression<C_Expr>* ce; int depth; };
  static const char* nk_name(NK k) { static const char* const N[12] = { "constant", "variable", "multi_reference", "add", "sub", "mul", "div", "neg", "pos", "cast_float", "cast_int_constant", "cast_int_reference" }; return N[k]; }

  struct Tree {
    std::vector<Node> nodes;
    std::deque<Floating_Point_Constant<C_Expr> > fc; std::deque<Approximable_Reference<C_Expr> > ar; std::deque<Binary_Operator<C_Expr> > bo;
    std::deque<Unary_Operator<C_Expr> > uo; std::deque<Cast_Operator<C_Expr> > co; std::deque<Integer_Constant<C_Expr> > ic;
  };
  static Concrete_Expression_Type ftype(const Fmt* f) { return Concrete_Expression_Type::floating_point(f->ppl); }

  // variables: dimension i has format vfmt[i]
  int gen_node(Tree& T, const Fmt* F, int depth, int nvars, const std::vector<const Fmt*>& vfmt) {
    Node nd; nd.fmt = F; nd.l = nd.r = -1; nd.ce = 0; nd.depth = depth;
    int k = rnd(0, 99);
    bool leaf = depth <= 0 || k < 22;
    if (leaf) {
      int w = rnd(0, 99);
      if (w < 35) {   // constant: dyadic (exact in every format) or a decimal that no binary format represents
        std::string s;
        if (coin(70)) { int n = rnd(-40, 40), sh = rnd(0, 4); nd.cq = Q(n, 1 << sh); nd.cq.canonicalize(); }
        else { nd.cq = Q(rnd(-999, 999), coin() ? 10 : 1000); nd.cq.canonicalize(); }
        // decimal string of cq (finite: denominators divide a power of 10)
        { Q a = abs(nd.cq); mpz_class ip = zfloor(a); Q fr = a - Q(ip); std::string digs; for (int i = 0; i < 12 && fr != 0; ++i) { fr *= 10; mpz_class d = zfloor(fr); digs += (char) ('0' + d.get_si()); fr -= Q(d); }
          s = std::string(nd.cq < 0 ? "-" : "") + ip.get_str() + (digs.empty() ? "" : "." + digs); }
        T.fc.emplace_back(s.c_str(), (unsigned) s.size() + 1);
        T.fc.back().expr_type = ftype(F);
        nd.k = N_CONST; nd.ce = &T.fc.back();
      }
      else if (w < 80 || nvars < 2) {
        int d = rnd(0, nvars - 1);
        Integer_Interval dummy; dummy.assign(mpz_class(0));
        T.ar.emplace_back(ftype(vfmt[d]), dummy, (dimension_type) d);
        Node v; v.k = N_VAR; v.fmt = vfmt[d]; v.l = v.r = -1; v.dims.push_back(d); v.ce = &T.ar.back(); v.depth = depth;
        if (vfmt[d] == F) { T.nodes.push_back(v); return (int) T.nodes.size() - 1; }
        T.nodes.push_back(v); int vi = (int) T.nodes.size() - 1;
        T.co.emplace_back(ftype(F), v.ce);
        nd.k = N_CASTF; nd.l = vi; nd.ce = &T.co.back();
      }
      else if (w < 90) {
        // a reference that may denote either of two dimensions of the same format
        int d1 = rnd(0, nvars - 1), d2 = -1; for (int i = 0; i < nvars; ++i) if (i != d1 && vfmt[i] == vfmt[d1]) d2 = i;
        Integer_Interval dummy; dummy.assign(mpz_class(0));
        T.ar.emplace_back(ftype(vfmt[d1]), dummy, (dimension_type) d1);
        Node v; v.k = d2 >= 0 ? N_MVAR : N_VAR; v.fmt = vfmt[d1]; v.l = v.r = -1; v.dims.push_back(d1); v.depth = depth;
        if (d2 >= 0) { T.ar.back().dimensions.insert((dimension_type) d2); v.dims.push_back(d2); }
        v.ce = &T.ar.back();
        if (vfmt[d1] == F) { T.nodes.push_back(v); return (int) T.nodes.size() - 1; }
        T.nodes.push_back(v); int vi = (int) T.nodes.size() - 1;
        T.co.emplace_back(ftype(F), v.ce);
        nd.k = N_CASTF; nd.l = vi; nd.ce = &T.co.back();
      }
      else {
        // cast of an integer constant / integer reference known to lie in [ilo, ihi]
        bool big = coin(25);
        long a = big ? (long) (hx::rng()() >> 2) - (1L << 61) : rnd(-50, 50), b = big ? a + (long) (hx::rng()() >> 34) : a + rnd(0, 20) * rnd(0, 1);
        nd.ilo = a; nd.ihi = b;
        Integer_Interval iv; mpz_class za(a), zb(b); iv.build(i_constraint(GREATER_OR_EQUAL, za), i_constraint(LESS_OR_EQUAL, zb));
        Concrete_Expression_Type it = Concrete_Expression_Type::bounded_integer(BITS_64, SIGNED_2_COMPLEMENT, OVERFLOW_UNDEFINED);
        const Concrete_Expression<C_Expr>* arg;
        if (coin()) { T.ic.emplace_back(it, iv); arg = &T.ic.back(); nd.k = N_CASTI_CONST; }
        else { T.ar.emplace_back(it, iv, (dimension_type) 0); arg = &T.ar.back(); nd.k = N_CASTI_REF; }
        T.co.emplace_back(ftype(F), arg); nd.ce = &T.co.back();
      }
      T.nodes.push_back(nd); return (int) T.nodes.size() - 1;
    }
    if (k < 82) {
      int op = k < 40 ? 0 : k < 55 ? 1 : k < 72 ? 2 : 3;
      int l = gen_node(T, F, depth - 1, nvars, vfmt), r = gen_node(T, F, depth - 1, nvars, vfmt);
      static const Concrete_Expression_BOP B[4] = { Binary_Operator<C_Expr>::ADD, Binary_Operator<C_Expr>::SUB, Binary_Operator<C_Expr>::MUL, Binary_Operator<C_Expr>::DIV };
      T.bo.emplace_back(ftype(F), B[op], T.nodes[l].ce, T.nodes[r].ce);
      nd.k = (NK) (N_ADD + op); nd.l = l; nd.r = r; nd.ce = &T.bo.back();
    }
    else if (k < 90) {
      int l = gen_node(T, F, depth - 1, nvars, vfmt); bool neg = coin(75);
      T.uo.emplace_back(ftype(F), neg ? Unary_Operator<C_Expr>::UMINUS : Unary_Operator<C_Expr>::UPLUS, T.nodes[l].ce);
      nd.k = neg ? N_NEG : N_POS; nd.l = l; nd.ce = &T.uo.back();
    }
    else {
      const Fmt* G = &FMTS[rnd(0, 2)];
      int l = gen_node(T, G, depth - 1, nvars, vfmt);
      T.co.emplace_back(ftype(F), T.nodes[l].ce);
      nd.k = N_CASTF; nd.l = l; nd.ce = &T.co.back();
    }
    T.nodes.push_back(nd); return (int) T.nodes.size() - 1;
  }
  std::string show_tree(const Tree& T, int i) const {
    const Node& n = T.nodes[i]; std::ostringstream o;
    switch (n.k) {
    case N_CONST: o << qstr(n.cq) << ":" << n.fmt->name; break;
    case N_VAR: o << "x" << n.dims[0] << ":" << n.fmt->name; break;
    case N_MVAR: o << "x{" << n.dims[0] << "|" << n.dims[1] << "}:" << n.fmt->name; break;
    case N_ADD: case N_SUB: case N_MUL: case N_DIV: o << "(" << show_tree(T, n.l) << " " << "+-*/"[n.k - N_ADD] << ":" << n.fmt->name << " " << show_tree(T, n.r) << ")"; break;
    case N_NEG: o << "-(" << show_tree(T, n.l) << ")"; break;
    case N_POS: o << "+(" << show_tree(T, n.l) << ")"; break;
    case N_CASTF: o << "(" << n.fmt->name << ")" << show_tree(T, n.l); break;
    default: o << "(" << n.fmt->name << ")int" << (n.k == N_CASTI_REF ? "ref" : "") << "[" << n.ilo << "," << n.ihi << "]"; break;
    }
    return o.str();
  }

  // ---- the oracle handed to linearize (the analyzer's side of the contract; correct by construction)
  struct Oracle : public FP_Oracle<C_Expr, FPI> {
    FBox box; const Tree* T;
    Oracle() : box(0), T(0) {}
    bool get_interval(dimension_type dim, FPI& result) const { if (dim >= box.space_dimension()) return false; result = box.get_interval(Variable(dim)); return true; }
    bool get_fp_constant_value(const Floating_Point_Constant<C_Expr>& expr, FPI& result) const {
      // enclosure of the constant as converted to its format under any rounding mode
      for (size_t i = 0; i < T->nodes.size(); ++i) if (T->nodes[i].ce == &expr) {
        int st; mpq_class lo = round_fmt(T->nodes[i].cq, *T->nodes[i].fmt, 2, st), hi = round_fmt(T->nodes[i].cq, *T->nodes[i].fmt, 1, st);
        result.build(i_constraint(GREATER_OR_EQUAL, lo), i_constraint(LESS_OR_EQUAL, hi));
        return true;
      }
      return false;
    }
    bool get_integer_expr_value(const Concrete_Expression<C_Expr>& expr, FPI& result) const {
      if (expr.kind() == INT_CON) result = FPI(reinterpret_cast<const Integer_Constant<C_Expr>*>(&expr)->value);
      else result = FPI(reinterpret_cast<const Approximable_Reference<C_Expr>*>(&expr)->value);
      return true;
    }
    bool get_associated_dimensions(const Approximable_Reference<C_Expr>& expr, std::set<dimension_type>& result) const { result = expr.dimensions; return true; }
  };

  // ---- concrete evaluation with machine arithmetic; rho holds exactly representable values; choices are per-store
  struct Choice { std::vector<int> mvar_pick; std::vector<long> int_pick; };
  bool eval(const Tree& T, int i, const std::vector<long double>& rho, int mode_idx, const Choice& ch, long double& out) const {
    const Node& n = T.nodes[i];
    switch (n.k) {
    case N_CONST: { int st; Q v = round_fmt(n.cq, *n.fmt, mode_idx, st); if (st == 1) return false; out = ld_of_Q(v); return true; }
    case N_VAR: out = rho[n.dims[0]]; return true;
    case N_MVAR: out = rho[n.dims[ch.mvar_pick[i]]]; return true;
    case N_ADD: case N_SUB: case N_MUL: case N_DIV: {
      long double a, b; if (!eval(T, n.l, rho, mode_idx, ch, a) || !eval(T, n.r, rho, mode_idx, ch, b)) return false;
      if (n.k == N_DIV && b == 0) return false;
      return mach_op(n.fmt->machine, n.k - N_ADD, a, b, out);
    }
    case N_NEG: { long double a; if (!eval(T, n.l, rho, mode_idx, ch, a)) return false; volatile long double t = a; out = -t; return true; }
    case N_POS: return eval(T, n.l, rho, mode_idx, ch, out);
    case N_CASTF: { long double a; if (!eval(T, n.l, rho, mode_idx, ch, a)) return false; return mach_cast(n.fmt->machine, a, out); }
    default: return mach_from_int(n.fmt->machine, ch.int_pick[i], out);
    }
  }

  void lin_case() {
    emulator_selftest(); if (hx::st().case_tainted) { dead = true; return; }
    int nvars = rnd(1, 3);
    std::vector<const Fmt*> vfmt(nvars);
    const Fmt* F = &FMTS[rnd(0, 99) < 45 ? 0 : rnd(0, 99) < 75 ? 1 : 2];
    for (int i = 0; i < nvars; ++i) vfmt[i] = coin(80) ? F : &FMTS[rnd(0, 2)];
    Tree T; int root = gen_node(T, F, rnd(1, 3), nvars, vfmt);
    // abstract store: a box ...
    Oracle orc; orc.T = &T; orc.box = FBox(nvars);
    std::vector<RI> bx(nvars); bool unb_store = false;
    for (int i = 0; i < nvars; ++i) {
      FPI x; AT a = gen_small(), b = gen_small(); if (toQ(a) > toQ(b)) std::swap(a, b);
      int k = rnd(0, 99);
      x.assign(UNIVERSE);
      if (k < 20) { x.refine_existential(GREATER_OR_EQUAL, a); x.refine_existential(LESS_OR_EQUAL, a); }
      else if (k < 90) { x.refine_existential(GREATER_OR_EQUAL, a); x.refine_existential(LESS_OR_EQUAL, b); }
      else if (k < 94) x.refine_existential(GREATER_OR_EQUAL, a);
      else if (k < 98) x.refine_existential(LESS_OR_EQUAL, b);
      orc.box.set_interval(Variable(i), x);
      rdI(x, bx[i]); unb_store = unb_store || unbounded(bx[i]);
    }
    // ... and a linear-form store: x_v described by a form over lower dimensions
    LFStore lfs; bool use_lfs = false;
    for (int v = 1; v < nvars; ++v) if (coin(30)) { lfs[v] = gen_form(v, false); use_lfs = true; }
    std::ostringstream pre; pre << an << " linearize " << show_tree(T, root) << " box=("; for (int i = 0; i < nvars; ++i) pre << (i ? "," : "") << "x" << i << ":" << vfmt[i]->name << " in " << show(bx[i]); pre << ")";
    for (typename LFStore::const_iterator it = lfs.begin(); it != lfs.end(); ++it) pre << " lf[x" << it->first << "]=" << lf_show(it->second);
    pre << "; "; hx::tr(pre.str());
    // linearize every subtree (post-order == index order)
    std::vector<int> ok(T.nodes.size(), 0); std::vector<LF> form(T.nodes.size());
    for (size_t i = 0; i < T.nodes.size(); ++i) {
      try { ok[i] = linearize(*T.nodes[i].ce, orc, lfs, form[i]) ? 1 : 0; }
      catch (const std::exception& e) { viol(std::string("C12.linearize.") + nk_name(T.nodes[i].k) + ":exception", pre.str() + " subtree " + show_tree(T, (int) i) + ": " + e.what()); return; }
      hx::count(std::string("lin.") + nk_name(T.nodes[i].k) + (ok[i] ? ".ok" : ".failed"));
    }
    hx::count(ok[root] ? "linearize_true" : "linearize_false");
    // concrete stores
    int nstores = (int) hx::opt().geti("stores", hx::opt().thorough ? 500 : 60);
    unsigned long evals = 0;
    for (int s = 0; s < nstores && !dead; ++s) {
      std::vector<Q> rq(nvars); std::vector<long double> rho(nvars); bool good = true;
      for (int v = 0; v < nvars && good; ++v) {
        RI dom = bx[v];
        typename LFStore::const_iterator it = lfs.find(v);
        if (it != lfs.end()) { RI fv; std::vector<Q> part(rq.begin(), rq.begin() + v); if (!lf_eval(it->second, part, fv)) { good = false; break; } dom = r_meet(dom, fv); }
        if (dom.empty) { good = false; break; }
        std::vector<Q> m = members(dom, false);
        if (m.empty()) { good = false; break; }
        Q pick = m[rnd(0, (int) m.size() - 1)];
        if (coin(30)) { pick = coin() ? m.front() : m.back(); }
        int st; Q rv = round_fmt(pick, *vfmt[v], rnd(0, 3), st);
        if (st == 1 || !mem(dom, rv)) { rv = round_fmt(pick, *vfmt[v], 3, st); }
        if (st == 1 || !mem(dom, rv)) { good = false; break; }
        rq[v] = rv; rho[v] = ld_of_Q(rv);
      }
      if (!good) { hx::count("store_skipped"); continue; }
      Choice ch; ch.mvar_pick.assign(T.nodes.size(), 0); ch.int_pick.assign(T.nodes.size(), 0);
      for (size_t i = 0; i < T.nodes.size(); ++i) {
        if (T.nodes[i].k == N_MVAR) ch.mvar_pick[i] = rnd(0, 1);
        if (T.nodes[i].k == N_CASTI_CONST || T.nodes[i].k == N_CASTI_REF) { long a = T.nodes[i].ilo.get_si(), b = T.nodes[i].ihi.get_si(); int w = rnd(0, 3); ch.int_pick[i] = w == 0 ? a : w == 1 ? b : a + (long) ((unsigned long) hx::rng()() % (unsigned long) (b - a + 1)); }
      }
      for (int m = 0; m < 4 && !dead; ++m) {
        for (size_t i = 0; i < T.nodes.size() && !dead; ++i) {
          if (!ok[i]) continue;
          long double cv; fesetround(MODES[m]); bool fin = eval(T, (int) i, rho, m, ch, cv); fesetround(FE_UPWARD);
          if (!fin) { hx::count("concrete_overflow_or_div0"); continue; }
          Q cq = toQ(cv); RI val; ++evals;
          if (!lf_eval(form[i], rq, val)) { viol(std::string("C12.linearize.") + nk_name(T.nodes[i].k) + ":nan-or-reverse-infinite-coefficient", pre.str() + " subtree " + show_tree(T, (int) i) + " form " + lf_show(form[i])); break; }
          if (!mem(val, cq)) {
            std::string cls = an + "/" + T.nodes[i].fmt->name; if (unb_store) cls += ",unbounded-store"; if (use_lfs) cls += ",lf-store";
            std::ostringstream o; o << pre.str() << " subtree " << show_tree(T, (int) i) << " linearized to " << lf_show(form[i]) << "; store ("; for (int v = 0; v < nvars; ++v) o << (v ? "," : "") << qstr(rq[v]); o << ") mode " << MODEN[m] << ": concrete value " << qstr(cq) << " not in form value " << show(val);
            viol(std::string("C12.linearize.") + nk_name(T.nodes[i].k) + ":" + cls, o.str());
          }
        }
      }
    }
    hx::checked(evals); hx::count("lin_evals", evals); hx::count("lin_trees");
    hx::distinct(an + "|lin|" + F->name + "|" + nk_name(T.nodes[root].k) + "|d" + std::to_string(T.nodes[root].depth) + "|" + (unb_store ? "u" : "b") + (use_lfs ? "l" : "") + (ok[root] ? "|ok" : "|fail"));
  }

  void run() {
    pplx::Weight_Guard wg(200000000ULL);
    hx::count("an." + an);
    std::string prof = hx::opt().profile;
    bool lf = prof == "lf" ? true : prof == "linearize" ? false : coin(35);
    if (lf) lf_case(); else lin_case();
  }
};

void case_f(); void case_d(); void case_l();
} // namespace fpl
#endif
