// shapeseq: instantiation of the shape adapter for Octagonal_Shape<mpz_class> (see shapeseq.hh).
#include "shapeseq.hh"
SHAPESEQ_REGISTER(oct_mpz, Parma_Polyhedra_Library::Octagonal_Shape<mpz_class>)
