// wrapseq: instantiation of the domain adapter for Grid (see wrapseq.hh).
#include "wrapseq.hh"
WRAPSEQ_REGISTER(grid, Parma_Polyhedra_Library::Grid)
