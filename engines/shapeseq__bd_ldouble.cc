// shapeseq: instantiation of the shape adapter for BD_Shape<long double> (see shapeseq.hh).
#include "shapeseq.hh"
SHAPESEQ_REGISTER(bd_ldouble, Parma_Polyhedra_Library::BD_Shape<long double>)
