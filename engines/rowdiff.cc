// rowdiff — property C16: sparse and dense rows are interchangeable; the
// sparse tree (CO_Tree) is a correct ordered map.
//
// Sub-workloads (one per case; profile selects, `default` mixes by case index):
//   expr   Linear_Expression twins (X starts DENSE, Y starts SPARSE, either may be
//          flipped by set_representation / assignment mid-history; the argument of
//          every binary operation is taken from either twin of the argument slot,
//          so all four representation combinations occur) + an exact coefficient
//          vector model.                         keys C16.diff.Linear_Expression.<op>
//                                                     C16.model.Linear_Expression.<op>
//   obj    Constraint / Generator / Congruence / Grid_Generator twins (rowdiff__obj.cc)
//   sys    the four systems + Polyhedron / Grid built from twin systems (rowdiff__obj.cc)
//   row    Sparse_Row + Dense_Row against std::map (rowdiff__row.cc)   C16.map.* C16.struct.*
//   tree   CO_Tree against std::map (rowdiff__row.cc)                  C16.map.* C16.struct.*
//   alias  aliased operands, each step in a forked child               C13.row.alias.*
//   ascii_load round trips are steps of every sub-workload             C15.row.*
//
// Triage classes (after the colon) are computed from the failing input.  Configurations that hit a defect already
// known on this tree are entered with a small probability, tunable with --kv <name>=<percent>:
//   truncds (copy to a smaller dimension, DENSE source, SPARSE target)      class truncating-dense-to-sparse
//   lcdim   (linear_combine[_lax] with an argument of lower dimension)       class arg-lower-dim-tail-unscaled
//   laxsz   (linear_combine_lax, c1 == 0, SPARSE receiver, DENSE argument)   class c1-zero-sparse-receiver-dense-arg
//   aze00   (all_zeroes_except over the empty range [0,0))                   class dense-empty-range-at-0
//   copydim (copy of a strict inequality / closure point / grid generator to another dimension)
//                                                                            class *-special-column-misplaced
//   shorter (free linear_combine(Sparse_Row&, const Dense_Row&) with a shorter y)   class y-shorter
// A defect that corrupts an object silently may surface steps later in another operation: once such a configuration
// has been exercised in a case, every later violation of that case carries its class (rd::poison()).
// --kv assertsafe=1 (for assertion-enabled builds): none of the above is entered, nor the handful of
// representation-independent configurations that abort in a PPL_ASSERT (see the comments at assert_safe() uses).
#include "rowdiff_common.hh"

using namespace rd;

namespace {

struct ME {                       // exact model: c[0] inhomogeneous term, c[i] coefficient of Variable(i-1)
  std::vector<Z> c;
  ME() : c(1) {}
  size_t dim() const { return c.size() - 1; }
  void grow(size_t d) { if (d + 1 > c.size()) c.resize(d + 1); }
  size_t nnz() const { size_t n = 0; for (size_t i = 1; i < c.size(); ++i) if (c[i] != 0) ++n; return n; }
};
std::string show(const ME& m) { std::ostringstream o; o << "[" << m.dim() << "|" << m.c[0]; for (size_t i = 1; i < m.c.size(); ++i) o << "," << m.c[i]; o << "]"; return o.str(); }
std::string show(const Linear_Expression& e) { std::ostringstream o; o << rs(e.representation()) << "[" << e.space_dimension() << "|" << e.inhomogeneous_term(); for (dimension_type i = 0; i < e.space_dimension(); ++i) o << "," << e.coefficient(Variable(i)); o << "]"; return o.str(); }

struct Slot { Linear_Expression X, Y; ME M; Slot() : X(DENSE), Y(SPARSE) {} };

bool same(const Linear_Expression& e, const ME& m) {
  if (e.space_dimension() != m.dim()) return false;
  if (e.inhomogeneous_term() != m.c[0]) return false;
  for (size_t i = 1; i < m.c.size(); ++i) if (e.coefficient(Variable(i - 1)) != m.c[i]) return false;
  return true;
}

Z gcd_of(const ME& m, size_t s, size_t e) { Z g = 0; for (size_t i = s; i < e; ++i) if (m.c[i] != 0) { Z a = abs(m.c[i]); if (g == 0) g = a; else { Z t; mpz_gcd(t.get_mpz_t(), g.get_mpz_t(), a.get_mpz_t()); g = t; } } return g; }

// Everything observable of one expression, against the model.  Returns "" or the
// name of the first observer that disagrees.
std::string observe(const Linear_Expression& e, const ME& m, std::string& detail) {
  std::ostringstream d;
  if (!e.OK()) return "OK";
  if (e.space_dimension() != m.dim()) { d << "space_dimension " << e.space_dimension() << " expected " << m.dim(); detail = d.str(); return "space_dimension"; }
  if (e.inhomogeneous_term() != m.c[0]) { d << "inhomogeneous_term " << e.inhomogeneous_term() << " expected " << m.c[0]; detail = d.str(); return "inhomogeneous_term"; }
  for (size_t i = 1; i < m.c.size(); ++i) if (e.coefficient(Variable(i - 1)) != m.c[i]) { d << "coefficient(" << i - 1 << ") = " << e.coefficient(Variable(i - 1)) << " expected " << m.c[i]; detail = d.str(); return "coefficient"; }
  // beyond the dimension the documentation is silent; PPL's own clients rely on 0
  bool allz = true, hz = true; for (size_t i = 0; i < m.c.size(); ++i) if (m.c[i] != 0) { allz = false; if (i) hz = false; }
  if (e.is_zero() != allz) { detail = "is_zero"; return "is_zero"; }
  if (e.all_homogeneous_terms_are_zero() != hz) { detail = "all_homogeneous_terms_are_zero"; return "all_homogeneous_terms_are_zero"; }
  // iteration: exactly the nonzero variable coefficients, increasing
  {
    std::vector<size_t> want; for (size_t i = 1; i < m.c.size(); ++i) if (m.c[i] != 0) want.push_back(i);
    size_t k = 0;
    for (Linear_Expression::const_iterator i = e.begin(), ie = e.end(); i != ie; ++i, ++k) {
      if (k >= want.size() || i.variable().id() + 1 != want[k] || *i != m.c[want[k]]) { d << "forward iteration position " << k << " yields variable " << i.variable().id() << " value " << *i; detail = d.str(); return "iteration"; }
    }
    if (k != want.size()) { d << "forward iteration yields " << k << " elements, expected " << want.size(); detail = d.str(); return "iteration"; }
    if (!want.empty()) {
      Linear_Expression::const_iterator i = e.end(), ib = e.begin(); k = want.size();
      do { --i; --k; if (i.variable().id() + 1 != want[k] || *i != m.c[want[k]]) { d << "backward iteration position " << k << " yields variable " << i.variable().id(); detail = d.str(); return "iteration_backward"; } } while (i != ib && k > 0);
      if (k != 0 || i != ib) { detail = "backward iteration does not end at begin()"; return "iteration_backward"; }
    }
    if (m.dim() > 0) {
      size_t v = rnd(0, (int) m.dim() - 1);
      Linear_Expression::const_iterator i = e.lower_bound(Variable(v));
      size_t w = v + 1; while (w < m.c.size() && m.c[w] == 0) ++w;
      if (w == m.c.size()) { if (i != e.end()) { d << "lower_bound(" << v << ") is not end()"; detail = d.str(); return "lower_bound"; } }
      else if (i == e.end() || i.variable().id() + 1 != w || *i != m.c[w]) { d << "lower_bound(" << v << ") wrong, expected variable " << w - 1; detail = d.str(); return "lower_bound"; }
    }
  }
  // low-level read-only view (the adapter all PPL clients use)
  {
    Expression_Adapter_Transparent<Linear_Expression> a(e);
    size_t n = m.c.size();
    size_t s = rnd(0, (int) n), t = rnd(0, (int) n); if (s > t) std::swap(s, t);
    // [0,0) makes DENSE all_zeroes_except answer false (defect, reported once in a while so the rest stays visible)
    if (s == 0 && t == 0 && !risky("aze00", 2)) t = 1;
    bool az = true; size_t nz = 0, fnz = t, lnz = t; bool seen = false;
    for (size_t i = s; i < t; ++i) { if (m.c[i] != 0) { az = false; if (!seen) { fnz = i; seen = true; } lnz = i; } else ++nz; }
    if (a.all_zeroes(s, t) != az) { d << "all_zeroes(" << s << "," << t << ")"; detail = d.str(); return "all_zeroes_range"; }
    if (a.num_zeroes(s, t) != nz) { d << "num_zeroes(" << s << "," << t << ") = " << a.num_zeroes(s, t) << " expected " << nz; detail = d.str(); return "num_zeroes"; }
    if (a.first_nonzero(s, t) != fnz) { d << "first_nonzero(" << s << "," << t << ") = " << a.first_nonzero(s, t) << " expected " << fnz; detail = d.str(); return "first_nonzero"; }
    if (a.last_nonzero(s, t) != lnz) { d << "last_nonzero(" << s << "," << t << ") = " << a.last_nonzero(s, t) << " expected " << lnz; detail = d.str(); return "last_nonzero_range"; }
    { size_t l = 0; for (size_t i = 0; i < n; ++i) if (m.c[i] != 0) l = i; if (a.last_nonzero() != l) { d << "last_nonzero() = " << a.last_nonzero() << " expected " << l; detail = d.str(); return "last_nonzero"; } }
    { Z g = gcd_of(m, s, t); Z pg = a.gcd(s, t); if (pg != g) { d << "gcd(" << s << "," << t << ") = " << pg << " expected " << g; detail = d.str(); return "gcd"; } }
    for (int r = 0; r < 2; ++r) { size_t i = rnd(0, (int) n - 1); if (a.get(i) != m.c[i]) { d << "get(" << i << ")"; detail = d.str(); return "get"; } }
    if (m.dim() > 0) {
      Variables_Set vs; for (size_t v = 0; v < m.dim(); ++v) if (coin(30)) vs.insert(v);
      bool z = true; for (Variables_Set::const_iterator i = vs.begin(); i != vs.end(); ++i) if (m.c[*i + 1] != 0) z = false;
      if (e.all_zeroes(vs) != z) { detail = "all_zeroes(Variables_Set) = " + std::to_string(e.all_zeroes(vs)); return "all_zeroes_vars"; }
      bool ze = true; for (size_t i = s; i < t; ++i) if (m.c[i] != 0 && (i == 0 || vs.count(i - 1) == 0)) ze = false;
      if (a.all_zeroes_except(vs, s, t) != ze) { d << "all_zeroes_except(vars," << s << "," << t << ") = " << !ze << (s == 0 && t == 0 ? " [empty@0]" : ""); detail = d.str(); return "all_zeroes_except"; }
      std::set<dimension_type> fs, want; for (size_t i = 0; i < n; ++i) if (coin(40)) { fs.insert(i); if (m.c[i] == 0) want.insert(i); }
      a.has_a_free_dimension_helper(fs);
      if (fs != want) { detail = "has_a_free_dimension_helper"; return "has_a_free_dimension_helper"; }
    }
    if (coin(30)) {
      Dense_Row dr; a.get_row(dr); Sparse_Row sr; a.get_row(sr);
      if (dr.size() != n || sr.size() != n) { detail = "get_row size"; return "get_row"; }
      for (size_t i = 0; i < n; ++i) if (dr[i] != m.c[i] || sr.get(i) != m.c[i]) { d << "get_row element " << i; detail = d.str(); return "get_row"; }
      if (!sr.OK() || !dr.OK()) { detail = "get_row OK()"; return "get_row"; }
    }
  }
  return "";
}

const char* repclass(const Linear_Expression& x, const Linear_Expression& y) { return x.representation() == DENSE ? (y.representation() == DENSE ? "DD" : "DS") : (y.representation() == DENSE ? "SD" : "SS"); }

} // namespace

// ------------------------------------------------------------------------------------
void rd::case_expr() {
  const int NP = 3;
  Slot S[NP];
  const bool wide = coin(30);
  const int maxv = wide ? rnd(12, 45) : rnd(1, 7);      // variable ids in [0, maxv)
  const int steps = wide ? rnd(10, 30) : rnd(6, 16);
  hx::count(wide ? "expr.cases_wide" : "expr.cases_narrow");
  poison().clear();

  auto check_all = [&](const std::string& op) -> bool {
    const std::string opb = op.substr(0, op.find('@')), opc = op.find('@') == std::string::npos ? std::string() : op.substr(op.find('@') + 1);
    for (int i = 0; i < NP; ++i) {
      std::string det; checked();
      // twin vs twin first (the C16 statement), then twin vs model
      const Linear_Expression& X = S[i].X; const Linear_Expression& Y = S[i].Y;
      bool eq = X.space_dimension() == Y.space_dimension() && X.inhomogeneous_term() == Y.inhomogeneous_term();
      for (dimension_type v = 0; eq && v < X.space_dimension(); ++v) if (X.coefficient(Variable(v)) != Y.coefficient(Variable(v))) eq = false;
      if (!eq) { viol("C16.diff.Linear_Expression." + opb + ":" + (opc.empty() ? std::string("coefficients") : opc), "slot " + std::to_string(i) + " X=" + show(X) + " Y=" + show(Y) + " model=" + show(S[i].M)); return false; }
      if (!X.is_equal_to(Y) || !Y.is_equal_to(X)) { viol("C16.diff.Linear_Expression." + opb + ":" + (opc.empty() ? std::string("is_equal_to") : opc), std::string("twins with equal coefficients are not is_equal_to; reps ") + repclass(X, Y) + " X=" + show(X)); return false; }
      if (compare(X, Y) != 0 || compare(Y, X) != 0) { viol("C16.diff.Linear_Expression." + opb + ":" + (opc.empty() ? std::string("compare") : opc), std::string("compare(twin, twin) != 0; reps ") + repclass(X, Y) + " X=" + show(X)); return false; }
      { std::string a = str(X), b = str(Y); if (a != b) { viol("C16.diff.Linear_Expression." + opb + ":" + (opc.empty() ? std::string("print") : opc), a + " vs " + b); return false; } }
      { std::string a = dump(X), b = dump(Y); if (a != b) { viol("C16.diff.Linear_Expression." + opb + ":" + (opc.empty() ? std::string("ascii_dump") : opc), a + " vs " + b); return false; } }
      for (int t = 0; t < 2; ++t) {
        const Linear_Expression& E = t ? Y : X; std::string w = observe(E, S[i].M, det);
        if (w.empty()) continue;
        std::string rep = E.representation() == DENSE ? "dense" : "sparse";
        std::string base = op.substr(0, op.find('@')), cls = op.find('@') == std::string::npos ? "" : op.substr(op.find('@') + 1);
        std::string key;
        if (!cls.empty() || w == "OK" || w == "space_dimension" || w == "inhomogeneous_term" || w == "coefficient")
          key = "C16.diff.Linear_Expression." + base + ":" + (cls.empty() ? w + "-" + rep + "-vs-model" : cls);     // the operation produced a wrong value / broke the invariant
        else
          key = "C16.diff.Linear_Expression." + w + ":" + rep + (det.find("[empty@0]") != std::string::npos ? "-empty-range-at-0" : "-vs-model");   // an observer misreports a right value
        viol(key, det + (t ? " Y=" : " X=") + show(E) + " model=" + show(S[i].M)); return false;
      }
    }
    return true;
  };

  // seed the slots with something
  for (int i = 0; i < NP; ++i) {
    int n = rnd(0, maxv);
    for (int v = 0; v < n; ++v) if (coin(wide ? 25 : 55)) { Z k = rand_z(true); S[i].X += k * Variable(v); S[i].Y += k * Variable(v); S[i].M.grow(v + 1); S[i].M.c[v + 1] += k; }
    if (coin()) { Z k = rand_z(); S[i].X += k; S[i].Y += k; S[i].M.c[0] += k; }
  }
  tr("init"); for (int i = 0; i < NP; ++i) tr(" #" + std::to_string(i) + "=" + show(S[i].M));
  if (!check_all("init")) return;

  for (int st = 0; st < steps && !hx::st().case_tainted; ++st) {
    int a = rnd(0, NP - 1), b = rnd(0, NP - 2); if (b >= a) ++b;
    Slot& A = S[a]; Slot& B = S[b];
    // the argument seen by each twin: either twin of the argument slot (mixed representations)
    const Linear_Expression& argX = coin() ? B.X : B.Y;
    const Linear_Expression& argY = coin() ? B.X : B.Y;
    ME& M = A.M; const ME MB = B.M;
    std::ostringstream pre; pre << " | #" << a << "[" << repclass(A.X, A.Y) << "].";
    std::string op; std::ostringstream args;
    int v = rnd(0, maxv - 1); Z k = rand_z(), k2 = rand_z();
    int kind = rnd(0, 40);
    RD_GUARD_BEGIN
    try {
      switch (kind) {
      case 0: { bool plus = coin(); op = plus ? "add_assign_var" : "sub_assign_var"; args << v; tr(pre.str() + op + "(" + args.str() + ")");
        if (plus) { A.X += Variable(v); A.Y += Variable(v); M.grow(v + 1); M.c[v + 1] += 1; } else { A.X -= Variable(v); A.Y -= Variable(v); M.grow(v + 1); M.c[v + 1] -= 1; } break; }
      case 1: case 2: { bool plus = coin(); op = plus ? "add_assign_kvar" : "sub_assign_kvar"; args << k << "*" << v; tr(pre.str() + op + "(" + args.str() + ")");
        // k*Variable(v) is itself a (default-representation) temporary: mixed operation for the DENSE twin
        if (plus) { A.X += k * Variable(v); A.Y += Variable(v) * k; } else { A.X -= k * Variable(v); A.Y -= Variable(v) * k; }
        M.grow(v + 1); if (plus) M.c[v + 1] += k; else M.c[v + 1] -= k; break; }
      case 3: case 4: case 5: { bool plus = coin(); op = plus ? "add_assign" : "sub_assign"; args << "#" << b << ":" << rs(argX.representation()) << rs(argY.representation()); tr(pre.str() + op + "(" + args.str() + ")");
        if (plus) { A.X += argX; A.Y += argY; } else { A.X -= argX; A.Y -= argY; }
        M.grow(MB.dim()); for (size_t i = 0; i < MB.c.size(); ++i) if (plus) M.c[i] += MB.c[i]; else M.c[i] -= MB.c[i]; break; }
      case 6: { if (coin(15)) k = 0; op = "mul_assign"; args << k; tr(pre.str() + op + "(" + args.str() + ")"); A.X *= k; A.Y *= k; for (size_t i = 0; i < M.c.size(); ++i) M.c[i] *= k; break; }
      case 7: { if (k == 0) k = 2; op = "div_assign"; args << k; tr(pre.str() + op + "(" + args.str() + ")"); A.X /= k; A.Y /= k; for (size_t i = 0; i < M.c.size(); ++i) M.c[i] = M.c[i] / k; break; }
      case 8: case 9: { bool plus = coin(); op = plus ? "add_mul_assign_var" : "sub_mul_assign_var"; if (coin(10)) k = 0; args << k << "," << v; tr(pre.str() + op + "(" + args.str() + ")");
        if (plus) { add_mul_assign(A.X, k, Variable(v)); add_mul_assign(A.Y, k, Variable(v)); } else { sub_mul_assign(A.X, k, Variable(v)); sub_mul_assign(A.Y, k, Variable(v)); }
        M.grow(v + 1); if (plus) M.c[v + 1] += k; else M.c[v + 1] -= k; break; }
      case 10: case 11: { bool plus = coin(); op = plus ? "add_mul_assign" : "sub_mul_assign"; if (coin(10)) k = 0; args << k << ",#" << b << ":" << rs(argX.representation()) << rs(argY.representation()); tr(pre.str() + op + "(" + args.str() + ")");
        if (plus) { add_mul_assign(A.X, k, argX); add_mul_assign(A.Y, k, argY); } else { sub_mul_assign(A.X, k, argX); sub_mul_assign(A.Y, k, argY); }
        if (k != 0) { M.grow(MB.dim()); for (size_t i = 0; i < MB.c.size(); ++i) if (plus) M.c[i] += k * MB.c[i]; else M.c[i] -= k * MB.c[i]; } break; }
      case 12: { op = "neg_assign"; tr(pre.str() + op + "()"); neg_assign(A.X); neg_assign(A.Y); for (size_t i = 0; i < M.c.size(); ++i) M.c[i] = -M.c[i]; break; }
      case 13: { bool plus = coin(); op = plus ? "add_assign_coeff" : "sub_assign_coeff"; args << k; tr(pre.str() + op + "(" + args.str() + ")"); if (plus) { A.X += k; A.Y += k; M.c[0] += k; } else { A.X -= k; A.Y -= k; M.c[0] -= k; } break; }
      case 14: case 15: { if (M.dim() == 0) { op = "set_inhomogeneous_term"; args << k; tr(pre.str() + op + "(" + args.str() + ")"); A.X.set_inhomogeneous_term(k); A.Y.set_inhomogeneous_term(k); M.c[0] = k; break; }
        int w = rnd(0, (int) M.dim() - 1); if (coin(30)) k = 0; op = "set_coefficient"; args << w << "," << k; tr(pre.str() + op + "(" + args.str() + ")"); A.X.set_coefficient(Variable(w), k); A.Y.set_coefficient(Variable(w), k); M.c[w + 1] = k; break; }
      case 16: { if (coin(30)) k = 0; op = "set_inhomogeneous_term"; args << k; tr(pre.str() + op + "(" + args.str() + ")"); A.X.set_inhomogeneous_term(k); A.Y.set_inhomogeneous_term(k); M.c[0] = k; break; }
      case 17: { int n = coin(30) ? rnd(0, (int) M.dim()) : rnd(0, maxv); op = "set_space_dimension"; args << n; tr(pre.str() + op + "(" + args.str() + ")"); A.X.set_space_dimension(n); A.Y.set_space_dimension(n); M.c.resize(n + 1); break; }
      // NOTE: the public, documented Linear_Expression::linear_combine(const Linear_Expression&, Variable) is declared
      // but defined nowhere in the library (link error), so it cannot be driven; its private dimension_type overload is
      // reached through Linear_System::gauss / back_substitute by the Polyhedron clients of the `sys` workload.
      case 18: case 19:
      case 20: case 21: case 22: { bool lax = coin(40); op = lax ? "linear_combine_lax" : "linear_combine";
        if (lax) { if (coin(25)) k = 0; if (coin(25)) k2 = 0; } else { if (k == 0) k = 1; if (k2 == 0) k2 = -1; }
        // Documented as `*this = *this * c1 + y * c2`.  With an argument of lower dimension PPL leaves the receiver's
        // trailing coefficients unscaled (defect, both representations alike): visited rarely so the rest stays visible.
        bool lower = MB.dim() < M.dim();
        if (lower && k != 1 && !risky("lcdim", 5)) { hx::count("expr.skip.linear_combine_lowerdim"); op.clear(); break; }
        // c1 == 0 with a SPARSE receiver and a DENSE argument stores zeroes in the sparse row (defect): visited, but not every time
        bool sz = lax && k == 0 && k2 != 0 && ((A.X.representation() == SPARSE && argX.representation() == DENSE) || (A.Y.representation() == SPARSE && argY.representation() == DENSE));
        if (sz && !risky("laxsz", 30)) { hx::count("expr.skip.lax_stored_zero"); op.clear(); break; }
        args << "#" << b << ":" << rs(argX.representation()) << rs(argY.representation()) << "," << k << "," << k2; tr(pre.str() + op + "(" + args.str() + ")");
        if (lax) { A.X.linear_combine_lax(argX, k, k2); A.Y.linear_combine_lax(argY, k, k2); } else { A.X.linear_combine(argX, k, k2); A.Y.linear_combine(argY, k, k2); }
        M.grow(MB.dim()); for (size_t i = 0; i < M.c.size(); ++i) M.c[i] = M.c[i] * k + (i < MB.c.size() ? MB.c[i] * k2 : Z(0));
        if (sz) op += (lower && k != 1) ? "@c1-zero-sparse-receiver-dense-arg+arg-lower-dim" : "@c1-zero-sparse-receiver-dense-arg";
        else if (lower && k != 1) op += "@arg-lower-dim-tail-unscaled";
        break; }
      case 23: { if (M.dim() < 1) { op.clear(); break; } int i = rnd(0, (int) M.dim() - 1), j = coin(10) ? i : rnd(0, (int) M.dim() - 1); op = "swap_space_dimensions"; args << i << "," << j; tr(pre.str() + op + "(" + args.str() + ")");
        A.X.swap_space_dimensions(Variable(i), Variable(j)); A.Y.swap_space_dimensions(Variable(i), Variable(j)); std::swap(M.c[i + 1], M.c[j + 1]); break; }
      case 24: case 25: { op = "remove_space_dimensions"; Variables_Set vs; int pct = coin() ? 20 : 60; for (size_t i = 0; i < M.dim(); ++i) if (coin(pct)) vs.insert(i);
        if (coin(10)) { vs.clear(); for (size_t i = 0; i < M.dim(); ++i) vs.insert(i); }
        args << "{"; for (Variables_Set::const_iterator i = vs.begin(); i != vs.end(); ++i) args << *i << " "; args << "}"; tr(pre.str() + op + "(" + args.str() + ")");
        A.X.remove_space_dimensions(vs); A.Y.remove_space_dimensions(vs);
        std::vector<Z> nc; nc.push_back(M.c[0]); for (size_t i = 0; i < M.dim(); ++i) if (!vs.count(i)) nc.push_back(M.c[i + 1]); M.c.swap(nc); break; }
      case 26: { int i = rnd(0, (int) M.dim()), n = coin(15) ? 0 : rnd(1, wide ? 9 : 3); op = "shift_space_dimensions"; args << i << "," << n; tr(pre.str() + op + "(" + args.str() + ")");
        A.X.shift_space_dimensions(Variable(i), n); A.Y.shift_space_dimensions(Variable(i), n); M.c.insert(M.c.begin() + i + 1, (size_t) n, Z(0)); break; }
      case 27: case 28: { op = "permute_space_dimensions"; std::vector<int> ids; for (size_t i = 0; i < M.dim(); ++i) ids.push_back(i); std::shuffle(ids.begin(), ids.end(), hx::rng());
        size_t len = ids.empty() ? 0 : (size_t) rnd(0, std::min<int>(ids.size(), wide ? 8 : 4)); std::vector<Variable> cyc; for (size_t i = 0; i < len; ++i) { cyc.push_back(Variable(ids[i])); args << ids[i] << " "; }
        tr(pre.str() + op + "(" + args.str() + ")"); A.X.permute_space_dimensions(cyc); A.Y.permute_space_dimensions(cyc);
        if (len >= 2) { std::vector<Z> old = M.c; for (size_t i = 0; i < len; ++i) M.c[ids[(i + 1) % len] + 1] = old[ids[i] + 1]; } break; }
      case 29: { op = "normalize"; tr(pre.str() + op + "()"); A.X.normalize(); A.Y.normalize(); Z g = gcd_of(M, 0, M.c.size()); if (g > 1) for (size_t i = 0; i < M.c.size(); ++i) M.c[i] /= g; break; }
      case 30: { op = "sign_normalize"; tr(pre.str() + op + "()"); A.X.sign_normalize(); A.Y.sign_normalize(); size_t i = 1; while (i < M.c.size() && M.c[i] == 0) ++i; if (i < M.c.size() && M.c[i] < 0) for (size_t j = 0; j < M.c.size(); ++j) M.c[j] = -M.c[j]; break; }
      case 31: case 32: { // copy construction / assignment, with representation and/or dimension
        int how = rnd(0, 4); Representation rx = rand_rep(), ry = rand_rep(); size_t n = coin(40) ? (size_t) rnd(0, (int) MB.dim()) : (size_t) rnd(0, maxv);
        if (how == 0) { op = "assign"; args << "#" << b; tr(pre.str() + op + "(" + args.str() + ")"); A.X = argX; A.Y = argY; M = MB; }
        else if (how == 1) { op = "copy_repr"; args << "#" << b << "," << rs(rx) << rs(ry); tr(pre.str() + op + "(" + args.str() + ")"); A.X = Linear_Expression(argX, rx); A.Y = Linear_Expression(argY, ry); M = MB; }
        else if (how == 2) { op = n < MB.dim() ? "copy_dim_truncate" : "copy_dim"; args << "#" << b << ":" << rs(argX.representation()) << rs(argY.representation()) << "," << n; tr(pre.str() + op + "(" + args.str() + ")"); A.X = Linear_Expression(argX, n); A.Y = Linear_Expression(argY, n); M = MB; M.c.resize(n + 1); }
        else { if (n < MB.dim() && !risky("truncds", 8)) { if (argX.representation() == DENSE) rx = DENSE; if (argY.representation() == DENSE) ry = DENSE; }
          op = n < MB.dim() ? "copy_dim_repr_truncate" : "copy_dim_repr"; args << "#" << b << ":" << rs(argX.representation()) << rs(argY.representation()) << "," << n << "," << rs(rx) << rs(ry); tr(pre.str() + op + "(" + args.str() + ")");
          A.X = Linear_Expression(argX, n, rx); A.Y = Linear_Expression(argY, n, ry); M = MB; M.c.resize(n + 1);
          if (n < MB.dim() && ((argX.representation() == DENSE && rx == SPARSE) || (argY.representation() == DENSE && ry == SPARSE))) hx::count("truncating_dense_to_sparse_conversions") /* the defect this used to poison the case for is repaired in /repo */; }
        break; }
      case 33: { bool ms = coin(); op = ms ? "m_swap" : "swap"; args << "#" << b; tr(pre.str() + op + "(" + args.str() + ")"); if (ms) { A.X.m_swap(B.X); A.Y.m_swap(B.Y); } else { using std::swap; swap(A.X, B.X); swap(A.Y, B.Y); } std::swap(A.M, B.M); break; }
      case 34: { op = "set_representation"; Representation rx = rand_rep(), ry = rand_rep(); args << rs(rx) << rs(ry); tr(pre.str() + op + "(" + args.str() + ")"); A.X.set_representation(rx); A.Y.set_representation(ry); hx::count("expr.repr_flips"); break; }
      case 35: case 36: { // value-returning operators
        int w = rnd(0, 15); const Linear_Expression& a1X = coin() ? A.X : A.Y; const Linear_Expression& a1Y = coin() ? A.X : A.Y; ME R; const ME MA = M;
        auto lin = [&](const ME& p, const Z& cp, const ME& q, const Z& cq) { ME r; r.c.assign(std::max(p.c.size(), q.c.size()), Z(0)); for (size_t i = 0; i < r.c.size(); ++i) r.c[i] = (i < p.c.size() ? p.c[i] * cp : Z(0)) + (i < q.c.size() ? q.c[i] * cq : Z(0)); return r; };
        ME V; V.grow(v + 1); V.c[v + 1] = 1; ME K; K.c[0] = k; ME ZERO;
        Linear_Expression rX(DENSE), rY(SPARSE);
        switch (w) {
        case 0: op = "op_plus"; rX = a1X + argX; rY = a1Y + argY; R = lin(MA, 1, MB, 1); break;
        case 1: op = "op_minus"; rX = a1X - argX; rY = a1Y - argY; R = lin(MA, 1, MB, -1); break;
        case 2: op = "op_neg"; rX = -argX; rY = -argY; R = lin(MB, -1, ZERO, 0); break;
        case 3: op = "op_unary_plus"; rX = +argX; rY = +argY; R = MB; break;
        case 4: op = "op_mul_left"; rX = k * argX; rY = k * argY; R = lin(MB, k, ZERO, 0); break;
        case 5: op = "op_mul_right"; rX = argX * k; rY = argY * k; R = lin(MB, k, ZERO, 0); break;
        case 6: op = "op_var_plus_e"; rX = Variable(v) + argX; rY = Variable(v) + argY; R = lin(MB, 1, V, 1); break;
        case 7: op = "op_e_plus_var"; rX = argX + Variable(v); rY = argY + Variable(v); R = lin(MB, 1, V, 1); break;
        case 8: op = "op_var_minus_e"; rX = Variable(v) - argX; rY = Variable(v) - argY; R = lin(MB, -1, V, 1); break;
        case 9: op = "op_e_minus_var"; rX = argX - Variable(v); rY = argY - Variable(v); R = lin(MB, 1, V, -1); break;
        case 10: op = "op_n_plus_e"; rX = k + argX; rY = k + argY; R = lin(MB, 1, K, 1); break;
        case 11: op = "op_e_plus_n"; rX = argX + k; rY = argY + k; R = lin(MB, 1, K, 1); break;
        case 12: op = "op_n_minus_e"; rX = k - argX; rY = k - argY; R = lin(MB, -1, K, 1); break;
        case 13: op = "op_e_minus_n"; rX = argX - k; rY = argY - k; R = lin(MB, 1, K, -1); break;
        case 14: { int u = rnd(0, maxv - 1); op = "op_var_plus_var"; rX = Variable(v) + Variable(u); rY = Linear_Expression(Variable(v) + Variable(u), SPARSE); ME U; U.grow(u + 1); U.c[u + 1] = 1; R = lin(V, 1, U, 1); args << u << ","; rX.set_representation(DENSE); break; }
        default: { int u = rnd(0, maxv - 1); op = "op_var_minus_var"; rX = Variable(v) - Variable(u); rY = Linear_Expression(Variable(v) - Variable(u), SPARSE); ME U; U.grow(u + 1); U.c[u + 1] = 1; R = lin(V, 1, U, -1); args << u << ","; rX.set_representation(DENSE); break; }
        }
        args << "#" << b << ",k=" << k << ",v=" << v; tr(pre.str() + op + "(" + args.str() + ")");
        A.X = rX; A.Y = rY; M = R; break; }
      case 37: { // ascii round trip (C15.row.*): the loaded object replaces one twin and lives on in lock-step
        op = "ascii_load"; bool intoX = coin(); Representation r = rand_rep(); args << (intoX ? "X" : "Y") << "," << rs(r); tr(pre.str() + op + "(" + args.str() + ")");
        const Linear_Expression& src = intoX ? A.X : A.Y; std::string t1 = dump(src); Linear_Expression L(r);
        if (coin()) { L += Variable(rnd(0, 9)); L += 3; }        // loading must overwrite whatever was there
        std::istringstream in(t1); checked(); hx::count("ascii_roundtrips");
        if (!L.ascii_load(in)) { viol(std::string("C15.row.Linear_Expression.ascii_load_failed:into-") + (r == DENSE ? "dense" : "sparse"), clip(t1)); return; }
        if (!L.OK()) { viol("C15.row.Linear_Expression.loaded_not_OK", clip(t1)); return; }
        std::string t2 = dump(L); if (t1 != t2) { viol(std::string("C15.row.Linear_Expression.redump_differs:into-") + (r == DENSE ? "dense" : "sparse"), clip(t1) + " vs " + clip(t2)); return; }
        if (!same(L, M) || !L.is_equal_to(src)) { viol(std::string("C15.row.Linear_Expression.value_differs:into-") + (r == DENSE ? "dense" : "sparse"), show(L) + " vs " + show(M)); return; }
        if (intoX) A.X.m_swap(L); else A.Y.m_swap(L);
        break; }
      case 38: case 39: { // binary observers in all representation combinations, against the model
        op = "binary_queries"; tr(pre.str() + op + "(#" + std::to_string(b) + ")");
        const Linear_Expression* xs[2] = { &A.X, &A.Y }; const Linear_Expression* ys[2] = { &B.X, &B.Y };
        // model answers
        int mc = 0; { size_t n = std::max(M.c.size(), MB.c.size()); for (size_t i = 1; i < n && !mc; ++i) { Z p = i < M.c.size() ? M.c[i] : Z(0), q = i < MB.c.size() ? MB.c[i] : Z(0); if (p != q) mc = p < q ? -2 : 2; } if (!mc && M.c[0] != MB.c[0]) mc = M.c[0] < MB.c[0] ? -1 : 1; }
        bool meq = M.c == MB.c;
        size_t lim = std::min(M.c.size(), MB.c.size()); size_t s = rnd(0, (int) lim), t = rnd(0, (int) lim); if (s > t) std::swap(s, t);
        bool req = true; for (size_t i = s; i < t; ++i) if (M.c[i] != MB.c[i]) req = false;
        Z c1 = coin(20) ? Z(0) : rand_z(), c2 = coin(20) ? Z(0) : rand_z(); bool req2 = true; for (size_t i = s; i < t; ++i) if (M.c[i] * c1 != MB.c[i] * c2) req2 = false;
        size_t s1 = std::max<size_t>(s, 1), t1 = std::max<size_t>(t, 1); bool common = false; for (size_t i = s1; i < t1; ++i) if (M.c[i] != 0 && MB.c[i] != 0) common = true;
        Z sp = 0, sph = 0, spr = 0; bool sp_ok = M.dim() <= MB.dim();
        if (sp_ok) { for (size_t i = 0; i < M.c.size(); ++i) { sp += M.c[i] * MB.c[i]; if (i) sph += M.c[i] * MB.c[i]; if (i + 1 < M.c.size()) spr += M.c[i] * MB.c[i]; } }
        for (int p = 0; p < 2; ++p) for (int q = 0; q < 2; ++q) {
          const Linear_Expression& x = *xs[p]; const Linear_Expression& y = *ys[q]; std::string rc = repclass(x, y); checked(); hx::count("expr.binary_query_combos");
          int c = compare(x, y); if (c != mc) { viol("C16.diff.Linear_Expression.compare:" + rc, "compare = " + std::to_string(c) + " expected " + std::to_string(mc) + " x=" + show(x) + " y=" + show(y)); return; }
          if (x.is_equal_to(y) != meq) { viol("C16.diff.Linear_Expression.is_equal_to:" + rc, "x=" + show(x) + " y=" + show(y)); return; }
          Expression_Adapter_Transparent<Linear_Expression> ax(x);
          if (ax.is_equal_to(y, s, t) != req) { viol("C16.diff.Linear_Expression.is_equal_to_range:" + rc, "range [" + std::to_string(s) + "," + std::to_string(t) + ") x=" + show(x) + " y=" + show(y)); return; }
          if (ax.is_equal_to(y, c1, c2, s, t) != req2) { viol("C16.diff.Linear_Expression.is_equal_to_scaled:" + rc, "c1=" + zs(c1) + " c2=" + zs(c2) + " range [" + std::to_string(s) + "," + std::to_string(t) + ") x=" + show(x) + " y=" + show(y)); return; }
          { bool h = ax.have_a_common_variable(y, Variable(s1 - 1), Variable(t1 - 1)); if (h != common) { viol("C16.diff.Linear_Expression.have_a_common_variable:" + rc, "range [" + std::to_string(s1) + "," + std::to_string(t1) + ") x=" + show(x) + " y=" + show(y)); return; } }
          if (sp_ok) {
            Z z; Scalar_Products::assign(z, x, y); if (z != sp) { viol("C16.diff.Linear_Expression.scalar_product:" + rc, zs(z) + " expected " + zs(sp) + " x=" + show(x) + " y=" + show(y)); return; }
            if (Scalar_Products::sign(x, y) != sgn(sp)) { viol("C16.diff.Linear_Expression.scalar_product_sign:" + rc, "x=" + show(x) + " y=" + show(y)); return; }
            Scalar_Products::homogeneous_assign(z, x, y); if (z != sph) { viol("C16.diff.Linear_Expression.homogeneous_scalar_product:" + rc, zs(z) + " expected " + zs(sph) + " x=" + show(x) + " y=" + show(y)); return; }
            if (M.dim() >= 1) { Scalar_Products::reduced_assign(z, x, y); if (z != spr) { viol("C16.diff.Linear_Expression.reduced_scalar_product:" + rc, zs(z) + " expected " + zs(spr) + " x=" + show(x) + " y=" + show(y)); return; } }
          }
        }
        break; }
      default: { // bulk build: many terms at once, crossing the tree thresholds (wide cases)
        op = "bulk_add_terms"; int n = rnd(3, wide ? 30 : 6); tr(pre.str() + op + "(" + std::to_string(n) + ")");
        for (int i = 0; i < n; ++i) { int w = rnd(0, maxv - 1); Z c = rand_z(true); if (coin()) { A.X += c * Variable(w); A.Y += c * Variable(w); } else { add_mul_assign(A.X, c, Variable(w)); add_mul_assign(A.Y, c, Variable(w)); } M.grow(w + 1); M.c[w + 1] += c; }
        break; }
      }
    } catch (const Logical_Timeout&) { throw; }
    catch (const std::exception& e) { viol("C16.diff.Linear_Expression." + (op.empty() ? std::string("unknown") : op) + ":unexpected-exception", std::string(typeid(e).name()) + ": " + e.what()); return; }
    RD_GUARD_END("Linear_Expression." + op)
    if (op.empty()) continue;
    hx::count("op.expr." + (op.find('@') == std::string::npos ? op : op.substr(0, op.find('@'))));
    if (M.nnz() > 0) hx::distinct("expr|" + op + "|" + repclass(A.X, A.Y) + "|" + rs(argX.representation()) + rs(argY.representation()) + "|d" + std::to_string(M.dim() < 3 ? M.dim() : M.dim() < 8 ? 3 : M.dim() < 16 ? 8 : 16) + "|z" + std::to_string(M.nnz() < 3 ? M.nnz() : M.nnz() < 7 ? 3 : 7));
    if (!check_all(op)) return;
  }
}

// ------------------------------------------------------------------------------------
// Aliased operands.  The design-phase probe died in ASan on `e -= e` with a SPARSE
// receiver; every aliased step therefore runs in a forked child, which reports
// 0 = result equals the unaliased computation, 3 = result differs, crash otherwise.
void rd::case_alias() {
  const bool wide = coin(30); const int maxv = wide ? rnd(10, 40) : rnd(1, 6);
  for (int st = 0, steps = rnd(3, 6); st < steps && !hx::st().case_tainted; ++st) {
    Representation r = rand_rep();
    Linear_Expression e(r); ME M;
    int n = rnd(0, maxv); for (int v = 0; v < n; ++v) if (coin(wide ? 30 : 60)) { Z k = rand_z(true); e += k * Variable(v); M.grow(v + 1); M.c[v + 1] = k; }
    if (coin()) { Z k = rand_z(true); e += k; M.c[0] = k; }
    int kind = rnd(0, 8); Z k = rand_small_nz(), k2 = rand_small_nz();
    const char* names[9] = { "add_assign", "sub_assign", "add_mul_assign", "sub_mul_assign", "linear_combine", "linear_combine_lax", "assign", "swap", "m_swap" };
    std::string op = names[kind];
    ME W = M;
    switch (kind) {
    case 0: for (auto& c : W.c) c *= 2; break;
    case 1: for (auto& c : W.c) c = 0; break;
    case 2: for (auto& c : W.c) c *= (1 + k); break;
    case 3: for (auto& c : W.c) c *= (1 - k); break;
    case 4: case 5: for (auto& c : W.c) c *= (k + k2); break;
    default: break;
    }
    tr(" | alias " + op + " on " + show(e) + " k=" + zs(k) + " k2=" + zs(k2));
    hx::count("alias_checks"); hx::count("op.alias." + op); checked();
    Fork_Result R = run_forked([&]() -> int {
      switch (kind) {
      case 0: e += e; break;
      case 1: e -= e; break;
      case 2: add_mul_assign(e, k, e); break;
      case 3: sub_mul_assign(e, k, e); break;
      case 4: e.linear_combine(e, k, k2); break;
      case 5: e.linear_combine_lax(e, k, k2); break;
      case 6: e = e; break;
      case 7: { using std::swap; swap(e, e); break; }
      case 8: e.m_swap(e); break;
      }
      if (!e.OK()) return 44;
      return same(e, W) ? 0 : 43;
    });
    std::string cls = std::string(r == DENSE ? "dense" : "sparse") + "-receiver";
    if (kind == 4 && (k + k2 == 0 || false)) cls += "";   // c1 + c2 == 0 is still a legal call
    if (R.crashed) violation("C13.row.alias.Linear_Expression." + op + ":" + cls + "-crash", R.headline + " | e=" + show(e));
    else if (R.code == 43) violation("C13.row.alias.Linear_Expression." + op + ":" + cls + "-wrong-value", "expected " + show(W) + " from e=" + show(e));
    else if (R.code == 44) violation("C13.row.alias.Linear_Expression." + op + ":" + cls + "-not-OK", "e=" + show(e));
    else if (R.code == 47) violation("C13.row.alias.Linear_Expression." + op + ":" + cls + "-exception", R.headline);
    else if (R.code != 0) violation("harness.bug.fork", "child exit code " + std::to_string(R.code));
    if (M.nnz() > 0) hx::distinct("alias|" + op + "|" + cls + "|z" + std::to_string(M.nnz() < 3 ? M.nnz() : 3));
    hx::st().case_tainted = false;   // each aliased step is independent (fresh object, own process): go on
  }
}

// ------------------------------------------------------------------------------------
static void run_case(uint64_t) {
  const std::string& p = hx::opt().profile;
  long c = hx::st().cur_case;
  if (p == "expr") case_expr();
  else if (p == "alias") case_alias();
  else if (p == "obj") case_obj();
  else if (p == "sys") case_sys();
  else if (p == "row") case_row();
  else if (p == "tree") case_tree();
  else {            // default / ascii: everything, interleaved by case index
    switch (c % 10) {
    case 0: case 1: case_expr(); break;
    case 2: case 3: case_obj(); break;
    case 4: if (assert_safe()) case_obj(); else case_sys(); break;   // Polyhedron / Grid clients trip representation-independent debug assertions
    case 5: case 6: case 7: case_row(); break;
    case 8: case_tree(); break;
    default: if (p == "default") case_expr(); else case_alias(); break;
    }
  }
}

int main(int argc, char** argv) { return hx::main_loop(argc, argv, run_case); }
