// shapeseq: instantiation of the shape adapter for Octagonal_Shape<long double> (see shapeseq.hh).
#include "shapeseq.hh"
SHAPESEQ_REGISTER(oct_ldouble, Parma_Polyhedra_Library::Octagonal_Shape<long double>)
