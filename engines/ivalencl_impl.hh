// ivalencl — C12: interval arithmetic and set operations enclose every concrete result.
//
// Generic part, instantiated once per interval policy in ivalencl__<pol>.cc.
//
// Oracle (shares no code with PPL's Interval/Boundary layers):
//  * RI: a reference interval = (empty | lower Bd, upper Bd), Bd = (inf?, mpq value, open?).
//  * enclosure: members of the operands are sampled (both ends, just inside open ends, midpoints,
//    zero, random interior, far points of unbounded operands); the operation is applied exactly in
//    mpq; every result must be a member of the interval PPL returned (openness honoured).
//    Set operations are checked by their set definitions on sampled members.
//  * exactness (exact bound types; float types only for the operations documented as "smallest
//    interval"): equality with a small independent exact interval arithmetic (corner products with
//    attainment flags for mul, reciprocal + mul for div, boundary-order meets and joins).
//  * flags: is_empty / is_singleton / is_bounded / is_universe / is_topologically_closed /
//    contains_integer_point / OK() re-derived from the raw bounds; contains / strictly_contains /
//    is_disjoint_from / == decided on the reference intervals.
// All reference arithmetic is mpz/mpq; float bounds are converted exactly (frexp/ldexp, no rounding).
#ifndef IVALENCL_IMPL_HH
#define IVALENCL_IMPL_HH
#include "pplx.hh"
#include <cmath>
#include <cfloat>
#include <limits>
#include <type_traits>

namespace ivx {
using namespace Parma_Polyhedra_Library;
using hx::rnd; using hx::coin;
typedef mpq_class Q;

// ---------------------------------------------------------------- exact helpers
inline Q q2exp(int e) { Q r(1); if (e >= 0) mpq_mul_2exp(r.get_mpq_t(), r.get_mpq_t(), (unsigned long) e); else mpq_div_2exp(r.get_mpq_t(), r.get_mpq_t(), (unsigned long) (-e)); return r; }
inline mpz_class zfloor(const Q& q) { mpz_class z; mpz_fdiv_q(z.get_mpz_t(), q.get_num_mpz_t(), q.get_den_mpz_t()); return z; }
inline mpz_class zceil(const Q& q) { mpz_class z; mpz_cdiv_q(z.get_mpz_t(), q.get_num_mpz_t(), q.get_den_mpz_t()); return z; }
inline bool q_is_int(const Q& q) { return q.get_den() == 1; }
inline std::string qstr(const Q& q) { std::string s = q.get_str(); if (s.size() > 60) { std::ostringstream o; o << s.substr(0, 24) << "...(" << s.size() << " chars; ~2^" << (long) mpz_sizeinbase(q.get_num_mpz_t(), 2) - (long) mpz_sizeinbase(q.get_den_mpz_t(), 2) << ")"; return o.str(); } return s; }

inline Q toQ(const mpq_class& x) { return x; }
inline Q toQ(const mpz_class& x) { return Q(x); }
template <typename T> inline typename std::enable_if<std::is_integral<T>::value && std::is_signed<T>::value, Q>::type toQ(T x) { return Q((long) x); }
template <typename T> inline typename std::enable_if<std::is_integral<T>::value && !std::is_signed<T>::value, Q>::type toQ(T x) { return Q((unsigned long) x); }
// Exact conversion of a finite binary floating-point value (every step below is exact).
template <typename T> inline typename std::enable_if<std::is_floating_point<T>::value, Q>::type toQ(T x) {
  long double v = x;
  if (v == 0) return Q(0);
  int e; long double m = frexpl(v, &e);
  m = ldexpl(m, 64); e -= 64;
  bool neg = m < 0; if (neg) m = -m;
  unsigned long u = (unsigned long) m;
  Q r(u); if (neg) r = -r;
  return r * q2exp(e);
}
template <typename T> inline typename std::enable_if<std::is_floating_point<T>::value, bool>::type fp_nan(T x) { volatile T y = x; return !(y == y); }
template <typename T> inline typename std::enable_if<std::is_floating_point<T>::value, int>::type fp_inf(T x) { volatile T y = x; if (fp_nan(x)) return 0; if (y > std::numeric_limits<T>::max()) return 1; if (y < -std::numeric_limits<T>::max()) return -1; return 0; }
template <typename T> inline typename std::enable_if<!std::is_floating_point<T>::value, bool>::type fp_nan(const T&) { return false; }
template <typename T> inline typename std::enable_if<!std::is_floating_point<T>::value, int>::type fp_inf(const T&) { return 0; }

// ---------------------------------------------------------------- reference intervals
struct Bd { bool inf; Q v; bool open; Bd() : inf(true), v(0), open(true) {} Bd(const Q& q, bool o) : inf(false), v(q), open(o) {} };
struct RI { bool empty; Bd lo, hi; RI() : empty(false) {} };
inline RI ri_empty() { RI r; r.empty = true; return r; }
inline RI ri_univ() { return RI(); }
inline RI ri_point(const Q& q) { RI r; r.lo = Bd(q, false); r.hi = Bd(q, false); return r; }
inline bool bounds_nonempty(const Bd& lo, const Bd& hi) { if (lo.inf || hi.inf) return true; if (lo.v < hi.v) return true; return lo.v == hi.v && !lo.open && !hi.open; }
inline void norm(RI& r) { if (!r.empty && !bounds_nonempty(r.lo, r.hi)) r.empty = true; if (r.empty) { r.lo = Bd(); r.hi = Bd(); } if (r.lo.inf) { r.lo.open = true; r.lo.v = 0; } if (r.hi.inf) { r.hi.open = true; r.hi.v = 0; } }
inline bool mem(const RI& r, const Q& v) {
  if (r.empty) return false;
  if (!r.lo.inf && (v < r.lo.v || (r.lo.open && v == r.lo.v))) return false;
  if (!r.hi.inf && (v > r.hi.v || (r.hi.open && v == r.hi.v))) return false;
  return true;
}
// order of lower bounds: -inf < (v,closed) < (v,open); of upper bounds: (v,open) < (v,closed) < +inf
inline int cmpL(const Bd& a, const Bd& b) { if (a.inf || b.inf) return a.inf ? (b.inf ? 0 : -1) : 1; int c = cmp(a.v, b.v); if (c) return c; return (int) a.open - (int) b.open; }
inline int cmpU(const Bd& a, const Bd& b) { if (a.inf || b.inf) return a.inf ? (b.inf ? 0 : 1) : -1; int c = cmp(a.v, b.v); if (c) return c; return (int) b.open - (int) a.open; }
inline bool same(const RI& a, const RI& b) { if (a.empty || b.empty) return a.empty == b.empty; return cmpL(a.lo, b.lo) == 0 && cmpU(a.hi, b.hi) == 0; }
inline bool is_point(const RI& r) { return !r.empty && !r.lo.inf && !r.hi.inf && r.lo.v == r.hi.v; }
inline bool unbounded(const RI& r) { return !r.empty && (r.lo.inf || r.hi.inf); }
inline std::string show(const RI& r) {
  if (r.empty) return "[]";
  std::string s = r.lo.open ? "(" : "["; s += r.lo.inf ? "-inf" : qstr(r.lo.v); s += ","; s += r.hi.inf ? "+inf" : qstr(r.hi.v); s += r.hi.open ? ")" : "]"; return s;
}
inline std::string cfg(const RI& r) {
  if (r.empty) return "E";
  std::string s; s += r.lo.open ? '(' : '['; s += r.lo.inf ? 'I' : (sgn(r.lo.v) < 0 ? '-' : sgn(r.lo.v) > 0 ? '+' : '0');
  if (is_point(r)) s += '=';
  s += r.hi.inf ? 'I' : (sgn(r.hi.v) < 0 ? '-' : sgn(r.hi.v) > 0 ? '+' : '0'); s += r.hi.open ? ')' : ']'; return s;
}

// ---- independent exact interval arithmetic
inline RI r_neg(const RI& a) { if (a.empty) return a; RI r; if (!a.hi.inf) r.lo = Bd(-a.hi.v, a.hi.open); if (!a.lo.inf) r.hi = Bd(-a.lo.v, a.lo.open); return r; }
inline RI r_add(const RI& a, const RI& b) {
  if (a.empty || b.empty) return ri_empty();
  RI r;
  if (!a.lo.inf && !b.lo.inf) r.lo = Bd(a.lo.v + b.lo.v, a.lo.open || b.lo.open);
  if (!a.hi.inf && !b.hi.inf) r.hi = Bd(a.hi.v + b.hi.v, a.hi.open || b.hi.open);
  return r;
}
inline RI r_sub(const RI& a, const RI& b) { return r_add(a, r_neg(b)); }
struct Ext { int inf; Q v; bool att; };
inline int cmpE(const Ext& a, const Ext& b) { if (a.inf != b.inf) return a.inf < b.inf ? -1 : 1; if (a.inf) return 0; return cmp(a.v, b.v); }
inline Ext corner(const Bd& a, int a_inf_sign, const Bd& b, int b_inf_sign, bool zero_in_a, bool zero_in_b) {
  Ext e; e.inf = 0; e.att = false;
  if ((!a.inf && a.v == 0) || (!b.inf && b.v == 0)) { e.v = 0; e.att = zero_in_a || zero_in_b; return e; }
  if (a.inf || b.inf) { int sa = a.inf ? a_inf_sign : sgn(a.v), sb = b.inf ? b_inf_sign : sgn(b.v); e.inf = sa * sb; return e; }
  e.v = a.v * b.v; e.att = !a.open && !b.open; return e;
}
inline RI r_mul(const RI& a, const RI& b) {
  if (a.empty || b.empty) return ri_empty();
  bool za = mem(a, Q(0)), zb = mem(b, Q(0));
  Ext c[4] = { corner(a.lo, -1, b.lo, -1, za, zb), corner(a.lo, -1, b.hi, 1, za, zb), corner(a.hi, 1, b.lo, -1, za, zb), corner(a.hi, 1, b.hi, 1, za, zb) };
  Ext mn = c[0], mx = c[0];
  for (int i = 1; i < 4; ++i) { if (cmpE(c[i], mn) < 0) mn = c[i]; if (cmpE(c[i], mx) > 0) mx = c[i]; }
  bool amn = false, amx = false;
  for (int i = 0; i < 4; ++i) { if (cmpE(c[i], mn) == 0) amn = amn || c[i].att; if (cmpE(c[i], mx) == 0) amx = amx || c[i].att; }
  RI r;
  if (mn.inf == 0) r.lo = Bd(mn.v, !amn);
  if (mx.inf == 0) r.hi = Bd(mx.v, !amx);
  // a zero extreme that is attained because 0 is a member is closed even if the corner itself is open
  return r;
}
inline RI r_meet(const RI& a, const RI& b) {
  if (a.empty || b.empty) return ri_empty();
  RI r; r.lo = cmpL(a.lo, b.lo) >= 0 ? a.lo : b.lo; r.hi = cmpU(a.hi, b.hi) <= 0 ? a.hi : b.hi; norm(r); return r;
}
inline RI r_join(const RI& a, const RI& b) {
  if (a.empty) return b; if (b.empty) return a;
  RI r; r.lo = cmpL(a.lo, b.lo) <= 0 ? a.lo : b.lo; r.hi = cmpU(a.hi, b.hi) >= 0 ? a.hi : b.hi; return r;
}
inline RI r_recip_onesided(const RI& b) {   // b non-empty, 0 not a member, all members of one sign
  RI r;
  bool pos = b.hi.inf || b.hi.v > 0;
  if (pos) {
    if (b.hi.inf) r.lo = Bd(Q(0), true); else r.lo = Bd(1 / b.hi.v, b.hi.open);
    if (b.lo.v == 0) r.hi = Bd(); else r.hi = Bd(1 / b.lo.v, b.lo.open);
  }
  else {
    if (b.hi.v == 0) r.lo = Bd(); else r.lo = Bd(1 / b.hi.v, b.hi.open);
    if (b.lo.inf) r.hi = Bd(Q(0), true); else r.hi = Bd(1 / b.lo.v, b.lo.open);
  }
  return r;
}
inline RI r_div(const RI& a, const RI& b) {
  if (a.empty || b.empty) return ri_empty();
  RI negr; negr.hi = Bd(Q(0), true); RI posr; posr.lo = Bd(Q(0), true);
  RI bn = r_meet(b, negr), bp = r_meet(b, posr);
  RI r = ri_empty();
  if (!bn.empty) r = r_join(r, r_mul(a, r_recip_onesided(bn)));
  if (!bp.empty) r = r_join(r, r_mul(a, r_recip_onesided(bp)));
  return r;
}
// smallest interval containing a \ b
inline RI r_diff(const RI& a, const RI& b) {
  if (a.empty || b.empty) return a;
  RI r = ri_empty();
  if (!b.lo.inf) { RI left; left.hi = Bd(b.lo.v, !b.lo.open); r = r_join(r, r_meet(a, left)); }
  if (!b.hi.inf) { RI right; right.lo = Bd(b.hi.v, !b.hi.open); r = r_join(r, r_meet(a, right)); }
  return r;
}
// rel codes: 0 <, 1 <=, 2 ==, 3 >=, 4 >, 5 !=
static const Relation_Symbol RELS[6] = { LESS_THAN, LESS_OR_EQUAL, EQUAL, GREATER_OR_EQUAL, GREATER_THAN, NOT_EQUAL };
static const char* const RELN[6] = { "<", "<=", "==", ">=", ">", "!=" };
inline bool holds(const Q& a, int rel, const Q& b) { switch (rel) { case 0: return a < b; case 1: return a <= b; case 2: return a == b; case 3: return a >= b; case 4: return a > b; default: return a != b; } }
// exact decision of "exists b in B: a rel b" / "forall b in B: a rel b" on the bounds of B
inline bool exists_rel(const Q& a, int rel, const RI& b) {
  if (b.empty) return false;
  switch (rel) {
  case 0: return b.hi.inf || a < b.hi.v;
  case 1: return b.hi.inf || a < b.hi.v || (a == b.hi.v && !b.hi.open);
  case 2: return mem(b, a);
  case 3: return b.lo.inf || a > b.lo.v || (a == b.lo.v && !b.lo.open);
  case 4: return b.lo.inf || a > b.lo.v;
  default: return !(is_point(b) && b.lo.v == a);
  }
}
inline bool forall_rel(const Q& a, int rel, const RI& b) {
  if (b.empty) return true;
  switch (rel) {
  case 0: return !b.lo.inf && (a < b.lo.v || (a == b.lo.v && b.lo.open));
  case 1: return !b.lo.inf && a <= b.lo.v;
  case 2: return is_point(b) && b.lo.v == a;
  case 3: return !b.hi.inf && a >= b.hi.v;
  case 4: return !b.hi.inf && (a > b.hi.v || (a == b.hi.v && b.hi.open));
  default: return !mem(b, a);
  }
}
inline RI r_refex(const RI& a, int rel, const RI& b) {
  if (a.empty || b.empty) return ri_empty();
  RI c;
  switch (rel) {
  case 0: if (!b.hi.inf) c.hi = Bd(b.hi.v, true); return r_meet(a, c);
  case 1: c.hi = b.hi; return r_meet(a, c);
  case 2: return r_meet(a, b);
  case 3: c.lo = b.lo; return r_meet(a, c);
  case 4: if (!b.lo.inf) c.lo = Bd(b.lo.v, true); return r_meet(a, c);
  default: return is_point(b) ? r_diff(a, b) : a;
  }
}
inline RI r_refun(const RI& a, int rel, const RI& b) {
  if (a.empty) return ri_empty();
  if (b.empty) return a;
  RI c;
  switch (rel) {
  case 0: if (b.lo.inf) return ri_empty(); c.hi = Bd(b.lo.v, !b.lo.open); return r_meet(a, c);
  case 1: if (b.lo.inf) return ri_empty(); c.hi = Bd(b.lo.v, false); return r_meet(a, c);
  case 2: return is_point(b) ? r_meet(a, b) : ri_empty();
  case 3: if (b.hi.inf) return ri_empty(); c.lo = Bd(b.hi.v, false); return r_meet(a, c);
  case 4: if (b.hi.inf) return ri_empty(); c.lo = Bd(b.hi.v, !b.hi.open); return r_meet(a, c);
  default: return r_diff(a, b);
  }
}
inline RI r_closure(RI r) { if (!r.empty) { if (!r.lo.inf) r.lo.open = false; if (!r.hi.inf) r.hi.open = false; } return r; }
inline bool r_subset(const RI& b, const RI& a) { if (b.empty) return true; if (a.empty) return false; return cmpL(a.lo, b.lo) <= 0 && cmpU(a.hi, b.hi) >= 0; }
inline bool r_has_int(const RI& r) {
  if (r.empty) return false; if (r.lo.inf || r.hi.inf) return true;
  mpz_class l = zceil(r.lo.v); if (r.lo.open && Q(l) == r.lo.v) ++l;
  mpz_class u = zfloor(r.hi.v); if (r.hi.open && Q(u) == r.hi.v) --u;
  return l <= u;
}

// ---------------------------------------------------------------- member sampling
inline std::vector<Q> members(const RI& r, bool far_pts = true) {
  std::vector<Q> m; if (r.empty) return m;
  Q lo, hi;
  if (r.lo.inf && r.hi.inf) { lo = -50; hi = 50; }
  else if (r.lo.inf) { hi = r.hi.v; lo = hi - 100; }
  else if (r.hi.inf) { lo = r.lo.v; hi = lo + 100; }
  else { lo = r.lo.v; hi = r.hi.v; }
  Q w = hi - lo;
  std::vector<Q> c;
  c.push_back(lo); c.push_back(hi);
  Q e10 = q2exp(-10), e70 = q2exp(-70);
  c.push_back(lo + e10); c.push_back(hi - e10); c.push_back(lo + e70); c.push_back(hi - e70);
  c.push_back(lo + w * q2exp(-40)); c.push_back(hi - w * q2exp(-40));
  c.push_back(e10); c.push_back(-e10); c.push_back(q2exp(-200)); c.push_back(-q2exp(-200));
  c.push_back((lo + hi) / 2); c.push_back(Q(0)); c.push_back(lo + w / 3); c.push_back(lo + w * Q(7, 8));
  c.push_back(lo + w * Q(rnd(1, 999), 1000)); c.push_back(lo + w * Q(rnd(1, 999), 1000));
  c.push_back(Q(zceil(lo))); c.push_back(Q(zfloor(hi))); c.push_back(Q(zceil(lo) + 1)); c.push_back(Q(zfloor(hi) - 1));
  if (far_pts) {
    if (r.lo.inf) { c.push_back(hi - q2exp(80)); c.push_back(-q2exp(17000)); }
    if (r.hi.inf) { c.push_back(lo + q2exp(80)); c.push_back(q2exp(17000)); }
  }
  for (size_t i = 0; i < c.size(); ++i) { c[i].canonicalize(); if (mem(r, c[i])) m.push_back(c[i]); }
  std::sort(m.begin(), m.end()); m.erase(std::unique(m.begin(), m.end()), m.end());
  return m;
}
inline std::vector<Q> int_members(const RI& r, unsigned w) {
  std::vector<Q> m; if (r.empty) return m;
  mpz_class P; mpz_ui_pow_ui(P.get_mpz_t(), 2, w);
  Q lo, hi;
  if (r.lo.inf && r.hi.inf) { lo = -Q(P) * 2; hi = Q(P) * 2; }
  else if (r.lo.inf) { hi = r.hi.v; lo = hi - Q(P) * 3; }
  else if (r.hi.inf) { lo = r.lo.v; hi = lo + Q(P) * 3; }
  else { lo = r.lo.v; hi = r.hi.v; }
  mpz_class l = zceil(lo), u = zfloor(hi);
  std::vector<mpz_class> c;
  for (int d = 0; d <= 2; ++d) { c.push_back(l + d); c.push_back(u - d); }
  c.push_back((l + u) / 2); c.push_back(0); c.push_back(1); c.push_back(-1);
  if (u > l) { mpz_class span = u - l; for (int i = 0; i < 3; ++i) { mpz_class t = span * rnd(0, 1000); t /= 1000; c.push_back(l + t); } }
  // wrap seams inside the window
  mpz_class k0 = l; mpz_fdiv_q(k0.get_mpz_t(), l.get_mpz_t(), P.get_mpz_t());
  for (int k = 0; k <= 3; ++k) { mpz_class s = (k0 + k) * P; mpz_class h = s + P / 2; for (int d = -1; d <= 1; ++d) { c.push_back(s + d); c.push_back(h + d); } }
  for (size_t i = 0; i < c.size(); ++i) { Q q(c[i]); if (mem(r, q)) m.push_back(q); }
  std::sort(m.begin(), m.end()); m.erase(std::unique(m.begin(), m.end()), m.end());
  return m;
}
inline Q wrap_val(const Q& v, unsigned w, bool is_signed) {
  mpz_class P; mpz_ui_pow_ui(P.get_mpz_t(), 2, w);
  mpz_class z = v.get_num();
  if (is_signed) { mpz_class h = P / 2; z += h; mpz_class r; mpz_fdiv_r(r.get_mpz_t(), z.get_mpz_t(), P.get_mpz_t()); return Q(r - h); }
  mpz_class r; mpz_fdiv_r(r.get_mpz_t(), z.get_mpz_t(), P.get_mpz_t()); return Q(r);
}

// ---------------------------------------------------------------- bound generators
template <typename T, typename E = void> struct Gen;
template <> struct Gen<mpq_class> {
  static mpq_class gen() {
    int k = rnd(0, 99);
    if (k < 10) return mpq_class(0);
    if (k < 72) { mpq_class q(rnd(-6, 6), rnd(1, 3)); q.canonicalize(); return q; }
    if (k < 88) { mpq_class q(rnd(-40, 40), rnd(1, 7)); q.canonicalize(); return q; }
    if (k < 95) { mpz_class b; mpz_ui_pow_ui(b.get_mpz_t(), 10, rnd(6, 30)); mpq_class q(b * (coin() ? 1 : -1), rnd(1, 7)); q.canonicalize(); return q; }
    mpz_class b; mpz_ui_pow_ui(b.get_mpz_t(), 10, rnd(3, 25)); mpq_class q(rnd(-3, 3), b); q.canonicalize(); return q;
  }
  static const char* tname() { return "mpq"; }
};
template <> struct Gen<mpz_class> {
  static mpz_class gen() {
    int k = rnd(0, 99);
    if (k < 10) return mpz_class(0);
    if (k < 75) return mpz_class(rnd(-6, 6));
    if (k < 88) return mpz_class(rnd(-300, 300));
    mpz_class b; mpz_ui_pow_ui(b.get_mpz_t(), 2, (unsigned) (k < 94 ? 31 : k < 97 ? 63 : 70)); b += rnd(-2, 2); if (coin()) b = -b; return b;
  }
  static const char* tname() { return "mpz"; }
};
template <typename T> struct Gen<T, typename std::enable_if<std::is_integral<T>::value>::type> {
  static T gen() {
    const T mn = std::numeric_limits<T>::min(), mx = std::numeric_limits<T>::max();
    int k = rnd(0, 99);
    if (k < 10) return (T) 0;
    if (k < 68) { int v = rnd(-6, 8); if (!std::is_signed<T>::value && v < 0) v = -v; return (T) v; }
    if (k < 78) return (T) (mx - (T) rnd(0, 2));
    if (k < 86) return (T) (mn + (T) rnd(0, 2));
    if (k < 92) { int v = rnd(9, 16); if (std::is_signed<T>::value && coin()) v = -v; return (T) v; }
    return (T) hx::rng()();
  }
  static const char* tname() { return std::is_signed<T>::value ? (sizeof(T) == 1 ? "int8" : sizeof(T) == 4 ? "int32" : "int64") : (sizeof(T) == 1 ? "uint8" : "uintN"); }
};
template <typename T> struct Gen<T, typename std::enable_if<std::is_floating_point<T>::value>::type> {
  static T gen() {
    volatile T r;
    int k = rnd(0, 99);
    if (k < 8) { r = (T) 0; if (k < 2) { volatile T z = (T) 0; r = -z; } return r; }
    if (k < 50) { volatile int v = rnd(-6, 6); r = (T) v; return r; }
    if (k < 66) { volatile int v = rnd(-13, 13); volatile T t = (T) v; r = (T) std::ldexp((long double) t, -rnd(1, 3)); return r; }
    if (k < 78) { volatile int n = rnd(-10, 10); volatile int d = (k & 1) ? 3 : 10; volatile T a = (T) n, b = (T) d; r = a / b; return r; }
    if (k < 84) { volatile T mx = std::numeric_limits<T>::max(); volatile int v = rnd(1, 4); r = mx / (T) v; if (coin()) r = -r; return r; }
    if (k < 90) { volatile T t = (k & 1) ? std::numeric_limits<T>::denorm_min() : std::numeric_limits<T>::min(); volatile int v = rnd(-3, 3); r = t * (T) v; return r; }
    volatile long m = (long) (hx::rng()() >> 11) - (1L << 52); volatile T t = (T) m; r = (T) std::ldexp((long double) t, rnd(-70, 20)); return r;
  }
  static const char* tname() { return sizeof(T) == 4 ? "float" : sizeof(T) == 8 ? "double" : "ldouble"; }
};

// ---------------------------------------------------------------- per-policy engine
enum Kind { K_EXACT_OC, K_EXACT_C, K_INT_BOUNDED, K_FLOAT };

template <typename ITV> struct Engine {
  typedef typename ITV::boundary_type T;
  typedef typename ITV::info_type Info;
  static const bool has_open = Info::store_open;
  std::string pol; Kind kind;
  bool dead;   // a violation was reported in this case

  Engine(const char* p, Kind k) : pol(p), kind(k), dead(false) {}

  std::string key(const char* mon, const std::string& op, const std::string& cls = "") const { std::string k = std::string("C12.") + mon + "." + pol + "." + op; if (!cls.empty()) k += ":" + cls; return k; }
  void viol(const std::string& k, const std::string& detail) { hx::violation(k, detail); dead = true; }

  // ---- read a PPL interval into the reference representation (through observers only)
  bool rd(const ITV& x, RI& r, const std::string& op) {
    r = RI();
    bool li = x.lower_is_boundary_infinity(), ui = x.upper_is_boundary_infinity();
    if ((!li && fp_nan(x.lower())) || (!ui && fp_nan(x.upper()))) {
      std::ostringstream o; o << "a bound is NaN: " << pplx::str(x);
      viol(key("flags", op, "nan-bound"), o.str()); return false;
    }
    // A +inf lower / -inf upper bound ("reverse infinity") is how some operations leave an empty interval
    // (e.g. refine_universal(>, unbounded)); legal only if PPL itself calls the interval empty.
    bool rev = (!li && fp_inf(x.lower()) != 0) || (!ui && fp_inf(x.upper()) != 0);
    if (rev) {
      hx::checked(1);
      if (!x.is_empty()) { std::ostringstream o; o << "reverse infinity in a non-empty interval: " << pplx::str(x); viol(key("flags", op, "reverse-infinity"), o.str()); return false; }
      r = ri_empty(); return true;
    }
    r.lo.inf = li; if (!li) { r.lo.v = toQ(x.lower()); r.lo.open = x.lower_is_open(); }
    r.hi.inf = ui; if (!ui) { r.hi.v = toQ(x.upper()); r.hi.open = x.upper_is_open(); }
    bool e_ppl = x.is_empty();
    bool e_raw = !bounds_nonempty(r.lo, r.hi);
    hx::checked(1);
    if (e_ppl != e_raw) { viol(key("flags", "is_empty", op), "is_empty()=" + std::to_string(e_ppl) + " but raw bounds say " + show(r)); return false; }
    if (!e_ppl) {
      if ((li && !x.lower_is_open()) || (ui && !x.upper_is_open())) { viol(key("flags", op, "closed-infinite-bound"), "infinite bound reported closed: " + show(r)); return false; }
    }
    r.empty = e_ppl; norm(r);
    return true;
  }
  // ---- flag observers against the reference reading
  bool flags(const ITV& x, const RI& r, const std::string& op) {
    hx::count("flag_checks"); hx::checked(5);
    if (!x.OK()) { viol(key("flags", op, "OK-false"), "OK() is false for " + show(r)); return false; }
    if (x.is_singleton() != is_point(r)) { viol(key("flags", "is_singleton", op), "is_singleton()=" + std::to_string(x.is_singleton()) + " for " + show(r)); return false; }
    if (!r.empty) {
      if (x.is_bounded() != (!r.lo.inf && !r.hi.inf)) { viol(key("flags", "is_bounded", op), show(r)); return false; }
      if (x.is_universe() != (r.lo.inf && r.hi.inf)) { viol(key("flags", "is_universe", op), show(r)); return false; }
      bool tc = (r.lo.inf || !r.lo.open) && (r.hi.inf || !r.hi.open);
      if (x.is_topologically_closed() != tc) { viol(key("flags", "is_topologically_closed", op), show(r)); return false; }
    }
    const int dg = std::numeric_limits<T>::is_specialized && std::numeric_limits<T>::digits > 2 ? std::numeric_limits<T>::digits - 2 : 50;
    if (kind != K_FLOAT || (r.empty || r.lo.inf || r.hi.inf || (abs(r.lo.v) < q2exp(dg) && abs(r.hi.v) < q2exp(dg)))) {
      // (for float bounds of magnitude >= 2^(digits-2) the +1/-1 steps of the implementation are inexact and the
      //  documentation does not promise more than an approximation; not compared there)
      bool ip = x.contains_integer_point();
      if (ip != r_has_int(r)) { viol(key("flags", "contains_integer_point", op), "contains_integer_point()=" + std::to_string(ip) + " for " + show(r)); return false; }
    }
    return true;
  }

  // ---- random specification and construction
  struct Spec { int shape; T l, u; bool lo, uo; };   // shape: 0 empty(marked) 1 universe 2 lower-only 3 upper-only 4 both
  Spec gen_spec() {
    Spec s; s.l = Gen<T>::gen(); s.u = Gen<T>::gen(); s.lo = has_open && coin(30); s.uo = has_open && coin(30);
    int k = rnd(0, 99);
    s.shape = k < 4 ? 0 : k < 10 ? 1 : k < 20 ? 2 : k < 30 ? 3 : 4;
    if (s.shape == 4) {
      if (toQ(s.l) > toQ(s.u) && !coin(4)) std::swap(s.l, s.u);     // 4%: inconsistent on purpose (unmarked empty)
      if (coin(14)) { s.u = s.l; if (!coin(15)) s.lo = s.uo = false; }   // singleton (or (a,a] unmarked empty)
    }
    return s;
  }
  RI spec_ri(const Spec& s) {
    RI r;
    if (s.shape == 0) return ri_empty();
    if (s.shape == 2 || s.shape == 4) r.lo = Bd(toQ(s.l), s.lo);
    if (s.shape == 3 || s.shape == 4) r.hi = Bd(toQ(s.u), s.uo);
    norm(r); return r;
  }
  bool construct(const Spec& s, ITV& x, RI& rx) {
    RI want = spec_ri(s);
    int how = rnd(0, 1);
    std::ostringstream o; o << "make " << show(want) << (how ? " via build" : " via refine") << "; ";
    hx::tr(o.str());
    const char* opn = how ? "build" : "refine_existential";
    T l = s.l, u = s.u;   // i_constraint needs non-const lvalues for slow-copy value types
    if (s.shape == 0) x.assign(EMPTY);
    else if (how == 0) {
      x.assign(UNIVERSE);
      if (s.shape == 2 || s.shape == 4) x.refine_existential(s.lo ? GREATER_THAN : GREATER_OR_EQUAL, l);
      if (s.shape == 3 || s.shape == 4) x.refine_existential(s.uo ? LESS_THAN : LESS_OR_EQUAL, u);
    }
    else {
      if (s.shape == 1) x.build();
      else if (s.shape == 2) x.build(i_constraint(s.lo ? GREATER_THAN : GREATER_OR_EQUAL, l));
      else if (s.shape == 3) x.build(i_constraint(s.uo ? LESS_THAN : LESS_OR_EQUAL, u));
      else x.build(i_constraint(s.lo ? GREATER_THAN : GREATER_OR_EQUAL, l), i_constraint(s.uo ? LESS_THAN : LESS_OR_EQUAL, u));
    }
    hx::count(std::string("op.") + opn);
    if (!rd(x, rx, opn)) return false;
    if (!flags(x, rx, opn)) return false;
    hx::checked(1);
    if (!same(rx, want)) { viol(key("exact", opn, "construct"), "wanted " + show(want) + " obtained " + show(rx)); return false; }
    return true;
  }

  // ---- triage classes (deterministic predicates on the failing input)
  static bool type_range(Q& mn, Q& mx) {
    if (!std::numeric_limits<T>::is_specialized || !std::numeric_limits<T>::is_bounded) return false;
    mx = toQ(std::numeric_limits<T>::max());
    mn = std::numeric_limits<T>::is_integer ? toQ(std::numeric_limits<T>::min()) : Q(-mx);
    return true;
  }
  bool overflows(const RI& want) const {
    Q mn, mx; if (want.empty || !type_range(mn, mx)) return false;
    return (!want.lo.inf && (want.lo.v < mn || want.lo.v > mx)) || (!want.hi.inf && (want.hi.v < mn || want.hi.v > mx));
  }
  std::string encl_class(const std::string& op, const RI& a, const RI& b, const RI& r, const Q& v, const RI& want) const {
    if (kind == K_INT_BOUNDED && op.compare(0, 3, "div") == 0 && !b.empty && !b.hi.inf && b.hi.v <= 0) return "negative-divisor";
    if (unbounded(a) || unbounded(b)) return "unbounded-operand";
    if (overflows(want)) return "overflow";
    if (r.empty) return "empty-result";
    if ((!r.lo.inf && v == r.lo.v && r.lo.open) || (!r.hi.inf && v == r.hi.v && r.hi.open)) return "openness-of-attained-extreme";
    return "member-outside";
  }
  std::string exact_class(const RI& a, const RI& b, const RI& want, const RI& got) const {
    if (unbounded(a) || unbounded(b)) return "unbounded-operand";
    if (want.empty != got.empty) return "emptiness";
    bool lv = want.lo.inf != got.lo.inf || (!want.lo.inf && want.lo.v != got.lo.v), uv = want.hi.inf != got.hi.inf || (!want.hi.inf && want.hi.v != got.hi.v);
    if (lv || uv) return "bound-value";
    if ((!want.lo.open && got.lo.open) || (!want.hi.open && got.hi.open)) return "openness-of-attained-extreme";
    return "closed-unattained-extreme";
  }
  std::string ctx(const RI& a, const RI& b, const RI& r) const { return "A=" + show(a) + " B=" + show(b) + " result=" + show(r); }

  // ---- checks
  // arithmetic: opk 0 add 1 sub 2 mul 3 div 4 neg
  void check_arith(const char* op, int opk, const RI& a, const RI& b, const RI& r, bool want_exact) {
    std::vector<Q> ma = members(a), mb = opk == 4 ? std::vector<Q>(1, Q(0)) : members(b);
    RI want = opk == 0 ? r_add(a, b) : opk == 1 ? r_sub(a, b) : opk == 2 ? r_mul(a, b) : opk == 3 ? r_div(a, b) : r_neg(a);
    unsigned long n = 0;
    for (size_t i = 0; i < ma.size(); ++i) for (size_t j = 0; j < mb.size(); ++j) {
      const Q& x = ma[i]; const Q& y = mb[j];
      if (opk == 3 && y == 0) continue;
      Q v = opk == 0 ? Q(x + y) : opk == 1 ? Q(x - y) : opk == 2 ? Q(x * y) : opk == 3 ? Q(x / y) : Q(-x);
      ++n;
      // a bug of the reference arithmetic must not look like a PPL defect: every sampled result is a member of the reference result
      if (!mem(want, v)) { viol("harness.bug.ref_arith", ctx(a, b, want) + " v=" + qstr(v)); return; }
      if (!mem(r, v)) {
        hx::checked(n);
        viol(key("encl", op, encl_class(op, a, opk == 4 ? a : b, r, v, want)), ctx(a, b, r) + " x=" + qstr(x) + " y=" + qstr(y) + " x" + op + "y=" + qstr(v) + " not in result");
        return;
      }
    }
    hx::checked(n); hx::count("encl_checks", n);
    // self-check of the reference arithmetic against the same samples (a bug of the oracle must not look like a PPL defect)
    hx::checked(1);
    if (want.empty && !r.empty) { viol(key("flags", op, "nonempty-result-of-empty-set"), ctx(a, b, r)); return; }
    if (want_exact) {
      hx::checked(1); hx::count("exact_checks");
      if (!same(want, r)) {
        std::string c = exact_class(a, opk == 4 ? a : b, want, r);
        if (opk == 3 && is_point(a) && a.lo.v == 0 && mem(b, Q(0))) c = "zero-dividend,divisor-contains-zero";
        viol(key("exact", op, c), ctx(a, b, r) + " exact=" + show(want));
      }
    }
  }
  // set operations by their definitions on sampled members; def(m) says whether m belongs to the defined set
  template <typename Def>
  void check_set(const std::string& op, const std::string& cls_hint, const RI& a, const RI& b, const RI& r, const std::vector<RI>& sample_from, Def def,
                 bool want_exact, const RI& want) {
    unsigned long n = 0;
    for (size_t s = 0; s < sample_from.size(); ++s) {
      std::vector<Q> m = members(sample_from[s]);
      for (size_t i = 0; i < m.size(); ++i) {
        if (!def(m[i])) continue;
        ++n;
        if (!mem(want, m[i])) { viol("harness.bug.ref_set_" + op, ctx(a, b, want) + " m=" + qstr(m[i])); return; }
        if (!mem(r, m[i])) {
          hx::checked(n);
          std::string c = cls_hint; if (!c.empty()) c += ","; c += encl_class(op, a, b, r, m[i], want);
          viol(key("encl", op, c), ctx(a, b, r) + " member " + qstr(m[i]) + " of the defined set is not in the result");
          return;
        }
      }
    }
    hx::checked(n + 1); hx::count("encl_checks", n);
    if (want_exact) {
      hx::checked(1); hx::count("exact_checks");
      if (!same(want, r)) { std::string c = cls_hint; if (!c.empty()) c += ","; c += exact_class(a, b, want, r); viol(key("exact", op, c), ctx(a, b, r) + " exact=" + show(want)); }
    }
  }

  bool exact_arith(int opk) const { return kind == K_EXACT_OC || (kind == K_EXACT_C && opk != 3); }
  bool exact_setop() const { return kind == K_EXACT_OC || kind == K_EXACT_C; }
  bool exact_documented_smallest() const { return kind == K_EXACT_OC || kind == K_EXACT_C || kind == K_FLOAT; }
  RI relax(const RI& r) const { return has_open ? r : r_closure(r); }

  // ---- one case
  void run() {
    pplx::Weight_Guard wg(200000000ULL);
    hx::count("pol." + pol);
    const int NP = 3;
    ITV P[NP]; RI RP[NP];
    for (int i = 0; i < NP; ++i) { if (!construct(gen_spec(), P[i], RP[i])) return; }
    int steps = rnd(4, 12);
    for (int st = 0; st < steps && !dead; ++st) step(P, RP, NP);
  }

  T scalar() { return Gen<T>::gen(); }

  void step(ITV* P, RI* RP, int NP) {
    int ai = rnd(0, NP - 1), bi = rnd(0, NP - 1), ri = rnd(0, NP - 1);
    if (coin(12)) { // refresh an operand so that chains do not degenerate into universe/empty
      if (!construct(gen_spec(), P[bi], RP[bi])) return;
    }
    const ITV A = P[ai], B = P[bi];
    const RI a = RP[ai], b = RP[bi];
    ITV R = P[ri];
    RI r;
    int k = rnd(0, 999);
    std::ostringstream pre; pre << pol << " ";
    std::string op;
    bool nontrivial = !(a.empty || (a.lo.inf && a.hi.inf)) || !(b.empty || (b.lo.inf && b.hi.inf));
    try {
      if (k < 340) {
        // ---------------- interval (op) interval arithmetic, with the library's aliasing patterns
        int opk = k < 40 ? 4 : k < 100 ? 0 : k < 160 ? 1 : k < 260 ? 2 : 3;
        static const char* const N[5] = { "add", "sub", "mul", "div", "neg" };
        op = N[opk];
        int alias = rnd(0, 3);   // 0: fresh receiver; 1: receiver is first operand; 2: receiver is second operand; 3: all the same object
        RI ea = a, eb = (alias == 3 || opk == 4) ? a : b;
        pre << op << (alias == 0 ? "" : alias == 1 ? "[R=A]" : alias == 2 ? "[R=B]" : "[R=A=B]") << " A=" << show(a); if (opk != 4) pre << " B=" << show(eb); pre << "; ";
        hx::tr(pre.str());
        if (opk == 4) {
          if (alias & 1) { R = A; R.neg_assign(R); } else R.neg_assign(A);
        }
        else {
          if (alias == 0) arith(R, opk, A, B);
          else if (alias == 1) { R = A; arith(R, opk, R, B); }
          else if (alias == 2) { R = B; arith(R, opk, A, R); }
          else { R = A; arith(R, opk, R, R); }
        }
        hx::count("op." + op);
        if (!rd(R, r, op) || !flags(R, r, op)) return;
        if (nontrivial) hx::distinct(pol + "|" + op + "|" + cfg(ea) + "|" + (opk == 4 ? "" : cfg(eb)) + "|" + cfg(r));
        check_arith(op.c_str(), opk, ea, eb, r, exact_arith(opk));
      }
      else if (k < 420) {
        // ---------------- interval (op) scalar of the boundary type
        int opk = rnd(0, 3); static const char* const N[4] = { "add", "sub", "mul", "div" };
        op = std::string(N[opk]) + "_scalar";
        T s = scalar(); RI rs = ri_point(toQ(s)); bool left = coin(30);
        pre << op << (left ? "[s op A]" : "[A op s]") << " A=" << show(a) << " s=" << qstr(toQ(s)) << "; ";
        hx::tr(pre.str());
        bool al = coin(); if (al) R = A;
        if (left) { if (al) arith(R, opk, s, R); else arith(R, opk, s, A); } else { if (al) arith(R, opk, R, s); else arith(R, opk, A, s); }
        hx::count("op." + op);
        if (!rd(R, r, op) || !flags(R, r, op)) return;
        if (!a.empty) hx::distinct(pol + "|" + op + "|" + cfg(a) + "|" + cfg(rs) + "|" + cfg(r));
        if (left) check_arith(op.c_str(), opk, rs, a, r, exact_arith(opk)); else check_arith(op.c_str(), opk, a, rs, r, exact_arith(opk));
      }
      else if (k < 560) {
        // ---------------- join / intersect / difference, one- and two-argument forms
        int w = rnd(0, 5);
        static const char* const N[6] = { "join_assign", "join_assign2", "intersect_assign", "intersect_assign2", "difference_assign", "difference_assign2" };
        op = N[w];
        pre << op << " A=" << show(a) << " B=" << show(b) << "; "; hx::tr(pre.str());
        switch (w) {
        case 0: R = A; R.join_assign(B); break;
        case 1: R.join_assign(A, B); break;
        case 2: R = A; R.intersect_assign(B); break;
        case 3: R.intersect_assign(A, B); break;
        case 4: R = A; R.difference_assign(B); break;
        default: R.difference_assign(A, B); break;
        }
        hx::count("op." + op);
        if (!rd(R, r, op) || !flags(R, r, op)) return;
        if (nontrivial) hx::distinct(pol + "|" + op + "|" + cfg(a) + "|" + cfg(b) + "|" + cfg(r));
        std::vector<RI> from; from.push_back(a); from.push_back(b);
        if (w < 2) check_set(op, "", a, b, r, from, [&](const Q& m) { return mem(a, m) || mem(b, m); }, exact_setop(), r_join(a, b));
        else if (w < 4) check_set(op, "", a, b, r, from, [&](const Q& m) { return mem(a, m) && mem(b, m); }, exact_setop(), r_meet(a, b));
        else check_set(op, "", a, b, r, from, [&](const Q& m) { return mem(a, m) && !mem(b, m); }, exact_documented_smallest(), relax(r_diff(a, b)));
      }
      else if (k < 700) {
        // ---------------- refine_existential / refine_universal with an interval or a scalar
        bool uni = coin(45); int rel = rnd(0, 5); bool sc = coin(25);
        op = uni ? "refine_universal" : "refine_existential";
        RI eb = b; T s = scalar();
        if (sc) eb = ri_point(toQ(s));
        pre << op << " A=" << show(a) << " " << RELN[rel] << " B=" << show(eb) << (sc ? "(scalar)" : "") << "; "; hx::tr(pre.str());
        R = A;
        if (uni) { if (sc) R.refine_universal(RELS[rel], s); else R.refine_universal(RELS[rel], B); }
        else { if (sc) R.refine_existential(RELS[rel], s); else R.refine_existential(RELS[rel], B); }
        hx::count("op." + op); hx::count(std::string("rel.") + RELN[rel]);
        if (!rd(R, r, op) || !flags(R, r, op)) return;
        if (nontrivial) hx::distinct(pol + "|" + op + RELN[rel] + "|" + cfg(a) + "|" + cfg(eb) + "|" + cfg(r));
        // policies without open bounds cannot express strictness: the exact comparison uses the relaxed relation
        int xrel = rel; bool ex = exact_documented_smallest();
        if (!has_open) { if (rel == 0) xrel = 1; else if (rel == 4) xrel = 3; }
        RI want = uni ? r_refun(a, xrel, eb) : r_refex(a, xrel, eb);
        if (!has_open) { want = r_closure(want); if (rel == 5) ex = false; }
        RI want_encl = uni ? r_refun(a, rel, eb) : r_refex(a, rel, eb);
        std::vector<RI> from; from.push_back(a); from.push_back(eb);
        std::string cls = std::string("rel") + RELN[rel];
        // enclosure against the true (strict) definition, exactness against the representable one
        check_set(op, cls, a, eb, r, from, [&](const Q& m) { return mem(a, m) && (uni ? forall_rel(m, rel, eb) : exists_rel(m, rel, eb)); }, false, want_encl);
        if (!dead && ex) {
          hx::checked(1); hx::count("exact_checks");
          if (!same(want, r)) {
            std::string c = exact_class(a, eb, want, r);
            if (uni && rel == 5 && !is_point(eb)) c = "non-singleton-argument";
            viol(key("exact", op, cls + "," + c), ctx(a, eb, r) + " exact=" + show(want));
          }
        }
      }
      else if (k < 770) {
        // ---------------- lower_extend / upper_extend, plain and with a constraint
        int w = rnd(0, 3); bool unc = coin(12); int crel = rnd(0, 2);   // 0 strict 1 non-strict 2 equal
        static const char* const N[4] = { "lower_extend", "upper_extend", "lower_extend_c", "upper_extend_c" };
        op = N[w];
        if (a.empty) { hx::count("skipped.extend_of_empty"); return; }   // documentation silent
        mpq_class q = Gen<mpq_class>::gen();
        pre << op << " A=" << show(a); if (w >= 2) { pre << " c=" << (unc ? std::string("unconstrained") : std::string(w == 2 ? (crel == 0 ? ">" : crel == 1 ? ">=" : "==") : (crel == 0 ? "<" : crel == 1 ? "<=" : "==")) + qstr(q)); } pre << "; ";
        hx::tr(pre.str());
        R = A;
        RI c = ri_univ();
        if (w == 0) R.lower_extend();
        else if (w == 1) R.upper_extend();
        else if (w == 2) { if (unc) R.lower_extend(I_Constraint<mpq_class>()); else { R.lower_extend(i_constraint(crel == 0 ? GREATER_THAN : crel == 1 ? GREATER_OR_EQUAL : EQUAL, q)); c.lo = Bd(q, crel == 0); } }
        else { if (unc) R.upper_extend(I_Constraint<mpq_class>()); else { R.upper_extend(i_constraint(crel == 0 ? LESS_THAN : crel == 1 ? LESS_OR_EQUAL : EQUAL, q)); c.hi = Bd(q, crel == 0); } }
        hx::count("op." + op);
        if (!rd(R, r, op) || !flags(R, r, op)) return;
        hx::distinct(pol + "|" + op + "|" + cfg(a) + "|" + cfg(c) + "|" + cfg(r));
        // definition: the bound on the extended side becomes the weaker of A's bound and c's bound; the other side is unchanged
        RI want = a;
        if (w == 0 || w == 2) want.lo = cmpL(a.lo, c.lo) <= 0 ? a.lo : c.lo; else want.hi = cmpU(a.hi, c.hi) >= 0 ? a.hi : c.hi;
        if ((w == 0 || w == 1)) { if (w == 0) want.lo = Bd(); else want.hi = Bd(); }
        std::vector<RI> from; from.push_back(a); from.push_back(want);
        bool ex = kind == K_EXACT_OC || w < 2;   // the constraint value is rational: rounded into other bound types
        check_set(op, (w >= 2 && unc) ? "unconstrained" : "", a, a, r, from, [&](const Q& m) { return mem(want, m); }, ex, relax(want));
      }
      else if (k < 830) {
        // ---------------- wrap_assign
        op = "wrap_assign";
        static const Bounded_Integer_Type_Width WS[4] = { BITS_8, BITS_8, BITS_16, BITS_32 };
        Bounded_Integer_Type_Width w = WS[rnd(0, 3)]; if (coin(5)) w = BITS_64;
        // Known crash (UBSan: shift exponent 64, checked_float_inlines.hh sub_2exp_float/umod_2exp_float/smod_2exp_float):
        // float-bounded intervals with w >= 64.  Reported once by --kv wrap64float=1; skipped otherwise so that the worker survives.
        if (w == BITS_64 && kind == K_FLOAT && !hx::opt().geti("wrap64float", 0)) { hx::count("skipped.wrap64_float"); w = BITS_32; }
        bool sg = coin(); mpz_class mn, mx; mpz_class Pw; mpz_ui_pow_ui(Pw.get_mpz_t(), 2, (unsigned) w);
        if (sg) { mn = -Pw / 2; mx = Pw / 2 - 1; } else { mn = 0; mx = Pw - 1; }
        // refinement: the integer quadrant (built as Box::wrap_assign does), optionally narrowed
        ITV ref; ref.build(i_constraint(GREATER_OR_EQUAL, mn), i_constraint(LESS_OR_EQUAL, mx));
        if (coin(35)) { mpz_class c1 = mn + (mx - mn) * rnd(0, 10) / 10, c2 = mn + (mx - mn) * rnd(0, 10) / 10; if (c1 > c2) std::swap(c1, c2); ITV nar; nar.build(i_constraint(GREATER_OR_EQUAL, c1), i_constraint(LESS_OR_EQUAL, c2)); ref.intersect_assign(nar); }
        RI rref; if (!rd(ref, rref, "build")) return;
        // operand: mostly a bounded interval whose width is comparable with 2^w
        ITV X = A; RI x = a;
        if (coin(70)) {
          mpz_class base = (coin() ? mpz_class(0) : mpz_class(Pw * rnd(-2, 2))) + rnd(-3, 3);
          mpz_class len = coin(40) ? mpz_class(Pw + rnd(-2, 2)) : coin() ? mpz_class(rnd(0, 12)) : mpz_class(Pw * rnd(0, 3) / 2 + rnd(-2, 2));
          if (len < 0) len = 0;
          mpz_class top = base + len;
          X.build(i_constraint((has_open && coin(25)) ? GREATER_THAN : GREATER_OR_EQUAL, base), i_constraint((has_open && coin(25)) ? LESS_THAN : LESS_OR_EQUAL, top));
          if (!rd(X, x, "build")) return;
        }
        pre << op << " X=" << show(x) << " w=" << (unsigned) w << (sg ? " signed" : " unsigned") << " ref=" << show(rref) << "; "; hx::tr(pre.str());
        R = X;
        R.wrap_assign(w, sg ? SIGNED_2_COMPLEMENT : UNSIGNED, ref);
        hx::count("op." + op);
        if (!rd(R, r, op) || !flags(R, r, op)) return;
        std::string cls;
        if (x.empty) cls = "empty"; else if (unbounded(x)) cls = "unbounded";
        else { Q span = x.hi.v - x.lo.v; cls = span < Q(Pw) - 1 ? "span<2^w-1" : span < Q(Pw) ? "2^w-1<=span<2^w" : span == Q(Pw) ? "span==2^w" : "span>2^w"; }
        if (kind == K_INT_BOUNDED && (unsigned) w >= sizeof(T) * 8) cls += ",w>=bound-type-width";
        hx::distinct(pol + "|" + op + "|" + cfg(x) + "|" + cls + (sg ? "|s" : "|u") + "|" + cfg(r));
        if (x.empty) { hx::checked(1); if (!r.empty) viol(key("flags", op, "nonempty-result-of-empty-set"), ctx(x, rref, r)); return; }
        std::vector<Q> m = int_members(x, (unsigned) w); unsigned long n = 0;
        for (size_t i = 0; i < m.size(); ++i) {
          Q wv = wrap_val(m[i], (unsigned) w, sg); ++n;
          if (mem(rref, wv) && !mem(r, wv)) { hx::checked(n); viol(key("encl", op, cls), ctx(x, rref, r) + " w=" + std::to_string((unsigned) w) + (sg ? " signed" : " unsigned") + ": integer member " + qstr(m[i]) + " wraps to " + qstr(wv) + " (in the refinement) which is not in the result"); return; }
        }
        hx::checked(n); hx::count("encl_checks", n); hx::count("wrap_members", n);
      }
      else if (k < 900) {
        // ---------------- assignments: scalar of the boundary type, rational scalar, string, cross-policy, build/add_constraint
        int w = rnd(0, 6);
        if (w == 0) {
          op = "assign_scalar"; T s = scalar(); RI rs = ri_point(toQ(s));
          pre << op << " s=" << qstr(toQ(s)) << "; "; hx::tr(pre.str());
          R.assign(s); hx::count("op." + op);
          if (!rd(R, r, op) || !flags(R, r, op)) return;
          hx::checked(2); hx::count("exact_checks");
          if (!same(r, rs)) viol(key("exact", op), "s=" + show(rs) + " result=" + show(r));
        }
        else if (w == 1) {
          op = "assign_rational"; mpq_class q = Gen<mpq_class>::gen();
          pre << op << " q=" << qstr(q) << "; "; hx::tr(pre.str());
          R.assign(q); hx::count("op." + op);
          if (!rd(R, r, op) || !flags(R, r, op)) return;
          hx::checked(1); hx::count("encl_checks");
          if (!mem(r, q)) { viol(key("encl", op), "q=" + qstr(q) + " result=" + show(r)); return; }
          if (kind == K_EXACT_OC) { hx::checked(1); hx::count("exact_checks"); if (!same(r, ri_point(q))) viol(key("exact", op), "q=" + qstr(q) + " result=" + show(r)); }
        }
        else if (w == 2) {
          op = "from_string";
          mpq_class q; std::string s; int f = rnd(0, 2);
          if (f == 0) { q = mpq_class(rnd(-1000, 1000)); s = q.get_str(); }
          else if (f == 1) { q = mpq_class(rnd(-50, 50), rnd(1, 9)); q.canonicalize(); s = q.get_str(); }
          else { int d = rnd(1, 6); mpz_class den; mpz_ui_pow_ui(den.get_mpz_t(), 10, d); long num = rnd(0, 999999); bool ng = coin(); q = mpq_class(mpz_class(num), den); q.canonicalize(); if (ng) q = -q;
                 char buf[64]; snprintf(buf, sizeof buf, "%s%ld.%0*ld", ng ? "-" : "", num / (long) den.get_si(), d, num % (long) den.get_si()); s = buf; }
          pre << op << " \"" << s << "\"; "; hx::tr(pre.str());
          ITV S(s.c_str()); hx::count("op." + op);
          if (!rd(S, r, op) || !flags(S, r, op)) return;
          hx::checked(1); hx::count("encl_checks");
          if (!mem(r, q)) { viol(key("encl", op), "string=" + s + " value=" + qstr(q) + " result=" + show(r)); return; }
          if (kind == K_EXACT_OC) { hx::checked(1); hx::count("exact_checks"); if (!same(r, ri_point(q))) viol(key("exact", op), "string=" + s + " result=" + show(r)); }
          R = S;
        }
        else if (w == 3) {
          op = "assign_from_rational_interval";
          Engine<Rational_Interval> re("rat_oc", K_EXACT_OC); Rational_Interval X; RI x;
          if (!re.construct(re.gen_spec(), X, x)) { dead = true; return; }
          pre << op << " X=" << show(x) << "; "; hx::tr(pre.str());
          R.assign(X); hx::count("op." + op);
          if (!rd(R, r, op) || !flags(R, r, op)) return;
          hx::distinct(pol + "|" + op + "|" + cfg(x) + "|" + cfg(r));
          std::vector<RI> from; from.push_back(x);
          check_set(op, "", x, x, r, from, [&](const Q& m) { return mem(x, m); }, kind == K_EXACT_OC, x);
        }
        else if (w == 4) {
          op = "assign_to_rational_interval";
          pre << op << " A=" << show(a) << "; "; hx::tr(pre.str());
          Rational_Interval X; X.assign(A); hx::count("op." + op);
          Engine<Rational_Interval> re("rat_oc", K_EXACT_OC); RI x;
          if (!re.rd(X, x, op)) { dead = true; return; }
          hx::checked(1); hx::count("exact_checks");
          if (!same(x, a)) viol(key("exact", op, exact_class(a, a, a, x)), "A=" + show(a) + " result=" + show(x));
          return;
        }
        else {
          // build(c) / build(c1,c2) / add_constraint(c) with rational constraint values (as Box does)
          bool two = w == 5; bool addc = !two && coin();
          op = two ? "build2" : addc ? "add_constraint" : "build1";
          mpq_class q1 = Gen<mpq_class>::gen(), q2 = Gen<mpq_class>::gen(); int r1 = rnd(0, 5), r2 = rnd(0, 4);
          if (two) { if (q1 > q2 && !coin(10)) std::swap(q1, q2); r1 = coin() ? 3 : 4; r2 = coin() ? 1 : 0; if (coin(10)) r1 = 2; }
          pre << op << (addc ? " A=" + show(a) : std::string()) << " c1: x" << RELN[r1] << qstr(q1); if (two) pre << " c2: x" << RELN[r2] << qstr(q2); pre << "; "; hx::tr(pre.str());
          RI base = addc ? a : ri_univ();
          if (two) R.build(i_constraint(RELS[r1], q1), i_constraint(RELS[r2], q2));
          else if (addc) { R = A; R.add_constraint(i_constraint(RELS[r1], q1)); }
          else R.build(i_constraint(RELS[r1], q1));
          hx::count("op." + op);
          if (!rd(R, r, op) || !flags(R, r, op)) return;
          RI p1 = ri_point(q1), p2 = ri_point(q2);
          RI want = r_refex(base, r1, p1); if (two) want = r_refex(want, r2, p2);
          hx::distinct(pol + "|" + op + RELN[r1] + (two ? RELN[r2] : "") + "|" + cfg(base) + "|" + cfg(r));
          std::vector<RI> from; from.push_back(want); from.push_back(base.empty ? base : r_join(base, r_join(p1, p2)));
          check_set(op, std::string("rel") + RELN[r1] + (two ? RELN[r2] : ""), base, p1, r, from,
                    [&](const Q& m) { return mem(base, m) && holds(m, r1, q1) && (!two || holds(m, r2, q2)); },
                    // add_constraint(c) is documented as intersection with build(c), and build(x != v) is the whole line:
                    // the result encloses but is not the exact refinement, so exactness is not demanded for '!='
                    kind == K_EXACT_OC && !(addc && std::string(RELN[r1]) == "!="), want);
        }
      }
      else if (k < 925) {
        op = "topological_closure_assign";
        pre << op << " A=" << show(a) << "; "; hx::tr(pre.str());
        R = A; R.topological_closure_assign(); hx::count("op." + op);
        if (!rd(R, r, op) || !flags(R, r, op)) return;
        hx::checked(1); hx::count("exact_checks");
        if (!same(r, r_closure(a))) viol(key("exact", op), "A=" + show(a) + " result=" + show(r));
      }
      else {
        // ---------------- predicates
        op = "predicates";
        T s = scalar(); RI rs = ri_point(toQ(s));
        pre << op << " A=" << show(a) << " B=" << show(b) << " s=" << qstr(toQ(s)) << "; "; hx::tr(pre.str());
        hx::count("op." + op); hx::count("pred_checks", 8); hx::checked(8);
        if (nontrivial) hx::distinct(pol + "|pred|" + cfg(a) + "|" + cfg(b) + "|" + (r_subset(b, a) ? "c" : "") + (r_meet(a, b).empty ? "d" : ""));
        bool v;
        if ((v = A.contains(B)) != r_subset(b, a)) { viol(key("flags", "contains"), ctx(a, b, RI()) + " returned " + std::to_string(v)); return; }
        if ((v = A.strictly_contains(B)) != (r_subset(b, a) && !same(a, b))) { viol(key("flags", "strictly_contains"), ctx(a, b, RI()) + " returned " + std::to_string(v)); return; }
        if ((v = A.is_disjoint_from(B)) != r_meet(a, b).empty) { viol(key("flags", "is_disjoint_from"), ctx(a, b, RI()) + " returned " + std::to_string(v)); return; }
        if ((v = (A == B)) != same(a, b)) { viol(key("flags", "operator=="), ctx(a, b, RI()) + " returned " + std::to_string(v)); return; }
        if ((v = A.contains(s)) != mem(a, toQ(s))) { viol(key("flags", "contains", "scalar"), ctx(a, rs, RI()) + " returned " + std::to_string(v)); return; }
        if ((v = A.strictly_contains(s)) != (mem(a, toQ(s)) && !same(a, rs))) { viol(key("flags", "strictly_contains", "scalar"), ctx(a, rs, RI()) + " returned " + std::to_string(v)); return; }
        if ((v = A.is_disjoint_from(s)) != !mem(a, toQ(s))) { viol(key("flags", "is_disjoint_from", "scalar"), ctx(a, rs, RI()) + " returned " + std::to_string(v)); return; }
        if ((v = (A == s)) != same(a, rs)) { viol(key("flags", "operator==", "scalar"), ctx(a, rs, RI()) + " returned " + std::to_string(v)); return; }
        return;
      }
    }
    catch (const pplx::Logical_Timeout&) { viol("C12.hang." + pol + "." + op, pre.str()); return; }
    catch (const std::exception& e) { viol(key("encl", op, std::string("exception-") + typeid(e).name()), pre.str() + e.what()); return; }
    if (dead) return;
    P[ri] = R; RP[ri] = r;
  }

  template <typename X, typename Y> static void arith(ITV& R, int opk, const X& x, const Y& y) {
    switch (opk) { case 0: R.add_assign(x, y); break; case 1: R.sub_assign(x, y); break; case 2: R.mul_assign(x, y); break; default: R.div_assign(x, y); break; }
  }
};

template <typename ITV> inline void run_policy(const char* pol, Kind kind) { Engine<ITV> e(pol, kind); e.run(); }

// entry points, one translation unit each
void case_rat(); void case_mpz(); void case_i8(); void case_u8(); void case_i32(); void case_i64(); void case_flt(); void case_dbl(); void case_ldbl();

} // namespace ivx
#endif
