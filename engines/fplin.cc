// fplin — engine for C12 (linear forms with interval coefficients + linearize()): see fplin_impl.hh.
// Analyzer formats: float, double, long double (one TU each); analysed formats single / double / x87 extended, chosen per case.
// Profiles: default (mix), lf (operators only), linearize (trees only).  --kv analyzer=f|d|l restricts the analyzer; --kv stores=N.
#include "fplin_impl.hh"

static void run_case(uint64_t) {
  std::string only = hx::opt().gets("analyzer", "");
  int t = hx::rnd(0, 99);
  int pick = only == "f" ? 0 : only == "d" ? 1 : only == "l" ? 2 : (t < 35 ? 0 : t < 75 ? 1 : 2);
  if (pick == 0) fpl::case_f(); else if (pick == 1) fpl::case_d(); else fpl::case_l();
}
int main(int argc, char** argv) { return hx::main_loop(argc, argv, run_case); }
