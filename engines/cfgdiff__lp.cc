// cfgdiff: MIP_Problem, PIP_Problem and Linear_Expression / Coefficient scripts (see cfgdiff.cc).
#include "cfgdiff.hh"

namespace cfg {

// ======================================================================================
// MIP_Problem
// ======================================================================================
struct Mip_Script : public Script {
  int n0, n; std::unique_ptr<MIP_Problem> mip; bool fresh, boxed;
  std::vector<RawCon> raw; std::vector<long> obj; long obj0; bool maxim; std::vector<bool> isint;
  // what the X items of the last step claim (for validate)
  struct Claim { size_t index; bool optimal; mpq_class opt; };
  std::vector<Claim> claims;

  Mip_Script() { n0 = rnd(1, G().maxdim); reset(); }
  const char* domain() const { return "mip"; }
  void reset() { n = n0; mip.reset(); mip.reset(new MIP_Problem(n)); fresh = true; boxed = false; raw.clear(); obj.assign(n, 0); obj0 = 0; maxim = true; isint.assign(n, false); }

  RawCon mip_con() { RawCon c = raw_con(n, false); return c; }
  void solve_and_report(MIP_Problem& p, Items& out) {
    claims.clear();
    if (coin(35)) {
      bool sat = p.is_satisfiable(); out.push_back(val("is_satisfiable", sat));
      if (sat) { Item x; x.kind = 'X'; x.n = n; x.a = canon(p.feasible_point(), n); Claim c; c.index = out.size(); c.optimal = false; claims.push_back(c); out.push_back(x); }
    }
    MIP_Problem_Status st = p.solve();
    out.push_back(val("status", std::string(st == UNFEASIBLE_MIP_PROBLEM ? "unfeasible" : st == UNBOUNDED_MIP_PROBLEM ? "unbounded" : "optimized")));
    if (st == OPTIMIZED_MIP_PROBLEM) {
      Coefficient num, den; p.optimal_value(num, den); out.push_back(val("opt", frac(toZ(num), toZ(den))));
      Item x; x.kind = 'X'; x.n = n; x.a = canon(p.optimizing_point(), n);
      Claim c; c.index = out.size(); c.optimal = true; c.opt = mpq_class(toZ(num), toZ(den)); c.opt.canonicalize(); claims.push_back(c); out.push_back(x);
      Coefficient en, ed; p.evaluate_objective_function(p.optimizing_point(), en, ed); out.push_back(val("eval_at_opt", frac(toZ(en), toZ(ed))));
    }
    out.push_back(val("OK", p.OK()));
  }
  bool validate(size_t idx, const std::string& text, std::string& why) {
    const Claim* cl = 0; for (size_t i = 0; i < claims.size(); ++i) if (claims[i].index == idx) cl = &claims[i];
    if (!cl) { why = "no claim for this item"; return false; }
    // parse "p a0 .. an-1 / d"
    std::istringstream is(text); std::string tag; is >> tag; if (tag != "p") { why = "witness is not a point"; return false; }
    std::vector<ZZ> x; std::string tok; ZZ d = 0;
    while (is >> tok) { if (tok == "/") { is >> tok; d = ZZ(tok); break; } x.push_back(ZZ(tok)); }
    if ((int) x.size() != n || d <= 0) { why = "malformed point"; return false; }
    for (size_t i = 0; i < raw.size(); ++i) {
      ZZ v = ZZ(raw[i].b) * d; for (int j = 0; j < n && j < (int) raw[i].a.size(); ++j) v += ZZ(raw[i].a[j]) * x[j];
      if (raw[i].rel == 0 ? v != 0 : v < 0) { why = "point violates " + show(raw[i]); return false; }
    }
    for (int j = 0; j < n; ++j) if (isint[j] && x[j] % d != 0) { why = "integer variable has a fractional value"; return false; }
    if (cl->optimal) { ZZ v = ZZ(obj0) * d; for (int j = 0; j < n; ++j) v += ZZ(obj[j]) * x[j]; mpq_class q(v, d); q.canonicalize(); if (q != cl->opt) { why = "objective value at the point is " + q.get_str() + ", optimum is " + cl->opt.get_str(); return false; } }
    return true;
  }

  void step(Step_Context& ctx, Items& out) {
    int op = fresh ? 0 : rnd(0, 11); std::string t;
    switch (op) {
    case 0: case 1: {   // build a new problem
      int k = rnd(1, n + 2); std::vector<RawCon> v; for (int i = 0; i < k; ++i) v.push_back(mip_con());
      bool box = coin(85); long U = rl(1, G().mid);
      if (box) for (int i = 0; i < n; ++i) { RawCon lo; lo.a.assign(n, 0); lo.a[i] = 1; lo.b = 0; lo.rel = 1; v.push_back(lo); RawCon hi; hi.a.assign(n, 0); hi.a[i] = -1; hi.b = U; hi.rel = 1; v.push_back(hi); }
      std::vector<long> o = raw_vec(n, 25); long o0 = coin(70) ? 0 : rc(); bool mx = coin();
      std::vector<bool> iv(n, false); if (box) for (int i = 0; i < n; ++i) iv[i] = coin(40);
      for (size_t i = 0; i < v.size(); ++i) t += (i ? ", " : "") + show(v[i]);
      std::string ivs; for (int i = 0; i < n; ++i) if (iv[i]) ivs += (char) ('A' + i);
      ctx.begin("build_solve", "MIP(" + std::to_string(n) + ", {" + t + "}, " + (mx ? "max " : "min ") + show(o, o0) + ", int{" + ivs + "})");
      fresh = false; boxed = box; raw = v; obj = o; obj0 = o0; maxim = mx; isint = iv;
      Constraint_System cs = cons(v, n); Linear_Expression e = le(o, o0, n);
      Variables_Set ivars; for (int i = 0; i < n; ++i) if (iv[i]) ivars.insert(Variable(i));
      if (coin()) mip.reset(new MIP_Problem(n, cs.begin(), cs.end(), ivars, e, mx ? MAXIMIZATION : MINIMIZATION));
      else { mip.reset(new MIP_Problem(n)); mip->add_constraints(cs); mip->set_objective_function(e); mip->set_optimization_mode(mx ? MAXIMIZATION : MINIMIZATION); if (!ivars.empty()) mip->add_to_integer_space_dimensions(ivars); }
      solve_and_report(*mip, out); break; }
    case 2: case 3: case 4: { RawCon c = mip_con(); ctx.begin("add_constraint_solve", "mip.add_constraint(" + show(c) + ");solve"); raw.push_back(c); mip->add_constraint(con(c, n)); solve_and_report(*mip, out); break; }
    case 5: case 6: { std::vector<long> o = raw_vec(n, 25); long o0 = coin(70) ? 0 : rc(); ctx.begin("set_objective_solve", "mip.set_objective_function(" + show(o, o0) + ");solve"); obj = o; obj0 = o0; mip->set_objective_function(le(o, o0, n)); solve_and_report(*mip, out); break; }
    case 7: { maxim = !maxim; ctx.begin("set_mode_solve", std::string("mip.set_optimization_mode(") + (maxim ? "max" : "min") + ");solve"); mip->set_optimization_mode(maxim ? MAXIMIZATION : MINIMIZATION); solve_and_report(*mip, out); break; }
    case 8: {
      if (boxed) { int v = rnd(0, n - 1); ctx.begin("add_integer_solve", std::string("mip.add_to_integer_space_dimensions{") + (char) ('A' + v) + "};solve"); isint[v] = true; Variables_Set vs; vs.insert(Variable(v)); mip->add_to_integer_space_dimensions(vs); }
      else ctx.begin("solve", "mip.solve()");
      solve_and_report(*mip, out); break; }
    case 9: {
      if (n < 4) { ctx.begin("add_dimension_solve", "mip.add_space_dimensions_and_embed(1);bound it;solve"); mip->add_space_dimensions_and_embed(1); ++n; obj.push_back(0); isint.push_back(false);
        for (size_t i = 0; i < raw.size(); ++i) raw[i].a.resize(n, 0);
        RawCon lo; lo.a.assign(n, 0); lo.a[n - 1] = 1; lo.b = 0; lo.rel = 1; RawCon hi; hi.a.assign(n, 0); hi.a[n - 1] = -1; hi.b = G().small + 1; hi.rel = 1;
        raw.push_back(lo); raw.push_back(hi); mip->add_constraint(con(lo, n)); mip->add_constraint(con(hi, n)); }
      else ctx.begin("solve", "mip.solve()");
      solve_and_report(*mip, out); break; }
    case 10: { int k = rnd(0, 2); static const char* const nm[3] = { "steepest_edge_float", "steepest_edge_exact", "textbook" };
      ctx.begin(std::string("pricing_") + nm[k] + "_solve", std::string("mip.set_control_parameter(") + nm[k] + ");copy;solve copy");
      mip->set_control_parameter(k == 0 ? MIP_Problem::PRICING_STEEPEST_EDGE_FLOAT : k == 1 ? MIP_Problem::PRICING_STEEPEST_EDGE_EXACT : MIP_Problem::PRICING_TEXTBOOK);
      MIP_Problem c(*mip); solve_and_report(c, out); break; }
    default: {
      std::vector<long> a = raw_vec(n, 30); long d = coin(60) ? 1 : (long) rnd(1, (int) G().small + 1);
      ctx.begin("evaluate_objective_function", "mip.evaluate_objective_function(point(" + show(a, 0) + "," + std::to_string(d) + "))");
      Coefficient en, ed; mip->evaluate_objective_function(point(le(a, 0, n), Coefficient(d)), en, ed); claims.clear(); out.push_back(val("eval", frac(toZ(en), toZ(ed)))); break; }
    }
  }
};
Script* make_mip_script() { return new Mip_Script(); }

// ======================================================================================
// PIP_Problem: the solution tree is compared through the function it denotes
// (lexicographic minimum for every parameter valuation of a window that
// satisfies the parameter-only constraints), never through its shape.
// ======================================================================================
struct Pip_Script : public Script {
  int n0, n; std::vector<bool> is_param0, is_param; std::unique_ptr<PIP_Problem> pip; bool fresh; std::vector<RawCon> raw;
  Pip_Script() {
    n0 = rnd(2, std::max(2, G().maxdim)); is_param0.assign(n0, false);
    int np = rnd(0, std::min(2, n0 - 1)); for (int i = 0; i < np; ++i) is_param0[n0 - 1 - i] = true;
    reset();
  }
  const char* domain() const { return "pip"; }
  void reset() { n = n0; is_param = is_param0; pip.reset(); pip.reset(new PIP_Problem(n)); fresh = true; raw.clear(); }

  static bool eval_expr(const Linear_Expression& e, const std::vector<ZZ>& val, const std::vector<char>& defined, ZZ& out) {
    out = toZ(e.inhomogeneous_term());
    for (dimension_type i = 0; i < e.space_dimension(); ++i) {
      ZZ c = toZ(e.coefficient(Variable(i))); if (c == 0) continue;
      if (i >= val.size() || !defined[i]) return false;
      out += c * val[i];
    }
    return true;
  }
  std::string walk(const PIP_Tree_Node* node, const std::vector<ZZ>& pv) {
    std::vector<ZZ> val = pv; std::vector<char> defined(n, 0); for (int i = 0; i < n; ++i) defined[i] = is_param[i];
    for (int depth = 0; depth < 10000; ++depth) {
      if (node == 0) return "_";
      for (PIP_Tree_Node::Artificial_Parameter_Sequence::const_iterator ap = node->art_parameter_begin(); ap != node->art_parameter_end(); ++ap) {
        ZZ num; if (!eval_expr(*ap, val, defined, num)) return "malformed:art";
        ZZ den = toZ(ap->denominator()); if (den <= 0) return "malformed:den";
        ZZ q; mpz_fdiv_q(q.get_mpz_t(), num.get_mpz_t(), den.get_mpz_t()); val.push_back(q); defined.push_back(1);
      }
      bool all = true; const Constraint_System& cs = node->constraints();
      for (Constraint_System::const_iterator i = cs.begin(), e = cs.end(); i != e; ++i) {
        Linear_Expression ex(i->expression()); ZZ v; if (!eval_expr(ex, val, defined, v)) return "malformed:con";
        bool h = i->is_equality() ? v == 0 : i->is_strict_inequality() ? v > 0 : v >= 0; if (!h) all = false;
      }
      if (const PIP_Decision_Node* d = node->as_decision()) { node = d->child_node(all); continue; }
      const PIP_Solution_Node* s = node->as_solution(); if (!s) return "malformed:node";
      if (!all) return "_";
      std::string r = "(";
      for (int k = 0; k < n; ++k) if (!is_param[k]) { ZZ v; if (!eval_expr(s->parametric_values(Variable(k)), val, defined, v)) return "malformed:val"; r += zs(v) + ","; }
      return r + ")";
    }
    return "malformed:depth";
  }
  void solve_and_report(const PIP_Problem& p, Items& out) {
    PIP_Problem_Status st = p.solve();
    out.push_back(val("status", std::string(st == UNFEASIBLE_PIP_PROBLEM ? "unfeasible" : "optimized")));
    const PIP_Tree_Node* root = coin() ? p.solution() : p.optimizing_solution();
    std::vector<int> P; for (int i = 0; i < n; ++i) if (is_param[i]) P.push_back(i);
    const long lo = -2, hi = 4; std::vector<long> cur(P.size(), lo); std::string table;
    for (;;) {
      std::vector<ZZ> pv(n, ZZ(0)); for (size_t i = 0; i < P.size(); ++i) pv[P[i]] = cur[i];
      bool in_ctx = true;
      for (size_t c = 0; c < raw.size() && in_ctx; ++c) {
        bool ponly = true; for (int j = 0; j < n && j < (int) raw[c].a.size(); ++j) if (raw[c].a[j] && !is_param[j]) ponly = false;
        if (!ponly) continue;
        ZZ v = raw[c].b; for (int j = 0; j < n && j < (int) raw[c].a.size(); ++j) v += ZZ(raw[c].a[j]) * pv[j];
        if (raw[c].rel == 0 ? v != 0 : raw[c].rel == 1 ? v < 0 : v <= 0) in_ctx = false;
      }
      if (in_ctx) table += walk(root, pv); else table += "x";
      table += " ";
      size_t i = 0; while (i < cur.size() && cur[i] == hi) { cur[i] = lo; ++i; }
      if (i == cur.size()) break; ++cur[i];
    }
    out.push_back(val("lexmin_table", table)); out.push_back(val("OK", p.OK()));
  }

  void step(Step_Context& ctx, Items& out) {
    int op = fresh ? 0 : rnd(0, 9); std::string t;
    switch (op) {
    case 0: case 1: {
      int k = rnd(1, n + 2); std::vector<RawCon> v; for (int i = 0; i < k; ++i) { v.push_back(raw_con(n, false)); t += (i ? ", " : "") + show(v.back()); }
      std::string ps; for (int i = 0; i < n; ++i) if (is_param[i]) ps += (char) ('A' + i);
      ctx.begin("build_solve", "PIP(" + std::to_string(n) + ", {" + t + "}, params{" + ps + "})"); fresh = false; raw = v;
      Constraint_System cs = cons(v, n); Variables_Set params; for (int i = 0; i < n; ++i) if (is_param[i]) params.insert(Variable(i));
      pip.reset(new PIP_Problem(n, cs.begin(), cs.end(), params)); solve_and_report(*pip, out); break; }
    case 2: case 3: case 4: case 5: { RawCon c = raw_con(n, false); ctx.begin("add_constraint_solve", "pip.add_constraint(" + show(c) + ");solve"); raw.push_back(c); pip->add_constraint(con(c, n)); solve_and_report(*pip, out); break; }
    case 6: {
      int np = 0; for (int i = 0; i < n; ++i) if (is_param[i]) ++np;
      if (n < 4) { bool par = np < 2 && coin(40); ctx.begin(par ? "add_parameter_solve" : "add_variable_solve", std::string("pip.add_space_dimensions_and_embed(") + (par ? "0,1" : "1,0") + ");solve");
        pip->add_space_dimensions_and_embed(par ? 0 : 1, par ? 1 : 0); ++n; is_param.push_back(par); for (size_t i = 0; i < raw.size(); ++i) raw[i].a.resize(n, 0); }
      else ctx.begin("solve", "pip.solve()");
      solve_and_report(*pip, out); break; }
    case 7: { int k = rnd(0, 2); static const char* const nm[3] = { "first", "deepest", "all" };
      ctx.begin(std::string("cutting_") + nm[k] + "_solve", std::string("pip.set_control_parameter(CUTTING_STRATEGY_") + nm[k] + ");solve");
      pip->set_control_parameter(k == 0 ? PIP_Problem::CUTTING_STRATEGY_FIRST : k == 1 ? PIP_Problem::CUTTING_STRATEGY_DEEPEST : PIP_Problem::CUTTING_STRATEGY_ALL); solve_and_report(*pip, out); break; }
    case 8: { bool mc = G().pip_maxcol && coin();
      ctx.begin(mc ? "pivot_max_column_solve" : "pivot_first_solve", std::string("pip.set_control_parameter(PIVOT_ROW_STRATEGY_") + (mc ? "MAX_COLUMN" : "FIRST") + ");solve");
      pip->set_control_parameter(mc ? PIP_Problem::PIVOT_ROW_STRATEGY_MAX_COLUMN : PIP_Problem::PIVOT_ROW_STRATEGY_FIRST); solve_and_report(*pip, out); break; }
    default: { ctx.begin("copy_solve", "PIP_Problem c(pip);c.solve()"); PIP_Problem c(*pip); solve_and_report(c, out); break; }
    }
  }
};
Script* make_pip_script() { return new Pip_Script(); }

// ======================================================================================
// Linear_Expression / Constraint / Generator / Congruence construction and the scalar
// Coefficient functions PPL itself is written with.  The oracle is the mpz build itself.
// ======================================================================================
struct Lin_Script : public Script {
  int n; Linear_Expression E[3]; Coefficient K[3];
  Lin_Script() { n = rnd(1, G().maxdim); reset(); }
  const char* domain() const { return "lin"; }
  void reset() { for (int i = 0; i < 3; ++i) { E[i] = Linear_Expression(); E[i].set_space_dimension(n); K[i] = Coefficient(wide()); } }
  static long wide() { return coin(25) ? rc() : rc_wide(); }
  static long wide_nz() { for (;;) { long v = wide(); if (v) return v; } }

  void step(Step_Context& ctx, Items& out) {
    int a = rnd(0, 2), b = rnd(0, 2), c = rnd(0, 2); std::string sa = std::to_string(a), sb = std::to_string(b), sc = std::to_string(c);
    int op = rnd(0, 41);
    // SPARSE Linear_Expression `e -= e` / `e += e` / add_mul_assign(e, k, e) is a heap-use-after-free in Sparse_Row::linear_combine
    // in EVERY configuration (an aliasing defect, property C13, reported by the engines that own it): operands are kept distinct here.
    if ((op == 3 || op == 4 || op == 12 || op == 13 || op == 16 || op == 17) && b == a && !hx::opt().geti("linalias", 0)) { b = (a + 1) % 3; sb = std::to_string(b); }
    switch (op) {
    case 0: case 1: case 2: { std::vector<long> v = raw_vec(n, 25); for (int i = 0; i < n; ++i) if (v[i] && coin(55)) v[i] = rc_wide(); long k = wide(); ctx.begin("le_set", "E" + sa + "=" + show(v, k)); E[a] = le(v, k, n); out.push_back(val("E", canon(E[a], n))); break; }
    case 3: ctx.begin("le_add_assign", "E" + sa + "+=E" + sb); E[a] += E[b]; out.push_back(val("E", canon(E[a], n))); break;
    case 4: ctx.begin("le_sub_assign", "E" + sa + "-=E" + sb); E[a] -= E[b]; out.push_back(val("E", canon(E[a], n))); break;
    case 5: { long k = wide(); ctx.begin("le_mul_assign", "E" + sa + "*=" + std::to_string(k)); E[a] *= Coefficient(k); out.push_back(val("E", canon(E[a], n))); break; }
    case 6: ctx.begin("le_add", "E" + sa + "=E" + sb + "+E" + sc); E[a] = E[b] + E[c]; out.push_back(val("E", canon(E[a], n))); break;
    case 7: ctx.begin("le_sub", "E" + sa + "=E" + sb + "-E" + sc); E[a] = E[b] - E[c]; out.push_back(val("E", canon(E[a], n))); break;
    case 8: ctx.begin("le_neg", "E" + sa + "=-E" + sb); E[a] = -E[b]; out.push_back(val("E", canon(E[a], n))); break;
    case 9: { long k = wide(); ctx.begin("le_scalar_mul", "E" + sa + "=" + std::to_string(k) + "*E" + sb); E[a] = Coefficient(k) * E[b]; out.push_back(val("E", canon(E[a], n))); break; }
    case 10: { long k = wide(); int v = rnd(0, n - 1); ctx.begin("le_add_mul_var", "add_mul_assign(E" + sa + "," + std::to_string(k) + "," + (char) ('A' + v) + ")"); add_mul_assign(E[a], Coefficient(k), Variable(v)); out.push_back(val("E", canon(E[a], n))); break; }
    case 11: { long k = wide(); int v = rnd(0, n - 1); ctx.begin("le_sub_mul_var", "sub_mul_assign(E" + sa + "," + std::to_string(k) + "," + (char) ('A' + v) + ")"); sub_mul_assign(E[a], Coefficient(k), Variable(v)); out.push_back(val("E", canon(E[a], n))); break; }
    case 12: { long k = wide(); ctx.begin("le_add_mul_le", "add_mul_assign(E" + sa + "," + std::to_string(k) + ",E" + sb + ")"); add_mul_assign(E[a], Coefficient(k), E[b]); out.push_back(val("E", canon(E[a], n))); break; }
    case 13: { long k = wide(); ctx.begin("le_sub_mul_le", "sub_mul_assign(E" + sa + "," + std::to_string(k) + ",E" + sb + ")"); sub_mul_assign(E[a], Coefficient(k), E[b]); out.push_back(val("E", canon(E[a], n))); break; }
    case 14: { long k = wide(); bool plus = coin(); ctx.begin(plus ? "le_add_scalar" : "le_scalar_sub", plus ? "E" + sa + "=E" + sb + "+" + std::to_string(k) : "E" + sa + "=" + std::to_string(k) + "-E" + sb); if (plus) E[a] = E[b] + Coefficient(k); else E[a] = Coefficient(k) - E[b]; out.push_back(val("E", canon(E[a], n))); break; }
    case 15: ctx.begin("le_neg_assign", "neg_assign(E" + sa + ")"); neg_assign(E[a]); out.push_back(val("E", canon(E[a], n))); break;
    case 16: { long k1 = wide_nz(), k2 = wide_nz(); ctx.begin("le_linear_combine", "E" + sa + ".linear_combine(E" + sb + "," + std::to_string(k1) + "," + std::to_string(k2) + ")");
      // (linear_combine(y, Variable) is declared in Linear_Expression_defs.hh but defined nowhere, so it cannot be driven)
      if (a != b) { E[a].linear_combine(E[b], Coefficient(k1), Coefficient(k2)); out.push_back(val("combined", true)); } else out.push_back(val("combined", false));
      out.push_back(val("E", canon(E[a], n))); break; }
    case 17: { long k1 = wide(), k2 = wide(); ctx.begin("le_linear_combine_lax", "E" + sa + ".linear_combine_lax(E" + sb + "," + std::to_string(k1) + "," + std::to_string(k2) + ")"); E[a].linear_combine_lax(E[b], Coefficient(k1), Coefficient(k2)); out.push_back(val("E", canon(E[a], n))); break; }
    case 18: ctx.begin("le_normalize", "E" + sa + ".normalize();sign_normalize()"); E[a].normalize(); E[a].sign_normalize(); out.push_back(val("E", canon(E[a], n))); break;
    case 19: { int r = rnd(0, 4); ctx.begin("constraint_build", "Constraint(E" + sa + RELSS[r] + "E" + sb + ")");
      Constraint k = r == 0 ? Constraint(E[a] < E[b]) : r == 1 ? Constraint(E[a] <= E[b]) : r == 2 ? Constraint(E[a] == E[b]) : r == 3 ? Constraint(E[a] >= E[b]) : Constraint(E[a] > E[b]);
      out.push_back(val("c", canon(k, n))); out.push_back(val("tautological", k.is_tautological())); out.push_back(val("inconsistent", k.is_inconsistent())); break; }
    case 20: { long k = wide(); int r = rnd(0, 2); ctx.begin("constraint_scalar", "Constraint(E" + sa + (r == 0 ? "<=" : r == 1 ? "==" : ">") + std::to_string(k) + ")");
      Constraint q = r == 0 ? Constraint(E[a] <= Coefficient(k)) : r == 1 ? Constraint(E[a] == Coefficient(k)) : Constraint(E[a] > Coefficient(k)); out.push_back(val("c", canon(q, n))); break; }
    case 21: { long d = wide_nz(); int kind = rnd(0, 1); ctx.begin(kind ? "closure_point_build" : "point_build", std::string(kind ? "closure_point" : "point") + "(E" + sa + "," + std::to_string(d) + ")");
      Linear_Expression h = E[a]; h.set_inhomogeneous_term(0); Generator g = kind ? closure_point(h, Coefficient(d)) : point(h, Coefficient(d)); out.push_back(val("g", canon(g, n))); break; }
    case 22: { int kind = rnd(0, 1); ctx.begin(kind ? "line_build" : "ray_build", std::string(kind ? "line" : "ray") + "(E" + sa + ")");
      Linear_Expression h = E[a]; h.set_inhomogeneous_term(0); if (h.all_homogeneous_terms_are_zero()) { out.push_back(val("zero", true)); break; }
      Generator g = kind ? line(h) : ray(h); out.push_back(val("g", canon(g, n))); break; }
    case 23: { long d = wide_nz(); int kind = rnd(0, 1); ctx.begin(kind ? "parameter_build" : "grid_point_build", std::string(kind ? "parameter" : "grid_point") + "(E" + sa + "," + std::to_string(d) + ")");
      Linear_Expression h = E[a]; h.set_inhomogeneous_term(0); Grid_Generator g = kind ? parameter(h, Coefficient(d)) : grid_point(h, Coefficient(d)); out.push_back(val("g", canon(g, n)));
      long d2 = (long) rnd(1, (int) G().small + 2); if (!g.is_line()) { hx::tr(";scale_to_divisor(" + std::to_string(d2) + "*divisor)"); Coefficient nd = g.divisor() * Coefficient(d2); g.scale_to_divisor(nd); out.push_back(val("scaled", canon(g, n))); }
      break; }
    case 24: { long m = wide(); ctx.begin("congruence_build", "(E" + sa + "%=E" + sb + ")/" + std::to_string(m)); Congruence q = (E[a] %= E[b]) / Coefficient(m); out.push_back(val("cg", canon(q, n)));
      out.push_back(val("tautological", q.is_tautological())); out.push_back(val("inconsistent", q.is_inconsistent())); break; }
    // ----- scalar kernel -----
    case 25: case 26: { long k = wide(); ctx.begin("k_set", "K" + sa + "=" + std::to_string(k)); K[a] = Coefficient(k); out.push_back(val("K", toZ(K[a]))); break; }
    case 27: ctx.begin("k_add", "K" + sa + "=K" + sb + "+K" + sc); K[a] = K[b] + K[c]; out.push_back(val("K", toZ(K[a]))); break;
    case 28: ctx.begin("k_sub", "K" + sa + "=K" + sb + "-K" + sc); K[a] = K[b] - K[c]; out.push_back(val("K", toZ(K[a]))); break;
    case 29: ctx.begin("k_mul", "K" + sa + "=K" + sb + "*K" + sc); K[a] = K[b] * K[c]; out.push_back(val("K", toZ(K[a]))); break;
    case 30: { ctx.begin("k_div_rem", "K" + sa + "=K" + sb + "/K" + sc + ";rem_assign"); if (K[c] == 0) { out.push_back(val("zero_divisor", true)); break; }
      Coefficient r; rem_assign(r, K[b], K[c]); out.push_back(val("rem", toZ(r))); Coefficient q = K[b] / K[c]; out.push_back(val("quot", toZ(q))); K[a] = q; break; }
    case 31: { bool ng = coin(); ctx.begin(ng ? "k_neg" : "k_abs", (ng ? "neg_assign(K" : "abs_assign(K") + sa + ",K" + sb + ")"); if (ng) neg_assign(K[a], K[b]); else abs_assign(K[a], K[b]); out.push_back(val("K", toZ(K[a]))); break; }
    case 32: ctx.begin("k_gcd", "gcd_assign(K" + sa + ",K" + sb + ",K" + sc + ")"); gcd_assign(K[a], K[b], K[c]); out.push_back(val("K", toZ(K[a]))); break;
    case 33: ctx.begin("k_lcm", "lcm_assign(K" + sa + ",K" + sb + ",K" + sc + ")"); lcm_assign(K[a], K[b], K[c]); out.push_back(val("K", toZ(K[a]))); break;
    case 34: { ctx.begin("k_gcdext", "gcdext_assign(g,s,t,K" + sb + ",K" + sc + ")"); Coefficient g, s, t; gcdext_assign(g, s, t, K[b], K[c]); out.push_back(val("g", toZ(g)));
      out.push_back(val("bezout_holds", toZ(s) * toZ(K[b]) + toZ(t) * toZ(K[c]) == toZ(g))); K[a] = g; break; }
    case 35: { ctx.begin("k_exact_div", "exact_div_assign(K" + sa + ",K" + sb + ",K" + sc + ")"); if (K[c] == 0 || toZ(K[b]) % toZ(K[c]) != 0) { out.push_back(val("not_divisible", true)); break; } exact_div_assign(K[a], K[b], K[c]); out.push_back(val("K", toZ(K[a]))); break; }
    case 36: { bool ad = coin(); ctx.begin(ad ? "k_add_mul" : "k_sub_mul", (ad ? "add_mul_assign(K" : "sub_mul_assign(K") + sa + ",K" + sb + ",K" + sc + ")"); if (ad) add_mul_assign(K[a], K[b], K[c]); else sub_mul_assign(K[a], K[b], K[c]); out.push_back(val("K", toZ(K[a]))); break; }
    case 37: { unsigned e = rnd(0, G().bits + 1); ctx.begin("k_mul_2exp", "mul_2exp_assign(K" + sa + ",K" + sb + "," + std::to_string(e) + ")"); mul_2exp_assign(K[a], K[b], e); out.push_back(val("K", toZ(K[a]))); break; }
    case 38: { unsigned e = rnd(0, G().bits + 1); ctx.begin("k_div_2exp", "div_2exp_assign(K" + sa + ",K" + sb + "," + std::to_string(e) + ") [exact cases only]");
      ZZ m = 1; m <<= e; if (toZ(K[b]) % m != 0) { out.push_back(val("inexact_skipped", true)); break; } div_2exp_assign(K[a], K[b], e); out.push_back(val("K", toZ(K[a]))); break; }
    case 39: { if (coin(60)) { long r = rl(0, isqrt_l(G().lim)); hx::tr(" | K" + sb + "=" + std::to_string(r) + "^2"); K[b] = Coefficient(r * r); }
      ZZ v = toZ(K[b]); ZZ quarter = ZZ(G().lim) / 2 + 1;   // 2^(bits-2)
      // the operand class is part of the op name: isqrt_rem() overflows its signed intermediate exactly for operands >= 2^(bits-2)
      ctx.begin(v >= quarter ? "k_sqrt_operand_ge_quarter_range" : "k_sqrt", "sqrt_assign(K" + sa + ",K" + sb + ") [perfect squares only]"); if (v < 0 || !mpz_perfect_square_p(v.get_mpz_t())) { out.push_back(val("inexact_skipped", true)); break; } sqrt_assign(K[a], K[b]); out.push_back(val("K", toZ(K[a]))); break; }
    case 40: { ctx.begin("k_incdec_cmp", "++K" + sa + ";--K" + sb + ";cmp;sgn"); ++K[a]; --K[b]; out.push_back(val("Ka", toZ(K[a]))); out.push_back(val("Kb", toZ(K[b])));
      int cm = cmp(K[a], K[b]); out.push_back(val("cmp", ZZ(cm < 0 ? -1 : cm > 0 ? 1 : 0))); out.push_back(val("sgn", ZZ((int) sgn(K[c])))); out.push_back(val("lt", K[a] < K[c])); break; }
    default: { ctx.begin("k_from_expr", "K" + sa + "=E" + sb + ".coefficient*inhomogeneous_term"); int v = rnd(0, n - 1); K[a] = E[b].coefficient(Variable(v)) * E[b].inhomogeneous_term(); out.push_back(val("K", toZ(K[a]))); break; }
    }
  }
};
Script* make_lin_script() { return new Lin_Script(); }

} // namespace cfg
