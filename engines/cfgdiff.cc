// cfgdiff — C11, second half: "a library configured with bounded (checked)
// integer coefficients either returns the same results as the unbounded
// configuration or raises an overflow error - it never returns a different
// answer".
//
// ONE source, compiled in every coefficient configuration:
//   build/san-iN/bin/cfgdiff   (N = 8, 16, 32, 64; Coefficient = Checked_Number<intN_t, Bounded_Integer_Coefficient_Policy>)
//       runs the seeded operation scripts and writes, per step, a canonical
//       textual result (or OVERFLOW / EXC <type> / HANG) to --kv log=FILE.
//   build/san/bin/cfgdiff      (Coefficient = mpz_class)
//       --kv bits=N                     spawns ../../san-iN/bin/cfgdiff for the same (seed, first, count),
//                                       reads its log and compares  => one job = one comparison
//       --kv mode=compare --kv log=F    compares against an existing log (bits=N must match the log's build)
//       (neither)                       solo run of the scripts (smoke test, no oracle)
//
// Scripts (cfgdiff__*.cc): C / NNC polyhedra, grids, BD_Shape<mpz_class>,
// Octagonal_Shape<mpz_class>, MIP_Problem, PIP_Problem, Linear_Expression /
// Coefficient kernel.  Every step re-seeds hx::rng() from (case seed, step
// index) and draws raw `long` operands from a distribution that depends only
// on the emulated width, so both configurations execute the same script; when
// the bounded build overflowed at a step, BOTH sides destroy and re-create the
// script's objects (which also exercises clean exits after overflow).
//
// Verdict per step: bounded says OVERFLOW, or its result denotes the same
// set / value as the mpz result.  Texts are compared first; when they differ,
// sets are compared semantically through the reference model (exact LP for
// polyhedra and shapes, own HNF for grids), witnesses (optimizing points)
// are validated against the problem, values must be equal.
//
// Keys:  C11.cfg.<bits>.<domain>.<op>:different_answer
//        C11.cfg.<bits>.<domain>.<op>:exception_other_than_overflow
//        C11.cfg.<bits>.<domain>.<op>:hang
//        C11.cfg.crash.<bits>:<kind>@<frames>
#include "cfgdiff.hh"
#include "refgrid.hh"
#include <sys/wait.h>
#include <sys/stat.h>
#include <fcntl.h>
#include <dirent.h>
#include <fstream>

using namespace cfg;
using hx::violation; using hx::tr;

#ifndef PPL_COEFFICIENT_BITS
#define PPL_COEFFICIENT_BITS 0
#endif
static const int BUILD_BITS = PPL_COEFFICIENT_BITS;

// per-width magnitudes of the random operands: chosen (measured) so that 10-25 % of the steps overflow
void cfg::configure(int bits) {
  Config& g = G(); g.bits = bits;
  g.lim = bits == 64 ? 0x7fffffffffffffffL : (1L << (bits - 1)) - 1;
  switch (bits) {
  case 8:  g.small = 7;  g.mid = 35;      g.maxdim = 2; break;
  case 16: g.small = 8;  g.mid = 300;     g.maxdim = 3; break;
  case 32: g.small = 40; g.mid = 20000;   g.maxdim = 3; break;
  default: g.small = 2000; g.mid = 2000000000L; g.maxdim = 3; break;
  }
  g.small = hx::opt().geti("small", g.small); g.mid = hx::opt().geti("mid", g.mid);
  g.edge_pct = (int) hx::opt().geti("edge", g.edge_pct); g.maxdim = (int) hx::opt().geti("maxdim", g.maxdim);
  g.pip_maxcol = hx::opt().geti("pipmaxcol", 0) != 0;
}

// ---------------------------------------------------------------------------
// payload encoding
// ---------------------------------------------------------------------------
static std::string clean(std::string s) { for (size_t i = 0; i < s.size(); ++i) if (s[i] == '|' || s[i] == '@' || s[i] == '\n' || s[i] == '\t' || s[i] == '\r') s[i] = '_'; return s; }
static std::string encode(const Items& v) {
  std::string s = "OK";
  for (size_t i = 0; i < v.size(); ++i) {
    s += " | "; s += v[i].kind; s += " @ " + std::to_string(v[i].n) + " @ " + clean(v[i].a);
    if (v[i].kind == 'P' || v[i].kind == 'L') s += " @ " + clean(v[i].b);
  }
  return s;
}
static std::vector<std::string> split(const std::string& s, const std::string& sep) {
  std::vector<std::string> r; size_t p = 0;
  for (;;) { size_t q = s.find(sep, p); if (q == std::string::npos) { r.push_back(s.substr(p)); break; } r.push_back(s.substr(p, q - p)); p = q + sep.size(); }
  return r;
}
static bool decode(const std::string& payload, Items& out) {
  std::vector<std::string> parts = split(payload, " | ");
  if (parts.empty() || parts[0] != "OK") return false;
  for (size_t i = 1; i < parts.size(); ++i) {
    std::vector<std::string> f = split(parts[i], " @ ");
    if (f.size() < 3 || f[0].size() != 1) return false;
    Item it; it.kind = f[0][0]; it.n = atoi(f[1].c_str()); it.a = f[2]; if (f.size() > 3) it.b = f[3];
    out.push_back(it);
  }
  return true;
}

// ---------------------------------------------------------------------------
// canonical text -> reference model
// ---------------------------------------------------------------------------
static std::vector<std::string> rows_of(const std::string& s) { std::vector<std::string> r; if (s.empty()) return r; return split(s, ";"); }
static bool parse_cons(const std::string& text, int n, ref::Sys& S) {
  std::vector<std::string> rows = rows_of(text);
  for (size_t i = 0; i < rows.size(); ++i) {
    std::istringstream is(rows[i]); std::string rel, tok; is >> rel;
    ref::Con c; c.a.assign(n, ref::Q(0));
    for (int d = 0; d < n; ++d) { if (!(is >> tok)) return false; c.a[d] = -ref::Q(mpz_class(tok)); }
    if (!(is >> tok) || tok != ":") return false;
    if (!(is >> tok)) return false; c.b = ref::Q(mpz_class(tok));
    c.rel = rel == "=" ? ref::EQ : rel == ">" ? ref::LT : ref::LE;
    if (rel != "=" && rel != ">" && rel != ">=") return false;
    S.push_back(c);
  }
  return true;
}
static bool parse_gens(const std::string& text, int n, ref::Gens& Gs) {
  std::vector<std::string> rows = rows_of(text);
  for (size_t i = 0; i < rows.size(); ++i) {
    std::istringstream is(rows[i]); std::string tag, tok; is >> tag;
    ref::Gen g; g.v.assign(n, ref::Q(0));
    g.kind = tag == "p" ? ref::Gen::POINT : tag == "c" ? ref::Gen::CLOSURE_POINT : tag == "r" ? ref::Gen::RAY : ref::Gen::LINE;
    if (tag != "p" && tag != "c" && tag != "r" && tag != "l") return false;
    for (int d = 0; d < n; ++d) { if (!(is >> tok)) return false; g.v[d] = ref::Q(mpz_class(tok)); }
    if (tag == "p" || tag == "c") { if (!(is >> tok) || tok != "/" || !(is >> tok)) return false; ref::Q dv = ref::Q(mpz_class(tok)); if (dv <= 0) return false; for (int d = 0; d < n; ++d) g.v[d] /= dv; }
    Gs.push_back(g);
  }
  return true;
}
static bool parse_cgs(const std::string& text, int n, std::vector<ref::Cg>& out) {
  std::vector<std::string> rows = rows_of(text);
  for (size_t i = 0; i < rows.size(); ++i) {
    std::istringstream is(rows[i]); std::string tok; ref::Cg c; c.a.assign(n, ref::Q(0));
    for (int d = 0; d < n; ++d) { if (!(is >> tok)) return false; c.a[d] = ref::Q(mpz_class(tok)); }
    if (!(is >> tok) || tok != ":") return false;
    if (!(is >> tok)) return false; c.b = -ref::Q(mpz_class(tok));
    if (!(is >> tok) || tok != "%") return false;
    if (!(is >> tok)) return false; c.m = ref::Q(mpz_class(tok));
    out.push_back(c);
  }
  return true;
}
static bool parse_ggens(const std::string& text, int n, ref::Lattice& L) {
  std::vector<std::string> rows = rows_of(text);
  L = ref::Lattice(); L.n = n; L.empty = true; L.p.assign(n, ref::Q(0));
  bool have_point = false;
  for (size_t i = 0; i < rows.size(); ++i) {
    std::istringstream is(rows[i]); std::string tag, tok; is >> tag; ref::Vec v(n);
    for (int d = 0; d < n; ++d) { if (!(is >> tok)) return false; v[d] = ref::Q(mpz_class(tok)); }
    if (tag == "p" || tag == "q") { if (!(is >> tok) || tok != "/" || !(is >> tok)) return false; ref::Q dv = ref::Q(mpz_class(tok)); if (dv <= 0) return false; for (int d = 0; d < n; ++d) v[d] /= dv; }
    if (tag == "p") { if (!have_point) { L.p = v; have_point = true; } else { ref::Vec d(n); for (int k = 0; k < n; ++k) d[k] = v[k] - L.p[k]; L.params.push_back(d); } }
    else if (tag == "q") L.params.push_back(v);
    else if (tag == "l") L.lines.push_back(v);
    else return false;
  }
  L.empty = !have_point;
  if (L.empty) { L.params.clear(); L.lines.clear(); }
  return true;
}

// first point of set(A) that is not in set(B), re-validated by plain arithmetic
static int included_with_witness(int n, const ref::Sys& A, const ref::Sys& B, std::string& why) {
  ref::Vec w; std::string y;
  if (ref::esys_in_cons(ref::esys_of(A, n), B, &w, &y)) return 1;
  w.resize(n);
  if (!ref::sat(A, w) || ref::sat(B, w)) { why = "witness failed re-validation"; return -1; }
  why = "point " + pplx::show(w); return 0;
}

// 1 same, 0 different (why), -1 inconclusive, -2 harness problem (why)
static int compare_item(Script& sc, size_t idx, const Item& M, const Item& B, std::string& why, bool& semantic) {
  semantic = false;
  if (M.kind != B.kind || M.n != B.n) { why = "result kinds / dimensions differ"; return 0; }
  if (M.a == B.a && M.b == B.b) return 1;
  int n = M.n;
  switch (M.kind) {
  case 'V': why = "value: bounded `" + B.a + "` unbounded `" + M.a + "`"; return 0;
  case 'X': { semantic = true; std::string y; if (sc.validate(idx, B.a, y)) return 1; why = "witness `" + B.a + "` (unbounded build: `" + M.a + "`): " + y; return 0; }
  case 'P': {
    if (n == 0) { why = "zero-dimensional sets differ: bounded `" + B.a + " / " + B.b + "` unbounded `" + M.a + " / " + M.b + "`"; return 0; }
    semantic = true;
    ref::Sys Cm, Cb; if (!parse_cons(M.a, n, Cm) || !parse_cons(B.a, n, Cb)) { why = "cannot parse constraint text"; return -2; }
    std::string y;
    int r = included_with_witness(n, Cm, Cb, y); if (r < 0) { why = y; return -2; }
    if (r == 0) { why = y + " belongs to the unbounded build's result but violates the bounded build's constraints {" + B.a + "} (unbounded: {" + M.a + "})"; return 0; }
    r = included_with_witness(n, Cb, Cm, y); if (r < 0) { why = y; return -2; }
    if (r == 0) { why = y + " satisfies the bounded build's constraints {" + B.a + "} but is not in the unbounded build's result {" + M.a + "}"; return 0; }
    if (B.b != "-" && M.b != "-" && B.b != M.b) {
      ref::Gens Gb; if (!parse_gens(B.b, n, Gb)) { why = "cannot parse generator text"; return -2; }
      if (!ref::gens_satisfy(n, Gb, Cm, &y)) { why = "bounded build's generators {" + B.b + "} leave the common constraint set {" + M.a + "}: " + y; return 0; }
      ref::Vec w; int k = ref::cons_in_hull(n, Cm, Gb, &w, &y);
      if (k == 0) { if (!ref::sat(Cm, w)) { why = "hull witness failed re-validation"; return -2; } why = "point " + pplx::show(w) + " of the common constraint set is not generated by the bounded build's generators {" + B.b + "}: " + y; return 0; }
      if (k < 0) return -1;
    }
    return 1; }
  case 'L': {
    if (n == 0) { why = "zero-dimensional grids differ"; return 0; }
    semantic = true;
    std::vector<ref::Cg> cm, cb; ref::Lattice gb, gm;
    if (!parse_cgs(M.a, n, cm) || !parse_cgs(B.a, n, cb) || !parse_ggens(B.b, n, gb) || !parse_ggens(M.b, n, gm)) { why = "cannot parse grid text"; return -2; }
    ref::Lattice Lm = ref::from_congruences(n, cm), Lb = ref::from_congruences(n, cb);
    if (!ref::same(Lm, gm)) { why = "unbounded build's own congruences and generators disagree (not a C11 matter)"; return -1; }
    if (!ref::same(Lm, Lb)) { why = "congruences denote different lattices: bounded {" + B.a + "} unbounded {" + M.a + "}"; return 0; }
    if (!ref::same(Lm, gb)) { why = "bounded build's grid generators {" + B.b + "} do not generate the lattice of {" + M.a + "}"; return 0; }
    return 1; }
  }
  why = "unknown item kind"; return -2;
}

// ---------------------------------------------------------------------------
// the bounded build's log, as read by the comparer
// ---------------------------------------------------------------------------
struct Step_Log { std::string op; bool has_result; std::string payload; Step_Log() : has_result(false) {} };
struct Case_Log { std::string domain; std::vector<Step_Log> steps; bool ended; bool crashed, hung; std::string crash_key, crash_detail; Case_Log() : ended(false), crashed(false), hung(false) {} };
static std::map<long, Case_Log>& blog() { static std::map<long, Case_Log> m; return m; }

static long read_log(const std::string& path) {   // returns the last case that was started (-1: none)
  std::ifstream f(path.c_str()); std::string line; long last = -1;
  while (std::getline(f, line)) {
    if (line.size() < 2 || line[1] != ' ') continue;
    std::istringstream is(line); std::string tag; long c; is >> tag >> c;
    if (tag == "C") { Case_Log& L = blog()[c]; L = Case_Log(); is >> L.domain; last = c; }
    else if (tag == "E") { blog()[c].ended = true; }
    else if (tag == "S" || tag == "R") {
      size_t s; std::string op; is >> s >> op; Case_Log& L = blog()[c];
      if (L.steps.size() <= s) L.steps.resize(s + 1);
      L.steps[s].op = op;
      if (tag == "R") { size_t t = line.find('\t'); if (t != std::string::npos) { L.steps[s].payload = line.substr(t + 1); L.steps[s].has_result = true; } }
    }
  }
  return last;
}

// ---------------------------------------------------------------------------
// child (bounded build) management
// ---------------------------------------------------------------------------
static std::string exe_dir() { char b[4096]; ssize_t k = readlink("/proc/self/exe", b, sizeof b - 1); if (k <= 0) return "."; b[k] = 0; std::string s(b); size_t p = s.rfind('/'); return p == std::string::npos ? "." : s.substr(0, p); }
static bool file_exists(const std::string& p) { struct stat st; return stat(p.c_str(), &st) == 0; }
static std::string slurp(const std::string& p, size_t max = 200000) { std::ifstream f(p.c_str()); std::stringstream ss; ss << f.rdbuf(); std::string s = ss.str(); if (s.size() > max) s = s.substr(s.size() - max); return s; }

// condense a sanitizer report of the child into  <kind>@<file><frame><frame   (no numbers that vary per case)
static std::string strip_templates(const std::string& s) { std::string o; int depth = 0; for (size_t i = 0; i < s.size(); ++i) { if (s[i] == '<') ++depth; else if (s[i] == '>') { if (depth > 0) --depth; } else if (depth == 0) o += s[i]; } return o; }
static std::string crash_site(const std::string& err, int status) {
  std::string kind; std::vector<std::string> frames; std::string ub_file;
  std::vector<std::string> lines = split(err, "\n");
  for (size_t i = 0; i < lines.size(); ++i) {
    const std::string& l = lines[i]; size_t p;
    if (kind.empty() && (p = l.find("ERROR: AddressSanitizer: ")) != std::string::npos) { size_t q = p + 25; size_t e = l.find_first_of(" \n", q); kind = "asan-" + l.substr(q, e == std::string::npos ? std::string::npos : e - q); }
    if (kind.empty() && (p = l.find("runtime error: ")) != std::string::npos) {
      // "signed integer overflow: A + B cannot be represented in type 'long int'"  ->  ubsan-signed-integer-overflow-long-int
      std::string m = l.substr(p + 15); size_t colon = m.find(':'); std::string what = m.substr(0, colon), type;
      size_t q1 = m.find('\''); size_t q2 = q1 == std::string::npos ? q1 : m.find('\'', q1 + 1); if (q2 != std::string::npos) type = m.substr(q1 + 1, q2 - q1 - 1);
      std::string k; std::string src = what + (type.empty() ? "" : " " + type);
      for (size_t j = 0; j < src.size() && k.size() < 60; ++j) { char ch = src[j]; if (isalnum((unsigned char) ch) || ch == '_') k += ch; else if (!k.empty() && k[k.size() - 1] != '-') k += '-'; }
      while (!k.empty() && k[k.size() - 1] == '-') k.erase(k.size() - 1);
      kind = "ubsan-" + k;
      size_t r = l.find("/repo/src/"); if (r != std::string::npos && r < p) { std::string loc = l.substr(r + 10, p - r - 10); ub_file = loc.substr(0, loc.find(':')); }
    }
    size_t h = l.find('#');
    if (h != std::string::npos && frames.size() < 1 && (p = l.find(" in ", h)) != std::string::npos) {
      size_t path = l.rfind(" /");
      if (path != std::string::npos && path > p && l.find("/repo/", path) == path + 1) {
        std::string fn = strip_templates(l.substr(p + 4, path - p - 4));
        size_t par = fn.find('('); if (par != std::string::npos && par > 0) fn = fn.substr(0, par);
        while (!fn.empty() && fn[fn.size() - 1] == ' ') fn.erase(fn.size() - 1);
        size_t sp = fn.rfind(' '); if (sp != std::string::npos) fn = fn.substr(sp + 1);
        for (;;) { size_t q = fn.find("Parma_Polyhedra_Library::"); if (q == std::string::npos) break; fn.erase(q, 25); }
        if (!fn.empty() && (frames.empty() || frames.back() != fn)) frames.push_back(fn);
      }
    }
  }
  if (kind.empty()) {
    if (err.find("terminate called") != std::string::npos) kind = "terminate";
    else if (WIFSIGNALED(status)) kind = "signal-" + std::to_string(WTERMSIG(status));
    else kind = "exit-" + std::to_string(WIFEXITED(status) ? WEXITSTATUS(status) : -1);
  }
  std::string s = kind + "@" + ub_file;
  for (size_t i = 0; i < frames.size(); ++i) s += "<" + frames[i];
  return s;
}

static int run_child(const std::string& child, long first, long count, const std::string& log, const std::string& errf, int bits) {
  const hx::Opts& O = hx::opt();
  std::vector<std::string> a;
  long budget = 300 + count * 3;
  a.push_back("timeout"); a.push_back("-k"); a.push_back("10"); a.push_back(std::to_string(budget));
  a.push_back(child); a.push_back("--prop"); a.push_back(O.prop.empty() ? "C11" : O.prop); a.push_back("--profile"); a.push_back(O.profile);
  a.push_back("--seed"); a.push_back(std::to_string(O.seed)); a.push_back("--first"); a.push_back(std::to_string(first)); a.push_back("--count"); a.push_back(std::to_string(count));
  a.push_back("--out"); a.push_back(log + ".jsonl");
  if (O.thorough) a.push_back("--thorough");
  for (std::map<std::string, std::string>::const_iterator i = O.kv.begin(); i != O.kv.end(); ++i) if (i->first != "mode" && i->first != "log" && i->first != "bits") { a.push_back("--kv"); a.push_back(i->first + "=" + i->second); }
  a.push_back("--kv"); a.push_back("bits=" + std::to_string(bits)); a.push_back("--kv"); a.push_back("mode=log"); a.push_back("--kv"); a.push_back("log=" + log);
  std::vector<char*> argv; for (size_t i = 0; i < a.size(); ++i) argv.push_back(const_cast<char*>(a[i].c_str())); argv.push_back(0);
  fflush(0);
  pid_t pid = fork();
  if (pid < 0) return -1;
  if (pid == 0) {
    int fd = open(errf.c_str(), O_WRONLY | O_CREAT | O_TRUNC, 0644); if (fd >= 0) { dup2(fd, 2); close(fd); }
    int nul = open("/dev/null", O_WRONLY); if (nul >= 0) { dup2(nul, 1); close(nul); }
    setenv("UBSAN_OPTIONS", "print_stacktrace=1:halt_on_error=1", 0);
    setenv("ASAN_OPTIONS", "detect_leaks=0:halt_on_error=1", 0);
    execvp(argv[0], &argv[0]); _exit(127);
  }
  int status = 0; while (waitpid(pid, &status, 0) < 0 && errno == EINTR) {}
  return status;
}

static bool g_child_failed = false;
static void spawn_and_collect(int bits) {
  const hx::Opts& O = hx::opt();
  std::string dir = exe_dir(), child = dir + "/../../san-i" + std::to_string(bits) + "/bin/cfgdiff";
  if (!file_exists(child) && O.geti("autobuild", 1)) {
    std::string root = dir + "/../../..";
    std::string cmd = "flock " + root + "/build/san-i" + std::to_string(bits) + ".lock make -f " + root + "/mk/build.mk VERIF=" + root + " VARIANT=san-i" + std::to_string(bits) + " ENGINES=cfgdiff -j6 lib engines >/dev/null 2>&1";
    hx::count("child_autobuild"); int rc = system(cmd.c_str()); (void) rc;
  }
  if (!file_exists(child)) { violation("harness.bug.cfgdiff.child_binary_missing", child); g_child_failed = true; return; }
  // Both binaries must come from the same library tree: a header edited between the two builds (BD_Shape, Octagonal_Shape
  // are header-only) would show up as a "different answer".  Any library source newer than either binary => refuse.
  {
    std::string src = O.gets("repo", "/repo") + "/src", newest; time_t nt = 0;
    if (DIR* d = opendir(src.c_str())) {
      while (struct dirent* e = readdir(d)) {
        std::string f = e->d_name; size_t k = f.size();
        bool hh = k > 3 && f.compare(k - 3, 3, ".hh") == 0 && f != "ppl.hh", cc = k > 3 && f.compare(k - 3, 3, ".cc") == 0;
        if (cc && (f == "Affine_Space.cc" || f == "Pointset_Ask_Tell.cc" || f == "ppl-config.cc" || f == "BUGS.cc" || f == "COPYING.cc" || f == "CREDITS.cc")) cc = false;
        if (!hh && !cc) continue;
        struct stat st; if (stat((src + "/" + f).c_str(), &st) == 0 && st.st_mtime > nt) { nt = st.st_mtime; newest = f; }
      }
      closedir(d);
    }
    struct stat sp, sc; std::string self = dir + "/cfgdiff";
    if (nt && stat(self.c_str(), &sp) == 0 && stat(child.c_str(), &sc) == 0 && (sp.st_mtime < nt || sc.st_mtime < nt) && !O.geti("allowstale", 0)) {
      violation("harness.bug.cfgdiff.stale_build", src + "/" + newest + " is newer than " + (sp.st_mtime < nt ? self : child) + ": rebuild both variants from the same tree");
      g_child_failed = true; return;
    }
  }
  std::string base = O.out.empty() ? "/tmp/cfgdiff." + std::to_string((long) getpid()) : O.out;
  std::string log = base + ".i" + std::to_string(bits) + ".log", errf = log + ".err";
  unlink(log.c_str()); unlink((log + ".jsonl").c_str());
  long first = O.first, end = O.first + O.count; int spawns = 0;
  std::map<long, Case_Log> marks;   // crash / hang records, keyed by the case in which the child died
  while (first < end) {
    int status = run_child(child, first, end - first, log, errf, bits); ++spawns; hx::count("child_runs");
    blog().clear(); long last = read_log(log);
    if (WIFEXITED(status) && WEXITSTATUS(status) == 0) break;
    if (last < first) { violation("harness.bug.cfgdiff.child_failed_to_start", "status " + std::to_string(status) + "; " + slurp(errf, 2000)); g_child_failed = true; return; }
    Case_Log m;
    if (WIFEXITED(status) && (WEXITSTATUS(status) == 124 || WEXITSTATUS(status) == 137)) { m.hung = true; hx::count("child_timeouts"); }
    else {
      std::string err = slurp(errf); m.crashed = true; hx::count("child_crashes");
      m.crash_key = "C11.cfg.crash." + std::to_string(bits) + ":" + crash_site(err, status);
      std::vector<std::string> ls = split(err, "\n"); std::string head; for (size_t i = 0; i < ls.size() && i < 16; ++i) head += ls[i] + "\n";
      m.crash_detail = "bounded (checked-int" + std::to_string(bits) + ") build died, wait status " + std::to_string(status) + "; replay: " + child + " --seed " + std::to_string(O.seed) + " --first " + std::to_string(last) + " --count 1 --kv log=/dev/stderr --verbose\n" + head;
    }
    marks[last] = m;
    first = last + 1;
    if (spawns > 200) { violation("harness.bug.cfgdiff.too_many_child_restarts", std::to_string(spawns)); g_child_failed = true; return; }
  }
  blog().clear(); read_log(log);
  for (std::map<long, Case_Log>::iterator i = marks.begin(); i != marks.end(); ++i) { Case_Log& L = blog()[i->first]; L.crashed = i->second.crashed; L.hung = i->second.hung; L.crash_key = i->second.crash_key; L.crash_detail = i->second.crash_detail; }
  if (!O.geti("keep", 0)) { unlink((log + ".jsonl").c_str()); unlink(errf.c_str()); if (hx::opt().geti("keeplog", 0) == 0) unlink(log.c_str()); }
}

// ---------------------------------------------------------------------------
// the case loop
// ---------------------------------------------------------------------------
enum Mode { SOLO, LOG, COMPARE };
static Mode g_mode = SOLO; static int g_bits = 16; static FILE* g_log = 0; static long g_inject = 0, g_ok_steps = 0;

static void init_once() {
  static bool done = false; if (done) return; done = true;
  const hx::Opts& O = hx::opt();
  long kb = O.geti("bits", 0);
  if (!kb && O.profile.size() >= 2 && O.profile[0] == 'i') kb = atol(O.profile.c_str() + 1);
  g_inject = O.geti("inject", 0);
  if (BUILD_BITS > 0) {
    if (kb && kb != BUILD_BITS) { fprintf(stderr, "cfgdiff: this is the %d-bit build, bits=%ld requested\n", BUILD_BITS, kb); exit(2); }
    g_bits = BUILD_BITS; g_mode = LOG;
    std::string lf = O.gets("log", "");
    g_log = lf.empty() ? stdout : fopen(lf.c_str(), "a");
    if (!g_log) { perror("cfgdiff: open log"); exit(2); }
  } else {
    g_bits = kb ? (int) kb : 16;
    std::string mode = O.gets("mode", kb ? "spawn" : "solo");
    if (mode == "compare") { g_mode = COMPARE; std::string lf = O.gets("log", ""); if (lf.empty() || !file_exists(lf)) { fprintf(stderr, "cfgdiff: mode=compare needs log=FILE\n"); exit(2); } read_log(lf); }
    else if (mode == "spawn") { g_mode = COMPARE; }
    else g_mode = SOLO;
  }
  if (g_bits != 8 && g_bits != 16 && g_bits != 32 && g_bits != 64) { fprintf(stderr, "cfgdiff: bits must be 8, 16, 32 or 64\n"); exit(2); }
  configure(g_bits);
  if (BUILD_BITS == 0 && g_mode == COMPARE && O.gets("mode", "spawn") == "spawn") spawn_and_collect(g_bits);
}

static const char* const DOMAINS[8] = { "cpoly", "nnc", "grid", "bds", "oct", "mip", "pip", "lin" };
static const int DOMW[8] = { 22, 16, 14, 10, 10, 10, 8, 10 };
static Script* make_script(const std::string& d) {
  G().scale_pct = d == "pip" ? 500 : d == "nnc" ? 130 : 100;
  if (d == "cpoly") return make_poly_script(false); if (d == "nnc") return make_poly_script(true); if (d == "grid") return make_grid_script();
  if (d == "bds") return make_bd_script(); if (d == "oct") return make_oct_script(); if (d == "mip") return make_mip_script();
  if (d == "pip") return make_pip_script(); return make_lin_script();
}
// how close to the type limit the printed integers of a payload come: 0..3
static int magnitude_class(const std::string& s, int bits) {
  size_t best = 0, run = 0; for (size_t i = 0; i <= s.size(); ++i) { if (i < s.size() && isdigit((unsigned char) s[i])) ++run; else { if (run > best) best = run; run = 0; } }
  size_t lim_digits = bits == 8 ? 3 : bits == 16 ? 5 : bits == 32 ? 10 : 19;
  size_t c = best * 4 / (lim_digits + 1); return c > 3 ? 3 : (int) c;
}

static void run_case(uint64_t seed) {
  init_once();
  if (g_child_failed) return;
  long cs = hx::st().cur_case;
  std::string forced = hx::opt().gets("dom", ""); int k = rnd(0, 99); std::string dom = DOMAINS[7];
  for (int i = 0; i < 8; ++i) { if (k < DOMW[i]) { dom = DOMAINS[i]; break; } k -= DOMW[i]; }
  if (!forced.empty()) dom = forced;
  int nsteps = rnd(5, 12);
  std::unique_ptr<Script> sc(make_script(dom));
  std::string B = std::to_string(g_bits), keybase = "C11.cfg." + B + "." + dom + ".";
  tr("[" + dom + " bits=" + B + "]"); hx::count("cases." + dom);
  const Case_Log* cl = 0;
  if (g_mode == LOG) { fprintf(g_log, "C %ld %s %d\n", cs, dom.c_str(), nsteps); fflush(g_log); }
  if (g_mode == COMPARE) {
    std::map<long, Case_Log>::const_iterator it = blog().find(cs);
    if (it == blog().end()) { violation("harness.bug.cfgdiff.case_missing_in_bounded_log", "case " + std::to_string(cs)); return; }
    cl = &it->second;
    if (cl->domain != dom) { violation("harness.bug.cfgdiff.desync", "bounded log has domain " + cl->domain + ", replay chose " + dom); return; }
  }
  for (int s = 0; s < nsteps; ++s) {
    hx::rng().seed(hx::splitmix(seed ^ (0x5851f42d4c957f2dULL * (uint64_t) (s + 1))));
    Step_Context ctx;
    ctx.on_begin = [&](const std::string& op, const std::string& text) {
      tr(" | " + text); hx::count("op." + dom + "." + op);
      if (g_mode == LOG) { fprintf(g_log, "S %ld %d %s\n", cs, s, op.c_str()); fflush(g_log); }
    };
    if (g_mode == LOG && s == 1 && hx::opt().geti("selfcrash", -1) == cs) { volatile int* p = 0; *p = 1; }   // self-test of the crash path
    Items items; std::string payload; enum { XR_OK, XR_OVF, XR_HANG, XR_EXC } res = XR_OK; std::string exc_type, exc_what;
    try { pplx::Weight_Guard wg(200000000ULL); sc->step(ctx, items); payload = encode(items); }
    catch (const pplx::Logical_Timeout&) { res = XR_HANG; payload = "HANG"; }
    catch (const std::overflow_error& e) { res = XR_OVF; payload = std::string("OVERFLOW ") + clean(e.what()); }
    catch (const std::exception& e) { res = XR_EXC; exc_type = typeid(e).name(); exc_what = clean(e.what()); payload = "EXC " + exc_type + " " + exc_what; }
    std::string op = ctx.begun ? ctx.op : std::string("prelude");
    if (hx::opt().verbose) fprintf(stderr, "res: %s\n", payload.substr(0, 1000).c_str());
    hx::count("steps");
    if (g_mode == LOG) {
      if (!ctx.begun) { fprintf(g_log, "S %ld %d %s\n", cs, s, op.c_str()); }
      if (res == XR_OK && g_inject > 0 && ++g_ok_steps % g_inject == 0) {   // self-test of the comparer: corrupt one result
        for (size_t i = payload.size(); i-- > 0;) if (isdigit((unsigned char) payload[i])) { payload[i] = payload[i] == '7' ? '3' : '7'; break; }
      }
      fprintf(g_log, "R %ld %d %s\t%s\n", cs, s, op.c_str(), payload.c_str()); fflush(g_log);
      if (res == XR_OVF) { hx::count("ovf"); hx::rng().seed(hx::splitmix(seed ^ (0x2545f4914f6cdd1dULL * (uint64_t) (s + 1)))); sc->reset(); }
      if (res == XR_HANG) break;
      continue;
    }
    if (g_mode == SOLO) { if (res == XR_HANG) { hx::inconclusive("mpz_timeout"); break; } if (res == XR_OVF) { violation("harness.bug.cfgdiff.overflow_in_unbounded_build", payload); return; } continue; }
    // ----- COMPARE -----
    if ((size_t) s >= cl->steps.size() || !cl->steps[s].has_result) {
      std::string at = (size_t) s < cl->steps.size() ? cl->steps[s].op : op;
      if (cl->crashed) { hx::checked(); violation(cl->crash_key, "case " + std::to_string(cs) + " step " + std::to_string(s) + " (" + dom + "." + at + "): " + cl->crash_detail); }
      else if (cl->hung) hx::inconclusive("child_timeout");
      else violation("harness.bug.cfgdiff.bounded_log_truncated", "case " + std::to_string(cs) + " step " + std::to_string(s));
      return;
    }
    const Step_Log& bl = cl->steps[s];
    if (bl.op != op) { violation("harness.bug.cfgdiff.desync", "step " + std::to_string(s) + ": bounded ran " + bl.op + ", replay ran " + op); return; }
    hx::checked(); hx::count("dom." + dom + ".steps");
    const std::string& bp = bl.payload;
    if (res == XR_HANG) { hx::inconclusive("mpz_timeout"); return; }
    if (res == XR_OVF) { violation("harness.bug.cfgdiff.overflow_in_unbounded_build", payload); return; }
    if (bp.compare(0, 8, "OVERFLOW") == 0) { hx::count("ovf"); hx::count("dom." + dom + ".ovf"); hx::rng().seed(hx::splitmix(seed ^ (0x2545f4914f6cdd1dULL * (uint64_t) (s + 1)))); sc->reset(); continue; }
    if (bp == "HANG") { violation(keybase + op + ":hang", "bounded build exceeded the logical-time budget; unbounded build: " + payload.substr(0, 300)); return; }
    if (bp.compare(0, 4, "EXC ") == 0) {
      std::string bt = bp.substr(4, bp.find(' ', 4) == std::string::npos ? std::string::npos : bp.find(' ', 4) - 4);
      if (res == XR_EXC && bt == exc_type) { hx::count("exc_same"); continue; }
      violation(keybase + op + ":exception_other_than_overflow", "bounded build threw `" + bp.substr(4) + "`; unbounded build " + (res == XR_EXC ? "threw " + exc_type + " " + exc_what : "returned " + payload.substr(0, 400)));
      return;
    }
    if (res == XR_EXC) { violation(keybase + op + ":different_answer", "unbounded build threw " + exc_type + " (" + exc_what + ") but the bounded build returned " + bp.substr(0, 400)); return; }
    Items bi; if (!decode(bp, bi)) { violation("harness.bug.cfgdiff.undecodable_payload", bp.substr(0, 200)); return; }
    { Items mi; if (!decode(payload, mi)) { violation("harness.bug.cfgdiff.undecodable_payload", payload.substr(0, 200)); return; } items.swap(mi); }
    if (bi.size() != items.size()) { violation(keybase + op + ":different_answer", "different number of results: bounded " + bp.substr(0, 400) + " unbounded " + payload.substr(0, 400)); return; }
    bool any_sem = false;
    for (size_t i = 0; i < items.size(); ++i) {
      std::string why; bool sem = false; int r = compare_item(*sc, i, items[i], bi[i], why, sem); any_sem = any_sem || sem;
      if (r == 1) continue;
      if (r == -1) { hx::inconclusive("semantic_compare_cap"); continue; }
      if (r == -2) { violation("harness.bug.cfgdiff.compare", why); return; }
      violation(keybase + op + ":different_answer", "result #" + std::to_string(i) + ": " + why); return;
    }
    hx::count(any_sem ? "cmp_semantic" : "cmp_text_equal");
    int mc = magnitude_class(bp, g_bits); hx::count("magnitude_class." + std::to_string(mc));
    if (mc >= 1) hx::distinct(B + "|" + dom + "|" + op + "|m" + std::to_string(mc) + (any_sem ? "|sem" : ""));
  }
  sc.reset();
  if (g_mode == LOG) { fprintf(g_log, "E %ld\n", cs); fflush(g_log); }
}

int main(int argc, char** argv) {
  return hx::main_loop(argc, argv, run_case, []() { hx::count("lp_solves", ref::lp_counters().solves); if (g_log && g_log != stdout) fclose(g_log); });
}
