// faultinj: scenarios and rejected calls on Pointset_Powerset<C_Polyhedron>.
#include "faultinj.hh"
using namespace fi;
using pplx::str;

namespace {
typedef Pointset_Powerset<C_Polyhedron> PS;
int rdim() { return rnd(1, hx::opt().thorough ? 3 : 2); }
C_Polyhedron rdisj(int n) { C_Polyhedron p(n); p.add_constraints(rcs_through(n, rpoint(n), false, rnd(1, 3))); for (int i = 0; i < n; ++i) if (coin(60)) { int lo = rnd(-3, 2); p.add_constraint(Variable(i) >= lo); p.add_constraint(Variable(i) <= lo + rnd(0, 4)); } if (coin(30)) (void) p.minimized_generators(); return p; }
PS rps(int n, int m = -1) {
  if (m < 0) m = rnd(0, 4);
  PS ps(n, EMPTY);
  for (int i = 0; i < m; ++i) ps.add_disjunct(rdisj(n));
  if (coin(30)) ps.omega_reduce();
  return ps;
}
PS fresh(int n) { PS ps(n, EMPTY); C_Polyhedron p(n); if (n > 0) { p.add_constraint(Variable(0) >= 0); p.add_constraint(Variable(0) <= 2); } ps.add_disjunct(p); return ps; }
void use(PS& ps) {
  int n = (int) ps.space_dimension();
  (void) ps.is_empty();
  if (n > 0) ps.add_constraint(Variable(0) <= 5);
  C_Polyhedron p(n); if (n > 0) p.add_constraint(Variable(n - 1) >= 1);
  ps.add_disjunct(p);
  ps.omega_reduce();
  (void) ps.size();
  PS t(ps); t.pairwise_reduce(); (void) t.geometrically_covers(ps);
}
std::string val(const PS& ps) { PS q(ps); q.omega_reduce(); std::ostringstream o; o << q.space_dimension() << ":" << q.size() << ":"; for (PS::const_iterator i = q.begin(); i != q.end(); ++i) { C_Polyhedron d(i->pointset()); o << str(d.minimized_constraints()) << " | "; } return o.str(); }
#define EQ [](const PS& a, const PS& b) { return a.space_dimension() == b.space_dimension() && a.geometrically_equals(b); }
#define POSTS(name, obj) c.post(name, obj, fresh((int) (obj).space_dimension()), use, EQ)

SCENARIO("Pointset_Powerset<C_Polyhedron>.add_disjunct") { int n = rdim(); PS ps = rps(n); C_Polyhedron d = rdisj(n);
  c.run([&] { ps.add_disjunct(d); ps.omega_reduce(); }); c.result([&] { return val(ps); }); POSTS("ps", ps); }
SCENARIO("Pointset_Powerset<C_Polyhedron>.pairwise_reduce") { int n = rdim(); PS ps = rps(n, rnd(2, 5));
  c.run([&] { ps.pairwise_reduce(); }); c.result([&] { return val(ps); }); POSTS("ps", ps); }
SCENARIO("Pointset_Powerset<C_Polyhedron>.omega_reduce") { int n = rdim(); PS ps = rps(n, rnd(2, 5));
  c.run([&] { ps.omega_reduce(); (void) ps.size(); }); c.result([&] { return val(ps); }); POSTS("ps", ps); }
SCENARIO("Pointset_Powerset<C_Polyhedron>.add_constraints") { int n = rdim(); PS ps = rps(n); Constraint_System cs = rcs_through(n, rpoint(n), false, rnd(1, 3));
  c.run([&] { ps.add_constraints(cs); (void) ps.is_empty(); }); c.result([&] { return val(ps); }); POSTS("ps", ps); }
SCENARIO("Pointset_Powerset<C_Polyhedron>.refine_with") { int n = rdim(); PS ps = rps(n); Constraint k = pplx::rand_con(n, true); Congruence cg = pplx::rand_cg(n);
  c.run([&] { ps.refine_with_constraint(k); ps.refine_with_congruence(cg); }); c.result([&] { return val(ps); }); POSTS("ps", ps); }

enum Bin { MEET, JOIN, JOIN_EXACT, DIFF, TELAPSE, CONCAT, SIMPLIFY, QUERIES, LEAST_UB, MEET_POWERSET };
template <int OP> void s_binary(Ctx& c) {
  int n = rdim(); PS a = rps(n), b = rps(OP == CONCAT ? rnd(0, 2) : n);
  bool b1 = false, b2 = false, b3 = false;
  c.run([&] {
    switch (OP) {
    case MEET: a.intersection_assign(b); break;
    case JOIN: a.upper_bound_assign(b); break;
    case JOIN_EXACT: b1 = a.upper_bound_assign_if_exact(b); break;
    case DIFF: a.difference_assign(b); break;
    case TELAPSE: a.time_elapse_assign(b); break;
    case CONCAT: a.concatenate_assign(b); break;
    case SIMPLIFY: b1 = a.simplify_using_context_assign(b); break;
    case QUERIES: b1 = a.contains(b); b2 = a.is_disjoint_from(b); b3 = a.geometrically_covers(b); b1 = b1 ^ a.strictly_contains(b) ^ a.geometrically_equals(b) ^ a.definitely_entails(b); break;
    case LEAST_UB: a.least_upper_bound_assign(b); break;
    case MEET_POWERSET: a.meet_assign(b); break;
    }
    a.omega_reduce();
  });
  c.result([&] { return val(a) + (b1 ? "T" : "F") + (b2 ? "T" : "F") + (b3 ? "T" : "F"); });
  POSTS("a", a); POSTS("b", b);
}
static RegS b1("Pointset_Powerset<C_Polyhedron>.intersection_assign", s_binary<MEET>), b2("Pointset_Powerset<C_Polyhedron>.upper_bound_assign", s_binary<JOIN>),
  b3("Pointset_Powerset<C_Polyhedron>.upper_bound_assign_if_exact", s_binary<JOIN_EXACT>), b4("Pointset_Powerset<C_Polyhedron>.difference_assign", s_binary<DIFF>),
  b5("Pointset_Powerset<C_Polyhedron>.time_elapse_assign", s_binary<TELAPSE>), b6("Pointset_Powerset<C_Polyhedron>.concatenate_assign", s_binary<CONCAT>),
  b7("Pointset_Powerset<C_Polyhedron>.simplify_using_context_assign", s_binary<SIMPLIFY>), b8("Pointset_Powerset<C_Polyhedron>.contains_disjoint_covers", s_binary<QUERIES>),
  b9("Pointset_Powerset<C_Polyhedron>.least_upper_bound_assign", s_binary<LEAST_UB>), b10("Pointset_Powerset<C_Polyhedron>.meet_assign", s_binary<MEET_POWERSET>);

enum Aff { IMG, PRE, GIMG, GIMG2, GPRE, BIMG, BPRE };
template <int OP> void s_affine(Ctx& c) {
  int n = rdim(); PS ps = rps(n); Variable v(rnd(0, n - 1));
  Linear_Expression e = rexpr(n), f = rexpr(n);
  Coefficient d = rcoef(3); if (d == 0) d = -2;
  Relation_Symbol rel = pplx::REL5[rnd(1, 3)];
  c.run([&] {
    switch (OP) {
    case IMG: ps.affine_image(v, e, d); break;
    case PRE: ps.affine_preimage(v, e, d); break;
    case GIMG: ps.generalized_affine_image(v, rel, e, d); break;
    case GIMG2: ps.generalized_affine_image(e, rel, f); break;
    case GPRE: ps.generalized_affine_preimage(v, rel, e, d); break;
    case BIMG: ps.bounded_affine_image(v, e, f, d); break;
    case BPRE: ps.bounded_affine_preimage(v, e, f, d); break;
    }
    ps.omega_reduce();
  });
  c.result([&] { return val(ps); });
  POSTS("ps", ps);
}
static RegS a1("Pointset_Powerset<C_Polyhedron>.affine_image", s_affine<IMG>), a2("Pointset_Powerset<C_Polyhedron>.affine_preimage", s_affine<PRE>),
  a3("Pointset_Powerset<C_Polyhedron>.generalized_affine_image", s_affine<GIMG>), a4("Pointset_Powerset<C_Polyhedron>.generalized_affine_image_lhs_rhs", s_affine<GIMG2>),
  a5("Pointset_Powerset<C_Polyhedron>.generalized_affine_preimage", s_affine<GPRE>), a6("Pointset_Powerset<C_Polyhedron>.bounded_affine_image", s_affine<BIMG>),
  a7("Pointset_Powerset<C_Polyhedron>.bounded_affine_preimage", s_affine<BPRE>);

enum Wid { BHZ03, BGP99, PAIRWISE_WID };
template <int OP> void s_widen(Ctx& c) {
  int n = rdim(); PS small = rps(n, rnd(1, 3)); PS large(small);
  for (int i = rnd(1, 2); i > 0; --i) large.add_disjunct(rdisj(n));
  if (coin()) large.omega_reduce();
  c.run([&] {
    switch (OP) {
    case BHZ03: large.BHZ03_widening_assign<BHRZ03_Certificate>(small, widen_fun_ref(&Polyhedron::H79_widening_assign)); break;
    case BGP99: large.BGP99_extrapolation_assign(small, widen_fun_ref(&Polyhedron::H79_widening_assign), 3); break;
    default: break;
    }
    large.omega_reduce();
  });
  c.result([&] { return val(large); });
  POSTS("large", large); POSTS("small", small);
}
static RegS w1("Pointset_Powerset<C_Polyhedron>.BHZ03_widening_assign", s_widen<BHZ03>), w2("Pointset_Powerset<C_Polyhedron>.BGP99_extrapolation_assign", s_widen<BGP99>);

enum Dim { EMBED, PROJECT, REMOVE, REMOVE_HIGHER, EXPAND, FOLD, UNCONSTRAIN, WRAP, DROP_NONINT, TOPCLOSURE };
template <int OP> void s_dims(Ctx& c) {
  int n = rdim(); PS ps = rps(n);
  Variables_Set vs; for (int i = 0; i < n; ++i) if (coin(40)) vs.insert(Variable(i));
  int m = rnd(1, 2); Variable v(rnd(0, n - 1));
  Variables_Set fold_vs; for (int i = 0; i < n; ++i) if (i != (int) v.id() && coin()) fold_vs.insert(Variable(i));
  c.run([&] {
    switch (OP) {
    case EMBED: ps.add_space_dimensions_and_embed(m); break;
    case PROJECT: ps.add_space_dimensions_and_project(m); break;
    case REMOVE: ps.remove_space_dimensions(vs); break;
    case REMOVE_HIGHER: ps.remove_higher_space_dimensions(rnd(0, n)); break;
    case EXPAND: ps.expand_space_dimension(v, m); break;
    case FOLD: ps.fold_space_dimensions(fold_vs, v); break;
    case UNCONSTRAIN: if (coin()) ps.unconstrain(v); else ps.unconstrain(vs); break;
    case WRAP: ps.wrap_assign(vs, BITS_8, UNSIGNED, OVERFLOW_WRAPS, 0, 4, coin()); break;
    case DROP_NONINT: if (coin()) ps.drop_some_non_integer_points(); else ps.drop_some_non_integer_points(vs); break;
    case TOPCLOSURE: ps.topological_closure_assign(); break;
    }
    ps.omega_reduce();
  });
  c.result([&] { return val(ps); });
  POSTS("ps", ps);
}
static RegS d1("Pointset_Powerset<C_Polyhedron>.add_space_dimensions_and_embed", s_dims<EMBED>), d2("Pointset_Powerset<C_Polyhedron>.add_space_dimensions_and_project", s_dims<PROJECT>),
  d3("Pointset_Powerset<C_Polyhedron>.remove_space_dimensions", s_dims<REMOVE>), d4("Pointset_Powerset<C_Polyhedron>.remove_higher_space_dimensions", s_dims<REMOVE_HIGHER>),
  d5("Pointset_Powerset<C_Polyhedron>.expand_space_dimension", s_dims<EXPAND>), d6("Pointset_Powerset<C_Polyhedron>.fold_space_dimensions", s_dims<FOLD>),
  d7("Pointset_Powerset<C_Polyhedron>.unconstrain", s_dims<UNCONSTRAIN>), d8("Pointset_Powerset<C_Polyhedron>.wrap_assign", s_dims<WRAP>),
  d9("Pointset_Powerset<C_Polyhedron>.drop_some_non_integer_points", s_dims<DROP_NONINT>), d10("Pointset_Powerset<C_Polyhedron>.topological_closure_assign", s_dims<TOPCLOSURE>);

enum Cpy { COPY, ASSIGN, SWAP, FROM_POLY, FROM_NNC_PS, PARTITION, CONTAINMENT, DROP_DISJUNCT };
template <int OP> void s_copy(Ctx& c) {
  int n = rdim(); PS a = rps(n, rnd(1, 4)), b = rps(rnd(0, 2));
  C_Polyhedron p = rdisj(n), q = rdisj(n);
  Pointset_Powerset<NNC_Polyhedron> nps(n, EMPTY); { NNC_Polyhedron t(n); t.add_constraint(Variable(0) > 0); nps.add_disjunct(t); nps.add_disjunct(NNC_Polyhedron(q)); }
  bool r1 = false;
  c.run([&] {
    switch (OP) {
    case COPY: { PS t(a); t.omega_reduce(); break; }
    case ASSIGN: b = a; break;
    case SWAP: { PS t(a); t.m_swap(b); swap(t, b); break; }
    case FROM_POLY: { PS t(p); PS u(p.constraints()); t.upper_bound_assign(u); b.m_swap(t); break; }
    case FROM_NNC_PS: { PS t(nps); b.m_swap(t); break; }
    case PARTITION: { std::pair<C_Polyhedron, Pointset_Powerset<NNC_Polyhedron> > pr = linear_partition(p, q); r1 = pr.first.is_empty(); break; }
    case CONTAINMENT: r1 = check_containment(p, a); break;
    case DROP_DISJUNCT: { PS t(a); if (t.begin() != t.end()) t.drop_disjunct(t.begin()); b.m_swap(t); break; }
    }
  });
  c.result([&] { return val(a) + val(b) + (r1 ? "T" : "F"); });
  POSTS("a", a); POSTS("b", b);
}
static RegS c1("Pointset_Powerset<C_Polyhedron>.copy_construct", s_copy<COPY>), c2("Pointset_Powerset<C_Polyhedron>.assign", s_copy<ASSIGN>), c3("Pointset_Powerset<C_Polyhedron>.swap", s_copy<SWAP>),
  c4("Pointset_Powerset<C_Polyhedron>.from_polyhedron", s_copy<FROM_POLY>), c5("Pointset_Powerset<C_Polyhedron>.from_NNC_powerset", s_copy<FROM_NNC_PS>),
  c6("Pointset_Powerset<C_Polyhedron>.linear_partition", s_copy<PARTITION>), c7("Pointset_Powerset<C_Polyhedron>.check_containment", s_copy<CONTAINMENT>),
  c8("Pointset_Powerset<C_Polyhedron>.drop_disjunct", s_copy<DROP_DISJUNCT>);

enum Io { DUMP, LOAD, PRINT };
template <int OP> void s_io(Ctx& c) {
  int n = rdim(); PS a = rps(n), b(rnd(0, 2));
  std::string text = dump(a), out; bool ok = true;
  c.run([&] {
    switch (OP) {
    case DUMP: { std::ostringstream o; a.ascii_dump(o); out = o.str(); break; }
    case LOAD: { std::istringstream i(text); ok = b.ascii_load(i); break; }
    case PRINT: { std::ostringstream o; using namespace IO_Operators; o << a; out = o.str(); break; }
    }
  });
  c.result([&] { return val(a) + (OP == LOAD ? val(b) : std::string()) + (ok ? "T" : "F") + (OP == PRINT ? std::string() : out); });
  if (OP == LOAD && !c.threw && c.mode <= COUNT && (!ok || !b.geometrically_equals(a))) c.fail("ascii_load_failed", "ascii_load of an ascii_dump failed without any injected failure");
  POSTS("a", a); POSTS("b", b);
}
static RegS i1("Pointset_Powerset<C_Polyhedron>.ascii_dump", s_io<DUMP>), i2("Pointset_Powerset<C_Polyhedron>.ascii_load", s_io<LOAD>), i3("Pointset_Powerset<C_Polyhedron>.print", s_io<PRINT>);

SCENARIO("Pointset_Powerset<C_Polyhedron>.maximize_relation") { int n = rdim(); PS ps = rps(n); Linear_Expression e = rexpr(n); Constraint k = pplx::rand_con(n, true); Generator g = pplx::rand_gen(n, false, false); std::ostringstream r;
  c.run([&] { Coefficient a, b; bool mx; Generator w = point(); r << ps.maximize(e, a, b, mx, w) << ps.minimize(e, a, b, mx) << ps.bounds_from_above(e) << ps.relation_with(k).implies(Poly_Con_Relation::is_included()) << ps.relation_with(g).implies(Poly_Gen_Relation::subsumes()) << ps.is_bounded() << ps.is_universe() << ps.contains_integer_point() << ps.affine_dimension(); });
  c.result([&] { return val(ps) + r.str(); }); POSTS("ps", ps); }

// ---------------------------------------------------------------- rejected calls (Pointset_Powerset_defs.hh)
#define REJP2(op, cls, expected, prep, stmt) REJECT("Pointset_Powerset<C_Polyhedron>", op, cls) { Variable x(0), y(1), z(2); (void) x; (void) y; (void) z; \
    PS ps = rps(2, rnd(1, 3)), qs = rps(3, rnd(1, 3)); prep; PS ps0(ps), qs0(qs); r.call(expected, [&] { stmt; }); \
    r.unchanged("receiver", ps, ps0, EQ, [](const PS& a) { return val(a); }); r.unchanged("argument", qs, qs0, EQ, [](const PS& a) { return val(a); }); }
#define REJP(op, cls, expected, stmt) REJP2(op, cls, expected, (void) 0, stmt)
REJP("add_disjunct", "dim_mismatch", "invalid_argument", C_Polyhedron p(3); ps.add_disjunct(p))
REJP("add_constraint", "dim_too_large", "invalid_argument", ps.add_constraint(z >= 0))
REJP2("add_constraint", "strict_on_closed", "invalid_argument", ps.add_disjunct(C_Polyhedron(2)), ps.add_constraint(x > 0))
REJP("add_constraints", "dim_too_large", "invalid_argument", Constraint_System cs; cs.insert(z >= 0); ps.add_constraints(cs))
REJP("refine_with_constraint", "dim_too_large", "invalid_argument", ps.refine_with_constraint(z >= 0))
REJP("add_congruence", "dim_too_large", "invalid_argument", ps.add_congruence((z %= 0) / 0))
REJP("intersection_assign", "dim_mismatch", "invalid_argument", ps.intersection_assign(qs))
REJP("upper_bound_assign", "dim_mismatch", "invalid_argument", ps.upper_bound_assign(qs))
REJP("difference_assign", "dim_mismatch", "invalid_argument", ps.difference_assign(qs))
REJP("simplify_using_context_assign", "dim_mismatch", "invalid_argument", (void) ps.simplify_using_context_assign(qs))
REJP("contains", "dim_mismatch", "invalid_argument", (void) ps.contains(qs))
REJP("is_disjoint_from", "dim_mismatch", "invalid_argument", (void) ps.is_disjoint_from(qs))
REJP("geometrically_covers", "dim_mismatch", "invalid_argument", (void) ps.geometrically_covers(qs))
REJP2("affine_image", "zero_denominator", "invalid_argument", ps.add_disjunct(C_Polyhedron(2)), ps.affine_image(x, y + 1, 0))
REJP2("affine_image", "var_dim_too_large", "invalid_argument", ps.add_disjunct(C_Polyhedron(2)), ps.affine_image(z, y + 1, 1))
REJP2("affine_preimage", "expr_dim_too_large", "invalid_argument", ps.add_disjunct(C_Polyhedron(2)), ps.affine_preimage(x, z + 1, 1))
REJP2("generalized_affine_image", "zero_denominator", "invalid_argument", ps.add_disjunct(C_Polyhedron(2)), ps.generalized_affine_image(x, EQUAL, y + 1, 0))
REJP2("bounded_affine_image", "zero_denominator", "invalid_argument", ps.add_disjunct(C_Polyhedron(2)), ps.bounded_affine_image(x, y, y + 1, 0))
REJP("unconstrain", "dim_too_large", "invalid_argument", ps.unconstrain(z))
REJP("remove_space_dimensions", "dim_too_large", "invalid_argument", Variables_Set vs; vs.insert(z); ps.remove_space_dimensions(vs))
REJP("remove_higher_space_dimensions", "dim_too_large", "invalid_argument", ps.remove_higher_space_dimensions(5))
REJP("expand_space_dimension", "dim_too_large", "invalid_argument", ps.expand_space_dimension(z, 1))
REJP("fold_space_dimensions", "dest_dim_too_large", "invalid_argument", Variables_Set vs; vs.insert(x); ps.fold_space_dimensions(vs, z))
REJP("add_space_dimensions_and_embed", "space_dimension_overflow", "length_error", ps.add_space_dimensions_and_embed(PS::max_space_dimension()))
REJP("add_space_dimensions_and_project", "space_dimension_overflow", "length_error", ps.add_space_dimensions_and_project(PS::max_space_dimension()))
REJP("concatenate_assign", "space_dimension_overflow", "length_error", PS big(PS::max_space_dimension(), EMPTY); ps.concatenate_assign(big))
REJP("relation_with_constraint", "dim_too_large", "invalid_argument", (void) ps.relation_with(z >= 0))
REJP("maximize", "dim_too_large", "invalid_argument", Coefficient a; Coefficient b; bool m; (void) ps.maximize(z, a, b, m))
REJP("BHZ03_widening_assign", "dim_mismatch", "invalid_argument", ps.BHZ03_widening_assign<BHRZ03_Certificate>(qs, widen_fun_ref(&Polyhedron::H79_widening_assign)))
// the same on a powerset without disjuncts (bottom): the documentation makes no exception for it
REJECT("Pointset_Powerset<C_Polyhedron>", "add_constraint", "dim_too_large_no_disjuncts") { PS ps(2, EMPTY); PS ps0(ps); r.call("invalid_argument", [&] { ps.add_constraint(Variable(2) >= 0); }); r.unchanged("receiver", ps, ps0, EQ, [](const PS& a) { return val(a); }); }
REJECT("Pointset_Powerset<C_Polyhedron>", "intersection_assign", "dim_mismatch_no_disjuncts") { PS ps(2, EMPTY), qs(3, EMPTY); r.call("invalid_argument", [&] { ps.intersection_assign(qs); }); }
REJECT("Pointset_Powerset<C_Polyhedron>", "affine_image", "zero_denominator_no_disjuncts") { PS ps(2, EMPTY); r.call("invalid_argument", [&] { ps.affine_image(Variable(0), Variable(1), 0); }); }
REJECT("Pointset_Powerset<C_Polyhedron>", "construct", "space_dimension_overflow") { r.call("length_error", [&] { PS ps(PS::max_space_dimension() + 1, EMPTY); }); }
} // namespace
