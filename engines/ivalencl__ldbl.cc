// ivalencl, policy ldbl_oc: Interval<long double, Floating_Point_Box_Interval_Info>
#include "ivalencl_impl.hh"
#include "interfaces/interfaced_boxes.hh"
namespace ivx { void case_ldbl() { run_policy<Interval<long double, Floating_Point_Box_Interval_Info> >("ldbl_oc", K_FLOAT); } }
