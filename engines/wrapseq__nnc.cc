// wrapseq: instantiation of the domain adapter for NNC_Polyhedron (see wrapseq.hh).
#include "wrapseq.hh"
WRAPSEQ_REGISTER(nnc, Parma_Polyhedra_Library::NNC_Polyhedron)
