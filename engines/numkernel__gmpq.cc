// numkernel part: mpq_class (profile gmp)
#include "numkernel_units.hh"
namespace nk {
void gmp_case_q() {
  switch (hx::rnd(0, 3)) {
  case 0: full_case<Q>(); break;
  case 1: case 2: full_case<Checked_Number<Q, PX> >(); break;
  default: full_case<Checked_Number<Q, PW> >(); break;
  }
}
}
