// numkernel part: mpz_class (profile gmp)
#include "numkernel_units.hh"
namespace nk {
void gmp_case_z() {
  switch (hx::rnd(0, 3)) {
  case 0: full_case<Z>(); break;
  case 1: case 2: full_case<Checked_Number<Z, PX> >(); break;
  default: full_case<Checked_Number<Z, PW> >(); break;
  }
}
}
