// wrapseq: instantiation of the domain adapter for Octagonal_Shape<mpz_class> (see wrapseq.hh).
#include "wrapseq.hh"
WRAPSEQ_REGISTER(oct_mpz, Parma_Polyhedra_Library::Octagonal_Shape<mpz_class>)
