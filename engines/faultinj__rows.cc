// faultinj: scenarios and rejected calls on the row / expression / system layer:
// Linear_Expression (SPARSE and DENSE), Sparse_Row, Dense_Row, CO_Tree, Matrix<Row>, Bit_Matrix,
// Constraint_System / Generator_System / Congruence_System / Grid_Generator_System in both representations,
// and the Threshold_Watcher (the client side of deterministic timeouts).
#include "faultinj.hh"
using namespace fi;
using pplx::str;

namespace {
// ------------------------------------------------------------------ Linear_Expression
Linear_Expression rle(Representation r, int n) {
  Linear_Expression e(r);
  e.set_space_dimension(n);
  for (int i = 0; i < n; ++i) if (coin(45)) e += rcoef() * Variable(i);
  e += rcoef(5);
  return e;
}
Linear_Expression fresh_le(const Linear_Expression& like) { Linear_Expression e(like.representation()); e += 3 * Variable(0); e -= Variable(2); e += 7; return e; }
void use_le(Linear_Expression& e) {
  e += Variable(1); e *= Coefficient(3); e -= 2 * Variable(0);
  Linear_Expression f(e, e.representation() == DENSE ? SPARSE : DENSE); f += e;
  (void) e.is_zero(); (void) e.all_homogeneous_terms_are_zero();
  for (Linear_Expression::const_iterator i = e.begin(); i != e.end(); ++i) (void) *i;
}
#define LEEQ [](const Linear_Expression& a, const Linear_Expression& b) { return a.is_equal_to(b); }
#define POSTLE(name, obj) c.post(name, obj, fresh_le(obj), use_le, LEEQ)
enum LeOp { LE_ARITH, LE_COMBINE, LE_COPY_CONVERT, LE_DIMS, LE_PERMUTE, LE_VAR_MINUS, LE_SET_REPR, LE_IO, LE_MULADD };
template <int OP, Representation R> void s_le(Ctx& c) {
  const Representation O = R == DENSE ? SPARSE : DENSE;
  int n = rnd(2, 40);
  Linear_Expression e = rle(R, n), f = rle(coin(70) ? R : O, rnd(2, 40));
  Coefficient k1 = rcoef(), k2 = rcoef(); if (k1 == 0) k1 = 2; if (k2 == 0) k2 = -3;
  std::string text = dump(e); bool ok = true;
  Linear_Expression out(R);
  c.run([&] {
    switch (OP) {
    case LE_ARITH: e += f; e -= Variable(rnd(0, n - 1)); e *= k1; e += k2; e -= f; neg_assign(e); out = e + f; out = out - k1 * f; break;
    case LE_COMBINE: { Linear_Expression g(f, R); g.set_space_dimension(e.space_dimension()); e.linear_combine(g, k1, k2); e.linear_combine_lax(g, Coefficient(0), k1); break; }   // linear_combine(y, Variable) is declared but never defined
    case LE_COPY_CONVERT: { Linear_Expression a(e, O); Linear_Expression b(a, R); Linear_Expression d(e); out = b; out.m_swap(d); break; }
    case LE_DIMS: { e.set_space_dimension(n + rnd(1, 20)); Variables_Set vs; for (int i = 0; i < n; ++i) if (coin(30)) vs.insert(Variable(i)); e.remove_space_dimensions(vs); e.shift_space_dimensions(Variable(rnd(0, (int) e.space_dimension() > 0 ? (int) e.space_dimension() - 1 : 0)), rnd(1, 5)); break; }
    case LE_PERMUTE: { std::vector<Variable> cyc; std::vector<int> ids; for (int i = 0; i < n; ++i) ids.push_back(i); std::shuffle(ids.begin(), ids.end(), hx::rng()); for (int i = 0; i < std::min(n, rnd(2, 5)); ++i) cyc.push_back(Variable(ids[i])); e.permute_space_dimensions(cyc); e.swap_space_dimensions(Variable(0), Variable(n - 1)); break; }
    case LE_VAR_MINUS: out = Variable(rnd(0, n + 3)) - e; out = out + (Variable(1) - f); out = Variable(n + 5) + out; break;
    case LE_SET_REPR: e.set_representation(O); e += f; e.set_representation(R); break;
    case LE_IO: { std::istringstream i(text); ok = out.ascii_load(i); std::ostringstream o; e.ascii_dump(o); using namespace IO_Operators; o << e; break; }
    case LE_MULADD: add_mul_assign(e, k1, f); sub_mul_assign(e, k2, Variable(rnd(0, n + 2))); add_mul_assign(e, k2, Variable(0)); sub_mul_assign(e, k1, f); break;
    }
  });
  c.result([&] { return str(e) + "|" + str(f) + "|" + str(out) + (ok ? "T" : "F"); });
  if (OP == LE_IO && !c.threw && c.mode <= COUNT && (!ok || !out.is_equal_to(e))) c.fail("ascii_load_failed", "ascii_load of an ascii_dump failed without any injected failure");
  POSTLE("e", e); POSTLE("f", f); POSTLE("out", out);
}
#define REG_LE(op, K) static RegS FI_CAT(les_, __COUNTER__)("Linear_Expression<SPARSE>." op, s_le<K, SPARSE>); static RegS FI_CAT(led_, __COUNTER__)("Linear_Expression<DENSE>." op, s_le<K, DENSE>)
REG_LE("arithmetic", LE_ARITH); REG_LE("linear_combine", LE_COMBINE); REG_LE("copy_convert", LE_COPY_CONVERT); REG_LE("dimension_ops", LE_DIMS); REG_LE("permute_swap", LE_PERMUTE);
REG_LE("variable_minus_expression", LE_VAR_MINUS); REG_LE("set_representation", LE_SET_REPR); REG_LE("ascii_dump_load", LE_IO); REG_LE("add_mul_assign", LE_MULADD);

// ------------------------------------------------------------------ Sparse_Row / Dense_Row
// Dense_Row has no delete_element_and_shift (and therefore Matrix<Dense_Row>::remove_column does not compile)
inline void del_shift(Sparse_Row& r, dimension_type i) { r.delete_element_and_shift(i); }
inline void del_shift(Dense_Row& r, dimension_type i) { for (dimension_type j = i; j + 1 < r.size(); ++j) r.swap_coefficients(j, j + 1); r.shrink(r.size() - 1); }
inline void rm_column(Matrix<Sparse_Row>& m, dimension_type i) { m.remove_column(i); }
inline void rm_column(Matrix<Dense_Row>& m, dimension_type i) { m.swap_columns(i, m.num_columns() - 1); m.remove_trailing_columns(1); }
template <typename Row> Row rrow(int n, int pct) { Row r(n); for (int i = 0; i < n; ++i) if (coin(pct)) r.insert(i, rcoef()); return r; }
template <typename Row> Row fresh_row() { Row r(5); r.insert(1, Coefficient(3)); r.insert(4, Coefficient(-2)); return r; }
template <typename Row> void use_row(Row& r) {
  if (r.size() < 6) r.resize(6);
  r.insert(2, Coefficient(5)); r.insert(0);
  Row s(r); s.linear_combine(r, Coefficient(2), Coefficient(3));
  r.swap_coefficients(0, r.size() - 1); r.normalize();
  for (typename Row::const_iterator i = r.begin(); i != r.end(); ++i) (void) *i;
  r.add_zeroes_and_shift(2, 1); del_shift(r, 0);
}
template <typename Row> bool row_eq(const Row& a, const Row& b) { return a == b; }
#define POSTROW(name, obj) c.post(name, obj, fresh_row<Row>(), use_row<Row>, row_eq<Row>)
enum RowOp { R_INSERT, R_COPY, R_COMBINE, R_COMBINE_RANGE, R_CONVERT, R_SHIFT, R_RESIZE, R_IO, R_RESET };
template <int OP, typename Row, typename Other> void s_row(Ctx& c) {
  int n = rnd(3, 60); Row r = rrow<Row>(n, rnd(10, 80)), s = rrow<Row>(n, rnd(10, 80)); Other o = rrow<Other>(n, 40);
  Coefficient k1 = rcoef(), k2 = rcoef(); if (k1 == 0) k1 = 2; if (k2 == 0) k2 = -3;
  std::string text = dump(r); bool ok = true; Row out;
  c.run([&] {
    switch (OP) {
    case R_INSERT: { Row t(n); for (int i = 0; i < n; ++i) if (coin(60)) t.insert((i * 7) % n, rcoef()); typename Row::iterator it = t.end(); for (int i = 0; i < n; i += 3) it = t.insert(it, i, k1); out.m_swap(t); break; }
    case R_COPY: { Row t(r); Row u(r, n + 5); Row v(r, n, n + 9); out = t; out.m_swap(v); break; }
    case R_COMBINE: r.linear_combine(s, k1, k2); break;
    case R_COMBINE_RANGE: { int a = rnd(0, n - 1), b = rnd(a, n); r.linear_combine(s, k1, k2, a, b); break; }
    case R_CONVERT: { Row t(o); Other back(t); Row u(o, n, n + 4); out.m_swap(u); break; }
    case R_SHIFT: r.add_zeroes_and_shift(rnd(1, 9), rnd(0, n)); del_shift(r, rnd(0, n - 1)); r.swap_coefficients(0, n - 1); break;
    case R_RESIZE: r.resize(n + rnd(1, 40)); r.resize(rnd(1, n)); r.clear(); r.resize(rnd(0, 9)); break;
    case R_IO: { std::istringstream i(text); ok = out.ascii_load(i); std::ostringstream os; r.ascii_dump(os); break; }
    case R_RESET: { typename Row::iterator i = r.begin(); if (i != r.end()) i = r.reset(i); r.normalize(); Coefficient g = 0; for (typename Row::const_iterator j = r.begin(); j != r.end(); ++j) g += *j; r.insert(0, g); break; }
    }
  });
  c.result([&] { std::ostringstream q; r.ascii_dump(q); out.ascii_dump(q); return q.str() + (ok ? "T" : "F"); });
  if (OP == R_IO && !c.threw && c.mode <= COUNT && (!ok || !(out == r))) c.fail("ascii_load_failed", "ascii_load of an ascii_dump failed without any injected failure");
  POSTROW("r", r); POSTROW("s", s); POSTROW("out", out);
}
#define REG_ROW(op, K) static RegS FI_CAT(rs_, __COUNTER__)("Sparse_Row." op, s_row<K, Sparse_Row, Dense_Row>); static RegS FI_CAT(rd_, __COUNTER__)("Dense_Row." op, s_row<K, Dense_Row, Sparse_Row>)
REG_ROW("insert", R_INSERT); REG_ROW("copy", R_COPY); REG_ROW("linear_combine", R_COMBINE); REG_ROW("linear_combine_range", R_COMBINE_RANGE); REG_ROW("convert", R_CONVERT);
REG_ROW("shift_ops", R_SHIFT); REG_ROW("resize_clear", R_RESIZE); REG_ROW("ascii_dump_load", R_IO); REG_ROW("reset_normalize", R_RESET);

// ------------------------------------------------------------------ CO_Tree (its OK() is private: check the map contract instead)
struct Tree {
  CO_Tree t;
  bool OK() const { dimension_type n = 0; bool first = true; dimension_type prev = 0; for (CO_Tree::const_iterator i = t.begin(); i != t.end(); ++i, ++n) { if (!first && i.index() <= prev) return false; prev = i.index(); first = false; } return n == t.size() && (t.empty() == (n == 0)); }
  void ascii_dump(std::ostream& s) const { for (CO_Tree::const_iterator i = t.begin(); i != t.end(); ++i) s << i.index() << ":" << *i << " "; }
};
Tree rtree(int n, int pct) { Tree x; for (int i = 0; i < n; ++i) if (coin(pct)) x.t.insert((dimension_type) ((i * 11) % n), rcoef()); return x; }
Tree fresh_tree() { Tree x; x.t.insert(2, Coefficient(5)); x.t.insert(9, Coefficient(-1)); return x; }
void use_tree(Tree& x) { x.t.insert(4, Coefficient(7)); x.t.insert(1); x.t.erase(2); CO_Tree::iterator i = x.t.bisect(9); (void) i; x.t.increase_keys_from(3, 2); Tree y(x); y.t.erase_element_and_shift_left(1); }
bool tree_eq(const Tree& a, const Tree& b) { std::ostringstream x, y; a.ascii_dump(x); b.ascii_dump(y); return x.str() == y.str(); }
enum TreeOp { T_GROW, T_SHRINK, T_COPY, T_ITER_CTOR, T_SHIFT };
template <int OP> void s_tree(Ctx& c) {
  int n = rnd(4, 90); Tree x = rtree(n, rnd(20, 90)), out; Coefficient k = rcoef();
  Sparse_Row sr = rrow<Sparse_Row>(n, 50);
  c.run([&] {
    switch (OP) {
    case T_GROW: for (int i = 0; i < n; ++i) x.t.insert((dimension_type) (n + (i * 5) % n), k); break;      // crosses the rebuild_bigger thresholds
    case T_SHRINK: for (int i = 0; i < n; ++i) x.t.erase((dimension_type) ((i * 3) % n)); break;                 // rebuild_smaller
    case T_COPY: { CO_Tree a(x.t); CO_Tree b; b = a; out.t.m_swap(b); break; }
    case T_ITER_CTOR: { Sparse_Row a(sr, n, n + 3); Sparse_Row b(a); Sparse_Row d(n); d = b; CO_Tree e(x.t.begin(), x.t.size()); out.t.m_swap(e); break; }   // CO_Tree(Iterator, n)
    case T_SHIFT: x.t.increase_keys_from(rnd(0, n), rnd(1, 7)); x.t.erase_element_and_shift_left(rnd(0, n)); { CO_Tree::iterator i = x.t.begin(); if (i != x.t.end()) x.t.fast_shift(i.index(), i); } break;
    }
  });
  c.result([&] { std::ostringstream q; x.ascii_dump(q); out.ascii_dump(q); return q.str(); });
  c.post("x", x, fresh_tree(), use_tree, tree_eq); c.post("out", out, fresh_tree(), use_tree, tree_eq);
}
static RegS t1("CO_Tree.insert_grow", s_tree<T_GROW>), t2("CO_Tree.erase_shrink", s_tree<T_SHRINK>), t3("CO_Tree.copy_assign", s_tree<T_COPY>), t4("CO_Tree.construct_from_iterator", s_tree<T_ITER_CTOR>), t5("CO_Tree.shift_keys", s_tree<T_SHIFT>);

// ------------------------------------------------------------------ Matrix<Row>, Bit_Matrix
template <typename Row> struct MatName;
enum MatOp { M_RESIZE, M_COLUMNS, M_ROWS, M_COPY_IO };
template <int OP, typename Row> void s_matrix(Ctx& c) {
  int nr = rnd(1, 6), nc = rnd(1, 12); Matrix<Row> m(nr, nc), out;
  for (int i = 0; i < nr; ++i) for (int j = 0; j < nc; ++j) if (coin(40)) m[i].insert(j, rcoef());
  Row extra = rrow<Row>(nc, 50); std::string text = dump(m); bool ok = true;
  c.run([&] {
    switch (OP) {
    case M_RESIZE: m.resize(nr + rnd(1, 5), nc + rnd(1, 9)); m.add_zero_rows_and_columns(rnd(1, 3), rnd(1, 3)); m.resize(rnd(1, nr), rnd(1, nc)); break;
    case M_COLUMNS: { m.add_zero_columns(rnd(1, 4), rnd(0, nc)); m.swap_columns(0, m.num_columns() - 1); rm_column(m, rnd(0, (int) m.num_columns() - 1)); std::vector<dimension_type> cyc; if (m.num_columns() >= 4) { cyc.push_back(1); cyc.push_back(3); cyc.push_back(2); cyc.push_back(0); m.permute_columns(cyc); } m.remove_trailing_columns(1); break; }
    case M_ROWS: m.add_row(extra); m.add_zero_rows(rnd(1, 3)); m.add_recycled_row(extra); m.remove_trailing_rows(1); m.reserve_rows(m.num_rows() + 20); break;
    case M_COPY_IO: { Matrix<Row> t(m); out = t; std::istringstream i(text); ok = t.ascii_load(i); std::ostringstream o; m.ascii_dump(o); out.m_swap(t); break; }
    }
  });
  c.result([&] { return dump(m) + dump(out) + (ok ? "T" : "F"); });
  auto fresh = [] { Matrix<Row> f(2, 3); f[0].insert(1, Coefficient(4)); f[1].insert(2, Coefficient(-1)); return f; };
  auto use = [](Matrix<Row>& x) { x.add_zero_rows_and_columns(1, 2); x[0].insert(0, Coefficient(9)); Matrix<Row> y(x); rm_column(y, 0); x.add_row(y[0].size() == x.num_columns() ? y[0] : x[0]); };
  auto eq = [](const Matrix<Row>& a, const Matrix<Row>& b) { return a == b; };
  c.post("m", m, fresh(), use, eq); c.post("out", out, fresh(), use, eq);
  c.post("extra", extra, fresh_row<Row>(), use_row<Row>, row_eq<Row>);
}
#define REG_MAT(op, K) static RegS FI_CAT(ms_, __COUNTER__)("Matrix<Sparse_Row>." op, s_matrix<K, Sparse_Row>); static RegS FI_CAT(md_, __COUNTER__)("Matrix<Dense_Row>." op, s_matrix<K, Dense_Row>)
REG_MAT("resize", M_RESIZE); REG_MAT("column_ops", M_COLUMNS); REG_MAT("row_ops", M_ROWS); REG_MAT("copy_ascii", M_COPY_IO);

SCENARIO("Bit_Matrix.resize_transpose_sort") { int nr = rnd(1, 9), nc = rnd(1, 150); Bit_Matrix b(nr, nc); for (int i = 0; i < nr; ++i) for (int j = 0; j < nc; ++j) if (coin(30)) b[i].set(j); Bit_Matrix out;
  c.run([&] { b.resize(nr + rnd(1, 9), nc + rnd(1, 200)); Bit_Matrix t; t.transpose_assign(b); b.transpose(); b.sort_rows(); Bit_Row r(b[0]); r.set(rnd(0, (int) b.num_columns() - 1)); b.add_recycled_row(r); out = t; });
  c.result([&] { return dump(b) + dump(out); });
  auto fresh = [] { Bit_Matrix f(2, 3); f[0].set(1); f[1].set(2); return f; };
  auto use = [](Bit_Matrix& x) { x.resize(x.num_rows() + 1, x.num_columns() + 70); x[0].set(69); x.transpose(); x.sort_rows(); };
  auto eq = [](const Bit_Matrix& a, const Bit_Matrix& bb) { return a == bb; };
  c.post("b", b, fresh(), use, eq); c.post("out", out, fresh(), use, eq); }

// ------------------------------------------------------------------ systems, both representations
enum SysOp { S_INSERT, S_COPY_CONVERT, S_IO, S_FEED_DOMAIN };
template <int OP, Representation R> void s_consys(Ctx& c) {
  const Representation O = R == DENSE ? SPARSE : DENSE; int n = rnd(1, 8);
  Constraint_System cs(R); for (int i = rnd(1, 5); i > 0; --i) cs.insert(Constraint(pplx::rand_con(n, true), R));
  Constraint k(rexpr(n) >= 0, O); std::string text = dump(cs); bool ok = true; Constraint_System out(R);
  c.run([&] {
    switch (OP) {
    case S_INSERT: cs.insert(k); cs.insert(Constraint(rexpr(n + 3) == 1, R)); cs.insert(Variable(n + 9) > 0); break;
    case S_COPY_CONVERT: { Constraint_System a(cs, O); Constraint_System b(a, R); Constraint_System d(cs); out = b; out.m_swap(d); out.set_representation(O); break; }
    case S_IO: { std::istringstream i(text); ok = out.ascii_load(i); std::ostringstream o; cs.ascii_dump(o); using namespace IO_Operators; o << cs; break; }
    case S_FEED_DOMAIN: { NNC_Polyhedron p(cs); (void) p.minimized_generators(); Constraint_System b(p.constraints(), R); out.m_swap(b); break; }
    }
  });
  c.result([&] { return str(cs) + "|" + str(out) + (ok ? "T" : "F"); });
  auto fresh = [] { Constraint_System f(R); f.insert(Variable(0) >= 1); return f; };
  auto use = [](Constraint_System& x) { x.insert(Variable(1) + Variable(0) <= 4); (void) x.has_strict_inequalities(); (void) x.has_equalities(); for (Constraint_System::const_iterator i = x.begin(); i != x.end(); ++i) (void) i->is_equality(); Constraint_System y(x, x.representation() == DENSE ? SPARSE : DENSE); };
  auto eq = [](const Constraint_System& a, const Constraint_System& b) { return str(a) == str(b); };
  c.post("cs", cs, fresh(), use, eq); c.post("out", out, fresh(), use, eq);
}
template <int OP, Representation R> void s_gensys(Ctx& c) {
  const Representation O = R == DENSE ? SPARSE : DENSE; int n = rnd(1, 8);
  Generator_System gs(R); gs.insert(Generator(point(rexpr(n) , 2), R)); for (int i = rnd(0, 4); i > 0; --i) gs.insert(Generator(pplx::rand_gen(n, true, false), R));
  Linear_Expression dir = rexpr(n); dir += Variable(rnd(0, n - 1)); if (dir.all_homogeneous_terms_are_zero()) dir += Variable(0);
  Generator g(ray(dir), O); std::string text = dump(gs); bool ok = true; Generator_System out(R);
  c.run([&] {
    switch (OP) {
    case S_INSERT: gs.insert(g); gs.insert(Generator(closure_point(rexpr(n + 3), 3), R)); gs.insert(line(Variable(n + 9))); break;
    case S_COPY_CONVERT: { Generator_System a(gs, O); Generator_System b(a, R); Generator_System d(gs); out = b; out.m_swap(d); out.set_representation(O); break; }
    case S_IO: { std::istringstream i(text); ok = out.ascii_load(i); std::ostringstream o; gs.ascii_dump(o); using namespace IO_Operators; o << gs; break; }
    case S_FEED_DOMAIN: { NNC_Polyhedron p(gs); (void) p.minimized_constraints(); Generator_System b(p.generators(), R); out.m_swap(b); break; }
    }
  });
  c.result([&] { return str(gs) + "|" + str(out) + (ok ? "T" : "F"); });
  auto fresh = [] { Generator_System f(R); f.insert(point(Variable(0))); return f; };
  auto use = [](Generator_System& x) { x.insert(ray(Variable(1) + Variable(0))); for (Generator_System::const_iterator i = x.begin(); i != x.end(); ++i) (void) i->is_point(); Generator_System y(x, x.representation() == DENSE ? SPARSE : DENSE); };
  auto eq = [](const Generator_System& a, const Generator_System& b) { return str(a) == str(b); };
  c.post("gs", gs, fresh(), use, eq); c.post("out", out, fresh(), use, eq);
}
template <int OP, Representation R> void s_cgsys(Ctx& c) {
  const Representation O = R == DENSE ? SPARSE : DENSE; int n = rnd(1, 8);
  Congruence_System cgs(R); for (int i = rnd(1, 4); i > 0; --i) cgs.insert(Congruence(pplx::rand_cg(n), R));
  Grid_Generator_System ggs(R); ggs.insert(grid_point(rexpr(n), 2)); for (int i = rnd(0, 3); i > 0; --i) ggs.insert(parameter(rexpr(n) + Variable(0), rnd(1, 3)));
  std::string text = dump(cgs), text2 = dump(ggs); bool ok = true; Congruence_System out(R); Grid_Generator_System out2(R);
  c.run([&] {
    switch (OP) {
    case S_INSERT: cgs.insert((rexpr(n + 3) %= 1) / 3); cgs.insert(Variable(n + 9) == 2); ggs.insert(grid_line(Variable(n + 2))); ggs.insert(parameter(rexpr(n + 4) + Variable(0), 5)); break;
    case S_COPY_CONVERT: { Congruence_System a(cgs, O); Congruence_System b(a, R); out = b; out.set_representation(O); Grid_Generator_System a2(ggs, O); Grid_Generator_System b2(a2, R); out2 = b2; break; }
    case S_IO: { std::istringstream i(text); ok = out.ascii_load(i); std::istringstream j(text2); ok = out2.ascii_load(j) && ok; std::ostringstream o; cgs.ascii_dump(o); ggs.ascii_dump(o); using namespace IO_Operators; o << cgs << ggs; break; }
    case S_FEED_DOMAIN: { Grid gr(cgs); (void) gr.minimized_grid_generators(); Congruence_System b(gr.congruences(), R); out.m_swap(b); Grid h(ggs); Grid_Generator_System b2(h.minimized_grid_generators(), R); out2.m_swap(b2); break; }
    }
  });
  c.result([&] { return str(cgs) + "|" + str(out) + "|" + str(ggs) + "|" + str(out2) + (ok ? "T" : "F"); });
  auto fresh = [] { Congruence_System f(R); f.insert((Variable(0) %= 1) / 2); return f; };
  auto use = [](Congruence_System& x) { x.insert((Variable(1) + Variable(0) %= 0) / 3); (void) x.has_linear_equalities(); for (Congruence_System::const_iterator i = x.begin(); i != x.end(); ++i) (void) i->is_equality(); };
  auto eq = [](const Congruence_System& a, const Congruence_System& b) { return str(a) == str(b); };
  c.post("cgs", cgs, fresh(), use, eq); c.post("out", out, fresh(), use, eq);
  auto fresh2 = [] { Grid_Generator_System f(R); f.insert(grid_point(Variable(0))); return f; };
  auto use2 = [](Grid_Generator_System& x) { x.insert(parameter(Variable(1) + Variable(0), 2)); for (Grid_Generator_System::const_iterator i = x.begin(); i != x.end(); ++i) (void) i->is_point(); };
  auto eq2 = [](const Grid_Generator_System& a, const Grid_Generator_System& b) { return str(a) == str(b); };
  c.post("ggs", ggs, fresh2(), use2, eq2); c.post("out2", out2, fresh2(), use2, eq2);
}
#define REG_SYS(fn, dom, op, K) static RegS FI_CAT(ss_, __COUNTER__)(dom "<SPARSE>." op, fn<K, SPARSE>); static RegS FI_CAT(sd_, __COUNTER__)(dom "<DENSE>." op, fn<K, DENSE>)
REG_SYS(s_consys, "Constraint_System", "insert", S_INSERT); REG_SYS(s_consys, "Constraint_System", "copy_convert", S_COPY_CONVERT); REG_SYS(s_consys, "Constraint_System", "ascii_dump_load", S_IO); REG_SYS(s_consys, "Constraint_System", "through_polyhedron", S_FEED_DOMAIN);
REG_SYS(s_gensys, "Generator_System", "insert", S_INSERT); REG_SYS(s_gensys, "Generator_System", "copy_convert", S_COPY_CONVERT); REG_SYS(s_gensys, "Generator_System", "ascii_dump_load", S_IO); REG_SYS(s_gensys, "Generator_System", "through_polyhedron", S_FEED_DOMAIN);
REG_SYS(s_cgsys, "Congruence_Grid_Generator_System", "insert", S_INSERT); REG_SYS(s_cgsys, "Congruence_Grid_Generator_System", "copy_convert", S_COPY_CONVERT); REG_SYS(s_cgsys, "Congruence_Grid_Generator_System", "ascii_dump_load", S_IO); REG_SYS(s_cgsys, "Congruence_Grid_Generator_System", "through_grid", S_FEED_DOMAIN);

// ------------------------------------------------------------------ Threshold_Watcher (client side of the deterministic timeout)
struct WFlag : public Throwable { void throw_me() const {} int priority() const { return 0; } };
SCENARIO("Threshold_Watcher.construct_destroy") {
  static WFlag flag; static const Throwable* volatile holder = 0;
  struct Dummy { bool OK() const { return true; } void ascii_dump(std::ostream&) const {} } d;
  c.run([&] { pplx::Weightwatch w1(1000000, holder, flag); pplx::Weightwatch w2(500000, holder, flag); { pplx::Weightwatch w3(2000000, holder, flag); } });
  c.post("dummy", d, Dummy());
}

// ---------------------------------------------------------------- rejected calls
// (not in a \exception clause, but an explicit `throw std::invalid_argument` of the constructors: a delta that wraps the weight counter)
REJECT("Threshold_Watcher", "construct", "threshold_already_reached") { static WFlag flag; static const Throwable* volatile holder = 0;
  r.call("invalid_argument", [&] { pplx::Weightwatch w(1ULL << 63, holder, flag); }); }
REJECT("Threshold_Watcher", "construct_with_function", "threshold_already_reached") { r.call("invalid_argument", [&] { pplx::Weightwatch w(1ULL << 63, pplx::logical_timeout_handler); }); }
} // namespace
